"""C19 — resource path helpers build and parse names as mutual inverses (DESIGN §7.19)."""
from __future__ import annotations
import json, re, string
import apigen, genrun, libhost, translate

NAMES = ["Alpha", "Bravo", "Charlie", "Delta", "Echo", "Foxtrot", "Golf", "Hotel", "India", "Juliet",
         "Kilo", "Lima", "Mike", "November", "Oscar", "Papa", "Quebec", "Romeo", "Sierra", "Tango"]
SEPS = ["-", "_", "~", "."]
VALUE_ALPHABET = string.ascii_letters + string.digits + "-_~.@:+%= é"
# characters that mean something to `re` or to `str.format`, and a few more outside ASCII: all of them are
# "characters that are not delimiters of the pattern", so a value made of them must survive the round trip
SPECIAL_ALPHABET = "*$()[]\\^|?{}!,'\"#&;<>\t\r中ß"
# variable names PATH_ARG_RE (`[a-zA-Z0-9_\-]+`) accepts and that are Python identifiers: snake_case, camelCase, Capitalised,
# all-caps, with digits, with a leading underscore.  Names that are NOT identifiers (`key-ring`, `2fa`) and keywords (`class`)
# make the emitted client a SyntaxError: listed findings with dedicated inputs (check_name_shapes), never drawn here.
VAR_NAMES = ["shelf", "book", "a", "b", "c", "d", "e", "project", "location", "item_id",
             "keyRing", "cryptoKeyVersion", "Project", "KMSKey", "ID", "x1", "v2beta1", "item_2", "_x", "dataStoreId", "Location"]
COMMON = ["billing_account", "folder", "organization", "project", "location"]


def gen_pattern(r: apigen.Rng, allow_dot=True):
    """tokenised pattern per the property's quantifier: 1..6 variables, literal collection ids,
    optional trailing {v=**}, non-slash separators between variables of one segment, singleton
    suffixes, or the wildcard `*`."""
    if r.maybe(0.04):
        return [["lit", "*"]]
    nvars = r.randint(1, 6)
    segs, lit = [], ""
    used = set()
    i = 0
    while i < nvars:
        coll = r.pick(["shelves", "books", "as", "cs", "projects", "locations", "items", "k", "v1"]) + "/"
        lit += coll
        segs.append(["lit", lit]); lit = ""
        # one path segment: 1..6 variables joined by non-slash separators (the quantifier allows up to six in one segment)
        k = min(nvars - i, 1 if r.maybe(0.6) else r.randint(2, 6))
        for j in range(k):
            name = f"v{i}" if r.maybe(0.3) else r.pick(VAR_NAMES)
            while name in used:
                name += "x"
            used.add(name)
            last = (i == nvars - 1)
            segs.append(["var", name, bool(last and j == k - 1 and r.maybe(0.35))])
            i += 1
            if j < k - 1:
                seps = SEPS if allow_dot else [s for s in SEPS if s != "."]
                segs.append(["lit", r.pick(seps)])
        if i < nvars:
            lit = "/"
    if segs[-1][0] == "var" and not segs[-1][2] and r.maybe(0.2):
        segs.append(["lit", "/" + r.pick(["settings", "config", "cmekConfig"])])   # singleton suffix
    # merge adjacent literals
    out = []
    for s in segs:
        if out and s[0] == "lit" and out[-1][0] == "lit":
            out[-1][1] += s[1]
        else:
            out.append(list(s))
    return out


def render(segs):
    return "".join(s[1] if s[0] == "lit" else "{" + s[1] + ("=**}" if s[2] else "}") for s in segs)


def delimiters(segs):
    d = {"/"}
    for a, b in zip(segs, segs[1:]):
        if a[0] == "var" and b[0] == "lit" and b[1]:
            d.add(b[1][0])
    return d


def gen_chunk(r: apigen.Rng, alpha, special):
    """one non-empty '/'-free run of non-delimiter characters: mostly short, sometimes long, sometimes one
    character, sometimes with regex/format metacharacters"""
    shape = r.random()
    if shape < 0.08:
        n = 1
    elif shape < 0.18:
        n = r.randint(12, 40)
    else:
        n = r.randint(1, 6)
    pool = alpha + special if r.maybe(0.25) else alpha
    v = "".join(r.pick(pool) for _ in range(n))
    if r.maybe(0.5):                           # every character family in one value: letters of both cases and digits
        v += "".join(c for c in "aZ7" if c in alpha)
    return v


def gen_values(r: apigen.Rng, segs):
    """values over non-delimiter characters; the trailing `**` variable is a resource-name tail of 1..7
    non-empty '/'-separated segments (zero to six '/'), every other value has no '/'."""
    d = delimiters(segs)
    alpha = [c for c in VALUE_ALPHABET if c not in d]
    special = [c for c in SPECIAL_ALPHABET if c not in d]
    vals = []
    for idx, s in enumerate(segs):
        if s[0] != "var":
            continue
        v = gen_chunk(r, alpha, special)
        if s[2] and idx == len(segs) - 1 and r.maybe(0.8):    # trailing ** may contain '/': any number of them
            extra = r.pick([1, 1, 2, 2, 2, 3, 3, 4, 5, 6])
            v = "/".join([v] + [gen_chunk(r, alpha, special) for _ in range(extra)])
        vals.append(v)
    return vals


def classify(segs, vals):
    """TRIGGER of the two listed value findings (None = inside `Good`): a segment value that is empty / holds a newline"""
    if any(v == "" for v in vals):
        return "empty-segment-value"
    if any("\n" in v for v in vals):
        return "newline-in-segment-value"
    return None


def recorded_parse(segs, path):
    """what the RECORDED defect returns for `path`: the parse regex is `^` + escaped literals with `(?P<v>.+?)` per variable + `$`,
    no flags (`.` does not match a newline, `.+?` needs a character, `$` also matches before a final newline).  Built here
    from the tokens, independently of /repo."""
    rx = "^" + "".join(re.escape(x[1]) if x[0] == "lit" else f"(?P<{x[1]}>.+?)" for x in segs) + "$"
    m = re.match(rx, path)
    return m.groupdict() if m else {}


def value_finding_key(segs, vals, built_ok, path, parsed, want):
    """the known key of a value finding is assigned only to ITS failure: the input has the trigger (empty / newline value), the
    helper built the right path, parsing did not raise, and the wrong result is exactly the one the recorded regex gives.
    Anything else on such an input (an exception, a wrong built path, another wrong dict, a non-matching string that parses)
    keeps its ordinary, unlisted key."""
    key = classify(segs, vals)
    if key and built_ok and isinstance(parsed, dict) and parsed != want and parsed == recorded_parse(segs, path):
        return key
    return None


def build_api(patterns, file_level=()):
    """one API whose service sees a resource per pattern (message resources) + file-level ones"""
    f = apigen.File("acme/lib/v1/lib.proto", "acme.lib.v1")
    svc = f.service("Library")
    for k, (name, pat) in enumerate(patterns):
        m = f.msg(name)
        m.field("name", "string")
        m.resource(f"lib.example.com/{name}", pat)
        if k % 4 == 3:
            # visible ONLY through the response type of a long-running operation (no request refers to it, no method returns it)
            rq = f.msg(f"Export{name}Request"); rq.field("parent", "string")
            svc.method(f"Export{name}", rq, ".google.longrunning.Operation", lro=(f"acme.lib.v1.{name}", "google.protobuf.Empty"))
            continue
        rq = f.msg(f"Get{name}Request")
        rq.field("name", "string", ref=f"lib.example.com/{name}")
        svc.method(f"Get{name}", rq, m)
    for k, (name, pat) in enumerate(file_level):
        f.resource_definition(f"other.example.com/{name}", pat)
        if k % 2 == 1:
            # referenced only from a field of an LRO response message
            out = f.msg(f"Moved{name}"); out.field("target", "string", ref=f"other.example.com/{name}")
            rq = f.msg(f"Move{name}Request"); rq.field("parent", "string")
            svc.method(f"Move{name}", rq, ".google.longrunning.Operation", lro=(f"acme.lib.v1.Moved{name}", "google.protobuf.Empty"))
            continue
        rq = f.msg(f"Ref{name}Request")
        rq.field("target", "string", ref=f"other.example.com/{name}")
        svc.method(f"Ref{name}", rq, ".google.protobuf.Empty")
    return f


def snake(name):
    return re.sub(r"(?<!^)([A-Z])", r"_\1", name).lower()


RECEIVERS = ["sync-class", "sync-instance", "async-class", "async-instance"]
COMMON_SEGS = {
    "billing_account": [["lit", "billingAccounts/"], ["var", "billing_account", False]],
    "folder": [["lit", "folders/"], ["var", "folder", False]],
    "organization": [["lit", "organizations/"], ["var", "organization", False]],
    "project": [["lit", "projects/"], ["var", "project", False]],
    "location": [["lit", "projects/"], ["var", "project", False], ["lit", "/locations/"], ["var", "location", False]],
}


def common_cases(r):
    """the five common resources as cases of their own (helpers `common_<x>_path` / `parse_common_<x>_path`)"""
    out = []
    for rname in COMMON:
        segs = COMMON_SEGS[rname]
        out.append({"helper": "common_" + rname, "segs": segs, "values": gen_values(r, segs),
                    "nonmatching": nonmatching_for(r, segs), "kind": "common"})
    return out


def observe_helpers(root, cases):
    """dir() of both client classes + every helper of `cases` observed on the sync/async client class and instance,
    positional and keyword arguments (libhost_c19.op_c19_helpers)"""
    helpers = [{"name": c["helper"], "args": [s[1] for s in c["segs"] if s[0] == "var"], "values": c["values"],
                "nonmatching": c.get("nonmatching", [])} for c in cases]
    return libhost.run(root, [{"op": "dir", "module": "acme.lib_v1", "attr": "LibraryClient"},
                              {"op": "dir", "module": "acme.lib_v1", "attr": "LibraryAsyncClient"},
                              {"op": "c19_helpers", "module": "acme.lib_v1", "client": "LibraryClient",
                               "async_client": "LibraryAsyncClient", "helpers": helpers}])


def judge_helpers(ctx, cases, obs, payload_of):
    """the oracle (model-independent restatement of the property) applied to EVERY way a caller reaches a helper:
    sync class, sync instance, async class, async instance x positional / keyword arguments.  Returns, per case, the
    sync-class positional observation (what the model is compared with)."""
    base = []
    for rc in RECEIVERS:
        if isinstance(obs.get(rc), dict):      # the client could not be constructed
            ctx.fail(f"client-construction:{rc}", f"{rc}: {obs[rc]}", payload_of(cases[0]) if cases else {})
    for k, c in enumerate(cases):
        segs, vals = c["segs"], c["values"]
        args = [s[1] for s in segs if s[0] == "var"]
        expect_path = "".join(s[1] if s[0] == "lit" else vals[args.index(s[1])] for s in segs)
        want = dict(zip(args, vals)) if render(segs) != "*" else {}
        ref = obs["sync-class"][k] if isinstance(obs.get("sync-class"), list) else None
        for rc in RECEIVERS:
            if not isinstance(obs.get(rc), list):
                continue
            suffix = "" if rc == "sync-class" else ":" + rc
            for style in ("positional", "keyword"):
                o = obs[rc][k][style]
                if rc != "sync-class" and ref is not None and o == ref[style]:
                    continue       # behaves exactly like the sync class with the same arguments: judged there
                how = f"{rc}, {style} arguments: {c['helper']}_path"
                pl = {**payload_of(c), "receiver": rc, "arguments": style}
                b, pr = o["built"], o["parsed"]
                if "raised" in b:
                    if b["raised"] != "AttributeError" or o["parsed"] is not None:     # a MISSING helper is reported once, from dir() of the class
                        ctx.fail("build-raised" + suffix, f"{how} raised {b['raised']}: {b.get('msg', '')[:120]}", pl)
                    break
                if b["value"] != expect_path:
                    ctx.fail("build-wrong" + suffix, f"{how} built {b['value']!r} != pattern instantiated {expect_path!r}", pl)
                    break
                if pr is None or "raised" in pr:
                    ctx.fail("parse-raised" + suffix, f"{how}: parse_{c['helper']}_path({expect_path!r}) raised {pr}", {**pl, "path": expect_path})
                    break
                if pr["value"] != want:
                    # a listed value finding only on the sync class (the other receivers are reported only where they DIFFER from it)
                    known = value_finding_key(segs, vals, True, expect_path, pr["value"], want) if rc == "sync-class" else None
                    ctx.fail(known or "roundtrip" + suffix, f"{how}: parse(build({vals})) = {pr['value']} for pattern {render(segs)!r}",
                             {**pl, "path": expect_path, "observed": pr["value"]})
                    if not known:
                        break
                rb = o.get("rebuilt")
                if pr["value"] == want and (rb is None or rb.get("value") != expect_path):
                    ctx.fail(("rebuild-raised" if rb is None or "raised" in rb else "rebuild-wrong") + suffix,
                             f"{how}(**parse_{c['helper']}_path({expect_path!r})) gave {rb} (parse returned {pr['value']})", {**pl, "path": expect_path})
                    break
                bad = [(sx, q) for sx, q in zip(c.get("nonmatching", []), o["nonmatching"]) if q.get("value") != {}]
                if bad:
                    ctx.fail("nonmatch-not-empty" + suffix, f"{how}: parse of non-matching {bad[0][0]!r} gave {bad[0][1]}", {**pl, "path": bad[0][0]})
                    break
        sc = obs["sync-class"][k]["positional"] if isinstance(obs.get("sync-class"), list) else None
        base.append(sc)
    return base


def oracle_and_diff(ctx, cases, obs, model, source):
    """cases[i] = {name, helper, segs, values, nonmatching, kind}; obs = result of op c19_helpers; model aligned with cases"""
    def payload_of(c):
        return {"segs": c["segs"], "values": c["values"], "pattern": render(c["segs"]), "kind": c.get("kind", "message")}
    base = judge_helpers(ctx, cases, obs, payload_of)
    for c, sc, mo in zip(cases, base, model):
        segs = c["segs"]
        payload = payload_of(c)
        ctx.count("variables", len([s for s in segs if s[0] == "var"]))
        ctx.count("shape", "wildcard" if render(segs) == "*" else ("multi-var-segment" if any(
            a[0] == "var" and b[0] == "lit" and b[1] and b[1][0] != "/" for a, b in zip(segs, segs[1:])) else "plain"))
        # ---- correspondence with the Lean model (sync class, positional: the other seven observations are held to the
        # same oracle above, so they equal this one whenever the oracle is silent)
        if sc is None or "value" not in sc["built"] or sc["parsed"] is None or "value" not in sc["parsed"]:
            continue
        if mo.get("unsupported") or mo.get("regex") is None and render(segs) != "*":
            ctx.unsupported += 1
            continue
        ctx.traces += 1
        path, parsed = sc["built"]["value"], sc["parsed"]["value"]
        m_built = mo["built"]
        m_parsed = None if mo["parsed_built"] is None else dict(mo["parsed_built"])
        if m_built != path or (m_parsed is not None and m_parsed != parsed):
            ctx.disagree("T3:c19.path-helpers", f"model built/parsed {m_built!r}/{m_parsed} vs impl {path!r}/{parsed}", payload)
        rb = sc.get("rebuilt")
        if "rebuilt" in mo and rb is not None and mo["rebuilt"] != rb.get("value"):     # build(**parse(path)): None = the call raises
            ctx.disagree("T3:c19.rebuild-by-name", f"model {mo['rebuilt']!r} vs impl {rb} for {render(segs)!r} {c['values']}", payload)
        for sx, pr, mp in zip(c["nonmatching"], sc["nonmatching"], mo["parsed"]):
            if mp is not None and dict(mp) != pr.get("value"):
                ctx.disagree("T3:c19.nonmatching", f"model {dict(mp)} vs impl {pr} on {sx!r}", {**payload, "path": sx})


def run_batch(ctx, batch, label):
    """batch: list of cases; generate one API, T2 on schema attributes, T3 on the imported client"""
    patterns = [(c["name"], render(c["segs"])) for c in batch if c.get("kind", "message") == "message"]
    flevel = [(c["name"], render(c["segs"])) for c in batch if c.get("kind") == "file"]
    f = build_api(patterns, flevel)
    req = apigen.request([f], "transport=grpc,autogen-snippets=false")
    # ---- T2: generator-side attributes vs model (regex compared as CPython-parsed AST)
    api, _ = genrun.build_api(req)
    svc = next(iter(api.services.values()))
    by_type = {m.resource_type: m for m in svc.resource_messages}
    model = ctx.driver.ask([{"op": "c19", "segs": c["segs"], "values": c["values"], "paths": c["nonmatching"]} for c in batch])
    for c, mo in zip(batch, model):
        msg = by_type.get(c["name"])
        if msg is None:
            ctx.fail("helper-missing", f"resource {c['name']} not visible to the service", {"pattern": render(c["segs"])})
            continue
        if mo.get("regex") is None:
            ctx.unsupported += 1            # never silent: counted in the evidence (0 on the clean tree)
            continue
        try:
            real = translate.regex_to_json(msg.path_regex_str)
        except Exception as e:
            real = {"error": str(e)}
        impl = {"args": list(msg.resource_path_args), "formatted": msg.resource_path_formatted,
                "re": real.get("re"), "names": real.get("names")}
        mod = {"args": mo["args"], "formatted": mo["formatted"], "re": mo["regex"]["re"], "names": mo["regex"]["names"]}
        if impl != mod:
            diff = [k for k in impl if impl[k] != mod[k]]
            ctx.disagree("T2:c19.path_regex_str", f"{diff} differ for pattern {render(c['segs'])!r}: impl regex {msg.path_regex_str!r}",
                         {"segs": c["segs"], "values": c["values"], "pattern": render(c["segs"])})
    # ---- T3: emitted clients
    res = genrun.generate_inproc(req)
    root = genrun.materialise(res)
    try:
        for c in batch:
            c["helper"] = snake(c["name"])
        commons = common_cases(ctx.rng("common-values", label))
        cmodel = ctx.driver.ask([{"op": "c19", "segs": c["segs"], "values": c["values"], "paths": c["nonmatching"]} for c in commons])
        out = observe_helpers(root, batch + commons)
        if "child_error" in out[0]:
            ctx.fail("import-failed", "emitted library failed: " + out[0]["child_error"][-300:], {"patterns": patterns})
            return
        if "op_error" in out[2]:
            ctx.fail("import-failed", "emitted clients could not be imported/driven: " + str(out[2].get("op_error")) + " " + str(out[2].get("trace", ""))[-300:], {"patterns": patterns})
            return
        for cl, o in (("LibraryClient", out[0]), ("LibraryAsyncClient", out[1])):
            names = set(o.get("names", []))
            for c in batch + commons:
                for fn in (f"{c['helper']}_path", f"parse_{c['helper']}_path"):
                    if fn not in names:
                        ctx.fail("helper-missing", f"{cl}: {fn} missing", {"pattern": render(c["segs"]), "kind": c.get("kind"), "client": cl})
        oracle_and_diff(ctx, batch + commons, out[2], model + cmodel, label)
    finally:
        genrun.cleanup(root)


def nonmatching_for(r, segs):
    pat = render(segs)
    if pat == "*":
        return ["anything/at all", ""]
    outs = ["", "zz-no-match"]
    first = segs[0][1] if segs[0][0] == "lit" else None
    if first:
        outs.append("X" + first + "tail")       # wrong literal prefix
    return outs


def make_cases(ctx, r, n, excluded=False):
    cases = []
    for i in range(n):
        segs = gen_pattern(r, allow_dot=True)
        vals = gen_values(r, segs)
        cases.append({"segs": segs, "values": vals, "nonmatching": nonmatching_for(r, segs)})
    return cases


EXCLUDED_POINTS = [
    # (segs, values, inside the property's own quantifier?)
    ([["lit", "as/"], ["var", "a", False], ["lit", "."], ["var", "b", False]], ["xy", "z"], True),
    ([["lit", "p/"], ["var", "a", False]], ["x\ny"], True),
    ([["lit", "p/"], ["var", "a", False], ["lit", "/q/"], ["var", "b", False]], ["", "k"], True),
]


def check_name_shapes(ctx, which=("same-short-name", "keyword-variable", "common-prefix", "hyphen-variable", "digit-leading-variable")):
    """two legal but unusual shapes of resource NAMES (not of patterns): both are open findings (known_findings.json)"""
    import subprocess, sys as _sys
    for shape in which:
        f = apigen.File("acme/lib/v1/lib.proto", "acme.lib.v1")
        svc = f.service("Library")
        if shape == "same-short-name":
            specs = [("Thing", "foo.example.com/Thing", "foos/{foo}/things/{thing}"), ("OtherThing", "bar.example.com/Thing", "bars/{bar}/things/{thing}")]
        elif shape == "common-prefix":
            # the helper of a resource whose short name snake-cases to `common_project` has the name of a common-resource helper
            specs = [("CommonProject", "lib.example.com/CommonProject", "foos/{foo}/bars/{bar}")]
        elif shape == "hyphen-variable":
            # PATH_ARG_RE accepts `-` inside a variable name; `key-ring` is not a Python identifier (nor a regex group name)
            specs = [("Ring", "lib.example.com/Ring", "rings/{key-ring}/items/{item}")]
        elif shape == "digit-leading-variable":
            specs = [("Factor", "lib.example.com/Factor", "factors/{2fa}")]
        else:
            specs = [("Klass", "lib.example.com/Klass", "classes/{class}/imports/{import}")]
        for mname, rtype, pat in specs:
            m = f.msg(mname); m.field("name", "string"); m.resource(rtype, pat)
            rq = f.msg(f"Get{mname}Request"); rq.field("name", "string", ref=rtype)
            svc.method(f"Get{mname}", rq, m)
        payload = {"name_shape": shape}
        ctx.count("shape", "names:" + shape)
        ctx.case({"name_shape": shape}, distinct_key=["name-shape", shape])
        res, err = genrun.try_generate(apigen.request([f], "transport=grpc,autogen-snippets=false"))
        if err:
            ctx.fail(f"name-shape:{shape}:generation", f"generator raised {err[0]}: {err[1]}", payload)
            continue
        client = next(fl for fl in res.file if fl.name.endswith("services/library/client.py"))
        try:
            compile(client.content, client.name, "exec")
        except SyntaxError as e:
            line = client.content.splitlines()[(e.lineno or 1) - 1].strip()
            # the recorded failure: the `def` of THIS resource's builder with the pattern's keyword-named variables as parameters
            recorded = (shape == "keyword-variable" and client.name.endswith("services/library/client.py")
                        and re.match(r"def klass_path\(class: str,\s*import: str,?\s*\) -> str:", line))
            if shape == "hyphen-variable":
                recorded = client.name.endswith("services/library/client.py") and re.match(r"def ring_path\(key-ring: str,\s*item: str,?\s*\) -> str:", line)
            elif shape == "digit-leading-variable":
                recorded = client.name.endswith("services/library/client.py") and re.match(r"def factor_path\(2fa: str,?\s*\) -> str:", line)
            key = f"helper-syntax-error:{shape}" if recorded else f"name-shape:{shape}:syntax-error"
            ctx.fail(key, f"pattern {specs[0][2]!r}: emitted client does not parse: {line[:100]}", payload)
            continue
        root = genrun.materialise(res)
        try:
            probe = ("import json\nfrom acme.lib_v1.services.library import LibraryClient as C\nout = {}\n"
                     "def call(n, a):\n"
                     "    try:\n        return {'value': getattr(C, n)(a)}\n    except BaseException as e:\n        return {'raised': type(e).__name__}\n"
                     "for pat, vals in %r:\n"
                     "    built = pat.format(**vals)\n"
                     "    out[pat] = [sorted(n for n in dir(C) if n.endswith('_path')), {n: call(n, built) for n in dir(C) if n.startswith('parse_')}]\n"
                     "out['@common'] = call('parse_common_project_path', 'projects/p1')\n"
                     "print(json.dumps(out))\n") % ([(pat, {v: "x" + v for v in re.findall(r"{(\w+)}", pat)}) for _, _, pat in specs],)
            p_ = subprocess.run([_sys.executable, "-c", probe], cwd=root, capture_output=True, text=True, env={"PYTHONPATH": root, "PATH": "/usr/bin:/bin"}, timeout=120)
        finally:
            genrun.cleanup(root)
        if p_.returncode:
            ctx.fail(f"name-shape:{shape}:import", f"emitted client failed: {p_.stderr[-300:]}", payload)
            continue
        out = json.loads(p_.stdout.strip().splitlines()[-1])
        common_names = sorted(fn for rname in COMMON for fn in (f"common_{rname}_path", f"parse_common_{rname}_path"))
        vals_of = {pat: {v: "x" + v for v in re.findall(r"{(\w+)}", pat)} for _, _, pat in specs}
        for mname, rtype, pat in specs:
            helpers, parses = out[pat]
            vals = vals_of[pat]
            own = sorted(n for n in helpers if n not in common_names)
            if {"value": vals} in parses.values():       # some helper of the client parses a path built from THIS pattern
                continue
            # the listed keys go only to the recorded failures, identified by the input (these fixed APIs) AND by what is observed
            key = f"name-shape:{shape}:roundtrip"
            if shape == "same-short-name":
                # recorded: ONE pair `thing_path`/`parse_thing_path`; it belongs to foo.example.com/Thing (emitted last: the templates sort by
                # short name, then full type); the pattern of bar.example.com/Thing parses to {} with it
                other = next(p2 for _, t2, p2 in specs if t2 != rtype)
                if (own == ["parse_thing_path", "thing_path"] and rtype == "bar.example.com/Thing"
                        and parses.get("parse_thing_path") == {"value": {}}
                        and out[other][1].get("parse_thing_path") == {"value": vals_of[other]}):
                    key = "helper-name-collision:same-short-name"
            elif shape == "common-prefix":
                # recorded: no helper besides the ten common ones; `parse_common_project_path` is the COMMON resource's (parses
                # `projects/p1`, gives {} for this resource's own path)
                if (own == [] and sorted(helpers) == common_names and parses.get("parse_common_project_path") == {"value": {}}
                        and out["@common"] == {"value": {"project": "p1"}}):
                    key = "helper-name-collision:common-prefix"
            ctx.fail(key, f"resource {rtype} ({pat}): no parse_*_path of the client recovers {vals} (own helpers: {own}; parse results: "
                          f"{ {n: r_ for n, r_ in parses.items() if n not in common_names or shape == 'common-prefix'} })", payload)


# ------------------------------------------------------------------------------------------------
# which resources a service sees (Service.resource_messages / Proto.resource_messages / visible_resources)
# vs Model/ResourceVis.lean, and which helpers the emitted clients carry for them

VIS_HOMES = ["msg:F0", "msg:F1", "file:F0", "file:F1", "file:F2", "msg:F2", "nested:F0"]
VIS_PKG = "acme.lib.v1"
COMMON_TYPES = ["cloudresourcemanager.googleapis.com/Project", "cloudresourcemanager.googleapis.com/Organization",
                "cloudresourcemanager.googleapis.com/Folder", "cloudbilling.googleapis.com/BillingAccount",
                "locations.googleapis.com/Location"]
# fixed plan, run first on every run: API-declared resources of a common TYPE with their own patterns, only named
COMMON_TYPED_PLAN = {"resources": [
    {"name": "Location", "type": "locations.googleapis.com/Location", "home": "file:F1", "via": "ref", "side": "input", "depth": 0, "cycle": False,
     "segs": [["lit", "organizations/"], ["var", "organization", False], ["lit", "/locations/"], ["var", "location", False]], "values": ["o-1", "eu.west1"]},
    {"name": "Project", "type": "cloudresourcemanager.googleapis.com/Project", "home": "msg:F0", "via": "child_ref", "side": "lro", "depth": 1, "cycle": False,
     "segs": [["lit", "tenants/"], ["var", "tenant", False], ["lit", "/projects/"], ["var", "project", True]], "values": ["t1", "a/b/c"]},
    {"name": "BillingAccount", "type": "cloudbilling.googleapis.com/BillingAccount", "home": "file:F2", "via": "ref", "side": "output", "depth": 2, "cycle": True,
     "segs": [["lit", "orgs/"], ["var", "org", False], ["lit", "/billingAccounts/"], ["var", "billing_account", False]], "values": ["o", "0A-1"]},
    {"name": "Shelf", "type": "lib.example.com/Shelf", "home": "file:F0", "via": "ref", "side": "input", "depth": 0, "cycle": False,
     "segs": [["lit", "shelves/"], ["var", "shelf", False]], "values": ["s"]}],
    "extras": {"ref_common": True}}


def gen_vis_spec(r: apigen.Rng, nested_ref=False):
    """a JSON plan of an API spread over three files (F0 service + wrappers, F1 same package, F2 another,
    non-generated package that F0 imports): every resource has a home (top-level message, nested message,
    file-level definition) and a link to the service (reached as a field TYPE or named by a resource_reference
    `type` / `child_type`, from the request, the response or the response type of a long-running operation, through
    0..3 wrapper messages, optionally recursive) or no link at all."""
    n = r.randint(5, 10)
    res = []
    common_pick = r.sample(COMMON_TYPES, r.pick([0, 1, 1, 2]))
    for k in range(n):
        name = NAMES[k]
        segs = gen_pattern(r)
        while render(segs) == "*":
            segs = gen_pattern(r)
        home = r.pick(VIS_HOMES)
        if home.startswith("file") or home == "msg:F2":
            via = r.pick(["ref", "ref", "child_ref", "none"])      # a message of another package is never a field type here
        else:                                                       # top-level and nested messages alike (nested named-only: fixed in 109fab8)
            via = r.pick(["type", "type", "ref", "child_ref", "none"])
        if nested_ref and k == 0:
            home, via = "nested:F0", "ref"
        rtype = f"{r.pick(['lib', 'other'])}.example.com/{name}"
        if k < len(common_pick):
            # the API ITSELF declares a resource under one of the five common resource TYPES, with its own pattern, and
            # (mostly) only names it: it is an ordinary visible resource (`location_path` next to `common_location_path`)
            rtype = common_pick[k]
            name = rtype.split("/")[1]
            if home == "nested:F0":
                home = r.pick(["file:F0", "file:F1", "file:F2", "msg:F0", "msg:F1"])
            via = r.pick(["ref", "ref", "child_ref", "child_ref", "type"] if home in ("msg:F0", "msg:F1") else ["ref", "child_ref"])
        res.append({"name": name, "type": rtype, "segs": segs,
                    "home": home, "via": via, "side": r.pick(["input", "output", "lro", "lro"]),
                    "depth": r.pick([0, 0, 1, 1, 2, 3]), "cycle": r.maybe(0.3), "values": gen_values(r, segs)})
    extras = {"ref_unknown": r.maybe(0.5), "ref_star": r.maybe(0.3), "ref_common": r.maybe(0.5),
              "dup_definition": r.maybe(0.3)}
    return {"resources": res, "extras": extras}


def build_vis_api(spec):
    f0 = apigen.File("acme/lib/v1/lib.proto", VIS_PKG)
    f1 = apigen.File("acme/lib/v1/res.proto", VIS_PKG)
    f2 = apigen.File("acme/common/kinds.proto", "acme.common")
    f0.dep("acme/lib/v1/res.proto", "acme/common/kinds.proto")
    files = {"F0": f0, "F1": f1, "F2": f2}
    svc = f0.service("Library")
    for k, rs in enumerate(spec["resources"]):
        name, pat = rs["name"], render(rs["segs"])
        kind, where = rs["home"].split(":")
        target = None
        if kind == "file":
            files[where].resource_definition(rs["type"], pat)
        elif kind == "msg":
            target = files[where].msg(name); target.field("name", "string"); target.resource(rs["type"], pat)
        if rs["via"] == "none":
            if kind == "nested":
                o = f0.msg(f"Lone{name}"); o.field("x", "string")
                t = o.nested(name); t.field("name", "string"); t.resource(rs["type"], pat)
            continue
        # the side message of the method
        rq = f0.msg(f"Do{name}Request"); rq.field("parent", "string")
        if rs["side"] == "input":
            side = rq
            svc.method(f"Do{name}", rq, ".google.protobuf.Empty")
        elif rs["side"] == "output":
            side = f0.msg(f"Do{name}Response"); side.field("etag", "string")
            svc.method(f"Do{name}", rq, side)
        else:
            side = f0.msg(f"Do{name}Result"); side.field("etag", "string")
            svc.method(f"Do{name}", rq, ".google.longrunning.Operation", lro=(f"{VIS_PKG}.Do{name}Result", "google.protobuf.Empty"))
        holder, first = side, None
        for d in range(rs["depth"]):
            w = f0.msg(f"Wrap{name}{d}"); w.field("note", "string")
            holder.field(f"w{d}", "message", type_name=w)
            first = first or w
            holder = w
        if rs["cycle"] and first is not None:
            holder.field("back", "message", type_name=first)          # Wd -> W0 -> ... -> Wd
            first.field("self_", "message", type_name=first, repeated=True)
        if kind == "nested":
            t = holder.nested(name); t.field("name", "string"); t.resource(rs["type"], pat)
            target = t
            if rs["via"] != "type":
                holder.field("target", "string", **({"ref": rs["type"]} if rs["via"] == "ref" else {"child_ref": rs["type"]}))
                continue
        if rs["via"] == "type":
            holder.field("item", "message", type_name=target, repeated=(k % 2 == 1))
        elif rs["via"] == "ref":
            holder.field("target", "string", ref=rs["type"])
        else:
            holder.field("target", "string", child_ref=rs["type"])
    ex = spec.get("extras", {})
    if ex.get("ref_unknown") or ex.get("ref_star") or ex.get("ref_common"):
        rq = f0.msg("ProbeRequest")
        if ex.get("ref_unknown"):
            rq.field("u", "string", ref="nowhere.example.com/Undefined")
        if ex.get("ref_star"):
            rq.field("s", "string", ref="*")
        if ex.get("ref_common"):
            rq.field("p", "string", ref="cloudresourcemanager.googleapis.com/Project")
            rq.field("l", "string", child_ref="locations.googleapis.com/Location")
        svc.method("Probe", rq, ".google.protobuf.Empty")
    if ex.get("dup_definition"):
        # one type, defined at file level in F1 AND by a message of F1, same pattern (dict semantics: one entry)
        for rs in spec["resources"]:
            if rs["home"] == "msg:F1":
                f1.resource_definition(rs["type"], render(rs["segs"]))
                break
    f2.msg("Kind").field("k", "string")
    return [f2, f1, f0], [f1, f0]


def vis_model_input(req):
    """the model's API, read off the request's descriptors (every proto_file, in order) — not off the plan"""
    from google.api import resource_pb2
    from google.longrunning import operations_pb2
    files, msgs, methods = [], [], []

    def res_of(opts_res):
        return [opts_res.type, opts_res.pattern[0]] if opts_res.type and opts_res.pattern else None

    def walk(m, prefix):
        full = f"{prefix}.{m.name}"
        fields = []
        for fl in m.field:
            rr = fl.options.Extensions[resource_pb2.resource_reference]
            fields.append([fl.type_name.lstrip(".") if fl.type == 11 else None, (rr.type or rr.child_type) or None])
        msgs.append({"name": full, "fields": fields, "res": res_of(m.options.Extensions[resource_pb2.resource])})
        for nm in m.nested_type:
            walk(nm, full)

    for fd in req.proto_file:
        defs = [[d.type, d.pattern[0]] for d in fd.options.Extensions[resource_pb2.resource_definition] if d.pattern]
        start = len(msgs)
        for m in fd.message_type:
            walk(m, fd.package)
        # Proto.all_messages order: nested messages are loaded before their parent (only matters for a type declared twice in one file)
        def post(m, prefix):
            full = f"{prefix}.{m.name}"
            return [x for nm in m.nested_type for x in post(nm, full)] + [full]
        files.append({"defs": defs, "all": [x for m in fd.message_type for x in post(m, fd.package)]})
        assert len(files[-1]["all"]) == len(msgs) - start
    known = {m["name"] for m in msgs}
    for fd in req.proto_file:
        if fd.name not in req.file_to_generate:
            continue
        for sv in fd.service:
            for me in sv.method:
                oi = me.options.Extensions[operations_pb2.operation_info]
                lro = None
                if me.output_type == ".google.longrunning.Operation" and oi.response_type:
                    lro = oi.response_type if oi.response_type in known else f"{fd.package}.{oi.response_type}"
                methods.append([me.input_type.lstrip("."), me.output_type.lstrip("."), lro])
    return {"op": "c19vis", "files": files, "msgs": msgs, "methods": methods}


def run_vis(ctx, spec, label):
    files, targets = build_vis_api(spec)
    payload = {"vis": spec}
    req = apigen.request(files, "transport=grpc,autogen-snippets=false", targets=targets)
    ctx.case({"vis": [[x["home"], x["via"], x["side"], x["depth"], x["cycle"]] for x in spec["resources"]]},
             distinct_key=["vis", json.dumps(spec, sort_keys=True)], nontrivial=any(x["via"] != "none" for x in spec["resources"]))
    for x in spec["resources"]:
        ctx.count("visibility", f"{x['home'].split(':')[0]}/{x['via']}/{x['side'] if x['via'] != 'none' else '-'}")
        if x["type"] in COMMON_TYPES:
            ctx.count("visibility", f"common-type-declared/{x['home'].split(':')[0]}/{x['via']}")
    # ---- T2: Service.resource_messages vs the model
    api, _ = genrun.build_api(req)
    svc = next(iter(api.services.values()))
    impl = sorted({(m.resource_type_full_path, m.resource_path) for m in svc.resource_messages})
    mo = ctx.driver.ask([vis_model_input(req)])[0]
    if mo.get("unsupported") or "resources" not in mo:
        ctx.unsupported += 1
        mo = None
    else:
        ctx.traces += 1
        if sorted(tuple(x) for x in mo["resources"]) != impl:
            ctx.disagree("T2:c19.resource_messages", f"model {sorted(tuple(x) for x in mo['resources'])} vs Service.resource_messages {impl}", payload)
    # ---- T3 + oracle on the emitted clients
    res, err = genrun.try_generate(req)
    if err:
        ctx.fail("vis:generation", f"generator raised {err[0]}: {err[1]}", payload)
        return
    root = genrun.materialise(res)
    try:
        want = [{**x, "helper": snake(x["name"]), "nonmatching": nonmatching_for(None, x["segs"]), "kind": "vis"}
                for x in spec["resources"] if x["via"] != "none"]
        commons = common_cases(ctx.rng("common-values", label))
        out = observe_helpers(root, want + commons)
        if "child_error" in out[0]:
            ctx.fail("import-failed", "emitted library failed: " + out[0]["child_error"][-300:], payload)
            return
        if "op_error" in out[2]:
            ctx.fail("import-failed", "emitted clients could not be imported/driven: " + str(out[2].get("op_error")) + " " + str(out[2].get("trace", ""))[-300:], payload)
            return
        judge_helpers(ctx, want + commons, out[2], lambda x: {**payload, "resource": x.get("name", x["helper"])})
        for i, cl in enumerate(("LibraryClient", "LibraryAsyncClient")):
            names = set(out[i].get("names", []))
            for x in want:
                sn = x["helper"]
                missing = [fn for fn in (f"{sn}_path", f"parse_{sn}_path") if fn not in names]
                if missing:
                    ctx.fail("helper-missing",
                             f"{cl}: {missing} missing for resource {x['type']} ({render(x['segs'])}; {x['home']}, {x['via']} from {x['side']} at depth {x['depth']})",
                             {**payload, "resource": x["name"], "client": cl})
            for rname in COMMON:
                for fn in (f"common_{rname}_path", f"parse_common_{rname}_path"):
                    if fn not in names:
                        ctx.fail("helper-missing", f"{cl}: {fn} missing", {**payload, "client": cl})
            if mo is not None:
                impl_h = {n for n in names if n.endswith("_path") and not n.startswith(("common_", "parse_common_"))}
                mod_h = {h + "_path" for h, _ in mo["helpers"]} | {"parse_" + h + "_path" for h, _ in mo["helpers"]}
                mod_h = {n for n in mod_h if not n.startswith(("common_", "parse_common_"))}
                if impl_h != mod_h:
                    ctx.disagree("T3:c19.helper-set", f"{cl}: helpers of the class {sorted(impl_h ^ mod_h)} differ from the model's", payload)
    finally:
        genrun.cleanup(root)



def run(ctx):
    ctx.rule = ("structured patterns per the quantifier (1..6 variables, collection ids, separators - _ ~ ., "
                "trailing **, singleton suffix, wildcard) x values over non-delimiter characters (short, one-character "
                "and long runs, regex/format metacharacters, non-ASCII; the trailing ** value is a tail of 1..7 "
                "non-empty segments, i.e. 0..6 '/'); every helper (also the five common_* pairs, in every API) called on the sync and "
                "async client CLASS and INSTANCE with positional and keyword arguments; a case is "
                "distinct by (pattern, values); non-trivial = at least one variable and a successful build; visibility plans: "
                "5..10 resources over three files (service file, same-package file, imported non-generated package) whose home is a "
                "top-level message, a nested message or a file-level definition and that the service reaches as a field type or "
                "names by resource_reference type/child_type from the request, the response or an LRO response type through 0..3 "
                "wrapper messages (optionally recursive), or does not reach at all; a plan is one case")
    ctx.assume("segment values are generated non-empty and newline-free except in the excluded-point stream")
    ctx.assume("resource patterns have distinct variable names (re.compile rejects duplicates)")
    ctx.assume("every resource has at least one pattern; resource types of one API are distinct (a type defined twice is generated only with one pattern)")
    ctx.assume("helper names are distinct in the random visibility plans (the two collisions are dedicated corpus cases)")
    check_name_shapes(ctx)
    r = ctx.rng("patterns")
    napis = ctx.n(3, 40)
    per_api = 16
    # corpus / excluded-point stream first
    batch = []
    for k, (segs, vals, inside) in enumerate(EXCLUDED_POINTS):
        batch.append({"name": NAMES[k], "segs": segs, "values": vals, "nonmatching": nonmatching_for(r, segs)})
    run_batch(ctx, batch, "excluded-points")
    for c in batch:
        ctx.case({"pattern": render(c["segs"]), "values": c["values"], "stream": "excluded-point"},
                 distinct_key=[render(c["segs"]), c["values"]])
    for a in range(napis):
        cases = make_cases(ctx, r, per_api)
        for k, c in enumerate(cases):
            c["name"] = NAMES[k]
            c["kind"] = "file" if (k % 5 == 4 and render(c["segs"]) != "*") else "message"
        run_batch(ctx, cases, f"api{a}")
        for c in cases:
            ctx.case({"pattern": render(c["segs"]), "values": c["values"]},
                     distinct_key=[render(c["segs"]), c["values"]],
                     nontrivial=any(s[0] == "var" for s in c["segs"]))
    # which resources the service sees: multi-file plans, model vs Service.resource_messages vs the emitted clients
    rv = ctx.rng("visibility")
    import os, common
    cdir = os.path.join(common.ROOT, "corpus", "C19")
    for fn in sorted(os.listdir(cdir)):                      # corpus replays of the visibility findings first
        blob = json.load(open(os.path.join(cdir, fn)))
        if "vis" in blob.get("payload", {}):
            run_vis(ctx, blob["payload"]["vis"], "corpus:" + fn)
    run_vis(ctx, COMMON_TYPED_PLAN, "vis-common-typed")
    if ctx.tier == "thorough":
        run_vis(ctx, gen_vis_spec(rv, nested_ref=True), "vis-nested-named-only")
    for a in range(ctx.n(10, 300)):
        run_vis(ctx, gen_vis_spec(rv), f"vis{a}")
    # value sweep on the last API's patterns through the function-level path (regex only, no regeneration)
    sweep(ctx, r, ctx.n(40, 400), ctx.n(25, 100))
    beyond(ctx, ctx.rng("beyond"), ctx.n(60, 600), ctx.n(10, 40))


def sweep(ctx, r, npat, nval):
    """T2-only sweep: real `path_regex_str`/format string evaluated with Python's `re` in-process vs model;
    the oracle is applied to the same observables."""
    from gapic.schema import wrappers
    from google.protobuf import descriptor_pb2
    from google.api import resource_pb2
    ops, metas = [], []
    for i in range(npat):
        segs = gen_pattern(r)
        pat = render(segs)
        opts = descriptor_pb2.MessageOptions()
        opts.Extensions[resource_pb2.resource].type = "lib.example.com/Thing"
        opts.Extensions[resource_pb2.resource].pattern.append(pat)
        mt = wrappers.MessageType(message_pb=descriptor_pb2.DescriptorProto(name="Thing", options=opts),
                                  fields={}, nested_enums={}, nested_messages={})
        args, fmt, rx = list(mt.resource_path_args), mt.resource_path_formatted, mt.path_regex_str
        for j in range(nval):
            vals = gen_values(r, segs)
            ops.append({"op": "c19", "segs": segs, "values": vals, "paths": []})
            metas.append((segs, vals, args, fmt, rx))
    model = ctx.driver.ask(ops)
    for (segs, vals, args, fmt, rx), mo in zip(metas, model):
        ctx.case(distinct_key=[render(segs), vals], nontrivial=bool(args))
        payload = {"segs": segs, "values": vals, "pattern": render(segs), "via": "function-level"}
        try:
            path = fmt.format(**dict(zip(args, vals)))
            m = re.match(rx, path)
            parsed = m.groupdict() if m else {}
        except Exception as e:
            ctx.fail("raised", f"{type(e).__name__}: {e}", payload)
            continue
        own = [x[1] for x in segs if x[0] == "var"]
        if args != own:            # the builder's keyword names are the pattern's variables, as written
            ctx.fail("builder-argument-names", f"resource_path_args {args} != variables of {render(segs)!r}", payload)
        elif render(segs) != "*" and parsed == dict(zip(own, vals)):
            try:
                rebuilt = fmt.format(**parsed)
            except Exception as e:
                rebuilt = f"raised {type(e).__name__}: {e}"
            if rebuilt != path:
                ctx.fail("rebuild-wrong", f"format(**parse({path!r})) = {rebuilt!r} for {render(segs)!r}", {**payload, "path": path})
        if render(segs) != "*" and parsed != dict(zip(own, vals)):
            expect_path = "".join(x[1] if x[0] == "lit" else vals[own.index(x[1])] for x in segs)
            ctx.fail(value_finding_key(segs, vals, path == expect_path, path, parsed, dict(zip(own, vals))) or "roundtrip",
                     f"parse(build({vals})) = {parsed} for {render(segs)!r}", {**payload, "path": path})
        if mo.get("regex") is None and render(segs) != "*":
            ctx.unsupported += 1
            continue
        ctx.traces += 1
        if mo["built"] != path or (mo["parsed_built"] is not None and dict(mo["parsed_built"]) != parsed):
            ctx.disagree("T2:c19.sweep", f"model {mo['built']!r}/{mo['parsed_built']} vs impl {path!r}/{parsed}", payload)


BEYOND_POINTS = [
    # points the hypotheses of the theorems exclude and the property's quantifier excludes too: the model must
    # still say what the real code does there (each is a `…_counterexample` / witness theorem of Props/C19.lean)
    ([["lit", "as/"], ["var", "a", False], ["lit", "-"], ["var", "b", False]], ["x-y", "z"]),           # delimiter_in_value_counterexample
    ([["lit", "p/"], ["var", "a", False], ["var", "b", False]], ["xy", "z"]),                             # adjacent_variables_counterexample
    ([["lit", "as/"], ["var", "a", False], ["lit", "-"], ["var", "b", False], ["lit", "_"], ["var", "c", False]], ["x_y", "u", "w"]),  # other_separator_in_value_roundtrip
    ([["lit", "p/"], ["var", "a", False], ["lit", "/q/"], ["var", "b", False]], ["x/y", "k"]),            # '/' in a non-last variable
    ([["lit", "p/"], ["var", "a", False], ["lit", "/settings"]], ["x/settings/y"]),                        # last variable before a singleton suffix holds the suffix
    ([["lit", "p/"], ["var", "a", False], ["lit", "/q"]], ["x\n"]),
    ([["lit", "p/"], ["var", "a", False]], ["x\n"]),                                                       # `$` matches before a final newline
]


def beyond(ctx, r, npat, nval):
    """T2 only, no oracle: values OUTSIDE the property's quantifier (a delimiter of the pattern inside a value,
    `/` in a variable that is not the trailing one, adjacent variables, a newline, an empty value).  The theorems'
    hypothesis `Good` is weaker than the quantifier's exclusion and the counterexample theorems say what happens
    outside it, so the model has to agree with the real regex there as well."""
    from gapic.schema import wrappers
    from google.protobuf import descriptor_pb2
    from google.api import resource_pb2
    points = [(segs, vals) for segs, vals in BEYOND_POINTS]
    for i in range(npat):
        segs = gen_pattern(r)
        if render(segs) == "*":
            continue
        if r.maybe(0.15):                                   # drop one separator: two adjacent variables
            idx = [k for k in range(1, len(segs) - 1) if segs[k][0] == "lit" and segs[k - 1][0] == "var" and segs[k + 1][0] == "var"]
            if idx:
                segs = [x for k, x in enumerate(segs) if k != idx[0]]
        d = sorted(delimiters(segs))
        for j in range(nval):
            vals = gen_values(r, segs)
            k = r.randint(0, len(vals) - 1)
            cut = r.randint(0, len(vals[k]))
            ins = r.pick(d + ["/", "\n", ""]) if r.maybe(0.9) else None
            vals[k] = "" if ins is None else vals[k][:cut] + ins + vals[k][cut:]
            points.append((segs, vals))
    ops, metas = [], []
    for segs, vals in points:
        opts = descriptor_pb2.MessageOptions()
        opts.Extensions[resource_pb2.resource].type = "lib.example.com/Thing"
        opts.Extensions[resource_pb2.resource].pattern.append(render(segs))
        mt = wrappers.MessageType(message_pb=descriptor_pb2.DescriptorProto(name="Thing", options=opts),
                                  fields={}, nested_enums={}, nested_messages={})
        ops.append({"op": "c19", "segs": segs, "values": vals, "paths": []})
        metas.append((segs, vals, list(mt.resource_path_args), mt.resource_path_formatted, mt.path_regex_str))
    model = ctx.driver.ask(ops)
    for (segs, vals, args, fmt, rx), mo in zip(metas, model):
        ctx.count("beyond-quantifier", "evaluated")
        payload = {"segs": segs, "values": vals, "pattern": render(segs), "via": "beyond-quantifier"}
        try:
            path = fmt.format(**dict(zip(args, vals)))
            m = re.match(rx, path)
            parsed = m.groupdict() if m else {}
        except Exception as e:
            parsed, path = {"raised": type(e).__name__}, None
        if mo.get("unsupported") or mo.get("regex") is None:
            ctx.unsupported += 1
            continue
        ctx.traces += 1
        if mo["built"] != path or dict(mo["parsed_built"] or []) != parsed:
            ctx.disagree("T2:c19.beyond-quantifier", f"model {mo['built']!r}/{mo['parsed_built']} vs impl {path!r}/{parsed}", payload)


def search(ctx):
    """failing-input search after a broken obligation/correspondence: a larger sweep"""
    sweep(ctx, ctx.rng("search"), 300, 60)
    beyond(ctx, ctx.rng("search-beyond"), 300, 20)
    rv = ctx.rng("search-vis")
    for a in range(12):
        run_vis(ctx, gen_vis_spec(rv), f"search-vis{a}")
    r = ctx.rng("search-api")
    for a in range(6):
        cases = make_cases(ctx, r, 16)
        for k, c in enumerate(cases):
            c["name"] = NAMES[k]
        run_batch(ctx, cases, f"search{a}")


def replay(ctx, payload):
    if "name_shape" in payload:
        check_name_shapes(ctx, (payload["name_shape"],))
        for f in ctx.failures:
            print("  failure:", f["key"], "-", f["what"])
        return not ctx.failures
    if "vis" in payload:
        ctx.driver = __import__("leanio").Driver()
        run_vis(ctx, payload["vis"], "replay")
        for f in ctx.failures:
            print("  failure:", f["key"], "-", f["what"])
        return not ctx.failures
    segs, vals = payload["segs"], payload["values"]
    c = {"name": "Alpha", "segs": segs, "values": vals, "nonmatching": [payload["path"]] if "path" in payload and payload.get("observed") is None and False else [], "kind": payload.get("kind", "message")}
    ctx.driver = __import__("leanio").Driver()
    run_batch(ctx, [c], "replay")
    for f in ctx.failures:
        print("  failure:", f["key"], "-", f["what"])
    return not ctx.failures


CLAIM = dict(
    text="Lean 4 proofs, all inputs, no size bound. (1) On a regex-engine model of the emitted re.match: parse_<r>_path(<r>_path(vals)) returns exactly the segments and rebuilding returns the path under the decidable hypothesis `Good` (values non-empty, newline-free, not containing the first character of the literal that follows; the last variable is unrestricted, also before a singleton suffix); `roundtrip_in_quantifier` restates it in the property's own words (pattern shape + values free of the pattern's delimiters) and `common_resources_roundtrip` for the five bridged common patterns; wildcard and non-match theorems; counterexample theorems for every point the hypotheses exclude (empty value, newline, delimiter inside a value, adjacent variables), each run on the real code. (2) On a model of Service.resource_messages / recursive_field_types / Proto.resource_messages / visible_resources: the set of resources that get helpers is exactly the declaratively visible set (`service_resources_exactly_visible`: reachability through message-typed fields at any depth, cycles, LRO response types, references by type or child_type into the API-wide table), every visible resource has its own helper when helper names are distinct (`helper_for_every_visible_resource`), with counterexample theorems for the two name collisions and a regression theorem for a nested resource that is only named (fixed in 109fab8). Tie: T1 bridge of PATH_ARG_RE/common resources, T2 AST equality between the model regex and CPython's parse of the real path_regex_str, T2 Service.resource_messages vs the model on multi-file APIs, T2 beyond the quantifier (model = real regex where the theorems' hypotheses fail), T3 the helpers and the helper-name set of the imported sync and async clients vs the model, plus a model-independent oracle applied to every helper (resource and common_*) reached four ways — sync class, sync instance, async class, async instance — with positional and with keyword arguments.",
    technique='Lean 4 theorems (induction on pattern segments over a CPS backtracking-regex model; work-list closure = reachability with a potential-function fuel bound) + translator bridge + differential T2/T3',
    design='7.19',
    note='Hypotheses of parse_build_partial exclude empty and newline-containing values: both fail on the real code and are listed in known_findings.json. helper_for_every_visible_resource needs distinct helper names: both collisions are listed findings (known_findings.json, findings/C19.json).',
)
