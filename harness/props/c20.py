"""C20 — comments reach docstrings intact; whitespace clean-up never changes code meaning (DESIGN §7.20)."""
from __future__ import annotations
import ast, json, re, textwrap
import apigen, genrun

WORDS = ["the", "quick", "brown", "fox", "a", "I", "request", "message.", "Required.", "Note:", "e.g.", "values:",
         "https://example.com/a-very/long-url/that-cannot-be-broken/anywhere?x=1", "well-known", "co-operate",
         "supercalifragilisticexpialidocious", "x", "1.", "22.", "-", "+", "(see", "below)", "items,", "foo;bar",
         "snake_case", "*emph*", "`code`", "[link]", "a|b", 'say "hi"', "it's", "back\\slash", "C:\\path\\", "é", "naïve"]
PLAIN_WORDS = [w for w in WORDS if not re.search(r"[|*`_[\]]", w)]


def gen_text(r: apigen.Rng, plain=False, tabs=True, quotes=True):
    pool = PLAIN_WORDS if plain else WORDS
    if not quotes:
        pool = [w for w in pool if '"' not in w and "\\" not in w]
    nlines = r.randint(1, 7)
    lines = []
    for i in range(nlines):
        kind = r.random()
        if kind < 0.08 and i > 0:
            lines.append("")
            continue
        nw = r.randint(1, 14)
        ws = [r.pick(pool) for _ in range(nw)]
        sep = " "
        line = ""
        for k, w in enumerate(ws):
            if k:
                x = r.random()
                line += "  " if x < 0.06 else ("\t" if (tabs and x < 0.09) else ("   " if x < 0.11 else " "))
            line += w
        if kind < 0.22:
            line = r.pick(["- ", "+ ", "1. ", "12. ", "* " if not plain else "- "]) + line
        if r.maybe(0.12):
            line += ":"
        if r.maybe(0.5) and i > 0:
            line = " " + line          # protoc keeps one leading space after a line break
        lines.append(line)
    text = "\n".join(lines)
    # leading whitespace of the whole text (runs of spaces, tabs, blank lines), sometimes before a token that is
    # longer than any width: textwrap drops such whitespace from the first line (fix be75097)
    x = r.random()
    if x < 0.12:
        lead = "".join(r.pick([" ", " ", "  ", "\t", "\n", "    ", "\x0c"]) for _ in range(r.randint(1, 4)))
        if r.maybe(0.5):
            text = lead + "x" * r.randint(20, 120) + " " + text
        else:
            text = lead + text
    elif x < 0.15:
        text = " " * r.randint(1, 120) + ("\n" + text if r.maybe(0.5) else "")
    return text


def words(s):
    return s.split()


def check_wrap(ctx, text, width, offset, indent, out, stream):
    """oracle for `wrap`: words kept in order; no line longer than its limit unless it is one word"""
    payload = {"fn": "wrap", "text": text, "width": width, "offset": offset, "indent": indent}
    if words(out) != words(text):
        key = "wrap-drops-words:tab-in-first-line" if "\t" in text.replace("\n ", "\n").split("\n")[0] else "wrap-words"
        ctx.fail(key, f"wrap changed the words: {words(text)[:8]}… -> {words(out)[:8]}…", {**payload, "out": out})
        return
    off = indent if offset is None else offset
    for k, line in enumerate(out.split("\n")):
        limit = width - off if k == 0 else width
        # "a single unbreakable word" = one textwrap chunk behind the indent: no ASCII whitespace inside (a no-break space does not
        # break; this is the notion wrap_width_bound is proved for)
        if len(line) > limit and len([w for w in re.split("[\t\n\x0b\x0c\r ]+", line.strip(" ")) if w]) > 1:
            ctx.fail("wrap-width", f"line {k} has {len(line)} columns (limit {limit}) and more than one word: {line!r}",
                     {**payload, "out": out})
            return


def docstring_ok(out):
    """can `out` sit between r\"\"\" … \"\"\" without ending the literal early?"""
    src = 'x = r"""' + out + '"""\n'
    try:
        tree = ast.parse(src)
        v = tree.body[0].value
        return isinstance(v, ast.Constant) and v.value == out and len(tree.body) == 1
    except SyntaxError:
        return False


PY_LINES = ["x = 1", "y = [1,", "     2]", "def f(a, b):", "class A:", "class B(A):", "@decorator", "# a comment", "_private = 3",
            "return x", "pass", "if x:", "else:", "for i in y:", 'print("a  b")', "import os", 'z = """triple', 'quoted  ', 'text"""', "__all__ = (", ")", "async def g():", "'''doc'''",
            "# ff\x0cw = 1", "u = 'a\u2028b'", "r = 'a\x1eb'  ", "# nel \x85 v = 2", "k = 1\x0c", "t = 'x\ty'\t"]


def gen_source(r: apigen.Rng):
    """grammar of blank-line / indentation layouts (not necessarily valid Python)"""
    out = []
    depth = 0
    for _ in range(r.randint(3, 40)):
        x = r.random()
        if x < 0.3:
            for _ in range(r.randint(1, 5)):
                out.append(" " * r.pick([0, 0, 0, 1, 4, 8]) if r.maybe(0.4) else ("\t" if r.maybe(0.03) else ""))
            continue
        depth = max(0, min(3, depth + r.pick([-1, 0, 0, 0, 1])))
        ind = " " * (4 * depth) if r.maybe(0.92) else " " * r.pick([1, 2, 3, 5, 6])
        line = ind + r.pick(PY_LINES)
        if r.maybe(0.25):
            line += " " * r.randint(1, 4)
        out.append(line)
    tail = r.pick(["", "\n", "\n\n\n", "  \n", " "])
    return "\n".join(out) + tail


EXOTIC_SEPARATORS = ["\x0b", "\x0c", "\x1c", "\x1d", "\x1e", "\x85", "\u2028", "\u2029", "\t", "\xa0", "\u3000"]


def gen_valid_source(r: apigen.Rng):
    """always-valid Python with irregular blank lines and trailing blanks"""
    blocks = []
    def blanks():
        return "".join(r.pick(["\n", "\n", "  \n", "    \n", "\t\n"]) for _ in range(r.randint(0, 5)))
    for i in range(r.randint(1, 6)):
        kind = r.pick(["def", "class", "assign", "decorated", "comment", "under", "string", "exotic"])
        t = " " * r.randint(0, 3) if r.maybe(0.3) else ""
        if kind == "def":
            body = f"def f{i}(a, b):{t}\n" + blanks() + f"    x = a{t}\n" + blanks() + "    def inner():\n" + blanks() + f"        return b{t}\n" + blanks() + "    return x\n"
        elif kind == "class":
            body = f"class C{i}:{t}\n" + blanks() + f'    """doc  \n\n\n    more"""{t}\n' + blanks() + "    @property\n    def p(self):\n" + blanks() + "        return 1\n" + blanks() + "    _q = 2\n" + blanks() + "    # note\n    r = 3\n"
        elif kind == "assign":
            body = f"v{i} = [1,{t}\n      2]{t}\n"
        elif kind == "decorated":
            body = f"@staticmethod{t}\ndef g{i}():\n    pass{t}\n"
        elif kind == "comment":
            body = f"# comment {i}{t}\n"
        elif kind == "under":
            body = f"_u{i} = 0{t}\n"
        elif kind == "exotic":
            # characters str.splitlines() / \s treat as line ends or blanks but Python's tokenizer does not: legal inside a
            # comment or a one-line string literal (an http rule uri, a default value, a doc comment copied from a proto)
            x = r.pick(EXOTIC_SEPARATORS)
            sp = r.pick(["", " ", "  "])
            body = r.pick([f"# note{sp}{x}{sp}e{i} = 1{t}\n", f"e{i} = 'a{sp}{x}{sp}b'{t}\n", f"e{i} = {{'uri': '/v1/x{x}y'}}{t}\n",
                           f"e{i} = 1  # c{x}{t}\n", f"def e{i}():{t}\n    return 'p{x}'{t}\n" + blanks() + f"    # q{sp}{x}\n"])
        else:
            body = f's{i} = """a  \n\n\n\n    b\n   \n"""{t}\n'
        blocks.append(blanks() + body)
    return "".join(blocks) + r.pick(["", "\n", "\n\n", "   "])


class _Norm(ast.NodeTransformer):
    def visit_Constant(self, node):
        if isinstance(node.value, str):
            return ast.copy_location(ast.Constant(value=re.sub(r"\s+", "", node.value)), node)
        return node


def ast_sig(src):
    return ast.dump(_Norm().visit(ast.parse(src)))


def check_fix(ctx, src, out, stream):
    payload = {"fn": "fix_whitespace", "src": src}
    from gapic.generator import formatter
    if not (out.endswith("\n") and not out.endswith("\n\n") and (len(out) == 1 or not out[-2].isspace())):
        ctx.fail("fix-final-newline", f"result does not end with exactly one newline: {out[-6:]!r}", payload)
    if re.sub(r"\s", "", out) != re.sub(r"\s", "", src):
        ctx.fail("fix-nonwhitespace-changed", "non-whitespace characters changed", payload)
    # "only removes trailing blanks and surplus blank lines": the non-blank lines, right-stripped, are the same lines in the same
    # order (the statement fix_preserves_code_lines proves of the model, evaluated here on the implementation)
    code_lines = lambda t: [ln.rstrip() for ln in t.split("\n") if ln.strip()]
    if code_lines(out) != code_lines(src):
        ctx.fail("fix-code-lines", "a code line was joined, split, re-indented, dropped or reordered", {**payload, "out": out})
    again = formatter.fix_whitespace(out)
    if again != out:
        ctx.fail("fix-not-idempotent", "fix_whitespace(fix_whitespace(s)) != fix_whitespace(s)", {**payload, "once": out, "twice": again})
    try:
        a = ast_sig(src)
    except (SyntaxError, ValueError):
        return "invalid"
    try:
        b = ast_sig(out)
    except SyntaxError as e:
        ctx.fail("fix-breaks-syntax", f"valid source no longer parses: {e}", payload)
        return "valid"
    if a != b:
        ctx.fail("fix-changes-ast", "AST differs (beyond whitespace inside string literals)", payload)
    return "valid"


def collect_emitted_sources(ctx):
    """(pre-format source, post-format source) pairs of a really generated library: the generator's own calls"""
    from gapic.generator import formatter, generator as gen_mod
    pairs = []
    orig = formatter.fix_whitespace

    def rec(code):
        out = orig(code)
        pairs.append((code, out))
        return out
    f = apigen.File("acme/lib/v1/lib.proto", "acme.lib.v1")
    book = f.msg("Book"); book.field("name"); book.field("pages", "int32"); book.resource("lib.example.com/Book", "shelves/{shelf}/books/{book}")
    g = f.msg("GetBookRequest"); g.field("name", required=True, ref="lib.example.com/Book")
    l = f.msg("ListBooksRequest"); l.field("parent"); l.field("page_size", "int32"); l.field("page_token")
    lr = f.msg("ListBooksResponse"); lr.field("books", "message", repeated=True, type_name=book); lr.field("next_page_token")
    s = f.service("Library")
    s.method("GetBook", g, book, http=("get", "/v1/{name=shelves/*/books/*}"), sigs=["name"])
    s.method("ListBooks", l, lr, http=("get", "/v1/{parent=shelves/*}/books"), sigs=["parent"])
    s.method("Stream", g, book, ss=True)
    formatter.fix_whitespace = rec
    try:
        genrun.generate_inproc(apigen.request([f], "transport=grpc+rest"))
    finally:
        formatter.fix_whitespace = orig
    return pairs



# ---------------------------------------------------------------------------------------------------------------------
# T3: comments in every documented position of a generated API reach the emitted docstrings; every emitted module parses

TRICKY_ENDS = ['"', '\\', '"""', ' "quoted"', ' ends with a backslash \\', "'", ".", ":", " -", ""]


def gen_comment(r, single_line=None):
    """a plain comment (no formatting character: the fast path of rst(); pandoc is absent), as protoc hands it over:
    one leading space per line, a final line break; one to six lines; tricky last characters"""
    nl = 1 if single_line else (r.randint(2, 6) if single_line is False else r.pick([1, 1, 2, 3, 5]))
    lines = []
    for i in range(nl):
        ws = [r.pick(PLAIN_WORDS) for _ in range(r.randint(1, 12))]
        lines.append(" ".join(ws))
    lines[-1] = lines[-1] + r.pick(TRICKY_ENDS)
    text = "".join(" " + ln + "\n" for ln in lines)
    return "".join(ch for ch in text if ch not in "|*`_[]")


def build_documented_api(r):
    """a small API whose service, methods, messages, fields, enum and enum values all carry comments (leading, trailing
    or detached), returned with the list of (position, comment text the generator should use)"""
    f = apigen.File("acme/lib/v1/lib.proto", "acme.lib.v1")
    color = f.enum("Color", ["COLOR_UNSPECIFIED", "RED", "BLUE"])
    book = f.msg("Book"); book.field("name"); book.field("pages", "int32"); book.field("color", "enum", type_name=color)
    inner = book.nested("Edition"); inner.field("year", "int32")
    g = f.msg("GetBookRequest"); g.field("name")
    version = r.pick([None, None, "v1_20240930"])
    s = f.service("Library", version=version)
    s.method("GetBook", g, book, http=("get", "/v1/{name=books/*}"), sigs=["name"])
    s.method("WatchBook", g, book, ss=True)
    req = apigen.request([f], r.pick(["transport=grpc+rest", "transport=grpc", "transport=rest"]) + ",autogen-snippets=" + r.pick(["true", "false"]))
    fd = [p for p in req.proto_file if p.name == "acme/lib/v1/lib.proto"][0]
    # descriptor paths: 4=message_type, 2=field, 3=nested_type, 5=enum_type, 2=value, 6=service, 2=method
    positions = {"service": [6, 0], "method:GetBook": [6, 0, 2, 0], "method:WatchBook": [6, 0, 2, 1], "message:Book": [4, 0],
                 "field:Book.name": [4, 0, 2, 0], "field:Book.pages": [4, 0, 2, 1], "nested:Book.Edition": [4, 0, 3, 0],
                 "field:Book.Edition.year": [4, 0, 3, 0, 2, 0], "message:GetBookRequest": [4, 1], "enum:Color": [5, 0],
                 "enumvalue:Color.RED": [5, 0, 2, 1]}
    used = []
    for pos, path in positions.items():
        if r.maybe(0.15) and pos != "service":
            continue
        loc = fd.source_code_info.location.add()
        loc.path.extend(path)
        how = r.pick(["leading", "leading", "leading", "trailing", "detached"])
        text = gen_comment(r, single_line=(False if (pos == "service" and r.maybe(0.6)) else None))
        if how == "leading":
            loc.leading_comments = text
        elif how == "trailing":
            loc.trailing_comments = text
        else:
            loc.leading_detached_comments.append(text)
            if r.maybe(0.3):
                loc.leading_detached_comments.append(gen_comment(r))
        used.append((pos, how, list(loc.leading_detached_comments) if how == "detached" else [text]))
    return req, used, version


def doc_words(text):
    """the words a comment contributes to a docstring: rst() rewrites a triple double-quote and may add a full stop"""
    return text.replace('"""', "'''").split()


def t3_docstrings(ctx, r, n):
    import ast as _ast
    for i in range(n):
        req, used, version = build_documented_api(r)
        res, err = genrun.try_generate(req)
        payload = {"fn": "docstrings", "comments": used, "params": req.parameter, "api_version": version}
        ctx.case(None, distinct_key=["docstrings", json.dumps(used), req.parameter, version], nontrivial=True)
        ctx.count("t3_docstrings", "apis")
        if err is not None:
            ctx.fail(f"docstrings-generation:{err[0]}", f"generation failed for a commented API: {err[1][:200]}", payload)
            continue
        docs = {}
        bad = False
        for f in res.file:
            if not f.name.endswith(".py"):
                continue
            try:
                tree = _ast.parse(f.content)
            except SyntaxError as e:
                kind = "client" if "/services/" in f.name else ("types" if "/types/" in f.name else ("samples" if "samples/" in f.name else "other"))
                line = (f.content.split("\n")[e.lineno - 1] if e.lineno and e.lineno <= f.content.count("\n") + 1 else "")[:160]
                ctx.fail(f"docstring-terminates-literal:{kind}", f"{f.name} does not parse ({e.msg}, line {e.lineno}: {line!r}): a comment ended a string literal early", dict(payload, file=f.name))
                bad = True
                continue
            words = []
            for node in _ast.walk(tree):
                if isinstance(node, (_ast.Module, _ast.ClassDef, _ast.FunctionDef, _ast.AsyncFunctionDef)):
                    d = _ast.get_docstring(node, clean=False)
                    if d:
                        words.append(d.split())
            docs[f.name] = words
        if bad:
            continue
        ctx.traces += 1
        # every comment's words, in order and contiguous, in some docstring of the library (types module or service package)
        lib_docs = [w for name, ws in docs.items() if "/lib_v1/" in name for w in ws]
        for pos, how, texts in used:
            for text in ("\n\n".join(texts),) if how == "detached" else texts:
                want = doc_words(text)
                if not want:
                    continue
                ctx.count("t3_docstring_position", pos.split(":")[0] + ":" + how)

                def occurs(ws):
                    for k in range(len(ws) - len(want) + 1):
                        seg = ws[k:k + len(want)]
                        if seg[:-1] == want[:-1] and seg[-1] in (want[-1], want[-1] + "."):
                            return True
                    return False
                if not any(occurs(ws) for ws in lib_docs):
                    ctx.fail("docstring-words:" + pos.split(":")[0], f"the words of the {how} comment of {pos} do not occur, in order, in any docstring of the emitted library: {want[:10]}…", dict(payload, position=pos))


CORPUS_WRAP = [
    # (text, width, offset, indent) — §9-F5: a tab in a long first line
    ("alpha\tbeta gamma delta epsilon zeta eta theta iota kappa lambda mu nu xi omicron pi rho sigma tau", 40, None, 0),
    # fix be75097: leading whitespace before a word that does not fit / a blank first line wider than the width
    ("   " + "x" * 30, 20, None, 0), ("     ", 4, None, 0), ("      \nfoo bar", 4, None, 0), ("  ab " + "x" * 30 + " cd", 20, None, 0),
    ("\t" + "y" * 50 + " tail words here", 30, 5, 4), ("\n\n  " + "z" * 40, 24, None, 0),
    # non-ASCII whitespace: a word for textwrap, a separator for str.split()
    ("aaaaaaaaaaaa\u00a0bbbbbbbbbbbbbb cc dd", 10, None, 0), ("foo \u00a0 bar baz qux quux", 9, 2, 1), ("x\u2003y:\n\u00a0z w", 6, None, 0),
    ("first line:\nsecond \x1c third\n- item one\n- item\u3000two", 12, 3, 2),
]
SMALL_ALPHA = "a \n:-1."
SMALL_CONFIGS = ((4, None, 0), (6, 2, 0), (6, None, 1), (5, 0, 2))


def small_texts(maxlen):
    """EVERY text over a seven-character alphabet up to the given length (words, spaces, line breaks, colons, list markers)"""
    import itertools
    for n in range(1, maxlen + 1):
        for t in itertools.product(SMALL_ALPHA, repeat=n):
            yield "".join(t)
CORPUS_RST = ['He said """ and left.', "ends with a backslash \\", 'ends with a quote "', "plain text. " * 12,
              # a detached comment reaches rst() unstripped: the guards must look at the text AFTER wrapping
              ' Manages the shelves of a "library"\n', " Joins path segments with a \\\n", 'quote then blanks "   ', '  """\n']


def run(ctx):
    from gapic.utils.lines import wrap
    from gapic.utils.rst import rst
    from gapic.generator import formatter
    ctx.rule = ("wrap/rst: generated comment texts (words, punctuation, list markers, colons, tabs, space runs, long tokens, "
                "quotes, backslashes, blank lines) x widths 20..100 x indents 0..12 x offsets < width; fix_whitespace: every "
                "pre-format source of a really generated library + a blank-line/indentation grammar (valid and arbitrary); "
                "distinct by input; non-trivial = text with at least two words / source with at least one blank-line run")
    ctx.assume("pandoc is absent: only the plain-text path of rst() (no | * ` _ [ ] in the text) is exercised")
    ctx.assume("offset < width (stated in the property)")
    r = ctx.rng("texts")
    ops, metas = [], []
    # ---- corpus first
    for (text, width, offset, indent) in CORPUS_WRAP:
        ops.append({"op": "c20.wrap", "text": text, "width": width, "indent": indent, **({} if offset is None else {"offset": offset})})
        metas.append(("wrap", text, width, offset, indent, None))
    for text in CORPUS_RST:
        ops.append({"op": "c20.rst", "text": text, "width": 72, "indent": 4})
        metas.append(("rst", text, 72, None, 4, None))
    # ---- every small text (exhaustive up to a length), four width/offset/indent configurations
    for text in small_texts(ctx.n(4, 5)):
        for (width, offset, indent) in SMALL_CONFIGS:
            ops.append({"op": "c20.wrap", "text": text, "width": width, "indent": indent, **({} if offset is None else {"offset": offset})})
            metas.append(("wrap", text, width, offset, indent, None))
    # ---- generated
    for i in range(ctx.n(1500, 60000)):
        text = gen_text(r)
        width = r.randint(20, 100) if r.maybe(0.85) else r.randint(3, 19)
        indent = r.pick([i for i in (0, 0, 4, 8, 12) if i < width])      # offset defaults to indent: offset < width
        offset = None if r.maybe(0.4) else r.randint(0, width - 1)
        ops.append({"op": "c20.wrap", "text": text, "width": width, "indent": indent, **({} if offset is None else {"offset": offset})})
        metas.append(("wrap", text, width, offset, indent, None))
    for i in range(ctx.n(500, 20000)):
        text = gen_text(r, plain=True)
        width = r.randint(40, 100)
        indent = r.pick([0, 4, 8])
        nl = r.pick([None, None, True, False])
        ops.append({"op": "c20.rst", "text": text, "width": width, "indent": indent, **({} if nl is None else {"nl": nl})})
        metas.append(("rst", text, width, None, indent, nl))
    # ---- call programs: the SAME comment converted several times in one process with different widths (wide first, then
    # narrower, then wide again) and otherwise equal arguments — the filters are pure functions of their arguments, a result
    # must not depend on what was asked before (a comment is rendered into many files, at several indents and widths)
    for i in range(ctx.n(60, 1500)):
        text = gen_text(r, plain=True)
        indent = r.pick([0, 4, 8])
        nl = r.pick([None, None, True, False])
        ws = sorted({r.randint(40, 100) for _ in range(r.randint(2, 4))}, reverse=True)
        for width in ws + [ws[0]]:
            ops.append({"op": "c20.rst", "text": text, "width": width, "indent": indent, **({} if nl is None else {"nl": nl})})
            metas.append(("rst", text, width, None, indent, nl))
        for width in ws:
            ops.append({"op": "c20.wrap", "text": text, "width": width, "indent": indent})
            metas.append(("wrap", text, width, None, indent, None))
    for i in range(ctx.n(300, 6000)):
        text = gen_text(r)
        width = r.randint(5, 60)
        ii, si = " " * r.pick([0, 0, 2, 4]), " " * r.pick([0, 2, 4, 6])
        ops.append({"op": "c20.textwrap", "text": text, "width": width, "ii": ii, "si": si})
        metas.append(("textwrap", text, width, ii, si, None))
    model = ctx.driver.ask(ops, timeout=3000)
    for (fn, text, width, a, b, nl), mo in zip(metas, model):
        ctx.case({"fn": fn, "text": text[:80], "width": width} if ctx.evaluations % 997 == 0 else None,
                 distinct_key=[fn, text, width, a, b, nl], nontrivial=len(text.split()) >= 2)
        ctx.count("fn", fn)
        ctx.count("has_tab", "\t" in text); ctx.count("lines", min(text.count("\n") + 1, 8))
        try:
            if fn == "wrap":
                impl = wrap(text, width, offset=a, indent=b)
            elif fn == "rst":
                impl = rst(text, width=width, indent=b, nl=nl)
            else:
                impl = textwrap.wrap(text, width=width, initial_indent=a, subsequent_indent=b, break_long_words=False, break_on_hyphens=False)
        except Exception as e:      # the real function raised
            impl = None
            if fn != "textwrap":
                first_blank = text.replace("\n ", "\n").split("\n")[0].strip() == ""
                if not first_blank:
                    ctx.fail(f"{fn}-raised:{type(e).__name__}", f"{fn} raised {type(e).__name__}: {e}", {"fn": fn, "text": text, "width": width, "offset": a, "indent": b})
        mval = mo.get("r") if fn != "textwrap" else mo.get("lines")
        if "error" in mo or "unsupported" in mo:
            ctx.unsupported += 1
        else:
            ctx.traces += 1
            if mval != impl:
                ctx.disagree(f"T2:c20.{fn}", f"model {mval!r:.200} vs impl {impl!r:.200}", {"fn": fn, "text": text, "width": width, "a": a, "b": b, "nl": nl})
        if impl is None:
            continue
        if fn == "wrap":
            check_wrap(ctx, text, width, a, b, impl, "gen")
        elif fn == "rst":
            tq = text.replace('"""', "'''")      # a triple double-quote cannot stay as it is (C20 fix: commit)
            if words(impl.rstrip(".")) != words(tq) and words(impl) != words(tq):
                ctx.fail("rst-words", "rst changed the words of a plain comment", {"fn": "rst", "text": text, "width": width, "indent": b})
            # width (plain-text path = wrap(text, indent, offset=indent+3, width=width-indent)): no line is longer than width - indent
            # unless it is a single unbreakable word behind its indent; the result must be that of THIS call's width
            # whatever was converted before (`program`: the calls made so far in this process with the same text)
            body = impl
            if body.endswith(".") and not text.rstrip().endswith("."):
                body = body[:-1]          # the quote guard's full stop is appended AFTER wrapping (it is not part of the wrapped comment)
            for k, line in enumerate(body.split("\n")):
                limit = (width - b) - (b + 3) if k == 0 else (width - b)
                if len(line) > limit and len([w for w in re.split("[\t\n\x0b\x0c\r ]+", line.strip(" ")) if w]) > 1:
                    ctx.fail("rst-width", f"line {k} of rst(text, width={width}, indent={b}) has {len(line)} columns (limit {limit}) and more than one word: {line!r}",
                             {"fn": "rst", "text": text, "width": width, "indent": b, "nl": nl,
                              "program": [[m[2], m[4], m[5]] for m in metas if m[0] == "rst" and m[1] == text]})
                    break
            if not docstring_ok(impl):
                key = "docstring-triple-quote" if '"""' in text else ("docstring-trailing-backslash" if text.rstrip().endswith("\\") else "docstring-unsafe")
                ctx.fail(key, f"rst output cannot sit inside r\"\"\"…\"\"\": {impl[-30:]!r}", {"fn": "rst", "text": text, "width": width, "indent": b})
    # ---- fix_whitespace
    sources = []
    t3_docstrings(ctx, ctx.rng("docstrings"), ctx.n(12, 150))
    pairs = collect_emitted_sources(ctx)
    for src, out in pairs:
        sources.append(("emitted", src))
    rs = ctx.rng("sources")
    for i in range(ctx.n(150, 5000)):
        sources.append(("grammar", gen_source(rs)))
    for i in range(ctx.n(150, 5000)):
        sources.append(("valid-grammar", gen_valid_source(rs)))
    fm = ctx.driver.ask([{"op": "c20.fixws", "s": s} for _, s in sources], timeout=3000)
    nvalid = 0
    for (stream, src), mo in zip(sources, fm):
        out = formatter.fix_whitespace(src)
        ctx.case({"fn": "fix_whitespace", "stream": stream, "len": len(src)} if ctx.evaluations % 499 == 0 else None,
                 distinct_key=["fix", src], nontrivial="\n\n" in src or " \n" in src)
        ctx.count("fix_stream", stream)
        ctx.traces += 1
        if mo.get("r") != out:
            ctx.disagree("T2:c20.fix_whitespace", f"model and impl differ on a {stream} source of {len(src)} chars", {"fn": "fix_whitespace", "src": src})
        if check_fix(ctx, src, out, stream) == "valid":
            nvalid += 1
    ctx.notes["fix_sources_valid_python"] = nvalid
    ctx.notes["fix_sources_emitted_files"] = len(pairs)


def search(ctx):
    ctx.tier = "thorough"
    run(ctx)


def replay(ctx, payload):
    import leanio
    from gapic.utils.lines import wrap
    from gapic.utils.rst import rst
    from gapic.generator import formatter
    fn = payload["fn"]
    if fn == "wrap":
        out = wrap(payload["text"], payload["width"], offset=payload.get("offset"), indent=payload.get("indent", 0))
        check_wrap(ctx, payload["text"], payload["width"], payload.get("offset"), payload.get("indent", 0), out, "replay")
    elif fn == "rst":
        b = payload.get("indent", 0)
        for (w_, b_, nl_) in payload.get("program") or []:          # the calls that preceded it in the failing run, in order
            out = rst(payload["text"], width=w_, indent=b_, nl=nl_)
            if out.endswith(".") and not payload["text"].rstrip().endswith("."):
                out = out[:-1]
            for k, line in enumerate(out.split("\n")):
                limit = (w_ - b_) - (b_ + 3) if k == 0 else (w_ - b_)
                if len(line) > limit and len([w for w in re.split("[\t\n\x0b\x0c\r ]+", line.strip(" ")) if w]) > 1:
                    ctx.fail("rst-width", f"line {k} of rst(text, width={w_}, indent={b_}) has {len(line)} columns (limit {limit})", payload)
                    break
        out = rst(payload["text"], width=payload["width"], indent=b, nl=payload.get("nl"))
        if not docstring_ok(out):
            ctx.fail("docstring-unsafe", "unsafe", payload)
    else:
        check_fix(ctx, payload["src"], formatter.fix_whitespace(payload["src"]), "replay")
    for f in ctx.failures:
        print("  failure:", f["key"], "-", f["what"])
    return not ctx.failures


CLAIM = dict(
    text="Lean 4 proof, for EVERY comment text, width, offset and indent, that the model of gapic.utils.lines.wrap keeps the words "
         "(str.split()) of the text exactly and in order (wrap_words_preserved: full strength, no hypothesis on the text) and "
         "raises nothing when 0 < width and offset < width (wrap_never_raises), and that every line of the result fits the width or is a single "
         "unbreakable word (wrap_width_bound); the colon rule's regex, extracted from the source "
         "and run by the regex-engine model, is proved equal to a plain function (wrapColon_regex_is_colonSub); textwrap.fill keeps "
         "the words at string level (textwrap_fill_words_preserved) and respects the width at chunk level (textwrap_width_bound). "
         "Lean 4 proof for ALL texts that fix_whitespace (the composition of the three re.sub calls with the regexes extracted "
         "from the source, run by a backtracking-regex model proved sound w.r.t. a relational semantics) changes nothing but "
         "whitespace, keeps every code line (non-blank lines, right-stripped, with indentation, in order: fix_preserves_code_lines), ends "
         "the result with exactly one newline and IS IDEMPOTENT (fix_idempotent: each re.sub pass is proved equal to a run-local rewriting "
         "of the maximal whitespace runs, using soundness AND completeness of the regex-engine model for look-free patterns); the tail of rst() cannot terminate a docstring and a plain comment reaches the docstring with "
         "exactly its words (plain_comment_words_reach_docstring). Executable Lean "
         "models of textwrap.wrap/fill, lines.wrap and the rst fast path validated differentially (T2) on thousands of generated "
         "texts and on EVERY text over a seven-character alphabet up to length 4 (5 in thorough); model-independent oracles for word "
         "preservation, width bound, docstring safety, AST invariance and idempotence on emitted and grammar-generated sources.",
    technique="Lean 4 theorems (word-preservation of lines.wrap by a contextual word equivalence, chunk-level invariants of textwrap, "
              "regex-engine soundness and completeness + per-pattern inversion, fix_whitespace as one run-local pass) over T1-translated regexes + T2 differential of the executable models",
    design="7.20",
    note="Proved for all inputs: wrap_words_preserved, wrap_never_raises, wrapColon_regex_is_colonSub, textwrap_fill_words_preserved, "
         "fix_idempotent, fix_is_one_pass_over_runs, matcher_exact_on_fix_patterns, "
         "wrap_width_bound (every line of the result fits the width - the first line width - offset - or is one unbreakable word behind its "
         "indent; string level), fix_only_removes_whitespace, fix_ends_one_newline, textwrap_words_preserved and textwrap_width_bound (the "
         "_wrap_chunks core, any width/indents/chunks), rst_output_doc_safe (the tail of rst(), both branches). NOT proved, decided by T2 + "
         "oracle only: the last step from "
         "fix_preserves_code_lines (every non-blank line, right-stripped, with its indentation, is kept in order: proved) to equality of the "
         "Python AST (checked with ast.dump on every source). The pandoc branch of rst() is not exercised (pandoc absent).",
)
