"""T2 for the function translator (DESIGN §12.6): (a) every primitive of GapicModel.PyRt against CPython, (b) every
translated function (the PINNED Lean definition, through the `fn` driver op) against the real Python function of /repo's
current tree.  Called by the checks of the properties that rely on a translated function."""
from __future__ import annotations
import importlib, json

ASCII = "abzABZ019 _-.+*/:#@\t\n$"
WS = [" ", " ", "\x0b", "\x0c", "\r", "\x1c", "\x85"]


def rand_str(r, n=12, ws=True):
    k = r.randint(0, n)
    pool = list(ASCII) + (WS if ws else [])
    return "".join(r.pick(pool) for _ in range(k))


def check_primitives(ctx, r, n):
    ops, want = [], []
    def add(op, w):
        ops.append(dict(op, op="pyrt")); want.append(w)
    for _ in range(n):
        s = rand_str(r); x = r.pick(["-", "- ", ".", "ab", "\n ", "\n", "_", "a", ":\n", "+ "]); y = r.pick(["", "_", "xy", "\n"])
        a = r.pick([None, 0, 1, 2, 3, -1, -2, 5, 40, -40]); b = r.pick([None, 0, 1, 2, 4, -1, -3, 7, 40, -40])
        add({"f": "slice", "s": s, "a": a, "b": b}, s[a:b])
        add({"f": "strip", "s": s}, s.strip()); add({"f": "lstrip", "s": s}, s.lstrip()); add({"f": "rstrip", "s": s}, s.rstrip())
        add({"f": "lower", "s": s}, s.lower()); add({"f": "upper", "s": s}, s.upper()); add({"f": "capitalize", "s": s}, s.capitalize())
        add({"f": "expandtabs", "s": s}, s.expandtabs())
        add({"f": "startswith", "s": s, "x": x}, s.startswith(x)); add({"f": "endswith", "s": s, "x": x}, s.endswith(x))
        add({"f": "contains", "s": s, "x": x}, x in s)
        add({"f": "replace", "s": s, "x": x, "y": y}, s.replace(x, y))
        k = r.pick([0, 1, 2, -1])
        add({"f": "replaceN", "s": s, "x": x, "y": y, "n": k}, s.replace(x, y, k))
        add({"f": "split", "s": s, "x": x}, s.split(x))
        xs = [rand_str(r, 4) for _ in range(r.randint(0, 4))]
        add({"f": "join", "s": x, "xs": xs}, x.join(xs))
        add({"f": "len", "s": s}, len(s))
        k = r.pick([0, 1, -1, -2, 2, 5, -6, len(s), -len(s), len(s) - 1, -len(s) - 1])
        try: w = s[k]
        except IndexError: w = {"raised": "IndexError"}
        add({"f": "idxStr", "s": s, "n": k}, w)
        k = r.pick([0, 1, -1, -2, 2, len(xs), -len(xs), len(xs) - 1, -len(xs) - 1])
        try: w = xs[k]
        except IndexError: w = {"raised": "IndexError"}
        add({"f": "idxList", "s": "", "xs": xs, "n": k}, w)
    for op, w, mo in zip(ops, want, ctx.driver.ask(ops)):
        ctx.case(distinct_key=["pyrt", json.dumps(op, sort_keys=True)]); ctx.traces += 1
        ctx.count("pyrt_primitive", op["f"])
        if mo.get("r") != w:
            ctx.disagree("T2:pyrt." + op["f"], f"PyRt.{op['f']} on {op}: model {mo.get('r')!r} vs CPython {w!r}", {"op": op})


class Skip(Exception):
    pass


def _resolve(qual_file, qual):
    mod = importlib.import_module(qual_file[:-3].replace("/", "."))
    obj = mod
    for part in qual.split("."):
        obj = getattr(obj, part)
    return obj


LIST_POOL = ["- a", "+ b", "1. x", "22. y", "-", "- ", "+ ", "1.", "1. ", "1.x", "a. b", "10.  z", " - a", "", "+", "9. ", "-a", "- ab", "12. ", "123. x", "1 . x", "١. x"]
PK_POOL = [[], ["acme"], ["acme", "lib", "v1"], ["google", "cloud", "vision", "v1p1beta1"], ["acme", "v1"], ["v1"], ["a_b", "c__d", "v2"], ["x_", "v1"], ["acme", "lib", "v1", "sub"], ["acme", "v1x/y"], ["acme", "v1\n"]]
POOLS = {
    "to_valid_filename": [["Foo Bar"], ["a/b.c"], ["x$y-z"], ["MiXed_9"], [""], ["a  b"], ["-"], ["A.B"]],
    "to_valid_module_name": [["foo-bar"], ["Foo.Bar"], ["a b"], ["import"], ["x--y"], [""], ["a/b"]],
    "to_snake_case": [["GetIAMPolicy"], ["List2FADevices"], ["getV2"], ["HTTPServer"], ["x9AB"], ["x9A"], ["A_B"], ["_A"], ["aB"], [""], ["OAuth2Token"], ["a1B"]],
    "is_list_item": [[x] for x in LIST_POOL],
    "get_subsequent_line_indentation_level": [[x] for x in LIST_POOL],
    "fix_whitespace": [["a  \n\n\n\nclass B:\n    x = 1  \n\n\n    def f(self):\n        pass\n\n\n"], [""], ["x"], ["\n\n"], ["a \t\nb"], ["import os\n\n\n\n\n@dec\ndef f():\n    pass"],
                       ["class A:\n    def f(self):\n        pass\n    \n    \n    def g(self):\n        pass\n"], ["a\n\n\n    # c\n    _x = 1\n"]],
    "to_camel_case": [["foo_bar"], ["FooBar"], ["foo-bar"], ["_foo"], ["foo__bar"], ["HTTPServer_id"], [""], ["a_b_c"], ["x-"], ["get2FA"]],
    "fix_name_segment": [["class"], ["name"], ["import"], ["license"], [""], ["class_"], ["Class"]],
    "fix_field_path": [["book.class"], ["class.name"], ["import.from.x"], ["a"], [""], ["a..b"], [".class"], ["type.type"]],
    "field_header_disambiguated": [["book.class"], ["class.name"], ["import.from.x"], ["a"], [""], ["a..b"], [".class"], ["type.type"], ["name"]],
    "routing_param_disambiguated_field": [["book.class"], ["class"], ["scope.type"], ["a"], [""], ["name"]],
    "client_method_name": [[n, b] for n in ("Import", "GetBook", "Class", "import", "None", "Async", "_Get", "", "Return") for b in (False, True)],
    "sort_lines": [[t, d] for t in ("b\na\nb\n", "\nimport z\nimport a\n\nimport a\n", "", "\n", "x", "  b\n a\n", "B\na\nA\nb", "a\n\n\nb\n \n", "ab\na\nabc\n", "é\nz\n") for d in (True, False)],
    "make_private": [["a"], ["_a"], [""], ["__a"], ["A_b"]],
    "coerce_response_name": [["$resp"], ["$resp.name"], ["x.$resp"], ["$resp$resp"], ["resp"], [""]],
    "address_resolve": [[pk, sel] for pk in ([], ["acme"], ["acme", "lib", "v1"]) for sel in ("Book", "a.Book", ".Book", "", ".", "Outer.Inner", "Book.")],
    **{k: [[b, n] for b in (False, True) for n in ("Library", "Import", "IAMPolicy", "", "_X", "lib")] for k in ("service_client_name", "service_async_client_name")},
    **{k: [[n] for n in ("Library", "Import", "IAMPolicy", "Books2Go", "", "_X", "library", "A")]
       for k in ("service_transport_name", "service_grpc_transport_name", "service_grpc_asyncio_transport_name", "service_rest_transport_name", "service_module_name")},
    "naming_module_name": [["Lib"], ["Cloud Vision"], ["a-b"], ["x.y"], [""], ["Fancy $Name"], ["import"]],
    **{k: [[m, v] for m in ("lib", "cloud_vision", "") for v in ("v1", "", "v1p1beta1")] for k in ("new_naming_versioned_module_name", "old_naming_versioned_module_name")},
    "metadata_doc": [[" lead \n", " trail", [" d1\n", " d2\n"]], ["", " trail \n\n", [" d"]], ["", "", [" d1\n", "", " d3 "]], ["", "", []], ["   ", "t", ["d"]],
                     ["", "  ", ["d"]], [" a\n b\n", "", []], ["", "", [""]], ["x", "y", ["z"]]],
    "field_name": [[n, pp] for n in ("class", "name", "import", "license", "", "Class", "type", "max", "ignore_unknown_fields") for pp in (True, False)],
    "method_void": [[p] for p in ("google.protobuf.Empty", "google.protobuf.Empty ", "acme.Empty", "", "Empty")],
    "service_client_package_version": [[pk] for pk in PK_POOL],
    "import_str": [[al, m, pk] for al in ("", "ad_common") for m in ("common", "timestamp_pb2", "") for pk in ([], ["acme", "lib_v1", "types"], ["google", "api_core"], ["api_core"], ["google", "protobuf"])],
    "service_shortname": [[h] for h in ("lib.googleapis.com", "localhost", "", "a.b.c:443", ".x")],
    "naming_long_name": [[ns, n] for ns in ([], ["Google", "Cloud"], ["a b"]) for n in ("Vision", "", "Cloud Vision")],
    "naming_module_namespace": [[ns] for ns in ([], ["Google", "Cloud"], ["a b", "X-y"], ["import"], [""])],
    "naming_warehouse_package_name": [[w, ns, n] for w in ("", "my-pkg") for ns in ([], ["Google", "Cloud"], ["A B"]) for n in ("Vision", "", "Cloud Vision", "a  b")],
    "address_str": [[m, p, "Book", al, pp] for m in ("", "lib", "common") for p in ([], ["Outer"], ["Outer", "Inner"]) for al in ("", "ad_common") for pp in (True, False)],
    "address_module_alias": [[m, c, pk, v] for m in ("common", "import", "lib", "") for c in ([], ["common"], ["lib", "x"])
                             for pk in PK_POOL for v in ("v1", "", "lib")],
    "address_proto": [[pk, p, "Book"] for pk in PK_POOL[:4] for p in ([], ["Outer"], ["A", "B"])],
    "address_proto_package": [[pk] for pk in PK_POOL],
    "address_versioned_package": [[pk] for pk in PK_POOL],
    "address_subpackage": [[pk, ap] for pk in PK_POOL for ap in ("acme.lib.v1", "acme", "", "google.cloud.vision.v1p1beta1", "a.b.c.d.e.f")],
    "address_python_import": [[["acme", "dep", "v1"], "common", ["acme"], "lib_v1", ap, nt, "acme.dep.v1", ["sub"], pp, ["acme", "dep_v1"], al]
                              for ap in ("acme.lib.v1", "acme.dep", "") for nt in (True, False) for pp in (True, False) for al in ("", "ad_common")],
    "address_rel": [[pk, "lib", p, "Book", opk, om, op, on, "lib.X.Book"] for pk in (["acme", "v1"],) for opk in (["acme", "v1"], ["acme"]) for om in ("lib", "other")
                    for p in ([], ["Tree"], ["Tree", "Branch"], ["Other"]) for op in ([], ["Tree"], ["Other", "Tree"]) for on in ("Tree", "Book", "")],
    "address_sphinx": [[pk, "common", p, "Book", ["acme"], "lib_v1", ap, nt, "acme.dep.v1", ["sub"], pp, ["acme", "dep_v1"], "common.Book"]
                       for pk in ([], ["acme", "dep", "v1"]) for p in ([], ["Outer"]) for ap in ("acme.lib.v1", "acme.dep", "") for nt in (True, False) for pp in (True, False)],
}
GENS = {
    "to_valid_filename": lambda r: [rand_str(r, 10, ws=False)],
    "to_valid_module_name": lambda r: [rand_str(r, 10, ws=False)],
    "to_snake_case": lambda r: ["".join(r.pick(["Get", "IAM", "Policy", "2FA", "V2", "Http", "URL", "x", "List", "3M", "Id", "OAuth2", "A", "B1", "_", "foo", "Bar9", "-", "9"])
                                        for _ in range(r.randint(0, 5)))],
    "is_list_item": lambda r: [rand_str(r, 6)],
    "get_subsequent_line_indentation_level": lambda r: [rand_str(r, 6)],
    "fix_whitespace": lambda r: ["".join(r.pick(["a", " ", "  ", "\n", "\n\n", "class X:", "def f():", "    ", "        ", "@d", "# c", "_y = 1", "pass", "\t", "x = 1"]) for _ in range(r.randint(0, 14)))],
    "to_camel_case": lambda r: ["".join(r.pick(["foo", "Bar", "_", "-", "ID", "x", "2", "HTTP", "__"]) for _ in range(r.randint(0, 5)))],
    "fix_name_segment": lambda r: [r.pick(["class", "type", "format", "book", "from", "in", "id", "x"]) + r.pick(["", "", "_", "s"])],
    "fix_field_path": lambda r: [".".join(r.pick(["class", "type", "format", "book", "from", "name", "x", "license"]) for _ in range(r.randint(1, 4)))],
    "field_header_disambiguated": lambda r: [".".join(r.pick(["class", "type", "format", "book", "from", "name", "x", "license"]) for _ in range(r.randint(1, 4)))],
    "routing_param_disambiguated_field": lambda r: [".".join(r.pick(["class", "type", "format", "book", "from", "name", "x", "license"]) for _ in range(r.randint(1, 4)))],
    "client_method_name": lambda r: [r.pick(["Get", "List", "Import", "Pass", "Yield", "Global", "lambda", "Del", "Book", "_x"]), r.maybe()],
    "sort_lines": lambda r: ["".join(r.pick(["import a", "import b", "from x import y", "\n", "\n", " ", "  z", "A", "a", "b1", "\t"]) for _ in range(r.randint(0, 9))), r.maybe()],
    "make_private": lambda r: [rand_str(r, 5, ws=False)],
    "coerce_response_name": lambda r: ["".join(r.pick(["$resp", ".", "a", "$", "resp", "_"]) for _ in range(r.randint(0, 5)))],
    "address_resolve": lambda r: [[r.pick(["acme", "lib", "v1", "a", "x_y"]) for _ in range(r.randint(0, 3))], rand_str(r, 6, ws=False)],
    **{k: (lambda r: [r.maybe(), rand_str(r, 8, ws=False)]) for k in ("service_client_name", "service_async_client_name")},
    **{k: (lambda r: [rand_str(r, 8, ws=False)]) for k in ("service_transport_name", "service_grpc_transport_name", "service_grpc_asyncio_transport_name",
                                                       "service_rest_transport_name")},
    "service_module_name": lambda r: ["".join(r.pick(["Get", "IAM", "Policy", "2FA", "V2", "Http", "x", "List", "Id", "A", "B1", "_", "foo"]) for _ in range(r.randint(0, 4)))],
    "naming_module_name": lambda r: [rand_str(r, 10, ws=False)],
    **{k: (lambda r: [rand_str(r, 6, ws=False), r.pick(["", "v1", "v2beta1", rand_str(r, 4, ws=False)])]) for k in ("new_naming_versioned_module_name", "old_naming_versioned_module_name")},
    "metadata_doc": lambda r: [r.pick(["", "", rand_str(r, 8)]), r.pick(["", rand_str(r, 8)]), [rand_str(r, 6) for _ in range(r.randint(0, 3))]],
    "field_name": lambda r: [r.pick(["class", "type", "format", "book", "from", "in", "id", "x", "any", "next", "property"]) + r.pick(["", "", "_", "s"]), r.maybe()],
    "method_void": lambda r: [r.pick(["google.protobuf.Empty", "google.protobuf.Emptyy", rand_str(r, 8, ws=False)])],
    "service_client_package_version": lambda r: [rand_pk(r, 4)],
    "import_str": lambda r: [r.pick(["", "", "al_x"]), r.pick(["common", "x_pb2", "pb2", "_pb2", ""]), [r.pick(["acme", "api_core", "google", "types", "x_api_core"]) for _ in range(r.randint(0, 3))]],
    "service_shortname": lambda r: [rand_str(r, 10, ws=False)],
    "naming_long_name": lambda r: [[rand_str(r, 5, ws=False) for _ in range(r.randint(0, 3))], rand_str(r, 6, ws=False)],
    "naming_module_namespace": lambda r: [[rand_str(r, 6, ws=False) for _ in range(r.randint(0, 3))]],
    "naming_warehouse_package_name": lambda r: [r.pick(["", "", rand_str(r, 5, ws=False)]), [rand_str(r, 5, ws=False) for _ in range(r.randint(0, 3))],
                                                 " ".join(rand_str(r, 4, ws=False) for _ in range(r.randint(0, 3)))],
    "address_str": lambda r: [r.pick(["", "lib", "common", "x_y"]), rand_pk(r, 2), r.pick(["Book", "", "B"]), r.pick(["", "", "al_lib"]), r.maybe()],
    "address_module_alias": lambda r: [r.pick(["common", "import", "lib", "x", "from", "class"]), [r.pick(["common", "lib", "x", "y"]) for _ in range(r.randint(0, 3))], rand_pk(r, 4),
                                       r.pick(["v1", "", "v2", "lib"])],
    "address_proto": lambda r: [rand_pk(r, 4), rand_pk(r, 2), r.pick(["Book", "", "B"])],
    "address_proto_package": lambda r: [rand_pk(r, 4)],
    "address_versioned_package": lambda r: [rand_pk(r, 4)],
    "address_subpackage": lambda r: [rand_pk(r, 5), ".".join(rand_pk(r, 4))],
    "address_python_import": lambda r: [rand_pk(r, 4), r.pick(["common", "lib", ""]), rand_pk(r, 2), r.pick(["lib_v1", "lib", ""]), ".".join(rand_pk(r, 3)), r.maybe(), ".".join(rand_pk(r, 4)),
                                        rand_pk(r, 2), r.maybe(), rand_pk(r, 3), r.pick(["", "", "al_common"])],
    "address_rel": lambda r: [r.pick([["acme", "v1"], ["acme"]]), r.pick(["lib", "other"]), rand_names(r, 3), r.pick(["Book", "Tree", "B"]), r.pick([["acme", "v1"], ["acme"]]),
                              r.pick(["lib", "other"]), rand_names(r, 3), r.pick(["Book", "Tree", "B", ""]), r.pick(["lib.Book", "x"])],
    "address_sphinx": lambda r: [rand_pk(r, 4), r.pick(["common", "lib", ""]), rand_names(r, 2), r.pick(["Book", "B"]), rand_pk(r, 2), r.pick(["lib_v1", "lib", ""]), ".".join(rand_pk(r, 3)),
                                 r.maybe(), ".".join(rand_pk(r, 4)), rand_pk(r, 2), r.maybe(), rand_pk(r, 3), r.pick(["lib.Book", "x"])],
}


def rand_pk(r, n):
    return [r.pick(["acme", "lib", "v1", "v2beta1", "a_b", "x__y", "z_", "_q", "cloud", "v1x", "dep"]) for _ in range(r.randint(0, n))]


def rand_names(r, n):
    return [r.pick(["Tree", "Branch", "Book", "Other"]) for _ in range(r.randint(0, n))]



def call_real(name, meta, args):
    if name in ("fix_name_segment", "fix_field_path"):
        # nested helpers of convert_uri_fieldnames: reached through the public function on a uri whose only variable is the argument
        from gapic.utils.uri_conv import convert_uri_fieldnames
        if not args[0] or any(ch in args[0] for ch in "{}=/*") or (name == "fix_name_segment" and "." in args[0]) or not all(seg.isidentifier() for seg in args[0].split(".")):
            raise Skip()
        out = convert_uri_fieldnames("/v1/{%s=things/*}" % args[0])
        return out[len("/v1/{"):-len("=things/*}")]
    if name == "client_method_name":
        from gapic.schema import wrappers
        import types as _t
        return wrappers.Method.client_method_name.fget(_t.SimpleNamespace(name=args[0], is_internal=args[1]))
    if name == "field_header_disambiguated":
        from gapic.schema import wrappers
        return wrappers.FieldHeader(args[0]).disambiguated
    if name == "routing_param_disambiguated_field":
        from gapic.schema import wrappers
        return wrappers.RoutingParameter(field=args[0], path_template="").disambiguated_field
    if name.startswith("service_"):
        from gapic.schema import wrappers
        import types as _t
        prop = getattr(wrappers.Service, meta["qual"].split(".")[-1])
        fget = prop.fget if isinstance(prop, property) else prop.func      # property or utils.cached_property
        if len(args) == 2:
            return fget(_t.SimpleNamespace(is_internal=args[0], name=args[1]))
        return fget(_t.SimpleNamespace(name=args[0]))
    if name in ("field_name", "method_void", "service_client_package_version"):
        from gapic.schema import wrappers
        import types as _t
        if name == "field_name":
            me = _t.SimpleNamespace(field_pb=_t.SimpleNamespace(name=args[0]), meta=_t.SimpleNamespace(address=_t.SimpleNamespace(is_proto_plus_type=args[1])))
            return wrappers.Field.name.fget(me)
        if name == "method_void":
            p = wrappers.Method.void
            return (p.fget if isinstance(p, property) else p.func)(_t.SimpleNamespace(output=_t.SimpleNamespace(ident=_t.SimpleNamespace(proto=args[0]))))
        p = wrappers.Service.client_package_version
        return (p.fget if isinstance(p, property) else p.func)(_t.SimpleNamespace(meta=_t.SimpleNamespace(address=_t.SimpleNamespace(package=tuple(args[0])))))
    if name == "import_str":
        from gapic.schema import imp
        return str(imp.Import(package=tuple(args[2]), module=args[1], alias=args[0]))
    if name == "service_shortname":
        from gapic.schema import wrappers
        import types as _t
        return wrappers.Service.shortname.fget(_t.SimpleNamespace(host=args[0]))
    if name in ("naming_long_name", "naming_module_namespace", "naming_warehouse_package_name"):
        from gapic.schema import naming
        import types as _t
        fget = getattr(naming.Naming, name[len("naming_"):]).fget
        if name == "naming_long_name":
            return fget(_t.SimpleNamespace(namespace=tuple(args[0]), name=args[1]))
        if name == "naming_module_namespace":
            return list(fget(_t.SimpleNamespace(namespace=tuple(args[0]))))
        return fget(_t.SimpleNamespace(_warehouse_package_name=args[0], namespace=tuple(args[1]), name=args[2]))
    if name == "naming_module_name":
        from gapic.schema import naming
        import types as _t
        return naming.Naming.module_name.fget(_t.SimpleNamespace(name=args[0]))
    if name in ("new_naming_versioned_module_name", "old_naming_versioned_module_name"):
        from gapic.schema import naming
        import types as _t
        cls = naming.NewNaming if name.startswith("new") else naming.OldNaming
        return cls.versioned_module_name.fget(_t.SimpleNamespace(module_name=args[0], version=args[1]))
    if name == "metadata_doc":
        from gapic.schema import metadata
        from google.protobuf import descriptor_pb2
        loc = descriptor_pb2.SourceCodeInfo.Location(leading_comments=args[0], trailing_comments=args[1], leading_detached_comments=args[2])
        return metadata.Metadata(documentation=loc).doc
    if name.startswith("address_") and name != "address_resolve":
        return call_address(name, args)
    f = _resolve(meta["file"], meta["qual"])
    if name == "address_resolve":
        from gapic.schema import metadata
        return metadata.Address(package=tuple(args[0])).resolve(args[1])
    return f(*args)


def call_address(name, args):
    """the real Address method, run on a stand-in `self` that carries exactly the attributes / properties the translation takes as parameters"""
    from gapic.schema import metadata
    import types as _t
    A = metadata.Address

    def prop(n):
        p = A.__dict__[n]
        return p.fget if isinstance(p, property) else (p.func if hasattr(p, "func") else p)

    class Naming(_t.SimpleNamespace):
        def __bool__(self):
            return self.truthy
    if name == "address_str":
        m, parent, nm, alias, pp = args
        return A.__str__(_t.SimpleNamespace(module=m, parent=tuple(parent), name=nm, module_alias=alias, is_proto_plus_type=pp))
    if name == "address_module_alias":
        m, coll, pk, v = args
        return prop("module_alias")(_t.SimpleNamespace(module=m, collisions=frozenset(coll), package=tuple(pk), api_naming=_t.SimpleNamespace(version=v)))
    if name == "address_proto":
        return prop("proto")(_t.SimpleNamespace(package=tuple(args[0]), parent=tuple(args[1]), name=args[2]))
    if name == "address_proto_package":
        return prop("proto_package")(_t.SimpleNamespace(package=tuple(args[0])))
    if name == "address_versioned_package":
        return list(A.convert_to_versioned_package(_t.SimpleNamespace(package=tuple(args[0]))))
    if name == "address_subpackage":
        return list(prop("subpackage")(_t.SimpleNamespace(package=tuple(args[0]), api_naming=_t.SimpleNamespace(proto_package=args[1]))))
    if name in ("address_python_import", "address_sphinx"):
        if name == "address_python_import":
            pk, m, ns, vmn, app, nt, pp_, sub, ipp, vp, alias = args
            parent, nm, sstr = (), "", ""
        else:
            pk, m, parent, nm, ns, vmn, app, nt, pp_, sub, ipp, vp, sstr = args
            alias = ""
        naming = Naming(truthy=nt, module_namespace=tuple(ns), versioned_module_name=vmn, proto_package=app)

        class Self(_t.SimpleNamespace):
            def __str__(self):
                return sstr

            def convert_to_versioned_package(self):
                return tuple(vp)
        me = Self(package=tuple(pk), module=m, parent=tuple(parent), name=nm, api_naming=naming, proto_package=pp_, subpackage=tuple(sub),
                  is_proto_plus_type=ipp, module_alias=alias)
        if name == "address_sphinx":
            return prop("sphinx")(me)
        imp_ = prop("python_import")(me)
        return {"package": list(imp_.package), "module": imp_.module, "alias": imp_.alias}
    if name == "address_rel":
        pk, m, parent, nm, opk, om, op, on, sstr = args

        class Self(_t.SimpleNamespace):
            def __str__(self):
                return sstr
        return A.rel(Self(package=tuple(pk), module=m, parent=tuple(parent), name=nm),
                     _t.SimpleNamespace(package=tuple(opk), module=om, parent=tuple(op), name=on))
    raise Skip()


def check_functions(ctx, names, n):
    """`names`: translated functions this property relies on"""
    import pyfun2lean
    r = ctx.rng("pyrt")
    check_primitives(ctx, r, max(20, n // 4))
    funcs = pyfun2lean.translate_functions()
    ops, metas = [], []
    for name in names:
        meta = funcs.get(name, {})
        for args in list(POOLS.get(name, [])) + [GENS[name](r) for _ in range(n)]:      # the whole corner-case pool first, then random
            if any(isinstance(a, str) and not a.isascii() for a in args):
                ctx.count("pyrt_unsupported", "non-ascii")      # PyRt.lower is the ASCII map: outside the translated domain
                continue
            try:
                want = call_real(name, {"file": meta.get("file", ""), "qual": meta.get("qual", name)}, args)
            except Skip:
                ctx.count("pyrt_unsupported", "not reachable through the public function")
                continue
            except Exception as e:
                want = {"raised": type(e).__name__}
            ops.append({"op": "fn", "name": name, "args": args}); metas.append((name, args, want))
    for (name, args, want), mo in zip(metas, ctx.driver.ask(ops)):
        ctx.case(distinct_key=["fn", name, json.dumps(args)]); ctx.traces += 1
        ctx.count("translated_function", name)
        if mo.get("r") != want:
            ctx.disagree("T2:fn." + name, f"{name}{tuple(args)}: pinned translation {mo.get('r', mo)!r} vs /repo {want!r}", {"op": {"op": "fn", "name": name, "args": args}})


def check_address(ctx, n):
    """T2 of the COMPOSED Address model (Model/AddressT.lean: translated method bodies + hand-written plumbing and is_proto_plus_type)
    against real `metadata.Address` objects carrying real `Naming` objects: __str__, module_alias, is_proto_plus_type, proto,
    proto_package, subpackage, python_import (and the name it binds), rel(other), sphinx."""
    from gapic.schema import metadata, naming as naming_mod
    r = ctx.rng("pyrt-address")
    segs = ["acme", "lib", "v1", "v2beta1", "a_b", "x__y", "z_", "cloud", "dep", "common", "types"]
    mods = ["common", "lib", "import", "type", "other", "x_y", ""]
    names = ["Book", "Tree", "Branch", "Other", "B"]

    def rand_naming():
        if r.maybe(0.15):
            return naming_mod.NewNaming()                                  # the all-default Naming: bool() is False
        pp = [r.pick(segs) for _ in range(r.randint(1, 4))]
        deps = tuple(".".join(r.pick(segs) for _ in range(r.randint(1, 3))) for _ in range(r.randint(0, 2)))
        cls = naming_mod.NewNaming if r.maybe(0.7) else naming_mod.OldNaming
        return cls(name=r.pick(["Lib", "Cloud Vision", "a-b", ""]), namespace=tuple(r.pick(["Acme", "Google Cloud", "x"]) for _ in range(r.randint(0, 2))),
                   version=r.pick(["v1", "v2beta1", "", "lib"]), proto_package=".".join(pp), proto_plus_deps=deps)

    def rand_addr(nm, like=None):
        if like is not None and r.maybe(0.6):                                # same file as `like` more often than chance would give
            pk, mod = like.package, like.module
        else:
            base = nm.proto_package.split(".") if (nm.proto_package and r.maybe(0.5)) else [r.pick(segs) for _ in range(r.randint(1, 4))]
            if nm.proto_plus_deps and r.maybe(0.3):
                base = nm.proto_plus_deps[0].split(".")
            pk, mod = tuple(base + [r.pick(segs) for _ in range(r.randint(0, 1))]), r.pick(mods)
        parent = tuple(r.pick(names) for _ in range(r.randint(0, 3)))
        coll = frozenset(r.pick(mods + ["Book"]) for _ in range(r.randint(0, 3)))
        return metadata.Address(name=r.pick(names), module=mod, package=pk, parent=parent, api_naming=nm, collisions=coll)

    def nv(nm):
        return {"truthy": bool(nm), "proto_package": nm.proto_package, "version": nm.version, "module_namespace": list(nm.module_namespace),
                "versioned_module_name": nm.versioned_module_name, "proto_plus_deps": list(nm.proto_plus_deps)}

    def av(a):
        return {"name": a.name, "module": a.module, "package": list(a.package), "parent": list(a.parent), "collisions": sorted(a.collisions), "naming": nv(a.api_naming)}

    cases = []
    for _ in range(n):
        nm = rand_naming()
        a = rand_addr(nm); b = rand_addr(nm, like=a)
        cases.append((a, b))
    outs = ctx.driver.ask([{"op": "addr", "a": av(a), "b": av(b)} for a, b in cases])
    for (a, b), mo in zip(cases, outs):
        ctx.case(distinct_key=["addr", repr(a), repr(b)]); ctx.traces += 1
        imp_ = a.python_import
        real = {"str": str(a), "module_alias": a.module_alias, "is_proto_plus_type": bool(a.is_proto_plus_type), "proto": a.proto,
                "proto_package": a.proto_package, "subpackage": list(a.subpackage),
                "python_import": {"package": list(imp_.package), "module": imp_.module, "alias": imp_.alias},
                "bound": imp_.alias or imp_.module, "rel": a.rel(b), "sphinx": a.sphinx}
        ctx.count("address_same_file", a.package == b.package and a.module == b.module)
        ctx.count("address_import_branch", "no-naming" if not a.api_naming else "own-api" if a.proto_package.startswith(a.api_naming.proto_package)
                  else "proto-plus-dep" if a.is_proto_plus_type else "pb2")
        ctx.count("address_alias", bool(a.module_alias))
        for k, want in real.items():
            if mo.get(k) != want:
                ctx.disagree("T2:addr." + k, f"composed Address model {mo.get(k, mo)!r} vs /repo {want!r} for {a!r} (other {b!r})", {"op": {"op": "addr", "a": av(a), "b": av(b)}})
                break
        # the theorem `import_binds_str_head`, evaluated on the implementation
        if a.module and str(a) != ".".join((real["bound"],) + a.parent + (a.name,)):
            ctx.fail("import-binds-other-name", f"str(address) = {str(a)!r} but its import binds {real['bound']!r}", {"a": av(a)})
