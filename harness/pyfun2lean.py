"""T1-f: translate small pure Python functions of /repo's CURRENT source into Lean definitions over GapicModel.PyRt
(DESIGN §12.6).  The translated text goes to Generated/Funcs.lean on every run and to Pinned/Funcs.lean with `--pin`;
Bridge/Funcs.lean proves `@Generated.Funcs.f = @Pinned.Funcs.f` by `rfl` for every function, so a change of the Python
source that changes the translation breaks exactly the lemma named after the function (the theorems are stated about the
Pinned definitions).  The subset is deliberately small; anything outside it is refused (never approximated):

  def f(params: str | int | bool | Sequence[str]) -> str | int | bool | List[str]        (self.<attr> params for methods)
  statements   docstring; x = e; x += e; if/elif/else; return e
  expressions  str/int/bool constants, names, module-level string constants, and/or/not, comparisons (== != < <= > >= in, not in),
               len bool str, + (str, int), - (int), f-strings, conditional expressions, slices, `e.split(sep)[0]`,
               str methods startswith endswith strip lstrip rstrip lower upper capitalize replace split join expandtabs,
               re.sub re.match re.search re.fullmatch (pattern / replacement literal or module constant; CPython's parser
               gives the AST), generator/list comprehensions with one `for` (inside join/tuple/list), calls of other
               translated functions, membership in a pinned table; tuple/list displays of str and `+` on them, comprehensions with
               several `for`s (flatMap), `tuple(<list>)`; index expressions `s[k]` / `xs[k]` with a constant k: the function then
               gets a companion `<key>_ok : … → Bool` that is true exactly when every index expression evaluated on the path taken
               is in range (Python raises IndexError otherwise; short-circuit `and`/`or`/conditional expressions and `if` guard
               their operands), the driver answers `{"raised": "IndexError"}` when it is false, and theorems about the function
               carry `_ok` as an explicit hypothesis; `m = re.match(p, s)` bound to a local (pattern may be a local string
               constant) with `m[0]` allowed only under `if m …:`; `imp.Import(package=, module=, alias=)` as a structure.
"""
from __future__ import annotations
import ast, os
import translate as T


class Refused(Exception):
    pass


# (key, file, qualified function name, self-attributes passed as parameters [(attr, type)], Lean name)
FUNCS = [
    ("to_valid_filename", "gapic/utils/filename.py", "to_valid_filename", []),
    ("to_valid_module_name", "gapic/utils/filename.py", "to_valid_module_name", []),
    ("to_snake_case", "gapic/utils/case.py", "to_snake_case", []),
    ("is_list_item", "gapic/utils/lines.py", "is_list_item", []),
    ("get_subsequent_line_indentation_level", "gapic/utils/lines.py", "get_subsequent_line_indentation_level", []),
    ("address_resolve", "gapic/schema/metadata.py", "Address.resolve", [("package", "ListStr")]),
    ("fix_whitespace", "gapic/generator/formatter.py", "fix_whitespace", []),
    ("make_private", "gapic/utils/code.py", "make_private", []),
    ("coerce_response_name", "gapic/samplegen_utils/utils.py", "coerce_response_name", []),
    ("to_camel_case", "gapic/utils/case.py", "to_camel_case", []),
    ("fix_name_segment", "gapic/utils/uri_conv.py", "convert_uri_fieldnames._fix_name_segment", []),
    ("fix_field_path", "gapic/utils/uri_conv.py", "convert_uri_fieldnames._fix_field_path", []),
    ("field_header_disambiguated", "gapic/schema/wrappers.py", "FieldHeader.disambiguated", [("raw", "Str")]),
    ("routing_param_disambiguated_field", "gapic/schema/wrappers.py", "RoutingParameter.disambiguated_field", [("field", "Str")]),
    ("client_method_name", "gapic/schema/wrappers.py", "Method.client_method_name", [("name", "Str"), ("is_internal", "Bool")]),
    ("sort_lines", "gapic/utils/lines.py", "sort_lines", []),
    ("service_client_name", "gapic/schema/wrappers.py", "Service.client_name", [("is_internal", "Bool"), ("name", "Str")]),
    ("service_async_client_name", "gapic/schema/wrappers.py", "Service.async_client_name", [("is_internal", "Bool"), ("name", "Str")]),
    ("service_transport_name", "gapic/schema/wrappers.py", "Service.transport_name", [("name", "Str")], {"ret": "Str"}),
    ("service_grpc_transport_name", "gapic/schema/wrappers.py", "Service.grpc_transport_name", [("name", "Str")], {"ret": "Str"}),
    ("service_grpc_asyncio_transport_name", "gapic/schema/wrappers.py", "Service.grpc_asyncio_transport_name", [("name", "Str")], {"ret": "Str"}),
    ("service_rest_transport_name", "gapic/schema/wrappers.py", "Service.rest_transport_name", [("name", "Str")], {"ret": "Str"}),
    ("service_module_name", "gapic/schema/wrappers.py", "Service.module_name", [("name", "Str")]),
    ("naming_module_name", "gapic/schema/naming.py", "Naming.module_name", [("name", "Str")]),
    ("new_naming_versioned_module_name", "gapic/schema/naming.py", "NewNaming.versioned_module_name", [("module_name", "Str"), ("version", "Str")]),
    ("old_naming_versioned_module_name", "gapic/schema/naming.py", "OldNaming.versioned_module_name", [("module_name", "Str"), ("version", "Str")]),
    # `subst`: sub-expressions (by source text) that become parameters; `ret`: the return type of an un-annotated property
    ("metadata_doc", "gapic/schema/metadata.py", "Metadata.doc", [],
     {"subst": {"self.documentation.leading_comments": ("leading", "Str"), "self.documentation.trailing_comments": ("trailing", "Str"),
                "self.documentation.leading_detached_comments": ("detached", "ListStr")}, "ret": "Str"}),
    ("field_name", "gapic/schema/wrappers.py", "Field.name", [],
     {"subst": {"self.field_pb.name": ("pb_name", "Str"), "self.meta.address.is_proto_plus_type": ("is_proto_plus_type", "Bool")}}),
    ("method_void", "gapic/schema/wrappers.py", "Method.void", [], {"subst": {"self.output.ident.proto": ("output_proto", "Str")}}),
    ("service_client_package_version", "gapic/schema/wrappers.py", "Service.client_package_version", [],
     {"subst": {"self.meta.address.package": ("package", "ListStr")}}),
    ("import_str", "gapic/schema/imp.py", "Import.__str__", [("alias", "Str"), ("module", "Str"), ("package", "ListStr")]),
    ("service_shortname", "gapic/schema/wrappers.py", "Service.shortname", [("host", "Str")]),
    ("naming_long_name", "gapic/schema/naming.py", "Naming.long_name", [("namespace", "ListStr"), ("name", "Str")]),
    ("naming_module_namespace", "gapic/schema/naming.py", "Naming.module_namespace", [("namespace", "ListStr")]),
    ("naming_warehouse_package_name", "gapic/schema/naming.py", "Naming.warehouse_package_name",
     [("_warehouse_package_name", "Str"), ("namespace", "ListStr"), ("name", "Str")]),
    # gapic/schema/metadata.py: Address — the naming of every type reference and import (C01, C02, C12).  Properties of `self` that
    # a function reads become parameters (`subst`); Model/AddressT.lean composes the pieces the way the properties call each other.
    ("address_str", "gapic/schema/metadata.py", "Address.__str__", [("module", "Str"), ("parent", "ListStr"), ("name", "Str")],
     {"subst": {"self.module_alias": ("module_alias", "Str"), "self.is_proto_plus_type": ("is_proto_plus_type", "Bool")}}),
    ("address_module_alias", "gapic/schema/metadata.py", "Address.module_alias", [("module", "Str"), ("collisions", "ListStr"), ("package", "ListStr")],
     {"subst": {"self.api_naming.version": ("api_version", "Str")}}),
    ("address_proto", "gapic/schema/metadata.py", "Address.proto", [("package", "ListStr"), ("parent", "ListStr"), ("name", "Str")]),
    ("address_proto_package", "gapic/schema/metadata.py", "Address.proto_package", [("package", "ListStr")]),
    ("address_versioned_package", "gapic/schema/metadata.py", "Address.convert_to_versioned_package", [("package", "ListStr")]),
    ("address_subpackage", "gapic/schema/metadata.py", "Address.subpackage", [("package", "ListStr")],
     {"subst": {"self.api_naming.proto_package": ("api_proto_package", "Str")}}),
    ("address_python_import", "gapic/schema/metadata.py", "Address.python_import", [("package", "ListStr"), ("module", "Str")],
     {"subst": {"self.api_naming.module_namespace": ("api_module_namespace", "ListStr"), "self.api_naming.versioned_module_name": ("api_versioned_module_name", "Str"),
                "self.api_naming.proto_package": ("api_proto_package", "Str"), "self.api_naming": ("api_naming_truthy", "Bool"),
                "self.proto_package": ("proto_package", "Str"), "self.subpackage": ("subpackage", "ListStr"),
                "self.is_proto_plus_type": ("is_proto_plus_type", "Bool"), "self.convert_to_versioned_package()": ("versioned_package", "ListStr"),
                "self.module_alias": ("module_alias", "Str")}, "ret": "Import"}),
    ("address_rel", "gapic/schema/metadata.py", "Address.rel", [("package", "ListStr"), ("module", "Str"), ("parent", "ListStr"), ("name", "Str")],
     {"subst": {"address.package": ("other_package", "ListStr"), "address.module": ("other_module", "Str"), "address.parent": ("other_parent", "ListStr"),
                "address.name": ("other_name", "Str"), "str(self)": ("self_str", "Str")}, "skip_params": ["address"]}),
    ("address_sphinx", "gapic/schema/metadata.py", "Address.sphinx", [("package", "ListStr"), ("module", "Str"), ("parent", "ListStr"), ("name", "Str")],
     {"subst": {"self.api_naming.module_namespace": ("api_module_namespace", "ListStr"), "self.api_naming.versioned_module_name": ("api_versioned_module_name", "Str"),
                "self.api_naming.proto_package": ("api_proto_package", "Str"), "self.api_naming": ("api_naming_truthy", "Bool"),
                "self.proto_package": ("proto_package", "Str"), "self.subpackage": ("subpackage", "ListStr"),
                "self.is_proto_plus_type": ("is_proto_plus_type", "Bool"), "self.convert_to_versioned_package()": ("versioned_package", "ListStr"),
                "str(self)": ("self_str", "Str")}}),
]

TABLES = {"RESERVED_NAMES": "reservedNames", "kwlist": "pyKeywords"}       # module-level tables available as Pinned.<name> : List String

TY = {"str": "Str", "int": "Int", "bool": "Bool"}
LEAN_TY = {"Str": "Str", "Int": "Int", "Bool": "Bool", "ListStr": "List Str", "SetStr": "List Str", "Match": "Option Str", "Import": "PyImport"}
# "SetStr": a Python set of str, represented by a duplicate-free list; the only thing a translated function may do with it is
# `sorted(...)` (its iteration order is unspecified) or a truth test


def _find_func(tree, qual):
    parts = qual.split(".")
    body = tree.body
    node = None
    for p in parts:
        node = next((n for n in body if isinstance(n, (ast.FunctionDef, ast.ClassDef)) and n.name == p), None)
        if node is None:
            raise Refused(f"{qual}: not found")
        body = node.body
    if not isinstance(node, ast.FunctionDef):
        raise Refused(f"{qual}: not a function")
    return node


def _module_consts(tree):
    out = {}
    for n in tree.body:
        if isinstance(n, ast.Assign) and len(n.targets) == 1 and isinstance(n.targets[0], ast.Name):
            if isinstance(n.value, ast.Constant) and isinstance(n.value.value, str):
                out[n.targets[0].id] = n.value.value
    return out


def lean_chars(s: str) -> str:
    return "[" + ", ".join(T.lean_char(ord(c)) for c in s) + "]"


def lean_repl(j) -> str:
    """replacement template with explicit character lists (String.toList on literals is very slow in the kernel)"""
    return "[" + ", ".join(f".lit {lean_chars(it[1])}" if it[0] == "lit" else f".grp {it[1]}" for it in j) + "]"


class Tr:
    def __init__(self, tree, fn, self_attrs, known, subst=None):
        self.tree, self.fn, self.known = tree, fn, known
        self.subst = dict(subst or {})      # source text of a sub-expression -> (parameter name, type)
        self.consts = _module_consts(tree)
        self.self_attrs = dict(self_attrs)
        self.env = {}
        self.nonempty = set()          # locals bound (once) to the result of str.split / re.split
        self.local_consts = {}         # locals bound to a string constant (usable as a regex pattern)
        self.guarded = set()           # Match-typed locals known to be truthy in the branch being translated

    # ---- types
    def ann(self, a):
        if a is None:
            raise Refused("missing annotation")
        if isinstance(a, ast.Name) and a.id in TY:
            return TY[a.id]
        src = ast.unparse(a)
        if src in ("List[str]", "Sequence[str]", "Tuple[str, ...]", "Iterable[str]"):
            return "ListStr"
        raise Refused(f"type {src}")

    def truthy(self, e):
        t, ty = self.expr(e)
        if ty == "Bool":
            return t
        if ty in ("Str", "ListStr", "SetStr"):
            return f"(truthy {t})"
        if ty == "Int":
            return f"({t} != 0)"
        if ty == "Match":
            return f"({t}).isSome"
        raise Refused(f"truthiness of {ty}")

    def pattern(self, e):
        if isinstance(e, ast.Constant) and isinstance(e.value, str):
            p = e.value
        elif isinstance(e, ast.Name) and e.id in self.local_consts:
            p = self.local_consts[e.id]
        elif isinstance(e, ast.Name) and e.id in self.consts:
            p = self.consts[e.id]
        else:
            raise Refused("regex pattern is not a literal or module constant")
        try:
            j = T.regex_to_json(p)
        except Exception as ex:
            raise Refused(f"regex {p!r}: {ex}")
        return T.lean_re(j["re"])

    def strlit(self, e, what="argument"):
        if isinstance(e, ast.Constant) and isinstance(e.value, str):
            return e.value
        if isinstance(e, ast.Name) and e.id in self.consts:
            return self.consts[e.id]
        raise Refused(f"{what} must be a string literal")

    # ---- expressions: (lean text, type)
    def expr(self, e):
        if self.subst and not isinstance(e, ast.Constant):
            src = ast.unparse(e)
            if src in self.subst:
                return self.subst[src]
        if isinstance(e, ast.Constant):
            v = e.value
            if isinstance(v, bool): return ("true" if v else "false"), "Bool"
            if isinstance(v, int): return (f"({v} : Int)"), "Int"
            if isinstance(v, str): return f"({lean_chars(v)} : Str)", "Str"
            raise Refused(f"constant {v!r}")
        if isinstance(e, ast.Name):
            if e.id in self.env: return self.env[e.id]
            if e.id in self.consts: return f"({lean_chars(self.consts[e.id])} : Str)", "Str"
            raise Refused(f"name {e.id}")
        if isinstance(e, ast.Attribute) and isinstance(e.value, ast.Name) and e.value.id == "self" and e.attr in self.self_attrs:
            return f"self_{e.attr}", self.self_attrs[e.attr]
        if isinstance(e, ast.BoolOp):
            op = " && " if isinstance(e.op, ast.And) else " || "
            return "(" + op.join(self.truthy(v) for v in e.values) + ")", "Bool"
        if isinstance(e, ast.UnaryOp) and isinstance(e.op, ast.Not):
            return f"(!{self.truthy(e.operand)})", "Bool"
        if isinstance(e, ast.UnaryOp) and isinstance(e.op, ast.USub) and isinstance(e.operand, ast.Constant) and isinstance(e.operand.value, int):
            return f"(-{e.operand.value} : Int)", "Int"
        if isinstance(e, ast.Compare):
            if len(e.ops) != 1: raise Refused("chained comparison")
            return self.compare(e.left, e.ops[0], e.comparators[0])
        if isinstance(e, ast.IfExp):
            a, ta = self.expr(e.body); b, tb = self.expr(e.orelse)
            if ta != tb: raise Refused("conditional expression with two types")
            return f"(if {self.truthy(e.test)} then {a} else {b})", ta
        if isinstance(e, ast.BinOp):
            a, ta = self.expr(e.left); b, tb = self.expr(e.right)
            if isinstance(e.op, ast.Add) and ta == tb == "Str": return f"({a} ++ {b})", "Str"
            if isinstance(e.op, ast.Add) and ta == tb == "ListStr": return f"({a} ++ {b})", "ListStr"
            if isinstance(e.op, ast.Add) and ta == tb == "Int": return f"({a} + {b})", "Int"
            if isinstance(e.op, ast.Sub) and ta == tb == "Int": return f"({a} - {b})", "Int"
            raise Refused(f"operator {type(e.op).__name__} on {ta}, {tb}")
        if isinstance(e, ast.JoinedStr):
            parts = []
            for v in e.values:
                if isinstance(v, ast.Constant):
                    parts.append(f"({lean_chars(v.value)} : Str)")
                elif isinstance(v, ast.FormattedValue) and v.conversion == -1 and v.format_spec is None:
                    t, ty = self.expr(v.value)
                    if ty != "Str": raise Refused("f-string field that is not a str")
                    parts.append(t)
                else:
                    raise Refused("f-string conversion / format spec")
            return "(" + " ++ ".join(parts or ["([] : Str)"]) + ")", "Str"
        if isinstance(e, (ast.Tuple, ast.List)):
            items = [self.expr(x) for x in e.elts]
            if any(t != "Str" for _, t in items): raise Refused("tuple/list display of non-str")
            return "([" + ", ".join(t for t, _ in items) + "] : List Str)", "ListStr"
        if isinstance(e, (ast.GeneratorExp, ast.ListComp)):
            return self.comp(e)
        if isinstance(e, ast.Subscript):
            return self.subscript(e)
        if isinstance(e, ast.Call):
            return self.call(e)
        raise Refused(f"expression {type(e).__name__}")

    def compare(self, l, op, r):
        if isinstance(op, (ast.In, ast.NotIn)):
            neg = "!" if isinstance(op, ast.NotIn) else ""
            a, ta = self.expr(l)
            if ta != "Str": raise Refused("membership of a non-str")
            if isinstance(r, (ast.List, ast.Tuple)):
                items = [self.expr(x) for x in r.elts]
                if any(t != "Str" for _, t in items): raise Refused("membership list of non-str")
                return f"({neg}strIn {a} [{', '.join(t for t, _ in items)}])", "Bool"
            if isinstance(r, ast.Name) and r.id in TABLES:
                return f"({neg}strIn {a} (GapicModel.Pinned.{TABLES[r.id]}.map String.toList))", "Bool"
            if isinstance(r, ast.Attribute) and r.attr in TABLES:
                return f"({neg}strIn {a} (GapicModel.Pinned.{TABLES[r.attr]}.map String.toList))", "Bool"
            b, tb = self.expr(r)
            if tb == "Str": return f"({neg}contains {a} {b})", "Bool"
            if tb == "ListStr": return f"({neg}strIn {a} {b})", "Bool"
            raise Refused(f"membership in {tb}")
        a, ta = self.expr(l); b, tb = self.expr(r)
        if ta != tb: raise Refused(f"comparison of {ta} with {tb}")
        if isinstance(op, ast.Eq): return f"({a} == {b})", "Bool"
        if isinstance(op, ast.NotEq): return f"({a} != {b})", "Bool"
        if ta != "Int": raise Refused("ordering of non-ints")
        sym = {ast.Lt: "<", ast.LtE: "≤", ast.Gt: ">", ast.GtE: "≥"}.get(type(op))
        if not sym: raise Refused("comparison operator")
        return f"(decide ({a} {sym} {b}))", "Bool"

    def subscript(self, e):
        if isinstance(e.slice, ast.Slice):
            if e.slice.step is not None: raise Refused("slice step")
            v, tv = self.expr(e.value)
            if tv not in ("Str", "ListStr"): raise Refused("slice of " + tv)
            def bound(b):
                if b is None: return "none"
                t, ty = self.expr(b)
                if ty != "Int": raise Refused("slice bound")
                return f"(some {t})"
            return f"(slice {v} {bound(e.slice.lower)} {bound(e.slice.upper)})", tv
        if isinstance(e.slice, ast.Constant) and e.slice.value == 0 and isinstance(e.value, ast.Call) \
                and isinstance(e.value.func, ast.Attribute) and e.value.func.attr == "split":
            v, tv = self.expr(e.value)
            return f"(head0 {v})", "Str"
        if isinstance(e.slice, ast.Constant) and e.slice.value == 0 and isinstance(e.value, ast.Name) and e.value.id in self.nonempty:
            v, tv = self.expr(e.value)          # a local bound to a `split` result: never empty
            return f"(head0 {v})", "Str"
        if isinstance(e.slice, ast.Constant) and isinstance(e.slice.value, int) and not isinstance(e.slice.value, bool) or \
                (isinstance(e.slice, ast.UnaryOp) and isinstance(e.slice.op, ast.USub) and isinstance(e.slice.operand, ast.Constant)
                 and isinstance(e.slice.operand.value, int)):
            k = e.slice.value if isinstance(e.slice, ast.Constant) else -e.slice.operand.value
            v, tv = self.expr(e.value)
            if tv == "Match":
                if k != 0 or not (isinstance(e.value, ast.Name) and e.value.id in self.guarded):
                    raise Refused("m[k] of a match object outside `if m …:` or with k != 0")
                return f"(matchText {v})", "Str"
            if tv == "Str": return f"(idxStr {v} ({k} : Int))", "Str"          # in range: see ok_expr
            if tv == "ListStr": return f"(idxList {v} ({k} : Int))", "Str"
            raise Refused("index of " + tv)
        raise Refused("index expression with a non-constant index")

    def comp(self, g):
        """generator / list comprehension `elt for x in <ListStr> [if c] for y in <ListStr> [if c] …` -> List Str"""
        gens = g.generators
        saved = dict(self.env)
        try:
            srcs = []
            for gen in gens:
                if not isinstance(gen.target, ast.Name) or gen.is_async: raise Refused("comprehension target")
                src, ts = self.expr(gen.iter)
                if ts != "ListStr": raise Refused("comprehension over " + ts)
                x = gen.target.id
                self.env[x] = (x + "_", "Str")
                for cond in gen.ifs:
                    src = f"(({src}).filter fun {x}_ => {self.truthy(cond)})"
                srcs.append((x, src))
            body, tb = self.expr(g.elt)
            if tb != "Str": raise Refused("comprehension element " + tb)
        finally:
            self.env = saved
        x, src = srcs[-1]
        out = f"(({src}).map fun {x}_ => {body})"
        for x, src in reversed(srcs[:-1]):
            out = f"(({src}).flatMap fun {x}_ => {out})"
        return out, "ListStr"

    def call(self, e):
        f = e.func
        if isinstance(f, ast.Attribute) and isinstance(f.value, ast.Name) and f.value.id == "imp" and f.attr == "Import" and not e.args:
            kw = {k.arg: k.value for k in e.keywords}
            if not set(kw) <= {"package", "module", "alias"} or "package" not in kw or "module" not in kw: raise Refused("imp.Import keywords")
            pk, tpk = self.expr(kw["package"]); mo, tmo = self.expr(kw["module"])
            al, tal = self.expr(kw["alias"]) if "alias" in kw else ("([] : Str)", "Str")
            if (tpk, tmo, tal) != ("ListStr", "Str", "Str"): raise Refused("imp.Import argument types")
            return f"(PyImport.mk {pk} {mo} {al})", "Import"
        if e.keywords: raise Refused("keyword arguments")
        if isinstance(f, ast.Name):
            if f.id == "len" and len(e.args) == 1:
                t, ty = self.expr(e.args[0])
                if ty not in ("Str", "ListStr"): raise Refused("len of " + ty)
                return f"(len {t})", "Int"
            if f.id == "bool" and len(e.args) == 1:
                return self.truthy(e.args[0]), "Bool"
            if f.id == "str" and len(e.args) == 1:
                t, ty = self.expr(e.args[0])
                if ty != "Str": raise Refused("str() of " + ty)
                return t, "Str"
            if f.id in ("tuple", "list") and len(e.args) == 1 and isinstance(e.args[0], (ast.GeneratorExp, ast.ListComp)):
                return self.comp(e.args[0])
            if f.id in ("tuple", "list") and len(e.args) == 1:
                t, ty = self.expr(e.args[0])
                if ty != "ListStr": raise Refused(f.id + "() of " + ty)
                return t, "ListStr"
            if f.id == "set" and len(e.args) == 1:
                t, ty = self.comp(e.args[0]) if isinstance(e.args[0], (ast.GeneratorExp, ast.ListComp)) else self.expr(e.args[0])
                if ty != "ListStr": raise Refused("set() of " + ty)
                return f"(dedup {t})", "SetStr"
            if f.id == "sorted" and len(e.args) == 1:
                t, ty = self.comp(e.args[0]) if isinstance(e.args[0], (ast.GeneratorExp, ast.ListComp)) else self.expr(e.args[0])
                if ty not in ("ListStr", "SetStr"): raise Refused("sorted() of " + ty)
                return f"(sortStr {t})", "ListStr"
            if f.id in self.known:
                sig = self.known[f.id]
                lean_name = sig.get("lean", f.id)
                if len(e.args) != len(sig["params"]): raise Refused("arity of " + f.id)
                args = []
                for a, (_, pty) in zip(e.args, sig["params"]):
                    t, ty = self.expr(a)
                    if ty != pty: raise Refused(f"argument type {ty} for {pty}")
                    args.append(t)
                return f"({lean_name} {' '.join(args)})", sig["ret"]
            raise Refused(f"call of {f.id}")
        if isinstance(f, ast.Attribute) and isinstance(f.value, ast.Name) and f.value.id == "utils" and f.attr in self.known:
            return self.call(ast.Call(func=ast.Name(id=f.attr, ctx=ast.Load()), args=e.args, keywords=[]))      # gapic.utils re-exports the function
        if isinstance(f, ast.Attribute) and isinstance(f.value, ast.Name) and f.value.id == "re":
            if f.attr == "sub" and len(e.args) == 3:
                pat = self.pattern(e.args[0])
                repl = lean_repl(T.repl_to_json(self.strlit(e.args[1], "replacement")))
                s, ts = self.expr(e.args[2])
                if ts != "Str": raise Refused("re.sub on " + ts)
                return f"(reSub {pat} {repl} {s})", "Str"
            if f.attr == "split" and len(e.args) == 2:
                pstr = self.strlit(e.args[0], "pattern")
                if T.regex_to_json(pstr)["minwidth"] < 1 or T.regex_to_json(pstr)["ngroups"] != 0:
                    raise Refused("re.split with a pattern that can match the empty string or has groups")
                s_, ts = self.expr(e.args[1])
                if ts != "Str": raise Refused("re.split on " + ts)
                return f"(reSplit {self.pattern(e.args[0])} {s_})", "ListStr"
            if f.attr in ("match", "search", "fullmatch") and len(e.args) == 2:
                pat = self.pattern(e.args[0]); s, ts = self.expr(e.args[1])
                if ts != "Str": raise Refused("re.%s on %s" % (f.attr, ts))
                return f"(re{f.attr.capitalize()} {pat} {s})", "Bool"      # only ever used for its truth value
            raise Refused("re." + f.attr)
        if isinstance(f, ast.Attribute):
            if f.attr == "join" and len(e.args) == 1:
                sep, tsep = self.expr(f.value)
                if tsep != "Str": raise Refused("join on " + tsep)
                a = e.args[0]
                xs, tx = self.comp(a) if isinstance(a, (ast.GeneratorExp, ast.ListComp)) else self.expr(a)
                if tx != "ListStr": raise Refused("join of " + tx)
                return f"(join {sep} {xs})", "Str"
            v, tv = self.expr(f.value)
            if tv != "Str": raise Refused(f"method {f.attr} on {tv}")
            n = len(e.args)
            if f.attr in ("startswith", "endswith") and n == 1:
                a, ta = self.expr(e.args[0])
                if ta != "Str": raise Refused(f.attr + " with " + ta)
                return f"({f.attr} {v} {a})", "Bool"
            if f.attr in ("strip", "lstrip", "rstrip", "lower", "upper", "capitalize", "expandtabs") and n == 0:
                return f"({f.attr} {v})", "Str"
            if f.attr == "replace" and n in (2, 3):
                old = self.strlit(e.args[0], "replace(old)")
                if not old: raise Refused("replace with empty old")
                new, tn = self.expr(e.args[1])
                if tn != "Str": raise Refused("replace new " + tn)
                if n == 2: return f"(replace {v} {lean_chars(old)} {new})", "Str"
                c, tc = self.expr(e.args[2])
                if tc != "Int": raise Refused("replace count")
                return f"(replaceN {v} {lean_chars(old)} {new} {c})", "Str"
            if f.attr == "split" and n == 1:
                sep = self.strlit(e.args[0], "split(sep)")
                if not sep: raise Refused("split with empty sep")
                return f"(split {v} {lean_chars(sep)})", "ListStr"
            raise Refused(f"str method {f.attr}/{n}")
        raise Refused("call")

    def _guards(self, test):
        """Match-typed locals that are truthy whenever `test` is"""
        if isinstance(test, ast.Name) and self.env.get(test.id, (None, None))[1] == "Match":
            return {test.id}
        if isinstance(test, ast.BoolOp) and isinstance(test.op, ast.And):
            out = set()
            for v in test.values:
                out |= self._guards(v)
            return out
        return set()

    # ---- definedness: a Bool expression that is true iff no index expression evaluated by `e` is out of range
    @staticmethod
    def _and(a, b):
        if a == "true": return b
        if b == "true": return a
        return f"({a} && {b})"

    def ok_expr(self, e):
        if self.subst and not isinstance(e, ast.Constant) and ast.unparse(e) in self.subst:
            return "true"
        if isinstance(e, ast.BoolOp):
            vals = list(e.values)
            acc = self.ok_expr(vals[-1])
            for v in reversed(vals[:-1]):
                if acc != "true":
                    t = self.truthy(v)
                    acc = f"(!{t} || {acc})" if isinstance(e.op, ast.And) else f"({t} || {acc})"
                acc = self._and(self.ok_expr(v), acc)
            return acc
        if isinstance(e, ast.IfExp):
            a, b = self.ok_expr(e.body), self.ok_expr(e.orelse)
            inner = "true" if a == b == "true" else f"(if {self.truthy(e.test)} then {a} else {b})"
            return self._and(self.ok_expr(e.test), inner)
        if isinstance(e, (ast.GeneratorExp, ast.ListComp)):
            saved = dict(self.env)
            try:
                layers = []
                for gen in e.generators:
                    src, _ = self.expr(gen.iter)
                    ok_src = self.ok_expr(gen.iter)
                    x = gen.target.id
                    self.env[x] = (x + "_", "Str")
                    conds = [self.truthy(c) for c in gen.ifs]
                    ok_conds = "true"
                    for c in reversed(gen.ifs):          # `if a if b`: b is evaluated only when a holds
                        ok_conds = self._and(self.ok_expr(c), ok_conds if ok_conds == "true" else f"(!{self.truthy(c)} || {ok_conds})")
                    layers.append((x, src, ok_src, conds, ok_conds))
                inner = self.ok_expr(e.elt)
            finally:
                self.env = saved
            for x, src, ok_src, conds, ok_conds in reversed(layers):
                body = inner
                if body != "true" and conds:
                    body = f"(!({' && '.join(conds)}) || {body})"
                body = self._and(ok_conds, body)
                layer = "true" if body == "true" else f"(({src}).all fun {x}_ => {body})"
                inner = self._and(ok_src, layer)
            return inner
        acc = "true"
        if isinstance(e, ast.Subscript) and not isinstance(e.slice, ast.Slice):
            is_split0 = isinstance(e.slice, ast.Constant) and e.slice.value == 0 and (
                (isinstance(e.value, ast.Call) and isinstance(e.value.func, ast.Attribute) and e.value.func.attr == "split")
                or (isinstance(e.value, ast.Name) and e.value.id in self.nonempty))
            v, tv = self.expr(e.value)
            if not is_split0 and tv in ("Str", "ListStr"):
                k = e.slice.value if isinstance(e.slice, ast.Constant) else -e.slice.operand.value
                acc = f"(inRange (len {v}) ({k} : Int))"
            return self._and(self.ok_expr(e.value), acc)
        for child in ast.iter_child_nodes(e):
            if isinstance(child, ast.expr):
                acc = self._and(acc, self.ok_expr(child))
            elif isinstance(child, ast.keyword):
                acc = self._and(acc, self.ok_expr(child.value))
            elif isinstance(child, ast.FormattedValue):
                acc = self._and(acc, self.ok_expr(child.value))
        return acc

    def ok_block(self, stmts):
        s, rest = stmts[0], stmts[1:]
        if isinstance(s, ast.Expr) and isinstance(s.value, ast.Constant) and isinstance(s.value.value, str):
            return self.ok_block(rest)
        if isinstance(s, ast.Return):
            return self.ok_expr(s.value)
        if isinstance(s, (ast.Assign, ast.AugAssign, ast.AnnAssign)):
            # re-translate the binding exactly as `block` does (same environment handling)
            if isinstance(s, ast.Assign):
                name, v = s.targets[0].id, s.value
                if isinstance(v, ast.Call) and isinstance(v.func, ast.Attribute) and isinstance(v.func.value, ast.Name) and v.func.value.id == "re" \
                        and v.func.attr == "match":
                    pat = self.pattern(v.args[0]); s_, _ = self.expr(v.args[1])
                    t, ty = f"(reMatchText {pat} {s_})", "Match"
                    okv = self.ok_expr(v.args[1])
                else:
                    t, ty = self.expr(v); okv = self.ok_expr(v)
                if isinstance(v, ast.Constant) and isinstance(v.value, str):
                    self.local_consts[name] = v.value
                else:
                    self.local_consts.pop(name, None)
                self.guarded.discard(name)
                if isinstance(v, ast.Call) and isinstance(v.func, ast.Attribute) and v.func.attr == "split":
                    self.nonempty.add(name)
                else:
                    self.nonempty.discard(name)
            elif isinstance(s, ast.AnnAssign):
                name, (t, ty) = s.target.id, self.expr(s.value); okv = self.ok_expr(s.value)
            else:
                name = s.target.id
                a, ta = self.expr(ast.Name(id=name, ctx=ast.Load())); b, tb = self.expr(s.value)
                t, ty = (f"({a} ++ {b})" if ta == "Str" else f"({a} + {b})"), ta
                okv = self.ok_expr(s.value)
            saved = dict(self.env)
            self.env[name] = (name, ty)
            try:
                body = self.ok_block(rest)
            finally:
                self.env = saved
            if body == "true":
                return okv
            return self._and(okv, f"(let {name} : {LEAN_TY[ty]} := {t}; {body})")
        if isinstance(s, ast.If):
            c = self.truthy(s.test)
            okc = self.ok_expr(s.test)
            saved = dict(self.env)
            g0 = set(self.guarded)
            self.guarded |= self._guards(s.test)
            a = self.ok_block(list(s.body) + rest)
            self.guarded = set(g0)
            self.env = dict(saved)
            b = self.ok_block(list(s.orelse) + rest)
            self.env = saved
            inner = "true" if a == b == "true" else f"(if {c} then {a} else {b})"
            return self._and(okc, inner)
        raise Refused(f"statement {type(s).__name__}")

    # ---- statements -> one expression
    def block(self, stmts, ret):
        if not stmts:
            raise Refused("control reaches the end of the function (returns None)")
        s, rest = stmts[0], stmts[1:]
        if isinstance(s, ast.Expr) and isinstance(s.value, ast.Constant) and isinstance(s.value.value, str):
            return self.block(rest, ret)
        if isinstance(s, ast.Return):
            if s.value is None: raise Refused("bare return")
            t, ty = self.expr(s.value)
            if ty != ret: raise Refused(f"returns {ty}, annotated {ret}")
            return t
        if isinstance(s, (ast.Assign, ast.AugAssign, ast.AnnAssign)):
            if isinstance(s, ast.Assign):
                if len(s.targets) != 1 or not isinstance(s.targets[0], ast.Name): raise Refused("assignment target")
                name = s.targets[0].id
                v = s.value
                if isinstance(v, ast.Call) and isinstance(v.func, ast.Attribute) and isinstance(v.func.value, ast.Name) and v.func.value.id == "re" \
                        and v.func.attr == "match" and len(v.args) == 2 and not v.keywords:
                    pat = self.pattern(v.args[0]); s_, ts_ = self.expr(v.args[1])
                    if ts_ != "Str": raise Refused("re.match on " + ts_)
                    t, ty = f"(reMatchText {pat} {s_})", "Match"
                else:
                    t, ty = self.expr(v)
                if isinstance(v, ast.Constant) and isinstance(v.value, str):
                    self.local_consts[name] = v.value
                else:
                    self.local_consts.pop(name, None)
                self.guarded.discard(name)
                if isinstance(s.value, ast.Call) and isinstance(s.value.func, ast.Attribute) and s.value.func.attr == "split":
                    self.nonempty.add(name)
                else:
                    self.nonempty.discard(name)
            elif isinstance(s, ast.AnnAssign):
                if not isinstance(s.target, ast.Name) or s.value is None: raise Refused("annotated assignment")
                name, (t, ty) = s.target.id, self.expr(s.value)
            else:
                if not isinstance(s.target, ast.Name) or not isinstance(s.op, ast.Add): raise Refused("augmented assignment")
                name = s.target.id
                a, ta = self.expr(ast.Name(id=name, ctx=ast.Load())); b, tb = self.expr(s.value)
                if ta != tb or ta not in ("Str", "Int"): raise Refused("+= on " + ta)
                t, ty = (f"({a} ++ {b})" if ta == "Str" else f"({a} + {b})"), ta
            saved = dict(self.env)
            self.env[name] = (name, ty)
            try:
                body = self.block(rest, ret)
            finally:
                self.env = saved
            return f"let {name} : {LEAN_TY[ty]} := {t}\n  {body}"
        if isinstance(s, ast.If):
            c = self.truthy(s.test)
            saved = dict(self.env)
            g0 = set(self.guarded)
            self.guarded |= self._guards(s.test)
            a = self.block(list(s.body) + rest, ret)
            self.guarded = set(g0)
            self.env = dict(saved)
            b = self.block(list(s.orelse) + rest, ret)
            self.env = saved
            return f"if {c} then\n  ({a})\n  else\n  ({b})"
        raise Refused(f"statement {type(s).__name__}")


def translate_one(key, rel, qual, self_attrs, known, opts=None):
    opts = opts or {}
    src = T._src(rel)
    tree = ast.parse(src)
    fn = _find_func(tree, qual)
    tr = Tr(tree, fn, self_attrs, known, opts.get("subst"))
    params = []
    a = fn.args
    if a.vararg or a.kwarg or a.kwonlyargs or a.posonlyargs:
        raise Refused("parameter kinds")
    # (default values are ignored: the translated function takes every parameter explicitly)
    for p in a.args:
        if p.arg == "self" or p.arg in (opts.get("skip_params") or ()):
            continue
        ty = tr.ann(p.annotation)
        params.append((p.arg, ty))
        tr.env[p.arg] = (p.arg, ty)
    ret = opts["ret"] if opts.get("ret") else tr.ann(fn.returns)
    body = tr.block(fn.body, ret)
    tr.local_consts, tr.guarded, tr.nonempty = {}, set(), set()
    ok = tr.ok_block(fn.body)
    allp = [(f"self_{n}", t) for n, t in self_attrs] + list(dict.fromkeys((opts.get("subst") or {}).values())) + params
    sig = " ".join(f"({n} : {LEAN_TY[t]})" for n, t in allp)
    text = f"def {key} {sig} : {LEAN_TY[ret]} :=\n  {body}"
    if ok != "true":
        text += f"\n/-- true iff no index expression evaluated by `{key}` on these arguments is out of range (Python raises IndexError otherwise) -/\ndef {key}_ok {sig} : Bool :=\n  {ok}"
    return {"lean": text, "params": allp, "ret": ret, "file": rel, "qual": qual, "first_line": fn.lineno, "has_ok": ok != "true"}


def translate_functions():
    out, known = {}, {}
    for entry in FUNCS:
        key, rel, qual, self_attrs = entry[:4]
        opts = entry[4] if len(entry) > 4 else None
        try:
            r = translate_one(key, rel, qual, self_attrs, known, opts)
            out[key] = r
            if not self_attrs and not opts:
                known[qual.split(".")[-1]] = {"params": r["params"], "ret": r["ret"], "lean": key}
        except Refused as ex:
            out[key] = {"error": str(ex), "file": rel, "qual": qual}
        except Exception as ex:          # the source no longer parses / the file moved
            out[key] = {"error": f"{type(ex).__name__}: {ex}", "file": rel, "qual": qual}
    return out


def render(ns, funcs):
    hdr = f"-- {'REWRITTEN BY harness/translate.py ON EVERY CHECK RUN' if ns == 'Generated' else 'written by harness/translate.py --pin; the theorems are about these definitions'}\n"
    L = [hdr + "-- Python functions of /repo translated by harness/pyfun2lean.py (subset and restrictions: see that file and PyRt.lean)",
         "import GapicModel.PyRt", "import GapicModel.Pinned.Tables", f"namespace GapicModel.{ns}.Funcs", "open GapicModel.PyRt GapicModel.Regex", ""]
    for key, r in funcs.items():
        L.append(f"-- {r['file']} — {r['qual']}")
        if "error" in r:
            L.append(f"-- NOT TRANSLATED: {r['error']}")
            L.append(f"def {key} : Unit := ()")
        else:
            L.append(r["lean"])
        L.append("")
    L += [f"end GapicModel.{ns}.Funcs", ""]
    return "\n".join(L)


def render_bridge(funcs):
    L = ["-- written by harness/translate.py --pin: one bridge lemma per translated function (closed terms, `rfl`).",
         "-- A change of the Python function that changes its translation breaks exactly the lemma named after it.",
         "import GapicModel.Generated.Funcs", "import GapicModel.Pinned.Funcs", "namespace GapicModel.Bridge.Funcs", ""]
    for key, r in funcs.items():
        L.append(f"theorem {key} : @Generated.Funcs.{key} = @Pinned.Funcs.{key} := rfl")
        if r.get("has_ok"):
            L.append(f"theorem {key}_ok : @Generated.Funcs.{key}_ok = @Pinned.Funcs.{key}_ok := rfl")
    L += ["", "end GapicModel.Bridge.Funcs", ""]
    return "\n".join(L)


def render_driver(funcs):
    """Driver/Funcs.lean: op `fn` evaluates a PINNED translated function on JSON arguments"""
    L = ["-- written by harness/translate.py --pin", "import GapicModel.Driver.Base", "import GapicModel.Pinned.Funcs",
         "open Lean GapicModel", "namespace GapicModel.Driver", "",
         "def argStr (j : Json) (i : Nat) : Except String (List Char) := do",
         "  match (← getArrL j \"args\")[i]? with | some (Json.str s) => pure s.toList | _ => throw \"argument: string expected\"",
         "def argInt (j : Json) (i : Nat) : Except String Int := do",
         "  match (← getArrL j \"args\")[i]? with | some v => (do let n ← v.getInt?; pure n) | none => throw \"argument: int expected\"",
         "def argBool (j : Json) (i : Nat) : Except String Bool := do",
         "  match (← getArrL j \"args\")[i]? with | some (Json.bool b) => pure b | _ => throw \"argument: bool expected\"",
         "def argListStr (j : Json) (i : Nat) : Except String (List (List Char)) := do",
         "  match (← getArrL j \"args\")[i]? with",
         "  | some (Json.arr a) => a.toList.mapM fun v => do pure (← v.getStr?).toList",
         "  | _ => throw \"argument: list of strings expected\"", "",
         "def opFn (j : Json) : Except String Json := do",
         "  let name ← (← j.getObjVal? \"name\").getStr?"]
    outj = {"Str": "jstr", "Int": "(fun (n : Int) => Json.num (JsonNumber.fromInt n))", "Bool": "Json.bool", "ListStr": "(fun xs => jarr (xs.map jstr))",
            "Import": "(fun (i : PyRt.PyImport) => Json.mkObj [(\"package\", jarr (i.package.map jstr)), (\"module\", jstr i.module), (\"alias\", jstr i.alias)])"}
    argf = {"Str": "argStr", "Int": "argInt", "Bool": "argBool", "ListStr": "argListStr"}
    for key, r in funcs.items():
        if "error" in r:
            continue
        binds = "".join(f"\n    let a{i} ← {argf[t]} j {i}" for i, (_, t) in enumerate(r["params"]))
        args = " ".join(f"a{i}" for i in range(len(r["params"])))
        if r.get("has_ok"):
            binds += f"\n    if !(Pinned.Funcs.{key}_ok {args}) then return Json.mkObj [(\"r\", Json.mkObj [(\"raised\", Json.str \"IndexError\")])]"
        L.append(f"  if name == \"{key}\" then{binds}\n    return Json.mkObj [(\"r\", {outj[r['ret']]} (Pinned.Funcs.{key} {args}))]")
    L += ["  throw s!\"unknown translated function {name}\"", "",
          "def opsFuncs : List (String × (Json → Except String Json)) := [(\"fn\", opFn)]", "", "end GapicModel.Driver", ""]
    return "\n".join(L)


if __name__ == "__main__":
    import json
    fs = translate_functions()
    for k, r in fs.items():
        print("--", k, r.get("error") or "ok")
        if "lean" in r:
            print(r["lean"])
