"""T1-f: translate small pure Python functions of /repo's CURRENT source into Lean definitions over GapicModel.PyRt
(DESIGN §12.6).  The translated text goes to Generated/Funcs.lean on every run and to Pinned/Funcs.lean with `--pin`;
Bridge/Funcs.lean proves `@Generated.Funcs.f = @Pinned.Funcs.f` by `rfl` for every function, so a change of the Python
source that changes the translation breaks exactly the lemma named after the function (the theorems are stated about the
Pinned definitions).  The subset is deliberately small; anything outside it is refused (never approximated):

  def f(params: str | int | bool | Sequence[str]) -> str | int | bool | List[str]        (self.<attr> params for methods)
  statements   docstring; x = e; x += e; if/elif/else; return e
  expressions  str/int/bool constants, names, module-level string constants, and/or/not, comparisons (== != < <= > >= in, not in),
               len bool str, + (str, int), - (int), f-strings, conditional expressions, slices, `e.split(sep)[0]`,
               str methods startswith endswith strip lstrip rstrip lower upper capitalize replace split join expandtabs,
               re.sub re.match re.search re.fullmatch (pattern / replacement literal or module constant; CPython's parser
               gives the AST), generator/list comprehensions with one `for` (inside join/tuple/list), calls of other
               translated functions, membership in a pinned table.
"""
from __future__ import annotations
import ast, os
import translate as T


class Refused(Exception):
    pass


# (key, file, qualified function name, self-attributes passed as parameters [(attr, type)], Lean name)
FUNCS = [
    ("to_valid_filename", "gapic/utils/filename.py", "to_valid_filename", []),
    ("to_valid_module_name", "gapic/utils/filename.py", "to_valid_module_name", []),
    ("to_snake_case", "gapic/utils/case.py", "to_snake_case", []),
    ("is_list_item", "gapic/utils/lines.py", "is_list_item", []),
    ("get_subsequent_line_indentation_level", "gapic/utils/lines.py", "get_subsequent_line_indentation_level", []),
    ("address_resolve", "gapic/schema/metadata.py", "Address.resolve", [("package", "ListStr")]),
    ("fix_whitespace", "gapic/generator/formatter.py", "fix_whitespace", []),
    ("make_private", "gapic/utils/code.py", "make_private", []),
    ("coerce_response_name", "gapic/samplegen_utils/utils.py", "coerce_response_name", []),
    ("to_camel_case", "gapic/utils/case.py", "to_camel_case", []),
    ("fix_name_segment", "gapic/utils/uri_conv.py", "convert_uri_fieldnames._fix_name_segment", []),
    ("fix_field_path", "gapic/utils/uri_conv.py", "convert_uri_fieldnames._fix_field_path", []),
    ("field_header_disambiguated", "gapic/schema/wrappers.py", "FieldHeader.disambiguated", [("raw", "Str")]),
    ("routing_param_disambiguated_field", "gapic/schema/wrappers.py", "RoutingParameter.disambiguated_field", [("field", "Str")]),
    ("client_method_name", "gapic/schema/wrappers.py", "Method.client_method_name", [("name", "Str"), ("is_internal", "Bool")]),
    ("sort_lines", "gapic/utils/lines.py", "sort_lines", []),
    ("service_client_name", "gapic/schema/wrappers.py", "Service.client_name", [("is_internal", "Bool"), ("name", "Str")]),
    ("service_async_client_name", "gapic/schema/wrappers.py", "Service.async_client_name", [("is_internal", "Bool"), ("name", "Str")]),
    ("service_transport_name", "gapic/schema/wrappers.py", "Service.transport_name", [("name", "Str")], {"ret": "Str"}),
    ("service_grpc_transport_name", "gapic/schema/wrappers.py", "Service.grpc_transport_name", [("name", "Str")], {"ret": "Str"}),
    ("service_grpc_asyncio_transport_name", "gapic/schema/wrappers.py", "Service.grpc_asyncio_transport_name", [("name", "Str")], {"ret": "Str"}),
    ("service_rest_transport_name", "gapic/schema/wrappers.py", "Service.rest_transport_name", [("name", "Str")], {"ret": "Str"}),
    ("service_module_name", "gapic/schema/wrappers.py", "Service.module_name", [("name", "Str")]),
    ("naming_module_name", "gapic/schema/naming.py", "Naming.module_name", [("name", "Str")]),
    ("new_naming_versioned_module_name", "gapic/schema/naming.py", "NewNaming.versioned_module_name", [("module_name", "Str"), ("version", "Str")]),
    ("old_naming_versioned_module_name", "gapic/schema/naming.py", "OldNaming.versioned_module_name", [("module_name", "Str"), ("version", "Str")]),
    # `subst`: sub-expressions (by source text) that become parameters; `ret`: the return type of an un-annotated property
    ("metadata_doc", "gapic/schema/metadata.py", "Metadata.doc", [],
     {"subst": {"self.documentation.leading_comments": ("leading", "Str"), "self.documentation.trailing_comments": ("trailing", "Str"),
                "self.documentation.leading_detached_comments": ("detached", "ListStr")}, "ret": "Str"}),
]

TABLES = {"RESERVED_NAMES": "reservedNames", "kwlist": "pyKeywords"}       # module-level tables available as Pinned.<name> : List String

TY = {"str": "Str", "int": "Int", "bool": "Bool"}
LEAN_TY = {"Str": "Str", "Int": "Int", "Bool": "Bool", "ListStr": "List Str", "SetStr": "List Str"}
# "SetStr": a Python set of str, represented by a duplicate-free list; the only thing a translated function may do with it is
# `sorted(...)` (its iteration order is unspecified) or a truth test


def _find_func(tree, qual):
    parts = qual.split(".")
    body = tree.body
    node = None
    for p in parts:
        node = next((n for n in body if isinstance(n, (ast.FunctionDef, ast.ClassDef)) and n.name == p), None)
        if node is None:
            raise Refused(f"{qual}: not found")
        body = node.body
    if not isinstance(node, ast.FunctionDef):
        raise Refused(f"{qual}: not a function")
    return node


def _module_consts(tree):
    out = {}
    for n in tree.body:
        if isinstance(n, ast.Assign) and len(n.targets) == 1 and isinstance(n.targets[0], ast.Name):
            if isinstance(n.value, ast.Constant) and isinstance(n.value.value, str):
                out[n.targets[0].id] = n.value.value
    return out


def lean_chars(s: str) -> str:
    return "[" + ", ".join(T.lean_char(ord(c)) for c in s) + "]"


def lean_repl(j) -> str:
    """replacement template with explicit character lists (String.toList on literals is very slow in the kernel)"""
    return "[" + ", ".join(f".lit {lean_chars(it[1])}" if it[0] == "lit" else f".grp {it[1]}" for it in j) + "]"


class Tr:
    def __init__(self, tree, fn, self_attrs, known, subst=None):
        self.tree, self.fn, self.known = tree, fn, known
        self.subst = dict(subst or {})      # source text of a sub-expression -> (parameter name, type)
        self.consts = _module_consts(tree)
        self.self_attrs = dict(self_attrs)
        self.env = {}
        self.nonempty = set()          # locals bound (once) to the result of str.split / re.split

    # ---- types
    def ann(self, a):
        if a is None:
            raise Refused("missing annotation")
        if isinstance(a, ast.Name) and a.id in TY:
            return TY[a.id]
        src = ast.unparse(a)
        if src in ("List[str]", "Sequence[str]", "Tuple[str, ...]", "Iterable[str]"):
            return "ListStr"
        raise Refused(f"type {src}")

    def truthy(self, e):
        t, ty = self.expr(e)
        if ty == "Bool":
            return t
        if ty in ("Str", "ListStr", "SetStr"):
            return f"(truthy {t})"
        if ty == "Int":
            return f"({t} != 0)"
        raise Refused(f"truthiness of {ty}")

    def pattern(self, e):
        if isinstance(e, ast.Constant) and isinstance(e.value, str):
            p = e.value
        elif isinstance(e, ast.Name) and e.id in self.consts:
            p = self.consts[e.id]
        else:
            raise Refused("regex pattern is not a literal or module constant")
        try:
            j = T.regex_to_json(p)
        except Exception as ex:
            raise Refused(f"regex {p!r}: {ex}")
        return T.lean_re(j["re"])

    def strlit(self, e, what="argument"):
        if isinstance(e, ast.Constant) and isinstance(e.value, str):
            return e.value
        if isinstance(e, ast.Name) and e.id in self.consts:
            return self.consts[e.id]
        raise Refused(f"{what} must be a string literal")

    # ---- expressions: (lean text, type)
    def expr(self, e):
        if self.subst and not isinstance(e, ast.Constant):
            src = ast.unparse(e)
            if src in self.subst:
                return self.subst[src]
        if isinstance(e, ast.Constant):
            v = e.value
            if isinstance(v, bool): return ("true" if v else "false"), "Bool"
            if isinstance(v, int): return (f"({v} : Int)"), "Int"
            if isinstance(v, str): return f"({lean_chars(v)} : Str)", "Str"
            raise Refused(f"constant {v!r}")
        if isinstance(e, ast.Name):
            if e.id in self.env: return self.env[e.id]
            if e.id in self.consts: return f"({lean_chars(self.consts[e.id])} : Str)", "Str"
            raise Refused(f"name {e.id}")
        if isinstance(e, ast.Attribute) and isinstance(e.value, ast.Name) and e.value.id == "self" and e.attr in self.self_attrs:
            return f"self_{e.attr}", self.self_attrs[e.attr]
        if isinstance(e, ast.BoolOp):
            op = " && " if isinstance(e.op, ast.And) else " || "
            return "(" + op.join(self.truthy(v) for v in e.values) + ")", "Bool"
        if isinstance(e, ast.UnaryOp) and isinstance(e.op, ast.Not):
            return f"(!{self.truthy(e.operand)})", "Bool"
        if isinstance(e, ast.UnaryOp) and isinstance(e.op, ast.USub) and isinstance(e.operand, ast.Constant) and isinstance(e.operand.value, int):
            return f"(-{e.operand.value} : Int)", "Int"
        if isinstance(e, ast.Compare):
            if len(e.ops) != 1: raise Refused("chained comparison")
            return self.compare(e.left, e.ops[0], e.comparators[0])
        if isinstance(e, ast.IfExp):
            a, ta = self.expr(e.body); b, tb = self.expr(e.orelse)
            if ta != tb: raise Refused("conditional expression with two types")
            return f"(if {self.truthy(e.test)} then {a} else {b})", ta
        if isinstance(e, ast.BinOp):
            a, ta = self.expr(e.left); b, tb = self.expr(e.right)
            if isinstance(e.op, ast.Add) and ta == tb == "Str": return f"({a} ++ {b})", "Str"
            if isinstance(e.op, ast.Add) and ta == tb == "Int": return f"({a} + {b})", "Int"
            if isinstance(e.op, ast.Sub) and ta == tb == "Int": return f"({a} - {b})", "Int"
            raise Refused(f"operator {type(e.op).__name__} on {ta}, {tb}")
        if isinstance(e, ast.JoinedStr):
            parts = []
            for v in e.values:
                if isinstance(v, ast.Constant):
                    parts.append(f"({lean_chars(v.value)} : Str)")
                elif isinstance(v, ast.FormattedValue) and v.conversion == -1 and v.format_spec is None:
                    t, ty = self.expr(v.value)
                    if ty != "Str": raise Refused("f-string field that is not a str")
                    parts.append(t)
                else:
                    raise Refused("f-string conversion / format spec")
            return "(" + " ++ ".join(parts or ["([] : Str)"]) + ")", "Str"
        if isinstance(e, (ast.GeneratorExp, ast.ListComp)):
            return self.comp(e)
        if isinstance(e, ast.Subscript):
            return self.subscript(e)
        if isinstance(e, ast.Call):
            return self.call(e)
        raise Refused(f"expression {type(e).__name__}")

    def compare(self, l, op, r):
        if isinstance(op, (ast.In, ast.NotIn)):
            neg = "!" if isinstance(op, ast.NotIn) else ""
            a, ta = self.expr(l)
            if ta != "Str": raise Refused("membership of a non-str")
            if isinstance(r, (ast.List, ast.Tuple)):
                items = [self.expr(x) for x in r.elts]
                if any(t != "Str" for _, t in items): raise Refused("membership list of non-str")
                return f"({neg}strIn {a} [{', '.join(t for t, _ in items)}])", "Bool"
            if isinstance(r, ast.Name) and r.id in TABLES:
                return f"({neg}strIn {a} (GapicModel.Pinned.{TABLES[r.id]}.map String.toList))", "Bool"
            if isinstance(r, ast.Attribute) and r.attr in TABLES:
                return f"({neg}strIn {a} (GapicModel.Pinned.{TABLES[r.attr]}.map String.toList))", "Bool"
            b, tb = self.expr(r)
            if tb == "Str": return f"({neg}contains {a} {b})", "Bool"
            if tb == "ListStr": return f"({neg}strIn {a} {b})", "Bool"
            raise Refused(f"membership in {tb}")
        a, ta = self.expr(l); b, tb = self.expr(r)
        if ta != tb: raise Refused(f"comparison of {ta} with {tb}")
        if isinstance(op, ast.Eq): return f"({a} == {b})", "Bool"
        if isinstance(op, ast.NotEq): return f"({a} != {b})", "Bool"
        if ta != "Int": raise Refused("ordering of non-ints")
        sym = {ast.Lt: "<", ast.LtE: "≤", ast.Gt: ">", ast.GtE: "≥"}.get(type(op))
        if not sym: raise Refused("comparison operator")
        return f"(decide ({a} {sym} {b}))", "Bool"

    def subscript(self, e):
        if isinstance(e.slice, ast.Slice):
            if e.slice.step is not None: raise Refused("slice step")
            v, tv = self.expr(e.value)
            if tv not in ("Str", "ListStr"): raise Refused("slice of " + tv)
            def bound(b):
                if b is None: return "none"
                t, ty = self.expr(b)
                if ty != "Int": raise Refused("slice bound")
                return f"(some {t})"
            return f"(slice {v} {bound(e.slice.lower)} {bound(e.slice.upper)})", tv
        if isinstance(e.slice, ast.Constant) and e.slice.value == 0 and isinstance(e.value, ast.Call) \
                and isinstance(e.value.func, ast.Attribute) and e.value.func.attr == "split":
            v, tv = self.expr(e.value)
            return f"(head0 {v})", "Str"
        if isinstance(e.slice, ast.Constant) and e.slice.value == 0 and isinstance(e.value, ast.Name) and e.value.id in self.nonempty:
            v, tv = self.expr(e.value)          # a local bound to a `split` result: never empty
            return f"(head0 {v})", "Str"
        raise Refused("index expression (only `.split(sep)[0]` cannot raise)")

    def comp(self, g):
        """generator / list comprehension with one `for x in <ListStr>` -> List Str"""
        if len(g.generators) != 1: raise Refused("nested comprehension")
        gen = g.generators[0]
        if not isinstance(gen.target, ast.Name) or gen.is_async: raise Refused("comprehension target")
        src, ts = self.expr(gen.iter)
        if ts != "ListStr": raise Refused("comprehension over " + ts)
        saved = dict(self.env)
        x = gen.target.id
        self.env[x] = (x + "_", "Str")
        try:
            for cond in gen.ifs:
                src = f"(({src}).filter fun {x}_ => {self.truthy(cond)})"
            body, tb = self.expr(g.elt)
            if tb != "Str": raise Refused("comprehension element " + tb)
        finally:
            self.env = saved
        return f"(({src}).map fun {x}_ => {body})", "ListStr"

    def call(self, e):
        f = e.func
        if e.keywords: raise Refused("keyword arguments")
        if isinstance(f, ast.Name):
            if f.id == "len" and len(e.args) == 1:
                t, ty = self.expr(e.args[0])
                if ty not in ("Str", "ListStr"): raise Refused("len of " + ty)
                return f"(len {t})", "Int"
            if f.id == "bool" and len(e.args) == 1:
                return self.truthy(e.args[0]), "Bool"
            if f.id == "str" and len(e.args) == 1:
                t, ty = self.expr(e.args[0])
                if ty != "Str": raise Refused("str() of " + ty)
                return t, "Str"
            if f.id in ("tuple", "list") and len(e.args) == 1 and isinstance(e.args[0], (ast.GeneratorExp, ast.ListComp)):
                return self.comp(e.args[0])
            if f.id == "set" and len(e.args) == 1:
                t, ty = self.comp(e.args[0]) if isinstance(e.args[0], (ast.GeneratorExp, ast.ListComp)) else self.expr(e.args[0])
                if ty != "ListStr": raise Refused("set() of " + ty)
                return f"(dedup {t})", "SetStr"
            if f.id == "sorted" and len(e.args) == 1:
                t, ty = self.comp(e.args[0]) if isinstance(e.args[0], (ast.GeneratorExp, ast.ListComp)) else self.expr(e.args[0])
                if ty not in ("ListStr", "SetStr"): raise Refused("sorted() of " + ty)
                return f"(sortStr {t})", "ListStr"
            if f.id in self.known:
                sig = self.known[f.id]
                lean_name = sig.get("lean", f.id)
                if len(e.args) != len(sig["params"]): raise Refused("arity of " + f.id)
                args = []
                for a, (_, pty) in zip(e.args, sig["params"]):
                    t, ty = self.expr(a)
                    if ty != pty: raise Refused(f"argument type {ty} for {pty}")
                    args.append(t)
                return f"({lean_name} {' '.join(args)})", sig["ret"]
            raise Refused(f"call of {f.id}")
        if isinstance(f, ast.Attribute) and isinstance(f.value, ast.Name) and f.value.id == "utils" and f.attr in self.known:
            return self.call(ast.Call(func=ast.Name(id=f.attr, ctx=ast.Load()), args=e.args, keywords=[]))      # gapic.utils re-exports the function
        if isinstance(f, ast.Attribute) and isinstance(f.value, ast.Name) and f.value.id == "re":
            if f.attr == "sub" and len(e.args) == 3:
                pat = self.pattern(e.args[0])
                repl = lean_repl(T.repl_to_json(self.strlit(e.args[1], "replacement")))
                s, ts = self.expr(e.args[2])
                if ts != "Str": raise Refused("re.sub on " + ts)
                return f"(reSub {pat} {repl} {s})", "Str"
            if f.attr == "split" and len(e.args) == 2:
                pstr = self.strlit(e.args[0], "pattern")
                if T.regex_to_json(pstr)["minwidth"] < 1 or T.regex_to_json(pstr)["ngroups"] != 0:
                    raise Refused("re.split with a pattern that can match the empty string or has groups")
                s_, ts = self.expr(e.args[1])
                if ts != "Str": raise Refused("re.split on " + ts)
                return f"(reSplit {self.pattern(e.args[0])} {s_})", "ListStr"
            if f.attr in ("match", "search", "fullmatch") and len(e.args) == 2:
                pat = self.pattern(e.args[0]); s, ts = self.expr(e.args[1])
                if ts != "Str": raise Refused("re.%s on %s" % (f.attr, ts))
                return f"(re{f.attr.capitalize()} {pat} {s})", "Bool"      # only ever used for its truth value
            raise Refused("re." + f.attr)
        if isinstance(f, ast.Attribute):
            if f.attr == "join" and len(e.args) == 1:
                sep, tsep = self.expr(f.value)
                if tsep != "Str": raise Refused("join on " + tsep)
                a = e.args[0]
                xs, tx = self.comp(a) if isinstance(a, (ast.GeneratorExp, ast.ListComp)) else self.expr(a)
                if tx != "ListStr": raise Refused("join of " + tx)
                return f"(join {sep} {xs})", "Str"
            v, tv = self.expr(f.value)
            if tv != "Str": raise Refused(f"method {f.attr} on {tv}")
            n = len(e.args)
            if f.attr in ("startswith", "endswith") and n == 1:
                a, ta = self.expr(e.args[0])
                if ta != "Str": raise Refused(f.attr + " with " + ta)
                return f"({f.attr} {v} {a})", "Bool"
            if f.attr in ("strip", "lstrip", "rstrip", "lower", "upper", "capitalize", "expandtabs") and n == 0:
                return f"({f.attr} {v})", "Str"
            if f.attr == "replace" and n in (2, 3):
                old = self.strlit(e.args[0], "replace(old)")
                if not old: raise Refused("replace with empty old")
                new, tn = self.expr(e.args[1])
                if tn != "Str": raise Refused("replace new " + tn)
                if n == 2: return f"(replace {v} {lean_chars(old)} {new})", "Str"
                c, tc = self.expr(e.args[2])
                if tc != "Int": raise Refused("replace count")
                return f"(replaceN {v} {lean_chars(old)} {new} {c})", "Str"
            if f.attr == "split" and n == 1:
                sep = self.strlit(e.args[0], "split(sep)")
                if not sep: raise Refused("split with empty sep")
                return f"(split {v} {lean_chars(sep)})", "ListStr"
            raise Refused(f"str method {f.attr}/{n}")
        raise Refused("call")

    # ---- statements -> one expression
    def block(self, stmts, ret):
        if not stmts:
            raise Refused("control reaches the end of the function (returns None)")
        s, rest = stmts[0], stmts[1:]
        if isinstance(s, ast.Expr) and isinstance(s.value, ast.Constant) and isinstance(s.value.value, str):
            return self.block(rest, ret)
        if isinstance(s, ast.Return):
            if s.value is None: raise Refused("bare return")
            t, ty = self.expr(s.value)
            if ty != ret: raise Refused(f"returns {ty}, annotated {ret}")
            return t
        if isinstance(s, (ast.Assign, ast.AugAssign, ast.AnnAssign)):
            if isinstance(s, ast.Assign):
                if len(s.targets) != 1 or not isinstance(s.targets[0], ast.Name): raise Refused("assignment target")
                name, (t, ty) = s.targets[0].id, self.expr(s.value)
                if isinstance(s.value, ast.Call) and isinstance(s.value.func, ast.Attribute) and s.value.func.attr == "split":
                    self.nonempty.add(name)
                else:
                    self.nonempty.discard(name)
            elif isinstance(s, ast.AnnAssign):
                if not isinstance(s.target, ast.Name) or s.value is None: raise Refused("annotated assignment")
                name, (t, ty) = s.target.id, self.expr(s.value)
            else:
                if not isinstance(s.target, ast.Name) or not isinstance(s.op, ast.Add): raise Refused("augmented assignment")
                name = s.target.id
                a, ta = self.expr(ast.Name(id=name, ctx=ast.Load())); b, tb = self.expr(s.value)
                if ta != tb or ta not in ("Str", "Int"): raise Refused("+= on " + ta)
                t, ty = (f"({a} ++ {b})" if ta == "Str" else f"({a} + {b})"), ta
            saved = dict(self.env)
            self.env[name] = (name, ty)
            try:
                body = self.block(rest, ret)
            finally:
                self.env = saved
            return f"let {name} : {LEAN_TY[ty]} := {t}\n  {body}"
        if isinstance(s, ast.If):
            c = self.truthy(s.test)
            saved = dict(self.env)
            a = self.block(list(s.body) + rest, ret)
            self.env = dict(saved)
            b = self.block(list(s.orelse) + rest, ret)
            self.env = saved
            return f"if {c} then\n  ({a})\n  else\n  ({b})"
        raise Refused(f"statement {type(s).__name__}")


def translate_one(key, rel, qual, self_attrs, known, opts=None):
    opts = opts or {}
    src = T._src(rel)
    tree = ast.parse(src)
    fn = _find_func(tree, qual)
    tr = Tr(tree, fn, self_attrs, known, opts.get("subst"))
    params = []
    a = fn.args
    if a.vararg or a.kwarg or a.kwonlyargs or a.posonlyargs:
        raise Refused("parameter kinds")
    # (default values are ignored: the translated function takes every parameter explicitly)
    for p in a.args:
        if p.arg == "self":
            continue
        ty = tr.ann(p.annotation)
        params.append((p.arg, ty))
        tr.env[p.arg] = (p.arg, ty)
    ret = opts["ret"] if (fn.returns is None and opts.get("ret")) else tr.ann(fn.returns)
    body = tr.block(fn.body, ret)
    allp = [(f"self_{n}", t) for n, t in self_attrs] + list((opts.get("subst") or {}).values()) + params
    sig = " ".join(f"({n} : {LEAN_TY[t]})" for n, t in allp)
    text = f"def {key} {sig} : {LEAN_TY[ret]} :=\n  {body}"
    return {"lean": text, "params": allp, "ret": ret, "file": rel, "qual": qual, "first_line": fn.lineno}


def translate_functions():
    out, known = {}, {}
    for entry in FUNCS:
        key, rel, qual, self_attrs = entry[:4]
        opts = entry[4] if len(entry) > 4 else None
        try:
            r = translate_one(key, rel, qual, self_attrs, known, opts)
            out[key] = r
            if not self_attrs and not opts:
                known[qual.split(".")[-1]] = {"params": r["params"], "ret": r["ret"], "lean": key}
        except Refused as ex:
            out[key] = {"error": str(ex), "file": rel, "qual": qual}
        except Exception as ex:          # the source no longer parses / the file moved
            out[key] = {"error": f"{type(ex).__name__}: {ex}", "file": rel, "qual": qual}
    return out


def render(ns, funcs):
    hdr = f"-- {'REWRITTEN BY harness/translate.py ON EVERY CHECK RUN' if ns == 'Generated' else 'written by harness/translate.py --pin; the theorems are about these definitions'}\n"
    L = [hdr + "-- Python functions of /repo translated by harness/pyfun2lean.py (subset and restrictions: see that file and PyRt.lean)",
         "import GapicModel.PyRt", "import GapicModel.Pinned.Tables", f"namespace GapicModel.{ns}.Funcs", "open GapicModel.PyRt GapicModel.Regex", ""]
    for key, r in funcs.items():
        L.append(f"-- {r['file']} — {r['qual']}")
        if "error" in r:
            L.append(f"-- NOT TRANSLATED: {r['error']}")
            L.append(f"def {key} : Unit := ()")
        else:
            L.append(r["lean"])
        L.append("")
    L += [f"end GapicModel.{ns}.Funcs", ""]
    return "\n".join(L)


def render_bridge(funcs):
    L = ["-- written by harness/translate.py --pin: one bridge lemma per translated function (closed terms, `rfl`).",
         "-- A change of the Python function that changes its translation breaks exactly the lemma named after it.",
         "import GapicModel.Generated.Funcs", "import GapicModel.Pinned.Funcs", "namespace GapicModel.Bridge.Funcs", ""]
    for key in funcs:
        L.append(f"theorem {key} : @Generated.Funcs.{key} = @Pinned.Funcs.{key} := rfl")
    L += ["", "end GapicModel.Bridge.Funcs", ""]
    return "\n".join(L)


def render_driver(funcs):
    """Driver/Funcs.lean: op `fn` evaluates a PINNED translated function on JSON arguments"""
    L = ["-- written by harness/translate.py --pin", "import GapicModel.Driver.Base", "import GapicModel.Pinned.Funcs",
         "open Lean GapicModel", "namespace GapicModel.Driver", "",
         "def argStr (j : Json) (i : Nat) : Except String (List Char) := do",
         "  match (← getArrL j \"args\")[i]? with | some (Json.str s) => pure s.toList | _ => throw \"argument: string expected\"",
         "def argInt (j : Json) (i : Nat) : Except String Int := do",
         "  match (← getArrL j \"args\")[i]? with | some v => (do let n ← v.getInt?; pure n) | none => throw \"argument: int expected\"",
         "def argBool (j : Json) (i : Nat) : Except String Bool := do",
         "  match (← getArrL j \"args\")[i]? with | some (Json.bool b) => pure b | _ => throw \"argument: bool expected\"",
         "def argListStr (j : Json) (i : Nat) : Except String (List (List Char)) := do",
         "  match (← getArrL j \"args\")[i]? with",
         "  | some (Json.arr a) => a.toList.mapM fun v => do pure (← v.getStr?).toList",
         "  | _ => throw \"argument: list of strings expected\"", "",
         "def opFn (j : Json) : Except String Json := do",
         "  let name ← (← j.getObjVal? \"name\").getStr?"]
    outj = {"Str": "jstr", "Int": "(fun (n : Int) => Json.num (JsonNumber.fromInt n))", "Bool": "Json.bool", "ListStr": "(fun xs => jarr (xs.map jstr))"}
    argf = {"Str": "argStr", "Int": "argInt", "Bool": "argBool", "ListStr": "argListStr"}
    for key, r in funcs.items():
        if "error" in r:
            continue
        binds = "".join(f"\n    let a{i} ← {argf[t]} j {i}" for i, (_, t) in enumerate(r["params"]))
        args = " ".join(f"a{i}" for i in range(len(r["params"])))
        L.append(f"  if name == \"{key}\" then{binds}\n    return Json.mkObj [(\"r\", {outj[r['ret']]} (Pinned.Funcs.{key} {args}))]")
    L += ["  throw s!\"unknown translated function {name}\"", "",
          "def opsFuncs : List (String × (Json → Except String Json)) := [(\"fn\", opFn)]", "", "end GapicModel.Driver", ""]
    return "\n".join(L)


if __name__ == "__main__":
    import json
    fs = translate_functions()
    for k, r in fs.items():
        print("--", k, r.get("error") or "ok")
        if "lean" in r:
            print(r["lean"])
