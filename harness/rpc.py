"""Parent-side helpers for T3 sessions: dynamic codec under the INPUT descriptors, random valuations,
python locations of emitted entities."""
from __future__ import annotations
import base64, json
from google.protobuf import descriptor_pool, message_factory, json_format, descriptor_pb2
import apigen


class Codec:
    def __init__(self, files):
        self.pool = descriptor_pool.DescriptorPool()
        for d in apigen.dep_files():
            self.pool.Add(d)
        for f in files:
            self.pool.Add(f.pb if hasattr(f, "pb") else f)

    def cls(self, full):
        return message_factory.GetMessageClass(self.pool.FindMessageTypeByName(full.lstrip(".")))

    def encode(self, full, d) -> bytes:
        m = self.cls(full)()
        json_format.ParseDict(d, m, descriptor_pool=self.pool)
        return m.SerializeToString(deterministic=True)

    def encode_b64(self, full, d) -> str:
        return base64.b64encode(self.encode(full, d)).decode()

    def decode(self, full, data) -> dict:
        if isinstance(data, str):
            data = base64.b64decode(data)
        m = self.cls(full)()
        m.ParseFromString(data)
        return json_format.MessageToDict(m, preserving_proto_field_name=True, descriptor_pool=self.pool)

    def normal(self, full, d) -> dict:
        """canonical JSON of a JSON valuation (round trip through the dynamic message)"""
        return self.decode(full, self.encode(full, d))

    def unknown_fields(self, full, data) -> bool:
        if isinstance(data, str):
            data = base64.b64decode(data)
        m = self.cls(full)()
        m.ParseFromString(data)
        return len(m.SerializeToString(deterministic=True)) != len(data) and bool(m.UnknownFields()) if hasattr(m, "UnknownFields") else False


FD = descriptor_pb2.FieldDescriptorProto


def rand_scalar(r, fd):
    t = fd.type
    if t == FD.TYPE_STRING:
        return r.pick(["", "x", "shelves/s1/books/b1", "héllo wörld", "a b&c=d/e?f", "projects/p/locations/l"]) if r.maybe(0.5) else r.ident()
    if t == FD.TYPE_BYTES:
        return base64.b64encode(bytes(r.randrange(256) for _ in range(r.randint(0, 6)))).decode()
    if t == FD.TYPE_BOOL:
        return r.maybe()
    if t in (FD.TYPE_DOUBLE, FD.TYPE_FLOAT):
        return r.pick([0.5, -1.25, 3.0, 1024.0, 0.0])
    if t in (FD.TYPE_INT32, FD.TYPE_SINT32, FD.TYPE_SFIXED32):
        return r.pick([0, 1, -1, 7, 2**31 - 1, -2**31])
    if t in (FD.TYPE_UINT32, FD.TYPE_FIXED32):
        return r.pick([0, 1, 7, 2**32 - 1])
    if t in (FD.TYPE_INT64, FD.TYPE_SINT64, FD.TYPE_SFIXED64):
        return str(r.pick([0, 1, -1, 2**53 + 1, -2**63, 2**63 - 1]))
    if t in (FD.TYPE_UINT64, FD.TYPE_FIXED64):
        return str(r.pick([0, 1, 2**64 - 1]))
    raise ValueError(t)


WKT_SAMPLES = {
    "google.protobuf.FieldMask": ["name,title", "pages"],
    "google.protobuf.Timestamp": ["2020-01-02T03:04:05Z"],
    "google.protobuf.Duration": ["1.500s", "3s"],
    "google.protobuf.Empty": [{}],
    "google.protobuf.Int32Value": [7], "google.protobuf.UInt32Value": [9], "google.protobuf.StringValue": ["sv"],
    "google.protobuf.BoolValue": [True], "google.protobuf.Int64Value": ["11"], "google.protobuf.UInt64Value": ["12"],
    "google.protobuf.DoubleValue": [1.5], "google.protobuf.FloatValue": [2.5], "google.protobuf.BytesValue": ["AQI="],
    "google.protobuf.Struct": [{"k": "v"}], "google.protobuf.Value": ["x"], "google.protobuf.ListValue": [["a"]],
    "google.protobuf.Any": [{"@type": "type.googleapis.com/google.protobuf.Duration", "value": "1s"}],
}


def rand_msg(r, codec: Codec, full, depth=0, p_set=0.6, force=(), max_depth=None):
    """random JSON valuation of message `full` (proto field names); with `max_depth`, message-typed fields (other than
    the well-known types with fixed samples) are left unset below that depth (densely recursive schemas)"""
    full = full.lstrip(".")
    if full in WKT_SAMPLES:
        return r.pick(WKT_SAMPLES[full])
    desc = codec.pool.FindMessageTypeByName(full)
    out = {}
    chosen_oneof = {}
    for fd in desc.fields:
        forced = fd.name in force
        if max_depth is not None and depth >= max_depth:
            inner = fd.message_type
            if inner is not None and inner.GetOptions().map_entry:
                inner = inner.fields_by_name["value"].message_type
            if inner is not None and inner.full_name not in WKT_SAMPLES:
                continue
        if not forced and not r.maybe(p_set if depth < 3 else 0.15):
            continue
        if fd.containing_oneof is not None and not (fd.has_presence and fd.containing_oneof.name.startswith("_")):
            if fd.containing_oneof.name in chosen_oneof:
                continue
            chosen_oneof[fd.containing_oneof.name] = fd.name

        def one(fd=fd):
            if fd.message_type is not None:
                return rand_msg(r, codec, fd.message_type.full_name, depth + 1, p_set, max_depth=max_depth)
            if fd.enum_type is not None:
                return r.pick([v.name for v in fd.enum_type.values])
            p = descriptor_pb2.FieldDescriptorProto()
            p.type = fd.type
            return rand_scalar(r, p)
        if fd.message_type is not None and fd.message_type.GetOptions().map_entry:
            kf, vf = fd.message_type.fields_by_name["key"], fd.message_type.fields_by_name["value"]
            m = {}
            for _ in range(r.randint(1, 2)):
                pk = descriptor_pb2.FieldDescriptorProto(); pk.type = kf.type
                k = rand_scalar(r, pk)
                if isinstance(k, bool):
                    k = "true" if k else "false"
                if vf.message_type is not None:
                    v = rand_msg(r, codec, vf.message_type.full_name, depth + 1, p_set, max_depth=max_depth)
                elif vf.enum_type is not None:
                    v = r.pick([e.name for e in vf.enum_type.values])
                else:
                    pv = descriptor_pb2.FieldDescriptorProto(); pv.type = vf.type
                    v = rand_scalar(r, pv)
                m[str(k)] = v
            out[fd.name] = m
        elif fd.label == fd.LABEL_REPEATED:
            out[fd.name] = [one() for _ in range(r.randint(1, 3))]
        else:
            out[fd.name] = one()
    return codec.normal(full, out)


def py_locations(api, service):
    """python import locations of emitted entities, read off the real schema object (plumbing only)"""
    ns = ".".join(api.naming.module_namespace)
    pkg = (ns + "." if ns else "") + api.naming.versioned_module_name
    sub = ".".join(service.meta.address.subpackage)
    base = pkg + ("." + sub if sub else "")
    smod = f"{base}.services.{service.module_name if hasattr(service, 'module_name') else service.name.lower()}"
    return {"package": pkg, "service_module": smod,
            "client": f"{smod}:{service.client_name}", "async_client": f"{smod}:{service.async_client_name}",
            "grpc": f"{smod}.transports:{service.name}GrpcTransport",
            "grpc_asyncio": f"{smod}.transports:{service.name}GrpcAsyncIOTransport",
            "rest": f"{smod}.transports:{service.name}RestTransport"}


def py_type(msg):
    """`module:Qual.Name` of the python class for a wrappers.MessageType (proto-plus or pb2)"""
    imp = msg.ident.python_import
    mod = ".".join(imp.package + (imp.module,))
    return f"{mod}:{'.'.join(msg.ident.parent + (msg.ident.name,))}"
