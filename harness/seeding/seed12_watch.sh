#!/bin/bash
# usage: seed12_watch.sh Cxx ... : waits for each seed's deliverables and runs seedtest once; exits when all done
cd /verif
todo=("$@")
while [ ${#todo[@]} -gt 0 ]; do
  next=()
  for c in "${todo[@]}"; do
    wt=/tmp/seed12_$c
    if [ -f $wt/_seed/patch.diff ] && [ -f $wt/_seed/notes.md ] && [ -f $wt/_seed/demo.py ] && [ -f /tmp/seed12_done_$c ]; then
      echo "== seed12_$c"
      /venv/bin/python harness/seedtest.py $wt seed12_$c $c 2>&1 | grep -v "^WARNING" | tail -4
    else
      next+=("$c")
    fi
  done
  todo=("${next[@]}")
  [ ${#todo[@]} -gt 0 ] && sleep 30
done
