import json, sys, os
pid = sys.argv[1]
src = open('/tmp/seed_prompt2.py').read()
def first(p):
    return open(p).read().strip().split("\n")[0].lstrip("# ").strip() if os.path.exists(p) else ""
prev = "; ".join(f"({k}) " + first(f"/verif/seeded/{d}_{pid}/notes.md") for k, d in ((1, "seed"), (2, "seed2"), (3, "seed3"), (4, "seed4"), (5, "seed5"), (6, "seed6"), (7, "seed7"), (8, "seed8"), (9, "seed9"), (10, "seed10"), (11, "seed11")))
src = src.replace('wt = f"/tmp/seed2_{pid}"', 'wt = f"/tmp/seed12_{pid}"')
src = src.replace('prev = open(', 'prev0 = open(')
src = src.replace("an earlier round produced this change for the same property; do NOT repeat it or a close variant", "earlier rounds produced these changes for the same property; do NOT repeat them or close variants")
src = src.replace("{prev}", "{PREV}")
sys.argv = ["x", pid]
exec(compile(src, "p2", "exec"), {"PREV": prev, "__builtins__": __builtins__})
