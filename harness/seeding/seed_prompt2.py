import json, sys
pid = sys.argv[1]
p = [json.loads(l) for l in open('/verif/properties.jsonl') if json.loads(l)['id'] == pid][0]
wt = f"/tmp/seed2_{pid}"
prev = open(f"/verif/seeded/seed_{pid}/notes.md").read().strip().split("\n")[0].lstrip("# ").strip() if __import__("os").path.exists(f"/verif/seeded/seed_{pid}/notes.md") else ""
print(f"""You are testing how well a (hidden) verification framework detects regressions in the repository googleapis/gapic-generator-python (a protoc plugin that builds a schema model from protobuf descriptors + API annotations and renders Jinja templates into Python GAPIC client libraries). You have your own scratch git worktree of the repository at {wt} (create it first: `git -C /repo worktree add --detach {wt} HEAD`). Work ONLY inside {wt} (never edit /repo, never look at /verif).

THE PROPERTY (id {pid}) — "{p['title']}":
{p['statement']}
It is quantified over: {p['quantifier']['text']}
Code it is anchored in: {json.dumps(p['anchors'].get('files'))}
Mechanisms: {json.dumps(p['anchors'].get('mechanism'))}

ALREADY TAKEN (an earlier round produced this change for the same property; do NOT repeat it or a close variant, pick a DIFFERENT mechanism, site or clause of the property): {prev}

YOUR TASK: write ONE realistic change to the repository's source (Python under gapic/ or a Jinja template under gapic/templates or gapic/ads-templates) that BREAKS this property while the code still runs and the repository's existing test suite still passes. Aim for the kind of regression a maintainer could plausibly introduce (a refactor slip, a wrong precedence, a dropped branch, an off-by-one, an "optimisation", two sites that each look fine alone) and that needs something SPECIFIC to manifest: an unusual but legal input, a particular option combination, a multi-step sequence, a second page / second call, a particular interleaving — NOT something every ordinary use would expose at once. Do not break unrelated behaviour; keep the diff small (typically 1-15 lines).

DELIVERABLES (all under {wt}/_seed/):
1. patch.diff — `git -C {wt} diff > {wt}/_seed/patch.diff` of your change (source only, not the demo).
2. demo.py — a self-contained program that exits 0 on the UNCHANGED tree and exits non-zero (with a short message saying what went wrong) on the CHANGED tree, demonstrating that the property is violated. It must take the repository root as argv[1] and put it first on sys.path (so `import gapic` resolves to that tree), e.g. `python demo.py {wt}` vs `python demo.py /repo`.
3. notes.md — which property clause breaks, what input/sequence is needed for it to manifest, and why the existing tests do not notice.

ENVIRONMENT FACTS: interpreter /venv/bin/python (3.12; has protobuf, proto-plus, grpcio, google-api-core, requests, jinja2, pytest, libcst; `gapic` is installed editable from /repo, so ALWAYS run with `PYTHONPATH={wt}` to exercise your tree). No network. No `protoc`: build FileDescriptorProtos with google.protobuf.descriptor_pb2 and a plugin_pb2.CodeGeneratorRequest by hand; dependency files come from installed *_pb2 modules via DESCRIPTOR.CopyToProto. No `pandoc`: gapic.utils.rst calls pypandoc.convert_text for comments containing any of | * ` _ [ ] — stub `pypandoc.convert_text = lambda text, *a, **k: text` before generating. Helper scripts showing how to build descriptors, run the generator in a sub-process, write out the emitted library and import/run it are in /root/spikes/ (mini.py, rich.py, variants.py, vgen.py — copy what you need; vgen.py is the sub-process wrapper; adjust its hard-coded /tmp/exp paths). The emitted library can be imported and run against loopback servers (grpc.server on 127.0.0.1:0 with a generic handler; http.server + RestTransport(host=..., url_scheme="http", credentials=AnonymousCredentials())).
Run the existing tests with: `cd {wt} && PYTHONPATH={wt} /venv/bin/python -m pytest -q -p no:cacheprovider --timeout=900 --continue-on-collection-errors -q tests/unit 2>&1 | tail -5` — NOTE about 30 tests error on the UNCHANGED tree already (missing `fs` fixture, goldens needing protoc); the UNCHANGED tree is /repo itself (same commit): get the baseline by running the same command with `cd /repo` and `PYTHONPATH=/repo`, and compare the sets of failing tests; your change must not add failures. NEVER use `git stash` (the stash is shared between worktrees of one repository and other agents are working in sibling worktrees).

When done, leave the worktree in place (with your change applied and _seed/ filled) and reply with: the diff, how the demo fails, and the notes. Keep the reply short.""")
