#!/bin/bash
# Re-validate every kept seeded change against /repo's CURRENT HEAD: fresh worktree, apply patch.diff,
# run the demonstration, the pinned suite and the named checks (harness/seedtest.py), remove the worktree.
# usage: harness/seedmatrix.sh [seed_id ...]        (default: all of /verif/seeded/*)
cd "$(dirname "$0")/.."
ids=("$@"); [ ${#ids[@]} -eq 0 ] && ids=($(ls seeded))
for sid in "${ids[@]}"; do
  d=seeded/$sid; [ -f $d/patch.diff ] || continue
  prop=$(python3 -c "import json;print(' '.join(json.load(open('$d/meta.json')).get('properties',[])))" 2>/dev/null)
  [ -z "$prop" ] && prop=${sid#seed_}
  wt=/tmp/sm_$sid
  git -C /repo worktree remove --force $wt >/dev/null 2>&1; rm -rf $wt
  git -C /repo worktree add --detach $wt HEAD >/dev/null 2>&1
  if ! git -C $wt apply $PWD/$d/patch.diff 2>/tmp/sm_apply_err.txt; then
    echo "== $sid: patch no longer applies to HEAD: $(head -1 /tmp/sm_apply_err.txt)"
    git -C /repo worktree remove --force $wt >/dev/null 2>&1; continue
  fi
  mkdir -p $wt/_seed; cp $d/patch.diff $d/demo.py $d/notes.md $wt/_seed/ 2>/dev/null
  echo "== $sid ($prop)"
  /venv/bin/python harness/seedtest.py $wt $sid $prop 2>&1 | grep -v "^WARNING" | tail -4
  git -C /repo worktree remove --force $wt >/dev/null 2>&1; rm -rf $wt
done
git -C /repo worktree prune
/venv/bin/python harness/translate.py >/dev/null 2>&1
