#!/bin/bash
# Re-validate every kept seeded change against /repo's CURRENT HEAD in N parallel lanes (default 4).
# usage: harness/seedmatrix_par.sh [lanes]      output: /var/tmp/seedmatrix_lane<k>.txt, summary at the end
cd "$(dirname "$0")/.."
lanes=${1:-4}
ids=($(ls seeded))
for ((k=0; k<lanes; k++)); do
  sub=()
  for ((i=k; i<${#ids[@]}; i+=lanes)); do sub+=("${ids[$i]}"); done
  ( harness/seedmatrix.sh "${sub[@]}" > /var/tmp/seedmatrix_lane$k.txt 2>&1 ) &
done
wait
cat /var/tmp/seedmatrix_lane*.txt | grep -A4 "^== " | awk '/^== /{s=$0} /^check/{print s" :: "$0}'
