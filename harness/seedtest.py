"""Validate a seeded change and run the checks against it.
usage: seedtest.py <worktree> <seed-id> <property> [<property> ...]
The worktree holds the change (applied) and _seed/{patch.diff,demo.py,notes.md}.
Steps: demo passes on /repo and fails on the worktree; the repository's pinned suite still passes on the
worktree; each named check is run with the worktree first on the import path (VERIF_REPO + PYTHONPATH);
results are stored under /verif/seeded/<seed-id>/ (patch.diff, demo.py, notes.md, meta.json)."""
import ast, json, os, shutil, subprocess, sys, tempfile, time
import xml.etree.ElementTree as ET
ROOT = os.path.dirname(os.path.dirname(os.path.abspath(__file__)))
PY = "/venv/bin/python"


def suite(root):
    b = json.load(open("/root/.vp/BASELINE.json"))
    stable = b["stable_pass"]
    if isinstance(stable, str):
        stable = ast.literal_eval(stable)
    out = tempfile.mktemp(suffix=".xml", dir="/var/tmp")
    env = dict(os.environ, PYTHONPATH=root)
    env.pop("GAPIC_GENERATOR_PYTHON_VERIF", None)
    cmd = b["cmd"].replace("cd /repo", f"cd {root}").replace("<file>", out)
    subprocess.run(cmd, shell=True, capture_output=True, env=env)
    passed = set()
    for tc in ET.parse(out).getroot().iter("testcase"):
        if not any(c.tag in ("failure", "error", "skipped") for c in tc):
            passed.add(f"{tc.get('classname')}::{tc.get('name')}")
    os.unlink(out)
    return [t for t in stable if t not in passed]


def main():
    wt, sid, props = sys.argv[1], sys.argv[2], sys.argv[3:]
    meta = {"seed": sid, "worktree": wt, "properties": props, "at": time.strftime("%Y-%m-%dT%H:%M:%SZ", time.gmtime())}
    demo = os.path.join(wt, "_seed", "demo.py")
    a = subprocess.run([PY, demo, "/repo"], capture_output=True, text=True, timeout=1200, env=dict(os.environ, PYTHONPATH="/repo"))
    b = subprocess.run([PY, demo, wt], capture_output=True, text=True, timeout=1200, env=dict(os.environ, PYTHONPATH=wt))
    meta["demo_unchanged_rc"], meta["demo_changed_rc"] = a.returncode, b.returncode
    meta["demo_changed_tail"] = (b.stdout + b.stderr)[-600:]
    print(f"demo: unchanged rc={a.returncode} changed rc={b.returncode}")
    if a.returncode != 0:
        print("  demo fails on the unchanged tree:", (a.stdout + a.stderr)[-400:])
    missing = suite(wt)
    meta["suite_missing"] = missing
    print(f"pinned suite on the changed tree: {len(missing)} of the 609 stable tests no longer pass {missing[:3]}")
    meta["checks"] = {}
    try:      # keep the results of earlier runs for other properties
        old = json.load(open(os.path.join(ROOT, "seeded", sid, "meta.json")))
        meta["checks"] = {k: v for k, v in old.get("checks", {}).items() if k not in props}
        meta["properties"] = sorted(set(old.get("properties", [])) | set(props))
        if old.get("first_outcome"):
            meta["first_outcome"] = old["first_outcome"]      # hand-recorded: what the check said before it was strengthened
    except Exception:
        pass
    for p in props:
        env = dict(os.environ, VERIF_REPO=wt, PYTHONPATH=wt)
        t0 = time.time()
        r = subprocess.run([PY, os.path.join(ROOT, "harness", "check.py"), p], capture_output=True, text=True, cwd=ROOT, env=env, timeout=3600)
        lines = [l for l in r.stdout.splitlines() if l.startswith("VIOLATION") or l.startswith("broken obligation")]
        detail = []
        for l in lines:
            if "replay=" in l:
                rp = os.path.join(ROOT, l.split("replay=")[1].split()[0])
                try:
                    d = json.load(open(rp))
                    detail.append({"key": d.get("key"), "what": (d.get("what") or d.get("note") or "")[:240],
                                   "broken": [o["name"] for o in d.get("broken_obligations", [])][:4],
                                   "disagreements": [x["correspondence"] for x in d.get("disagreements", [])][:4]})
                except Exception:
                    pass
        meta["checks"][p] = {"exit": r.returncode, "lines": lines[:8], "detail": detail[:8], "wall_s": round(time.time() - t0, 1)}
        print(f"check {p}: exit={r.returncode} ({len(lines)} lines) {[d['key'] for d in detail][:5]}")
    dst = os.path.join(ROOT, "seeded", sid)
    os.makedirs(dst, exist_ok=True)
    for f in ("patch.diff", "demo.py", "notes.md"):
        src = os.path.join(wt, "_seed", f)
        if os.path.exists(src):
            shutil.copy(src, os.path.join(dst, f))
    json.dump(meta, open(os.path.join(dst, "meta.json"), "w"), indent=1)
    # restore Generated/* and evidence to the unchanged tree's state
    subprocess.run([PY, os.path.join(ROOT, "harness", "translate.py")], capture_output=True, cwd=ROOT)


if __name__ == "__main__":
    main()
