"""T1-s, the source pin (DESIGN §12): the HAND-WRITTEN parts of the Lean model were written against, and validated
(T2/T3) against, one particular text of the Python functions a property is anchored in.  On every run the functions
named in the property's anchors (`properties.jsonl`, `anchors.mechanism[].where`, entries of the form
`path.py: Class.func/other, func2`) are located in /repo's CURRENT tree, their code is digested (AST without
docstrings, so comments, docstrings and formatting do not count) and compared with the digests recorded when the
model was last validated (`harness/srcpins.json`).  A difference is a broken obligation `srcpin:<file>::<name>`: the
code the model mirrors has changed, so the theorems are no longer known to be about the code; the check then runs its
failing-input search like for any other broken obligation.  `python harness/srcpin.py --pin` re-records the digests
(done by hand after the model has been re-validated against the new source, e.g. after a `fix:` commit)."""
from __future__ import annotations
import ast, hashlib, json, os, re, sys

ROOT = os.path.dirname(os.path.dirname(os.path.abspath(__file__)))
PINS = os.path.join(ROOT, "harness", "srcpins.json")


def repo_root():
    return os.environ.get("VERIF_REPO", "/repo")


# functions a model mirrors although the property's anchors do not name them (added when a builder extended the model)
EXTRA = {
    "C07": [("gapic/schema/wrappers.py", "Method._client_output")],
    "C19": [("gapic/schema/wrappers.py", "MessageType.recursive_field_types"), ("gapic/schema/wrappers.py", "MessageType.recursive_resource_fields"),
            ("gapic/schema/wrappers.py", "CommonResource.build"), ("gapic/schema/wrappers.py", "CommonResource.message_type")],
    "C01": [("gapic/schema/api.py", "API.subpackages"), ("gapic/utils/code.py", "empty"), ("gapic/schema/wrappers.py", "Service.module_name"),
            ("gapic/schema/wrappers.py", "Method.paged_result_field"), ("gapic/schema/wrappers.py", "Method.client_output"),
            ("gapic/schema/wrappers.py", "Method.flat_ref_types"), ("gapic/generator/generator.py", "Generator._get_filename"),
            ("gapic/schema/api.py", "Proto.python_modules"), ("gapic/samplegen/samplegen.py", "_get_sample_imports"),
            ("gapic/schema/api.py", "Proto.names")],
    "C12": [("gapic/schema/wrappers.py", "Service.with_context"), ("gapic/schema/wrappers.py", "Method.with_context"),
            ("gapic/schema/wrappers.py", "Method.flattened_fields"), ("gapic/schema/wrappers.py", "Service.names"),
            ("gapic/schema/wrappers.py", "Method.ref_types"), ("gapic/schema/wrappers.py", "Method._client_output"),
            ("gapic/schema/metadata.py", "Address.python_import"), ("gapic/schema/metadata.py", "Address.module_alias"),
            ("gapic/schema/metadata.py", "Address.is_proto_plus_type"), ("gapic/schema/metadata.py", "Address.convert_to_versioned_package"),
            ("gapic/schema/metadata.py", "Address.__str__")],
    "C02": [("gapic/schema/api.py", "API.subpackages")],
    "C11": [("gapic/schema/api.py", "API.subpackages")],
}


def _anchor_items(prop):
    """[(file, qualname)] named by the property's anchors (plus EXTRA)"""
    return _anchor_items0(prop) + [x for x in EXTRA.get(prop, []) if x not in _anchor_items0(prop)]


def _anchor_items0(prop):
    for line in open(os.path.join(ROOT, "properties.jsonl")):
        p = json.loads(line)
        if p["id"] != prop:
            continue
        out = []
        for mech in p["anchors"].get("mechanism", []):
            where = mech.get("where", "")
            for seg in where.split(";"):
                seg = seg.strip()
                m = re.match(r"^(gapic/[\w/%.-]+\.py)\s*:\s*(.+)$", seg)
                if not m:
                    continue
                path, names = m.group(1), m.group(2)
                names = re.sub(r"\([^)]*\)", "", names)
                for item in names.split(","):
                    item = item.strip()
                    if not item:
                        continue
                    parts = item.split("/")
                    first = parts[0].strip()
                    prefix = first.rsplit(".", 1)[0] + "." if "." in first else ""
                    quals = [first] + [(x.strip() if "." in x else prefix + x.strip()) for x in parts[1:]]
                    for q in quals:
                        q = q.strip().lstrip("*.")
                        if re.match(r"^[A-Za-z_][\w.]*$", q):
                            out.append((path, q))
        seen, res = set(), []
        for it in out:
            if it not in seen:
                seen.add(it)
                res.append(it)
        return res
    return []


def _strip_docstrings(node):
    for n in ast.walk(node):
        if isinstance(n, (ast.FunctionDef, ast.AsyncFunctionDef, ast.ClassDef, ast.Module)):
            if n.body and isinstance(n.body[0], ast.Expr) and isinstance(getattr(n.body[0], "value", None), ast.Constant) \
                    and isinstance(n.body[0].value.value, str):
                n.body = n.body[1:] or [ast.Pass()]
    return node


def _find(tree, qual):
    """the node(s) a dotted name denotes: function / class / module-level assignment; nested functions allowed"""
    parts = qual.split(".")
    body = tree.body
    node = None
    for i, p in enumerate(parts):
        found = [n for n in body if (isinstance(n, (ast.FunctionDef, ast.AsyncFunctionDef, ast.ClassDef)) and n.name == p)]
        if not found and i == len(parts) - 1:
            found = [n for n in body if isinstance(n, (ast.Assign, ast.AnnAssign))
                     and any(isinstance(t, ast.Name) and t.id == p for t in (n.targets if isinstance(n, ast.Assign) else [n.target]))]
        if not found and i == 0 and len(parts) == 1:
            # a bare member name (`_get_filename`, `*.add_to_address_allowlist`, a class attribute): every class member so named
            found = []
            for cls in [n for n in ast.walk(tree) if isinstance(n, ast.ClassDef)]:
                for n in cls.body:
                    if isinstance(n, (ast.FunctionDef, ast.AsyncFunctionDef)) and n.name == p:
                        found.append(n)
                    elif isinstance(n, (ast.Assign, ast.AnnAssign)) and any(
                            isinstance(t, ast.Name) and t.id == p for t in (n.targets if isinstance(n, ast.Assign) else [n.target])):
                        found.append(n)
        if not found:
            return None
        node = found          # properties with setters etc.: all definitions of that name
        body = found[0].body if hasattr(found[0], "body") else []
    return node


def digest(path, qual, cache={}):
    full = os.path.join(repo_root(), path)
    key = (full, os.path.getmtime(full) if os.path.exists(full) else None)
    if key not in cache:
        try:
            cache[key] = ast.parse(open(full).read())
        except (OSError, SyntaxError):
            cache[key] = None
    tree = cache[key]
    if tree is None:
        return None
    nodes = _find(tree, qual)
    if not nodes:
        return None
    h = hashlib.sha256()
    for n in nodes:
        n = _strip_docstrings(ast.parse(ast.unparse(n)))
        h.update(ast.dump(n, include_attributes=False).encode())
    return h.hexdigest()[:16]


def current(prop):
    return {f"{path}::{qual}": digest(path, qual) for path, qual in _anchor_items(prop)}


def obligations(prop):
    """[(name, ok, detail)] for the property; names that the anchors mention but that never resolved are not obligations"""
    try:
        pinned = json.load(open(PINS)).get(prop, {})
    except OSError:
        pinned = {}
    cur = current(prop)
    out = []
    for name, want in pinned.items():
        got = cur.get(name)
        if got == want:
            out.append((f"srcpin:{name}", True, "source of the modelled function unchanged since the model was validated"))
        elif got is None:
            out.append((f"srcpin:{name}", False, "the function the model mirrors no longer exists under this name"))
        else:
            out.append((f"srcpin:{name}", False, "the code of this function changed since the hand-written model was validated against it "
                                                 f"(digest {got}, validated {want}): theorems about the model are no longer known to be about the code"))
    return out


def main():
    props = [json.loads(l)["id"] for l in open(os.path.join(ROOT, "properties.jsonl"))]
    if "--pin" in sys.argv:
        data = {}
        for p in props:
            cur = current(p)
            data[p] = {k: v for k, v in sorted(cur.items()) if v is not None}
            miss = [k for k, v in cur.items() if v is None]
            print(p, len(data[p]), "pinned;", "unresolved:", miss)
        json.dump(data, open(PINS, "w"), indent=1, sort_keys=True)
    else:
        for p in props:
            bad = [o for o in obligations(p) if not o[1]]
            print(p, "ok" if not bad else bad)


if __name__ == "__main__":
    main()
