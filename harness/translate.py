"""T1 translator: re-extract tables, regexes and inventories from /repo's current working tree
and write them as Lean sources (GapicModel/Generated/*.lean).  `--pin` also rewrites
GapicModel/Pinned/*.lean and GapicModel/Bridge/*.lean (done once, by hand, when the model is
(re)validated against the source; never at check time).

Regexes are converted with CPython's own `re._parser`, so the Lean AST is CPython's reading
of the pattern.  Everything here is in the trusted base (DESIGN §5.2).
"""
from __future__ import annotations
import ast, json, keyword, os, re, sys, hashlib
import re._parser as sre_parse
import re._constants as C

REPO = os.environ.get("VERIF_REPO", "/repo")
HERE = os.path.dirname(os.path.abspath(__file__))
LEAN = os.path.join(os.path.dirname(HERE), "lean", "GapicModel")

# ----------------------------------------------------------------------------- regex → JSON AST

class Unsupported(Exception):
    pass

CAT = {C.CATEGORY_SPACE: "space", C.CATEGORY_NOT_SPACE: "nspace", C.CATEGORY_WORD: "word",
       C.CATEGORY_NOT_WORD: "nword", C.CATEGORY_DIGIT: "digit", C.CATEGORY_NOT_DIGIT: "ndigit"}


def _seq(items):
    items = [i for i in items if i != ["eps"]]
    if not items:
        return ["eps"]
    out = items[-1]
    for i in reversed(items[:-1]):
        out = ["seq", i, out]
    return out


def _conv_items(sub):
    return _seq([_conv(op, av) for op, av in sub])


def _conv(op, av):
    if op is C.LITERAL:
        return ["chr", av]
    if op is C.NOT_LITERAL:
        return ["cls", True, [["ch", av]]]
    if op is C.ANY:
        return ["any"]
    if op is C.IN:
        neg = False
        items = []
        for o, a in av:
            if o is C.NEGATE:
                neg = True
            elif o is C.LITERAL:
                items.append(["ch", a])
            elif o is C.RANGE:
                items.append(["range", a[0], a[1]])
            elif o is C.CATEGORY:
                if a not in CAT:
                    raise Unsupported(f"category {a}")
                items.append([CAT[a]])
            else:
                raise Unsupported(f"class item {o}")
        return ["cls", neg, items]
    if op is C.BRANCH:
        _, alts = av
        alts = [_conv_items(a) for a in alts]
        out = alts[-1]
        for a in reversed(alts[:-1]):
            out = ["alt", a, out]
        return out
    if op is C.SUBPATTERN:
        group, add_flags, del_flags, p = av
        if add_flags or del_flags:
            raise Unsupported("inline flags")
        body = _conv_items(p)
        return body if group is None else ["group", group, body]
    if op in (C.MAX_REPEAT, C.MIN_REPEAT):
        lo, hi, p = av
        greedy = op is C.MAX_REPEAT
        body = _conv_items(p)
        parts = [body] * lo
        if hi is C.MAXREPEAT:
            parts.append(["star", body, greedy])
        else:
            if hi - lo > 8:
                raise Unsupported("large bounded repeat")
            # r{lo,hi}: (hi-lo) nested optionals  r(r(r)?)?
            tail = ["eps"]
            for _ in range(hi - lo):
                inner = _seq([body, tail])
                tail = ["alt", inner, ["eps"]] if greedy else ["alt", ["eps"], inner]
            parts.append(tail)
        return _seq(parts)
    if op is C.AT:
        if av is C.AT_BEGINNING:
            return ["bol"]
        if av is C.AT_END:
            return ["eol"]
        raise Unsupported(f"anchor {av}")
    if op in (C.ASSERT, C.ASSERT_NOT):
        direction, p = av
        body = _conv_items(p)
        if direction < 0:
            lo, hi = p.getwidth()
            if (lo, hi) != (1, 1):
                raise Unsupported("look-behind wider than one character")
        return ["look", direction > 0, op is C.ASSERT_NOT, body]
    raise Unsupported(f"opcode {op}")


def regex_to_json(pattern: str, flags: int = 0):
    """CPython's parse of `pattern` as a JSON-able AST + group info."""
    if flags:
        raise Unsupported("flags")
    p = sre_parse.parse(pattern, flags)
    if p.state.flags & ~(re.UNICODE):
        raise Unsupported(f"flags {p.state.flags}")
    ast_ = _conv_items(p)
    names = sorted(p.state.groupdict.items(), key=lambda kv: kv[1])
    lo, hi = p.getwidth()
    return {"re": ast_, "ngroups": p.state.groups - 1, "names": [[k, v] for k, v in names], "minwidth": lo}


def repl_to_json(repl: str):
    """replacement template → list of ["lit", str] | ["grp", n] (CPython's own parse)."""
    pat = re.compile("(x)" * 9)
    # Python 3.12: parse_template returns a list of str | int
    tmpl = sre_parse.parse_template(repl, pat)
    out = []
    if isinstance(tmpl, list):
        for t in tmpl:
            if isinstance(t, int):
                out.append(["grp", t])
            elif t:
                out.append(["lit", t])
    else:  # older: (groups, literals)
        groups, literals = tmpl
        gmap = dict(groups)
        for i, lit in enumerate(literals):
            if i in gmap:
                out.append(["grp", gmap[i]])
            elif lit:
                out.append(["lit", lit])
    return out

# ----------------------------------------------------------------------------- Lean text emitters


def lean_char(cp: int) -> str:
    ch = chr(cp)
    if 32 <= cp < 127 and ch not in "'\\\"":
        return f"'{ch}'"
    return f"(Char.ofNat {cp})"


def lean_str(s: str) -> str:
    out = []
    for ch in s:
        cp = ord(ch)
        if ch == '"':
            out.append('\\"')
        elif ch == "\\":
            out.append("\\\\")
        elif ch == "\n":
            out.append("\\n")
        elif ch == "\t":
            out.append("\\t")
        elif 32 <= cp < 127:
            out.append(ch)
        else:
            out.append("\\u{%x}" % cp)
    return '"' + "".join(out) + '"'


def lean_re(j) -> str:
    t = j[0]
    if t in ("eps", "any", "bol", "eol"):
        return f".{t}"
    if t == "chr":
        return f"(.chr {lean_char(j[1])})"
    if t == "cls":
        items = []
        for it in j[2]:
            if it[0] == "ch":
                items.append(f".ch {lean_char(it[1])}")
            elif it[0] == "range":
                items.append(f".range {lean_char(it[1])} {lean_char(it[2])}")
            else:
                items.append(f".{it[0]}")
        return f"(.cls {'true' if j[1] else 'false'} [{', '.join(items)}])"
    if t in ("seq", "alt"):
        return f"(.{t} {lean_re(j[1])} {lean_re(j[2])})"
    if t == "star":
        return f"(.star {lean_re(j[1])} {'true' if j[2] else 'false'})"
    if t == "group":
        return f"(.group {j[1]} {lean_re(j[2])})"
    if t == "look":
        return f"(.look {'true' if j[1] else 'false'} {'true' if j[2] else 'false'} {lean_re(j[3])})"
    raise ValueError(t)


def lean_repl(j) -> str:
    parts = []
    for it in j:
        if it[0] == "lit":
            parts.append(f".lit {lean_str(it[1])}.toList")
        else:
            parts.append(f".grp {it[1]}")
    return "[" + ", ".join(parts) + "]"

# ----------------------------------------------------------------------------- extraction from the source


def _src(rel):
    with open(os.path.join(REPO, rel), encoding="utf-8") as fh:
        return fh.read()


class _SiteVisitor(ast.NodeVisitor):
    """collect `re.<fn>(…)` call sites with their enclosing qualname."""

    def __init__(self):
        self.stack = []
        self.sites = []

    def _scoped(self, node):
        self.stack.append(node.name)
        self.generic_visit(node)
        self.stack.pop()

    visit_FunctionDef = visit_AsyncFunctionDef = visit_ClassDef = _scoped

    def visit_Call(self, node):
        f = node.func
        if isinstance(f, ast.Attribute) and isinstance(f.value, ast.Name) and f.value.id == "re":
            self.sites.append((".".join(self.stack) or "<module>", f.attr, node))
        self.generic_visit(node)


def re_sites(rel):
    tree = ast.parse(_src(rel))
    v = _SiteVisitor()
    v.visit(tree)
    return v.sites


def _const_str(node):
    if isinstance(node, ast.Constant) and isinstance(node.value, str):
        return node.value
    return None


def _find_assign(tree, qual, var):
    """value node of `var = …` inside function/class `qual` (dotted) or at module level."""
    scope = tree
    if qual:
        for part in qual.split("."):
            for n in ast.walk(scope):
                if isinstance(n, (ast.FunctionDef, ast.ClassDef, ast.AsyncFunctionDef)) and n.name == part:
                    scope = n
                    break
            else:
                raise KeyError(f"{qual} not found")
    for n in ast.walk(scope):
        if isinstance(n, (ast.Assign, ast.AnnAssign)):
            tgts = n.targets if isinstance(n, ast.Assign) else [n.target]
            for t in tgts:
                if isinstance(t, ast.Name) and t.id == var and n.value is not None:
                    return n.value
    raise KeyError(f"{var} not found in {qual or '<module>'}")


def _literal(node):
    """literal_eval, also through frozenset([...]) / set(...) / re.compile(...) wrappers."""
    if isinstance(node, ast.Call) and isinstance(node.func, ast.Name) and node.func.id in ("frozenset", "set", "tuple", "list"):
        return _literal(node.args[0]) if node.args else []
    if isinstance(node, ast.Call) and isinstance(node.func, ast.Attribute) and node.func.attr == "compile":
        return _literal(node.args[0])
    if isinstance(node, ast.Call) and isinstance(node.func, ast.Attribute) and node.func.attr == "strip":
        return _literal(node.func.value).strip()
    return ast.literal_eval(node)


# regexes given by call site: name -> (file, qualname, fn, ordinal among `re.fn` calls in that qualname)
CALL_REGEXES = {
    "fixws1": ("gapic/generator/formatter.py", "fix_whitespace", "sub", 0),
    "fixws2": ("gapic/generator/formatter.py", "fix_whitespace", "sub", 1),
    "fixws3": ("gapic/generator/formatter.py", "fix_whitespace", "sub", 2),
    "filenameSlashes": ("gapic/generator/generator.py", "Generator._get_filename", "sub", 0),
    "snake1": ("gapic/utils/case.py", "to_snake_case", "sub", 0),
    "snake2": ("gapic/utils/case.py", "to_snake_case", "sub", 1),
    "snake3": ("gapic/utils/case.py", "to_snake_case", "sub", 2),
    "snake4": ("gapic/utils/case.py", "to_snake_case", "sub", 3),
    "validFilename": ("gapic/utils/filename.py", "to_valid_filename", "sub", 0),
    "wrapColon": ("gapic/utils/lines.py", "wrap", "sub", 0),
    "rstTrigger": ("gapic/utils/rst.py", "rst", "search", 0),
    "pathArg": ("gapic/schema/wrappers.py", "MessageType", "compile", 0),
    "fieldHeaders": ("gapic/schema/wrappers.py", "Method.field_headers", "compile", 0),
    "uriSampleStar": ("gapic/utils/uri_sample.py", "sample_from_path_fields", "sub", 0),
    "clientInit": ("gapic/samplegen_utils/snippet_index.py", "<module>", "compile", 0),
    "requestInit": ("gapic/samplegen_utils/snippet_index.py", "<module>", "compile", 1),
    "requestExec": ("gapic/samplegen_utils/snippet_index.py", "<module>", "compile", 2),
    "responseHandling": ("gapic/samplegen_utils/snippet_index.py", "<module>", "compile", 3),
}
# regexes given by a string assigned to a variable: name -> (file, qualname, var)
VAR_REGEXES = {
    "numberedList": ("gapic/utils/lines.py", "", "NUMBERED_LIST_REGEX"),
    "namingPattern": ("gapic/schema/naming.py", "Naming.build", "pattern"),
    "namingVersion": ("gapic/schema/naming.py", "Naming.build", "version"),
    "versionedPackage": ("gapic/schema/metadata.py", "Address.convert_to_versioned_package", "version_regex"),
}

# string tables: name -> (file, qualname, var)
STR_TABLES = {
    "reservedNames": ("gapic/utils/reserved_names.py", "", "RESERVED_NAMES"),
    "optFlags": ("gapic/utils/options.py", "Options", "OPT_FLAGS"),
}


def extract_regexes():
    out = {}
    trees = {}
    sites_cache = {}
    for name, (rel, qual, fn, idx) in CALL_REGEXES.items():
        if rel not in sites_cache:
            sites_cache[rel] = re_sites(rel)
        cands = [n for (q, f, n) in sites_cache[rel] if f == fn and (q == qual or q.startswith(qual + ".") and qual == "MessageType")]
        entry = {"file": rel, "where": f"{qual}: re.{fn} #{idx}"}
        try:
            node = cands[idx]
            pat = _const_str(node.args[0])
            if pat is None:
                raise Unsupported("pattern is not a string constant")
            entry["src"] = pat
            entry.update(regex_to_json(pat))
            if fn == "sub":
                r = _const_str(node.args[1])
                entry["repl_src"] = r
                entry["repl"] = repl_to_json(r) if r is not None else None
        except (IndexError, Unsupported, re.error) as e:
            entry["error"] = f"{type(e).__name__}: {e}"
        out[name] = entry
    for name, (rel, qual, var) in VAR_REGEXES.items():
        entry = {"file": rel, "where": f"{qual or '<module>'}: {var}"}
        try:
            tree = trees.setdefault(rel, ast.parse(_src(rel)))
            pat = _literal(_find_assign(tree, qual, var))
            entry["src"] = pat
            entry.update(regex_to_json(pat))
        except (KeyError, ValueError, Unsupported, re.error) as e:
            entry["error"] = f"{type(e).__name__}: {e}"
        out[name] = entry
    return out


def class_ranges():
    def ranges(pat):
        rx = re.compile(pat)
        out, start = [], None
        for cp in range(0x110000):
            ok = rx.match(chr(cp)) is not None
            if ok and start is None:
                start = cp
            if not ok and start is not None:
                out.append([start, cp - 1])
                start = None
        if start is not None:
            out.append([start, 0x10FFFF])
        return out
    return {"space": ranges(r"\s"), "word": ranges(r"\w"), "digit": ranges(r"\d")}


def extract_tables():
    t = {}
    for name, (rel, qual, var) in STR_TABLES.items():
        tree = ast.parse(_src(rel))
        t[name] = sorted(_literal(_find_assign(tree, qual, var)))
    t["pyKeywords"] = sorted(keyword.kwlist)
    # invalid module names = kwlist ∪ the literal set in API.build
    tree = ast.parse(_src("gapic/schema/api.py"))
    node = _find_assign(tree, "API.build", "invalid_module_names")
    lits = [n for n in ast.walk(node) if isinstance(n, ast.Set)]
    t["invalidModuleExtra"] = sorted(ast.literal_eval(lits[0]))
    tree = ast.parse(_src("gapic/schema/wrappers.py"))
    node = _find_assign(tree, "Method.transport_safe_name", "TRANSPORT_UNSAFE_NAMES")
    lits = [n for n in ast.walk(node) if isinstance(n, ast.Set)]
    t["transportUnsafeExtra"] = sorted(ast.literal_eval(lits[0]))
    # common resources (type, pattern), in declaration order
    node = _find_assign(tree, "Service", "common_resources")
    pairs = []
    for d in ast.walk(node):
        if isinstance(d, ast.Dict):
            for k, v in zip(d.keys, d.values):
                kw = {a.arg: ast.literal_eval(a.value) for a in v.keywords} if isinstance(v, ast.Call) else {}
                args = [ast.literal_eval(a) for a in v.args] if isinstance(v, ast.Call) else []
                pairs.append([ast.literal_eval(k), (args + [kw.get("pattern")])[1] if len(args) < 2 else args[1]])
            break
    t["commonResources"] = pairs
    # mixins map: name -> request/response type strings
    tree = ast.parse(_src("gapic/schema/mixins.py"))
    node = _find_assign(tree, "", "MIXINS_MAP")
    mix = []
    for k, v in zip(node.keys, node.values):
        kw = {a.arg: ast.literal_eval(a.value) for a in v.keywords}
        mix.append([ast.literal_eval(k), kw.get("request_type", ""), kw.get("response_type", "")])
    t["mixinsMap"] = mix
    return t


def extract_templates():
    out = {}
    for key, sub in (("templates", "gapic/templates"), ("adsTemplates", "gapic/ads-templates")):
        root = os.path.join(REPO, sub)
        names = []
        for dp, dn, fn in os.walk(root):
            for f in fn:
                names.append(os.path.relpath(os.path.join(dp, f), root))
        out[key] = sorted(names)
    return out


def extract_all():
    return {"regexes": extract_regexes(), "tables": extract_tables(), "classes": class_ranges(),
            "templates": extract_templates()}

# ----------------------------------------------------------------------------- writers


def _write_if_changed(path, text):
    os.makedirs(os.path.dirname(path), exist_ok=True)
    try:
        with open(path, encoding="utf-8") as fh:
            if fh.read() == text:
                return False
    except FileNotFoundError:
        pass
    tmp = path + ".tmp"
    with open(tmp, "w", encoding="utf-8") as fh:
        fh.write(text)
    os.replace(tmp, path)
    return True


def lean_strlist(xs):
    return "[" + ", ".join(lean_str(x) for x in xs) + "]"


def render(ns: str, data) -> dict:
    """Lean sources (file name -> text) for namespace `ns` ∈ {Generated, Pinned}."""
    hdr = f"-- {'REWRITTEN BY harness/translate.py ON EVERY CHECK RUN' if ns == 'Generated' else 'written by harness/translate.py --pin; the theorems are about these values'}\n"
    files = {}
    # Tables
    L = [hdr, "namespace GapicModel." + ns, ""]
    for name, val in data["tables"].items():
        if val and isinstance(val[0], list):
            rows = ", ".join("(" + ", ".join(lean_str(x if x is not None else "") for x in row) + ")" for row in val)
            ty = "List (" + " × ".join(["String"] * len(val[0])) + ")"
            L.append(f"def {name} : {ty} := [{rows}]")
        else:
            L.append(f"def {name} : List String := {lean_strlist(val)}")
    L += ["", "end GapicModel." + ns, ""]
    files["Tables.lean"] = "\n".join(L)
    # class tables
    L = [hdr, "import GapicModel.Regex.Syntax", "namespace GapicModel." + ns, "open GapicModel.Regex", ""]
    for k in ("space", "word", "digit"):
        rows = ", ".join(f"({a}, {b})" for a, b in data["classes"][k])
        L.append(f"def {k}Ranges : List (Nat × Nat) := [{rows}]")
    L.append("def classTables : ClassTables := ⟨spaceRanges, wordRanges, digitRanges⟩")
    L += ["", "end GapicModel." + ns, ""]
    files["CharClass.lean"] = "\n".join(L)
    # regexes
    L = [hdr, "import GapicModel.Regex.Match", "namespace GapicModel." + ns, "open GapicModel.Regex", ""]
    for name, e in data["regexes"].items():
        L.append(f"-- {e['file']} — {e['where']}")
        if "error" in e:
            L.append(f"-- NOT TRANSLATED: {e['error']}")
            L.append(f"def {name} : Pattern := ⟨.cls false [], 0, [(\"<untranslated>\", 0)]⟩")
        else:
            L.append(f"-- source: {e['src']!r}")
            names = ", ".join(f"({lean_str(k)}, {v})" for k, v in e["names"])
            L.append(f"def {name} : Pattern := ⟨{lean_re(e['re'])}, {e['ngroups']}, [{names}]⟩")
            if e.get("repl") is not None:
                L.append(f"def {name}Repl : List RItem := {lean_repl(e['repl'])}")
        L.append("")
    L += ["end GapicModel." + ns, ""]
    files["Regexes.lean"] = "\n".join(L)
    # templates
    L = [hdr, "namespace GapicModel." + ns, ""]
    for k, v in data["templates"].items():
        L.append(f"def {k} : List String := {lean_strlist(v)}")
        # the same paths as explicit character lists (String.toList on literals is very slow in the kernel)
        rows = ", ".join("[" + ", ".join(lean_char(ord(ch)) for ch in x) + "]" for x in v)
        L.append(f"def {k}Chars : List (List Char) := [{rows}]")
    L += ["", "end GapicModel." + ns, ""]
    files["Templates.lean"] = "\n".join(L)
    return files


def item_names(data):
    names = {"Tables": list(data["tables"].keys()), "CharClass": ["spaceRanges", "wordRanges", "digitRanges"],
             "Regexes": [], "Templates": [x for k in data["templates"].keys() for x in (k, k + "Chars")]}
    for n, e in data["regexes"].items():
        names["Regexes"].append(n)
        if e.get("repl") is not None:
            names["Regexes"].append(n + "Repl")
    return names


def render_bridge(data) -> str:
    L = ["-- written by harness/translate.py --pin: one bridge lemma per extracted item.",
         "-- A change of the corresponding source item in /repo breaks exactly the lemma named after it.",
         "import GapicModel.Generated.Tables", "import GapicModel.Generated.CharClass",
         "import GapicModel.Generated.Regexes", "import GapicModel.Generated.Templates",
         "import GapicModel.Pinned.Tables", "import GapicModel.Pinned.CharClass",
         "import GapicModel.Pinned.Regexes", "import GapicModel.Pinned.Templates",
         "namespace GapicModel.Bridge", ""]
    for mod, names in item_names(data).items():
        for n in names:
            tac = "by decide" if mod == "Regexes" else "rfl"
            if mod == "Regexes" and not n.endswith("Repl"):
                L.append(f"theorem {n} : Generated.{n}.re = Pinned.{n}.re ∧ Generated.{n}.ngroups = Pinned.{n}.ngroups ∧ Generated.{n}.names = Pinned.{n}.names := by decide")
            else:
                L.append(f"theorem {n} : Generated.{n} = Pinned.{n} := {tac}")
    L += ["", "end GapicModel.Bridge", ""]
    return "\n".join(L)


def run(pin=False, verbose=False):
    data = extract_all()
    changed = []
    for fn, text in render("Generated", data).items():
        if _write_if_changed(os.path.join(LEAN, "Generated", fn), text):
            changed.append("Generated/" + fn)
    # T1-f: small pure functions translated to Lean (harness/pyfun2lean.py)
    import pyfun2lean
    funcs = pyfun2lean.translate_functions()
    data["funcs"] = funcs
    if _write_if_changed(os.path.join(LEAN, "Generated", "Funcs.lean"), pyfun2lean.render("Generated", funcs)):
        changed.append("Generated/Funcs.lean")
    if pin:
        for fn, text in (("Pinned/Funcs.lean", pyfun2lean.render("Pinned", funcs)), ("Bridge/Funcs.lean", pyfun2lean.render_bridge(funcs)),
                         ("Driver/Funcs.lean", pyfun2lean.render_driver(funcs))):
            if _write_if_changed(os.path.join(LEAN, fn), text):
                changed.append(fn)
    if pin:
        for fn, text in render("Pinned", data).items():
            if _write_if_changed(os.path.join(LEAN, "Pinned", fn), text):
                changed.append("Pinned/" + fn)
        if _write_if_changed(os.path.join(LEAN, "Bridge", "All.lean"), render_bridge(data)):
            changed.append("Bridge/All.lean")
    errs = {n: e["error"] for n, e in data["regexes"].items() if "error" in e}
    errs.update({"fn:" + n: e["error"] for n, e in funcs.items() if "error" in e})
    if verbose:
        print(json.dumps({"changed": changed, "untranslated": errs}, indent=1))
    return data, changed, errs


if __name__ == "__main__":
    run(pin="--pin" in sys.argv, verbose=True)
