import GapicModel.Regex.Syntax
import GapicModel.Regex.Match
import GapicModel.Lemmas.Regex
import GapicModel.Bridge.All
import GapicModel.Driver
import GapicModel.Props.C07
import GapicModel.Props.C19
