import GapicModel.Regex.Syntax
import GapicModel.Regex.Match
import GapicModel.Bridge.All
