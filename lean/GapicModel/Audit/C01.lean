import GapicModel.Props.C01
#print axioms GapicModel.Props.C01.contains_true_iff
#print axioms GapicModel.Props.C01.contains_false_iff
#print axioms GapicModel.Props.C01.registry_exact
#print axioms GapicModel.Props.C01.default_grpc_when_requested
#print axioms GapicModel.Props.C01.default_rest_otherwise
#print axioms GapicModel.Props.C01.no_default_without_transport
#print axioms GapicModel.Props.C01.any_supported_list
#print axioms GapicModel.Props.C01.any_supported
#print axioms GapicModel.Props.C01.gate_eq
#print axioms GapicModel.Props.C01.transport_modules_exact
#print axioms GapicModel.Props.C01.async_client_iff
#print axioms GapicModel.Props.C01.one_client_per_service
