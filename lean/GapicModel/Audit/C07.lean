import GapicModel.Props.C07
#print axioms GapicModel.Props.C07.paged_iff
#print axioms GapicModel.Props.C07.max_results_preferred
#print axioms GapicModel.Props.C07.size_types_exact
#print axioms GapicModel.Props.C07.pagesGen_pages
#print axioms GapicModel.Props.C07.items_all_once_in_order
#print axioms GapicModel.Props.C07.stops_at_first_empty_token
#print axioms GapicModel.Props.C07.requests_thread_tokens
#print axioms GapicModel.Props.C07.request_tokens
#print axioms GapicModel.Props.C07.attrs_are_last_page
#print axioms GapicModel.Props.C07.mistyped_max_results_hides_page_size
#print axioms GapicModel.Props.C07.repeated_token_not_paged
