import GapicModel.Props.C11
#print axioms GapicModel.Props.C11.cleanSeg_of_anchor
#print axioms GapicModel.Props.C11.varText_clean
#print axioms GapicModel.Props.C11.cleanOpt_no_slash
#print axioms GapicModel.Props.C11.filter_clean
#print axioms GapicModel.Props.C11.flatten_no_slash
#print axioms GapicModel.Props.C11.segOut_clean
#print axioms GapicModel.Props.C11.all_template_segments_good
#print axioms GapicModel.Props.C11.names_relative_normalised
#print axioms GapicModel.Props.C11.getFilename_append
#print axioms GapicModel.Props.C11.python_under_package_root
#print axioms GapicModel.Props.C11.templates_init_closed
#print axioms GapicModel.Props.C11.init_templates_never_gated
#print axioms GapicModel.Props.C11.private_templates_skipped
#print axioms GapicModel.Props.C11.metadata_gate
#print axioms GapicModel.Props.C11.proto_files_only_for_target_protos
