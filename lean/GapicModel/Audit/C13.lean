import GapicModel.Props.C13
#print axioms GapicModel.Props.C13.digitChar_no_slash
#print axioms GapicModel.Props.C13.decDigitsAux_no_slash
#print axioms GapicModel.Props.C13.sampleName_no_slash
#print axioms GapicModel.Props.C13.sampleName_ne_nil
#print axioms GapicModel.Props.C13.sample_matches_template
#print axioms GapicModel.Props.C13.sample_names_fresh
