import GapicModel.Props.C19
#print axioms GapicModel.Props.C19.lit_fail
#print axioms GapicModel.Props.C19.match_build
#print axioms GapicModel.Props.C19.group_capsP_lt
#print axioms GapicModel.Props.C19.groupdict_capsP
#print axioms GapicModel.Props.C19.expected_values
