import GapicModel.Props.C19
#print axioms GapicModel.Props.C19.lit_fail
#print axioms GapicModel.Props.C19.match_build
#print axioms GapicModel.Props.C19.group_capsP_lt
#print axioms GapicModel.Props.C19.groupdict_capsP
#print axioms GapicModel.Props.C19.expected_values
#print axioms GapicModel.Props.C19.wildcard_accepts_all
#print axioms GapicModel.Props.C19.parse_build_partial
#print axioms GapicModel.Props.C19.rebuild_partial
#print axioms GapicModel.Props.C19.nonmatch_empty
#print axioms GapicModel.Props.C19.args_are_variables
#print axioms GapicModel.Props.C19.dot_separator_roundtrip
#print axioms GapicModel.Props.C19.newline_counterexample
#print axioms GapicModel.Props.C19.empty_segment_counterexample
