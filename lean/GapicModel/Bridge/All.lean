-- written by harness/translate.py --pin: one bridge lemma per extracted item.
-- A change of the corresponding source item in /repo breaks exactly the lemma named after it.
import GapicModel.Generated.Tables
import GapicModel.Generated.CharClass
import GapicModel.Generated.Regexes
import GapicModel.Generated.Templates
import GapicModel.Pinned.Tables
import GapicModel.Pinned.CharClass
import GapicModel.Pinned.Regexes
import GapicModel.Pinned.Templates
namespace GapicModel.Bridge

theorem reservedNames : Generated.reservedNames = Pinned.reservedNames := rfl
theorem optFlags : Generated.optFlags = Pinned.optFlags := rfl
theorem pyKeywords : Generated.pyKeywords = Pinned.pyKeywords := rfl
theorem invalidModuleExtra : Generated.invalidModuleExtra = Pinned.invalidModuleExtra := rfl
theorem transportUnsafeExtra : Generated.transportUnsafeExtra = Pinned.transportUnsafeExtra := rfl
theorem commonResources : Generated.commonResources = Pinned.commonResources := rfl
theorem mixinsMap : Generated.mixinsMap = Pinned.mixinsMap := rfl
theorem spaceRanges : Generated.spaceRanges = Pinned.spaceRanges := rfl
theorem wordRanges : Generated.wordRanges = Pinned.wordRanges := rfl
theorem digitRanges : Generated.digitRanges = Pinned.digitRanges := rfl
theorem fixws1 : Generated.fixws1.re = Pinned.fixws1.re ∧ Generated.fixws1.ngroups = Pinned.fixws1.ngroups ∧ Generated.fixws1.names = Pinned.fixws1.names := by decide
theorem fixws1Repl : Generated.fixws1Repl = Pinned.fixws1Repl := by decide
theorem fixws2 : Generated.fixws2.re = Pinned.fixws2.re ∧ Generated.fixws2.ngroups = Pinned.fixws2.ngroups ∧ Generated.fixws2.names = Pinned.fixws2.names := by decide
theorem fixws2Repl : Generated.fixws2Repl = Pinned.fixws2Repl := by decide
theorem fixws3 : Generated.fixws3.re = Pinned.fixws3.re ∧ Generated.fixws3.ngroups = Pinned.fixws3.ngroups ∧ Generated.fixws3.names = Pinned.fixws3.names := by decide
theorem fixws3Repl : Generated.fixws3Repl = Pinned.fixws3Repl := by decide
theorem filenameSlashes : Generated.filenameSlashes.re = Pinned.filenameSlashes.re ∧ Generated.filenameSlashes.ngroups = Pinned.filenameSlashes.ngroups ∧ Generated.filenameSlashes.names = Pinned.filenameSlashes.names := by decide
theorem filenameSlashesRepl : Generated.filenameSlashesRepl = Pinned.filenameSlashesRepl := by decide
theorem snake1 : Generated.snake1.re = Pinned.snake1.re ∧ Generated.snake1.ngroups = Pinned.snake1.ngroups ∧ Generated.snake1.names = Pinned.snake1.names := by decide
theorem snake1Repl : Generated.snake1Repl = Pinned.snake1Repl := by decide
theorem snake2 : Generated.snake2.re = Pinned.snake2.re ∧ Generated.snake2.ngroups = Pinned.snake2.ngroups ∧ Generated.snake2.names = Pinned.snake2.names := by decide
theorem snake2Repl : Generated.snake2Repl = Pinned.snake2Repl := by decide
theorem snake3 : Generated.snake3.re = Pinned.snake3.re ∧ Generated.snake3.ngroups = Pinned.snake3.ngroups ∧ Generated.snake3.names = Pinned.snake3.names := by decide
theorem snake3Repl : Generated.snake3Repl = Pinned.snake3Repl := by decide
theorem snake4 : Generated.snake4.re = Pinned.snake4.re ∧ Generated.snake4.ngroups = Pinned.snake4.ngroups ∧ Generated.snake4.names = Pinned.snake4.names := by decide
theorem snake4Repl : Generated.snake4Repl = Pinned.snake4Repl := by decide
theorem validFilename : Generated.validFilename.re = Pinned.validFilename.re ∧ Generated.validFilename.ngroups = Pinned.validFilename.ngroups ∧ Generated.validFilename.names = Pinned.validFilename.names := by decide
theorem validFilenameRepl : Generated.validFilenameRepl = Pinned.validFilenameRepl := by decide
theorem wrapColon : Generated.wrapColon.re = Pinned.wrapColon.re ∧ Generated.wrapColon.ngroups = Pinned.wrapColon.ngroups ∧ Generated.wrapColon.names = Pinned.wrapColon.names := by decide
theorem wrapColonRepl : Generated.wrapColonRepl = Pinned.wrapColonRepl := by decide
theorem rstTrigger : Generated.rstTrigger.re = Pinned.rstTrigger.re ∧ Generated.rstTrigger.ngroups = Pinned.rstTrigger.ngroups ∧ Generated.rstTrigger.names = Pinned.rstTrigger.names := by decide
theorem pathArg : Generated.pathArg.re = Pinned.pathArg.re ∧ Generated.pathArg.ngroups = Pinned.pathArg.ngroups ∧ Generated.pathArg.names = Pinned.pathArg.names := by decide
theorem fieldHeaders : Generated.fieldHeaders.re = Pinned.fieldHeaders.re ∧ Generated.fieldHeaders.ngroups = Pinned.fieldHeaders.ngroups ∧ Generated.fieldHeaders.names = Pinned.fieldHeaders.names := by decide
theorem uriSampleStar : Generated.uriSampleStar.re = Pinned.uriSampleStar.re ∧ Generated.uriSampleStar.ngroups = Pinned.uriSampleStar.ngroups ∧ Generated.uriSampleStar.names = Pinned.uriSampleStar.names := by decide
theorem clientInit : Generated.clientInit.re = Pinned.clientInit.re ∧ Generated.clientInit.ngroups = Pinned.clientInit.ngroups ∧ Generated.clientInit.names = Pinned.clientInit.names := by decide
theorem requestInit : Generated.requestInit.re = Pinned.requestInit.re ∧ Generated.requestInit.ngroups = Pinned.requestInit.ngroups ∧ Generated.requestInit.names = Pinned.requestInit.names := by decide
theorem requestExec : Generated.requestExec.re = Pinned.requestExec.re ∧ Generated.requestExec.ngroups = Pinned.requestExec.ngroups ∧ Generated.requestExec.names = Pinned.requestExec.names := by decide
theorem responseHandling : Generated.responseHandling.re = Pinned.responseHandling.re ∧ Generated.responseHandling.ngroups = Pinned.responseHandling.ngroups ∧ Generated.responseHandling.names = Pinned.responseHandling.names := by decide
theorem numberedList : Generated.numberedList.re = Pinned.numberedList.re ∧ Generated.numberedList.ngroups = Pinned.numberedList.ngroups ∧ Generated.numberedList.names = Pinned.numberedList.names := by decide
theorem namingPattern : Generated.namingPattern.re = Pinned.namingPattern.re ∧ Generated.namingPattern.ngroups = Pinned.namingPattern.ngroups ∧ Generated.namingPattern.names = Pinned.namingPattern.names := by decide
theorem namingVersion : Generated.namingVersion.re = Pinned.namingVersion.re ∧ Generated.namingVersion.ngroups = Pinned.namingVersion.ngroups ∧ Generated.namingVersion.names = Pinned.namingVersion.names := by decide
theorem versionedPackage : Generated.versionedPackage.re = Pinned.versionedPackage.re ∧ Generated.versionedPackage.ngroups = Pinned.versionedPackage.ngroups ∧ Generated.versionedPackage.names = Pinned.versionedPackage.names := by decide
theorem templates : Generated.templates = Pinned.templates := rfl
theorem templatesChars : Generated.templatesChars = Pinned.templatesChars := rfl
theorem adsTemplates : Generated.adsTemplates = Pinned.adsTemplates := rfl
theorem adsTemplatesChars : Generated.adsTemplatesChars = Pinned.adsTemplatesChars := rfl

end GapicModel.Bridge
