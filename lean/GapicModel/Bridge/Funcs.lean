-- written by harness/translate.py --pin: one bridge lemma per translated function (closed terms, `rfl`).
-- A change of the Python function that changes its translation breaks exactly the lemma named after it.
import GapicModel.Generated.Funcs
import GapicModel.Pinned.Funcs
namespace GapicModel.Bridge.Funcs

theorem to_valid_filename : @Generated.Funcs.to_valid_filename = @Pinned.Funcs.to_valid_filename := rfl
theorem to_valid_module_name : @Generated.Funcs.to_valid_module_name = @Pinned.Funcs.to_valid_module_name := rfl
theorem to_snake_case : @Generated.Funcs.to_snake_case = @Pinned.Funcs.to_snake_case := rfl
theorem is_list_item : @Generated.Funcs.is_list_item = @Pinned.Funcs.is_list_item := rfl
theorem get_subsequent_line_indentation_level : @Generated.Funcs.get_subsequent_line_indentation_level = @Pinned.Funcs.get_subsequent_line_indentation_level := rfl
theorem address_resolve : @Generated.Funcs.address_resolve = @Pinned.Funcs.address_resolve := rfl
theorem fix_whitespace : @Generated.Funcs.fix_whitespace = @Pinned.Funcs.fix_whitespace := rfl
theorem make_private : @Generated.Funcs.make_private = @Pinned.Funcs.make_private := rfl
theorem coerce_response_name : @Generated.Funcs.coerce_response_name = @Pinned.Funcs.coerce_response_name := rfl
theorem to_camel_case : @Generated.Funcs.to_camel_case = @Pinned.Funcs.to_camel_case := rfl
theorem fix_name_segment : @Generated.Funcs.fix_name_segment = @Pinned.Funcs.fix_name_segment := rfl
theorem fix_field_path : @Generated.Funcs.fix_field_path = @Pinned.Funcs.fix_field_path := rfl
theorem field_header_disambiguated : @Generated.Funcs.field_header_disambiguated = @Pinned.Funcs.field_header_disambiguated := rfl
theorem routing_param_disambiguated_field : @Generated.Funcs.routing_param_disambiguated_field = @Pinned.Funcs.routing_param_disambiguated_field := rfl
theorem client_method_name : @Generated.Funcs.client_method_name = @Pinned.Funcs.client_method_name := rfl
theorem sort_lines : @Generated.Funcs.sort_lines = @Pinned.Funcs.sort_lines := rfl
theorem service_client_name : @Generated.Funcs.service_client_name = @Pinned.Funcs.service_client_name := rfl
theorem service_async_client_name : @Generated.Funcs.service_async_client_name = @Pinned.Funcs.service_async_client_name := rfl
theorem service_transport_name : @Generated.Funcs.service_transport_name = @Pinned.Funcs.service_transport_name := rfl
theorem service_grpc_transport_name : @Generated.Funcs.service_grpc_transport_name = @Pinned.Funcs.service_grpc_transport_name := rfl
theorem service_grpc_asyncio_transport_name : @Generated.Funcs.service_grpc_asyncio_transport_name = @Pinned.Funcs.service_grpc_asyncio_transport_name := rfl
theorem service_rest_transport_name : @Generated.Funcs.service_rest_transport_name = @Pinned.Funcs.service_rest_transport_name := rfl
theorem service_module_name : @Generated.Funcs.service_module_name = @Pinned.Funcs.service_module_name := rfl
theorem naming_module_name : @Generated.Funcs.naming_module_name = @Pinned.Funcs.naming_module_name := rfl
theorem new_naming_versioned_module_name : @Generated.Funcs.new_naming_versioned_module_name = @Pinned.Funcs.new_naming_versioned_module_name := rfl
theorem old_naming_versioned_module_name : @Generated.Funcs.old_naming_versioned_module_name = @Pinned.Funcs.old_naming_versioned_module_name := rfl
theorem metadata_doc : @Generated.Funcs.metadata_doc = @Pinned.Funcs.metadata_doc := rfl
theorem field_name : @Generated.Funcs.field_name = @Pinned.Funcs.field_name := rfl
theorem method_void : @Generated.Funcs.method_void = @Pinned.Funcs.method_void := rfl
theorem service_client_package_version : @Generated.Funcs.service_client_package_version = @Pinned.Funcs.service_client_package_version := rfl
theorem service_client_package_version_ok : @Generated.Funcs.service_client_package_version_ok = @Pinned.Funcs.service_client_package_version_ok := rfl
theorem import_str : @Generated.Funcs.import_str = @Pinned.Funcs.import_str := rfl
theorem service_shortname : @Generated.Funcs.service_shortname = @Pinned.Funcs.service_shortname := rfl
theorem naming_long_name : @Generated.Funcs.naming_long_name = @Pinned.Funcs.naming_long_name := rfl
theorem naming_module_namespace : @Generated.Funcs.naming_module_namespace = @Pinned.Funcs.naming_module_namespace := rfl
theorem naming_warehouse_package_name : @Generated.Funcs.naming_warehouse_package_name = @Pinned.Funcs.naming_warehouse_package_name := rfl
theorem address_str : @Generated.Funcs.address_str = @Pinned.Funcs.address_str := rfl
theorem address_module_alias : @Generated.Funcs.address_module_alias = @Pinned.Funcs.address_module_alias := rfl
theorem address_module_alias_ok : @Generated.Funcs.address_module_alias_ok = @Pinned.Funcs.address_module_alias_ok := rfl
theorem address_proto : @Generated.Funcs.address_proto = @Pinned.Funcs.address_proto := rfl
theorem address_proto_package : @Generated.Funcs.address_proto_package = @Pinned.Funcs.address_proto_package := rfl
theorem address_versioned_package : @Generated.Funcs.address_versioned_package = @Pinned.Funcs.address_versioned_package := rfl
theorem address_versioned_package_ok : @Generated.Funcs.address_versioned_package_ok = @Pinned.Funcs.address_versioned_package_ok := rfl
theorem address_subpackage : @Generated.Funcs.address_subpackage = @Pinned.Funcs.address_subpackage := rfl
theorem address_python_import : @Generated.Funcs.address_python_import = @Pinned.Funcs.address_python_import := rfl
theorem address_rel : @Generated.Funcs.address_rel = @Pinned.Funcs.address_rel := rfl
theorem address_rel_ok : @Generated.Funcs.address_rel_ok = @Pinned.Funcs.address_rel_ok := rfl
theorem address_sphinx : @Generated.Funcs.address_sphinx = @Pinned.Funcs.address_sphinx := rfl

end GapicModel.Bridge.Funcs
