import GapicModel.Driver.Base
import GapicModel.Driver.AddressT
import GapicModel.Driver.C01
import GapicModel.Driver.C02
import GapicModel.Driver.C03
import GapicModel.Driver.C04
import GapicModel.Driver.C05
import GapicModel.Driver.C06
import GapicModel.Driver.C07
import GapicModel.Driver.C08
import GapicModel.Driver.C09
import GapicModel.Driver.C10
import GapicModel.Driver.C11
import GapicModel.Driver.C12
import GapicModel.Driver.C13
import GapicModel.Driver.C14
import GapicModel.Driver.C15
import GapicModel.Driver.C16
import GapicModel.Driver.C17
import GapicModel.Driver.C18
import GapicModel.Driver.C19
import GapicModel.Driver.C20
import GapicModel.Driver.Funcs
import GapicModel.Driver.PyRt
/-
JSON-lines driver over the executable model (DESIGN §3.3).
  .lake/build/bin/driver < ops.jsonl > out.jsonl      (or: lake env lean --run GapicModel/Driver.lean)
One JSON object per input line (`{"op": …}`), one JSON line out.  Unknown or unsupported input
yields `{"unsupported": reason}` — never a default value.
Each property contributes `GapicModel/Driver/Cxx.lean` with a list `opsCxx`; add it to `allOps`.
-/
open Lean GapicModel

namespace GapicModel.Driver

def allOps : List (String × (Json → Except String Json)) :=
  [("regex", opRegex)] ++ opsAddressT ++ opsC01 ++ opsC02 ++ opsC03 ++ opsC04 ++ opsC05 ++ opsC06 ++ opsC07 ++ opsC08 ++ opsC09 ++ opsC10 ++ opsC11 ++ opsC12 ++ opsC13 ++ opsC14 ++ opsC15 ++ opsC16 ++ opsC17 ++ opsC18 ++ opsC19 ++ opsC20 ++ opsFuncs ++ opsPyRt

def dispatch (j : Json) : Except String Json := do
  let op ← (← j.getObjVal? "op").getStr?
  if op == "ping" then return Json.mkObj [("pong", Json.bool true)]
  match allOps.find? (·.1 == op) with
  | some (_, f) => f j
  | none => pure (unsupported s!"unknown op {op}")

partial def loop (hin hout : IO.FS.Stream) : IO Unit := do
  let line ← hin.getLine
  if line.isEmpty then return ()
  let out := match Json.parse line with
    | .error e => Json.mkObj [("error", Json.str s!"parse: {e}")]
    | .ok j => match dispatch j with
      | .ok r => r
      | .error e => Json.mkObj [("error", Json.str e)]
  hout.putStrLn out.compress
  hout.flush
  loop hin hout

end GapicModel.Driver

def main : IO Unit := do
  GapicModel.Driver.loop (← IO.getStdin) (← IO.getStdout)
