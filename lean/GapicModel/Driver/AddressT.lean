import GapicModel.Driver.Base
import GapicModel.Model.AddressT
/-
`addr` op: the composed `Address` model (Model/AddressT.lean: translated method bodies + hand-written plumbing) on a JSON
address / naming, for the differential test against real `metadata.Address` objects (harness/props/pyrt.py: check_address).
  {"op":"addr","a":{name,module,package,parent,collisions,naming:{truthy,proto_package,version,module_namespace,versioned_module_name,proto_plus_deps}},"b":{…}}
-/
open Lean GapicModel
namespace GapicModel.Driver
open GapicModel.PyRt GapicModel.Model.AddressT

def adStrs (j : Json) (k : String) : Except String (List Str) := do
  match j.getObjVal? k with
  | .ok (Json.arr a) => a.toList.mapM fun v => do pure (← v.getStr?).toList
  | _ => throw s!"{k}: list of strings expected"

def adStr (j : Json) (k : String) : Except String Str := do pure (← (← j.getObjVal? k).getStr?).toList

def adNaming (j : Json) : Except String NamingV := do
  let t ← (← j.getObjVal? "truthy").getBool?
  pure { truthy := t, protoPackage := ← adStr j "proto_package", version := ← adStr j "version",
         moduleNamespace := ← adStrs j "module_namespace", versionedModuleName := ← adStr j "versioned_module_name",
         protoPlusDeps := ← adStrs j "proto_plus_deps" }

def adAddr (j : Json) : Except String Addr := do
  pure { name := ← adStr j "name", module := ← adStr j "module", package := ← adStrs j "package", parent := ← adStrs j "parent",
         collisions := ← adStrs j "collisions", naming := ← adNaming (← j.getObjVal? "naming") }

def opAddr (j : Json) : Except String Json := do
  let a ← adAddr (← j.getObjVal? "a")
  let b ← adAddr (← j.getObjVal? "b")
  let i := pythonImport a
  pure (Json.mkObj [
    ("str", jstr (str a)), ("module_alias", jstr (moduleAlias a)), ("is_proto_plus_type", Json.bool (isProtoPlus a)),
    ("proto", jstr (proto a)), ("proto_package", jstr (protoPackage a)), ("subpackage", jarr ((subpackage a).map jstr)),
    ("python_import", Json.mkObj [("package", jarr (i.package.map jstr)), ("module", jstr i.module), ("alias", jstr i.alias)]),
    ("bound", jstr (bound i)), ("rel", jstr (rel a b)), ("sphinx", jstr (sphinx a))])

def opsAddressT : List (String × (Json → Except String Json)) := [("addr", opAddr)]

end GapicModel.Driver
