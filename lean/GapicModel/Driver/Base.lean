import Lean.Data.Json
import GapicModel.Pinned.CharClass
import GapicModel.Pinned.Regexes
import GapicModel.Pinned.Tables
/-
Shared helpers of the JSON-lines driver + the generic `regex` op (DESIGN §3.3).
  lake env lean --run GapicModel/Driver.lean < ops.jsonl > out.jsonl
One JSON object per input line (`{"op": …}`), one JSON line out.  Unknown or unsupported input
yields `{"unsupported": reason}` — never a default value.
-/
open Lean GapicModel GapicModel.Regex

namespace GapicModel.Driver

def jstr (cs : List Char) : Json := Json.str (String.ofList cs)
def jnat (n : Nat) : Json := Json.num (JsonNumber.fromNat n)
def jarr (xs : List Json) : Json := Json.arr xs.toArray
def unsupported (why : String) : Json := Json.mkObj [("unsupported", Json.str why)]

def citemJson : CItem → Json
  | .ch c => jarr [Json.str "ch", jnat c.toNat]
  | .range lo hi => jarr [Json.str "range", jnat lo.toNat, jnat hi.toNat]
  | .space => jarr [Json.str "space"] | .word => jarr [Json.str "word"] | .digit => jarr [Json.str "digit"]
  | .nspace => jarr [Json.str "nspace"] | .nword => jarr [Json.str "nword"] | .ndigit => jarr [Json.str "ndigit"]

/-- same shape as `translate.regex_to_json` -/
def reJson : Re → Json
  | .eps => jarr [Json.str "eps"]
  | .chr c => jarr [Json.str "chr", jnat c.toNat]
  | .any => jarr [Json.str "any"]
  | .cls neg items => jarr [Json.str "cls", Json.bool neg, jarr (items.map citemJson)]
  | .seq a b => jarr [Json.str "seq", reJson a, reJson b]
  | .alt a b => jarr [Json.str "alt", reJson a, reJson b]
  | .star r g => jarr [Json.str "star", reJson r, Json.bool g]
  | .group i r => jarr [Json.str "group", jnat i, reJson r]
  | .bol => jarr [Json.str "bol"]
  | .eol => jarr [Json.str "eol"]
  | .look a n r => jarr [Json.str "look", Json.bool a, Json.bool n, reJson r]

def patternJson (p : Pattern) : Json :=
  Json.mkObj [("re", reJson p.re), ("ngroups", jnat p.ngroups),
              ("names", jarr (p.names.map fun (n, i) => jarr [Json.str n, jnat i]))]

def getStrL (j : Json) (k : String) : Except String (List Char) := do
  let v ← j.getObjVal? k
  let s ← v.getStr?
  pure s.toList

def getArrL (j : Json) (k : String) : Except String (List Json) := do
  let v ← j.getObjVal? k
  let a ← v.getArr?
  pure a.toList

def optJson {α} (f : α → Json) : Option α → Json
  | none => Json.null
  | some a => f a

def kvJson (kv : List (String × List Char)) : Json :=
  jarr (kv.map fun (k, v) => jarr [Json.str k, jstr v])

/-! ### regex ops (engine T2): run a pinned/generated pattern on a subject -/

def matchResJson (r : Option MatchRes) (ngroups : Nat) : Json :=
  match r with
  | none => Json.null
  | some r => Json.mkObj [("span", jarr [jnat r.start, jnat r.stop]),
      ("groups", jarr ((List.range ngroups).map fun i => optJson jstr (St.group? r.caps (i+1))))]

def pinnedPattern (name : String) : Option (Pattern × Option (List RItem)) :=
  match name with
  | "fixws1" => some (Pinned.fixws1, some Pinned.fixws1Repl)
  | "fixws2" => some (Pinned.fixws2, some Pinned.fixws2Repl)
  | "fixws3" => some (Pinned.fixws3, some Pinned.fixws3Repl)
  | "filenameSlashes" => some (Pinned.filenameSlashes, some Pinned.filenameSlashesRepl)
  | "snake1" => some (Pinned.snake1, some Pinned.snake1Repl)
  | "snake2" => some (Pinned.snake2, some Pinned.snake2Repl)
  | "snake3" => some (Pinned.snake3, some Pinned.snake3Repl)
  | "snake4" => some (Pinned.snake4, some Pinned.snake4Repl)
  | "validFilename" => some (Pinned.validFilename, some Pinned.validFilenameRepl)
  | "wrapColon" => some (Pinned.wrapColon, some Pinned.wrapColonRepl)
  | "rstTrigger" => some (Pinned.rstTrigger, none)
  | "pathArg" => some (Pinned.pathArg, none)
  | "fieldHeaders" => some (Pinned.fieldHeaders, none)
  | "uriSampleStar" => some (Pinned.uriSampleStar, none)
  | "clientInit" => some (Pinned.clientInit, none)
  | "requestInit" => some (Pinned.requestInit, none)
  | "requestExec" => some (Pinned.requestExec, none)
  | "responseHandling" => some (Pinned.responseHandling, none)
  | "numberedList" => some (Pinned.numberedList, none)
  | "namingPattern" => some (Pinned.namingPattern, none)
  | "namingVersion" => some (Pinned.namingVersion, none)
  | "versionedPackage" => some (Pinned.versionedPackage, none)
  | _ => none

def opRegex (j : Json) : Except String Json := do
  let name ← (← j.getObjVal? "name").getStr?
  let fn ← (← j.getObjVal? "fn").getStr?
  let subj ← getStrL j "s"
  let t := Pinned.classTables
  match pinnedPattern name with
  | none => pure (unsupported s!"no pinned pattern {name}")
  | some (p, repl) =>
    match fn with
    | "match" => pure (Json.mkObj [("r", matchResJson (pyMatch t p.re subj) p.ngroups)])
    | "search" => pure (Json.mkObj [("r", matchResJson (pySearch t p.re subj) p.ngroups)])
    | "fullmatch" => pure (Json.mkObj [("r", matchResJson (pyFullmatch t p.re subj) p.ngroups)])
    | "findall1" => pure (Json.mkObj [("r", jarr ((pyFindall1 t p.re subj).map jstr))])
    | "sub" =>
      match repl with
      | some rp => pure (Json.mkObj [("r", jstr (pySub t p.re rp subj))])
      | none => pure (unsupported s!"{name} has no replacement")
    | _ => pure (unsupported s!"regex fn {fn}")


end GapicModel.Driver
