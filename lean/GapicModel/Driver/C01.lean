import GapicModel.Driver.Base
import GapicModel.Model.Transports
open Lean GapicModel GapicModel.Regex
namespace GapicModel.Driver

open Model.Emit Model.Transports in
def opC01Registry (j : Json) : Except String Json := do
  let tr ← (← getArrL j "transport").mapM fun v => do pure (← v.getStr?).toList
  let ra ← (← j.getObjVal? "restAsync").getBool?
  let o : Opts := ⟨tr, false, ra, false⟩
  pure (Json.mkObj [("registry", jarr ((registry o).map jstr)), ("default", optJson jstr (defaultTransport o)),
    ("async_client", Json.bool (hasAsyncClient o))])

def opsC01 : List (String × (Json → Except String Json)) := [("c01.registry", opC01Registry)]

end GapicModel.Driver
