import GapicModel.Driver.Base
import GapicModel.Model.Transports
import GapicModel.Model.Imports
open Lean GapicModel GapicModel.Regex
namespace GapicModel.Driver

open Model.Emit Model.Transports in
def opC01Registry (j : Json) : Except String Json := do
  let tr ← (← getArrL j "transport").mapM fun v => do pure (← v.getStr?).toList
  let ra ← (← j.getObjVal? "restAsync").getBool?
  let o : Opts := ⟨tr, false, ra, false⟩
  pure (Json.mkObj [("registry", jarr ((registry o).map jstr)), ("default", optJson jstr (defaultTransport o)),
    ("async_client", Json.bool (hasAsyncClient o))])

open Model.Emit Model.Imports in
def slashed (p : Path) : Json := jstr (['/'].intercalate p)

open Model.Emit Model.Imports in
/-- the service-level modules: which are emitted and what they import from the package
(`transport`, `restAsync`, `paged`) -/
def opC01Imports (j : Json) : Except String Json := do
  let tr ← (← getArrL j "transport").mapM fun v => do pure (← v.getStr?).toList
  let ra ← (← j.getObjVal? "restAsync").getBool?
  let paged ← (← j.getObjVal? "paged").getBool?
  let o : Opts := ⟨tr, false, ra, false⟩
  let mods := SMod.all.map fun m =>
    Json.mkObj [("rel", slashed m.rel), ("template", jstr m.template), ("emitted", Json.bool (emitted o paged m)),
      ("imports", jarr ((imports o paged m).map fun i =>
        Json.mkObj [("anchor", Json.str (match i.anchor with | .rel _ => "rel" | .svcAbs => "svc" | .rootAbs => "root")),
          ("level", jnat (match i.anchor with | .rel n => n | _ => 0)),
          ("path", jarr (i.path.map jstr)), ("hard", Json.bool i.hard), ("target", slashed i.target.rel),
          ("resolved", match i.anchor with | .rel n => slashed (resolveRel m.rel n i.path) | _ => Json.null)]))]
  pure (Json.mkObj [("modules", jarr mods),
    ("exports", jarr ((svcInitExports o).map fun c => Json.str (match c with | .sync => "sync" | .async => "async"))),
    ("wants", jarr ((pkgInitWants o).map fun c => Json.str (match c with | .sync => "sync" | .async => "async")))])

open Model.Imports in
/-- `utils.empty(content)` and the keep/drop decision of `_get_file` for a file name -/
def opC01Empty (j : Json) : Except String Json := do
  let c ← getStrL j "content"
  let n ← getStrL j "name"
  pure (Json.mkObj [("empty", Json.bool (emptyContent c)), ("keep", Json.bool (keepFile n c))])

open Model.Imports in
/-- `Proto.names`: `plain` (names of enums, messages, fields) and per message the (module, package) of its recursive field types -/
def opC01Names (j : Json) : Except String Json := do
  let plain ← (← getArrL j "plain").mapM fun v => do pure (← v.getStr?).toList
  let msgs ← (← getArrL j "msgs").mapM fun mj => do
    let arr ← mj.getArr?
    arr.toList.mapM fun r => do pure (⟨← getStrL r "module", ← getStrL r "package"⟩ : Ref)
  let reserved := Pinned.reservedNames.map String.toList
  pure (Json.mkObj [("names", jarr ((protoNames plain reserved msgs).map jstr)),
                    ("collisions", jarr ((moduleCollisions reserved msgs).map jstr)),
                    ("perMessage", jarr ((moduleCollisionsPerMessage reserved msgs).map jstr))])

def opsC01 : List (String × (Json → Except String Json)) :=
  [("c01.registry", opC01Registry), ("c01.imports", opC01Imports), ("c01.empty", opC01Empty), ("c01.names", opC01Names)]

end GapicModel.Driver
