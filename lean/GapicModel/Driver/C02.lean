import GapicModel.Driver.Base
import GapicModel.Model.Types
open Lean GapicModel
namespace GapicModel.Driver

/-! ### C02 -/

namespace C02
open Model.Types
abbrev N := Model.Types.Name

def names (j : Json) (k : String) : Except String (List N) := do
  (← getArrL j k).mapM fun v => do pure (← v.getStr?).toList

def getBool (j : Json) (k : String) : Except String Bool := do (← j.getObjVal? k).getBool?
def getNat (j : Json) (k : String) : Except String Nat := do (← j.getObjVal? k).getNat?

def optField (j : Json) (k : String) : Option Json :=
  match j.getObjVal? k with
  | .ok Json.null => none
  | .ok v => some v
  | .error _ => none

def addrOfJson (collisions : List N) (j : Json) : Except String Addr := do
  let m ← getStrL j "module"
  let coll := match optField j "collides" with
    | some (Json.bool b) => b
    | _ => decide (m ∈ collisions)
  pure ⟨← names j "package", m, ← names j "parent", ← getStrL j "name", ← getBool j "proto_plus", coll⟩

def targetOfJson (collisions : List N) (j : Json) : Except String Target := do
  pure ⟨← getBool j "enum", ← addrOfJson collisions j⟩

def optTarget (collisions : List N) (j : Json) (k : String) : Except String (Option Target) :=
  match optField j k with
  | none => pure none
  | some t => do pure (some (← targetOfJson collisions t))

def fieldOfJson (collisions : List N) (j : Json) : Except String FieldView := do
  let oneof ← match optField j "oneof" with
    | none => pure none
    | some v => do pure (some (← v.getStr?).toList)
  let entry ← match optField j "entry" with
    | none => pure none
    | some e => do pure (some (⟨← getNat e "ktype", ← getNat e "vtype", ← optTarget collisions e "vtarget"⟩ : EntryView))
  pure ⟨← getStrL j "name", ← getNat j "number", ← getNat j "type", ← getBool j "repeated", ← getBool j "optional",
        oneof, ← optTarget collisions j "target", entry, true⟩

def dotted (s : List N) : Json := jstr (joinDots s)

def optDotted : Option (List N) → Json
  | none => Json.null
  | some s => dotted s

def resolvedName : Resolved → String
  | .type _ => "ok"
  | .nameError => "NameError"
  | .attributeError => "AttributeError"
  | .unresolved => "unresolved"

def rfieldJson (r : RField × Option REntry) : Json :=
  Json.mkObj [("name", jstr r.1.name), ("number", jnat r.1.number), ("repeated", Json.bool r.1.repeated),
    ("type", jnat r.1.type), ("type_name", optDotted r.1.typeName),
    ("oneof", optJson jstr r.1.oneof), ("optional", Json.bool r.1.proto3Optional),
    ("entry", match r.2 with
      | none => Json.null
      | some e => Json.mkObj [("name", jstr e.name), ("ktype", jnat e.keyType), ("vtype", jnat e.valueType),
                              ("vtype_name", optDotted e.valueTypeName)])]

def declRef : Decl → Option Ref
  | .field _ _ _ _ _ _ kw => kw.map (·.ref)
  | .map _ _ _ _ kw => kw.map (·.ref)

def fieldTargets (f : FieldView) : List Target :=
  (match f.target with | some t => [t] | none => []) ++
  (match f.entry with | some e => (match e.valueTarget with | some t => [t] | none => []) | none => [])

/-- a class of the wrong kind bound to `message=` / `enum=` (only reachable through a mis-bound bare name) -/
def kindClash (pkg : List N) (types enums : List (List N)) (d : Decl) (r : RField × Option REntry) : Bool :=
  let kw := match d with | .field _ _ _ _ _ _ kw => kw | .map _ _ _ _ kw => kw
  let tn := match r.2 with | some e => e.valueTypeName | none => r.1.typeName
  match kw, tn with
  | some k, some full =>
    if pkg.isPrefixOf full then
      let path := full.drop pkg.length
      (decide (path ∈ types)) && (decide (path ∈ enums) != decide (k.key = "enum".toList))
    else false
  | _, _ => false

/-- `{"op":"c02.module", …}`: predicted run-time descriptors of one emitted types module -/
def opModule (j : Json) : Except String Json := do
  let version ← getStrL j "version"
  let pkg ← names j "package"
  let modName ← getStrL j "module"
  let collisions ← names j "collisions"
  let order ← names j "order"
  let types ← (← getArrL j "types").mapM fun t => do (← t.getArr?).toList.mapM fun v => do pure (← v.getStr?).toList
  let msgs ← (← getArrL j "messages").mapM fun mj => do
    let path ← names mj "path"
    let fields ← (← getArrL mj "fields").mapM (fieldOfJson collisions)
    let nested := match names mj "nested" with | .ok v => v | .error _ => []
    let status := match getBool mj "status" with | .ok b => b | .error _ => false
    pure (path, fields, nested, status)
  let enums ← (← getArrL j "enums").mapM fun t => do (← t.getArr?).toList.mapM fun v => do pure (← v.getStr?).toList
  let m : Model.Types.Module := ⟨pkg, types, order⟩
  -- names bound by the module's import statements
  let foreign := (msgs.flatMap fun (_, fs, _, _) => fs.flatMap fieldTargets).filter fun t =>
    ¬ (t.addr.package = pkg ∧ t.addr.module = modName)
  let imports := foreign.filterMap fun t => (importName version t.addr).map fun n => (n, t.addr.package)
  -- `import proto as <p>` is rebound when a later `from … import <module>` binds the same name
  let p := protoAlias collisions
  let mut firstErr : Option String := if imports.any (fun x => x.1 == p) then some "AttributeError" else none
  let mut lateErr : Option String := none
  let mut out : List Json := []
  for (path, fields, nested, status) in msgs do
    let ctx : Addr := ⟨pkg, modName, path.dropLast, path.getLastD [], true, decide (modName ∈ collisions)⟩
    let mut before : List N := []
    let mut fjs : List Json := []
    for f in fields do
      let sc : Scope := ⟨path, before, imports⟩
      let res := fun r => (resolveRef m sc r).toOption
      let fj := match emitDecl version ctx f with
        | none => (Json.mkObj [("error", Json.str "emit")], some "emit", false)
        | some d =>
          let refText := optJson (fun (r : Ref) => jstr r.text) (declRef d)
          match reconstruct res (pkg ++ path) d with
          | some r =>
            if kindClash pkg types enums d r then (Json.mkObj [("error", Json.str "KindClash"), ("ref", refText)], some "KindClash", false)
            else (Json.mkObj [("ok", rfieldJson r), ("ref", refText)], none, false)
          | none =>
            let why := match declRef d with
              | some r => resolvedName (resolveRef m sc r)
              | none => "reconstruct"
            (Json.mkObj [("error", Json.str why), ("ref", refText)], some why, why == "unresolved")
      match fj.2.1 with
      | some e =>
        if fj.2.2 then
          if lateErr.isNone then lateErr := some e
        else
          if firstErr.isNone then firstErr := some e
      | none => pure ()
      fjs := fjs ++ [fj.1]
      before := before ++ [fieldAttr true f.pbName]
    -- the class body: the last binding of a name wins; proto-plus reads the declarations left, in dict order
    let attrs := fields.map fun f => fieldAttr true f.pbName
    let seen := fieldsSeen (classDict nested attrs status)
    let kept := seen.filterMap fun i => fjs[i]?
    let lost := (List.range attrs.length).filter (fun i => i ∉ seen) |>.filterMap fun i => attrs[i]?
    out := out ++ [Json.mkObj [("path", jarr (path.map jstr)), ("fields", jarr kept), ("shadowed", jarr (lost.map jstr))]]
  let imp := match firstErr, lateErr with
    | some e, _ => e
    | none, some e => e
    | none, none => "ok"
  let topEnums := match names j "top_enums" with | .ok v => v | .error _ => []
  let topMsgs := match names j "top_messages" with | .ok v => v | .error _ => []
  -- `proto.module(package=…, marshal=…)`: absent "api_package" = a file of the API's own package
  let apiPkg := match names j "api_package" with | .ok v => v | .error _ => pkg
  let hd := moduleHeader apiPkg pkg
  pure (Json.mkObj [("import", Json.str imp), ("messages", jarr out), ("proto_alias", jstr p),
                    ("header", Json.mkObj [("package", dotted hd.package), ("marshal", dotted hd.marshalName)]),
                    ("manifest", jarr ((manifest topEnums topMsgs).map jstr)),
                    ("imports", jarr (imports.map fun (n, p) => jarr [jstr n, dotted p]))])

/-- `{"op":"c02.rel","version":…,"self":ADDR,"ctx":ADDR}` -/
def opRel (j : Json) : Except String Json := do
  let version ← getStrL j "version"
  let self ← addrOfJson [] (← j.getObjVal? "self")
  let ctx ← addrOfJson [] (← j.getObjVal? "ctx")
  pure (Json.mkObj [
    ("rel", optJson (fun (r : Ref) => jstr r.text) (rel version self ctx)),
    ("str", optJson (fun s => jstr (joinDots s)) (strSegs version self)),
    ("alias", optJson jstr (moduleAlias version self)),
    ("import", optJson jstr (importName version self))])

/-- `{"op":"c02.names","names":[…],"proto_plus":bool}` -/
def opNames (j : Json) : Except String Json := do
  let ns ← names j "names"
  let pp ← getBool j "proto_plus"
  pure (jarr (ns.map fun n => Json.mkObj [("attr", jstr (fieldAttr pp n)), ("json", jstr (toJsonName n)),
    ("json_attr", jstr (toJsonName (fieldAttr pp n))), ("unsuffix", jstr (unsuffix (fieldAttr pp n))),
    ("entry", jstr (entryName (fieldAttr pp n)))]))

/-- `{"op":"c02.proto_alias","names":[…]}` -/
def opProtoAlias (j : Json) : Except String Json := do
  pure (Json.mkObj [("alias", jstr (protoAlias (← names j "names")))])

def splitDotsAux : N → N → List N
  | acc, [] => [acc.reverse]
  | acc, c :: cs => if c = '.' then acc.reverse :: splitDotsAux [] cs else splitDotsAux (c :: acc) cs

def splitDots (s : N) : List N := splitDotsAux [] s

def knownOfJson (j : Json) (k : String) : Except String Known := do
  (← getArrL j k).mapM fun e => do
    match (← e.getArr?).toList with
    | [Json.str n, Json.bool b] => pure (splitDots n.toList, b)
    | _ => throw "bad known entry"

/-- `{"op":"c02.schema","fields":[{"decls":[…],"idx":n|null,"tn":"a.b.C"|null,"loaded":[[name,isEnum]…]}],
     "file_all":[…],"api":"acme.lib.v1","api_root":[…],"deps":[…],"addrs":[ADDR…]}`:
    the loader-side facts of one file (oneof names, late resolution) and the import packages of addresses -/
def opSchema (j : Json) : Except String Json := do
  let fileAll ← knownOfJson j "file_all"
  let api ← getStrL j "api"
  let apiRoot ← names j "api_root"
  let deps ← names j "deps"
  let fields ← (← getArrL j "fields").mapM fun f => do
    let decls ← names f "decls"
    let idx ← match optField f "idx" with
      | none => pure none
      | some v => do pure (some (← v.getNat?))
    let loaded ← knownOfJson f "loaded"
    let res := match optField f "tn" with
      | some (Json.str tn) => resolveField loaded fileAll (splitDots tn.toList)
      | _ => none
    pure (Json.mkObj [("oneof", optJson jstr (oneofName decls idx)),
      ("resolved", match res with
        | some (n, b) => jarr [dotted n, Json.bool b]
        | none => Json.null)])
  let addrs ← (← getArrL j "addrs").mapM (addrOfJson [])
  pure (Json.mkObj [("fields", jarr fields),
    ("addrs", jarr (addrs.map fun a => Json.mkObj [
      ("proto_plus", Json.bool (isProtoPlus api deps a.package)),
      ("import_package", jarr ((pythonImportPackage api (splitDots api) apiRoot deps a).map jstr))]))])

def opTables (_ : Json) : Except String Json :=
  pure (Json.mkObj [
    ("descriptor_types", jarr (descriptorTypeNames.map fun (n, s) => jarr [jnat n, jstr s])),
    ("plus_types", jarr (plusProtoType.map fun (s, n) => jarr [jstr s, jnat n])),
    ("legal", jarr (legalTypes.map jnat)),
    ("reserved", jarr (reserved.map jstr))])

/-- `{"op":"c02.enum","values":[[name, number]…]}` -/
def opEnum (j : Json) : Except String Json := do
  let vs ← (← getArrL j "values").mapM fun v => do
    match (← v.getArr?).toList with
    | [Json.str n, num] => pure (n.toList, ← num.getInt?)
    | _ => throw "bad enum value"
  match reconstructEnum (emitEnum ⟨[], vs⟩) with
  | none => pure (Json.mkObj [("error", Json.str "TypeError")])
  | some e => pure (Json.mkObj [("values", jarr (e.values.map fun (n, v) => jarr [jstr n, Json.num (JsonNumber.fromInt v)]))])

end C02

def opsC02 : List (String × (Json → Except String Json)) :=
  [("c02.module", C02.opModule), ("c02.rel", C02.opRel), ("c02.names", C02.opNames),
   ("c02.tables", C02.opTables), ("c02.enum", C02.opEnum), ("c02.proto_alias", C02.opProtoAlias), ("c02.schema", C02.opSchema)]

end GapicModel.Driver
