import GapicModel.Driver.Base
import GapicModel.Model.Grpc
open Lean GapicModel GapicModel.Regex
namespace GapicModel.Driver

/-! ### C03 -/

namespace C03
open Model.Grpc

def strOf (j : Json) (k : String) : Except String Str := do
  pure (← (← j.getObjVal? k).getStr?).toList

def strsOf (j : Json) (k : String) : Except String (List Str) := do
  (← getArrL j k).mapM fun v => do pure (← v.getStr?).toList

def boolOf (j : Json) (k : String) : Except String Bool := do
  (← j.getObjVal? k).getBool?

def addrOfJson (j : Json) : Except String Addr := do
  pure { package := ← strsOf j "package", module := ← strOf j "module", parent := ← strsOf j "parent",
         name := ← strOf j "name", alias := ← strOf j "alias" }

def methodOfJson (j : Json) : Except String Method := do
  pure { name := ← strOf j "name", input := ← addrOfJson (← j.getObjVal? "input"),
         output := ← addrOfJson (← j.getObjVal? "output"),
         clientStreaming := ← boolOf j "cs", serverStreaming := ← boolOf j "ss" }

def serviceOfJson (j : Json) : Except String Service := do
  pure { package := ← strsOf j "package", name := ← strOf j "name",
         methods := ← (← getArrL j "methods").mapM methodOfJson,
         hasLro := ← boolOf j "has_lro", mixins := ← strsOf j "mixins" }

def namingOfJson (j : Json) : Except String Naming := do
  pure { protoPackage := ← strOf j "proto_package", protoPlusDeps := ← strsOf j "proto_plus_deps" }

def codecJson : Codec → Json
  | .plus => Json.str "plus"
  | .pb2 => Json.str "pb2"

def errJson : Err → Json
  | .attributeError => Json.str "AttributeError"
  | .typeError => Json.str "TypeError"
  | .badArgument => Json.str "badArgument"

/-- `c03.names`: the name functions on one RPC name -/
def opNames (j : Json) : Except String Json := do
  let name ← strOf j "name"
  let T := pinnedTables
  pure (Json.mkObj [
    ("snake", jstr (snake name)),
    ("client_method_name", jstr (clientMethodName T name)),
    ("transport_safe_name", jstr (transportSafeName T name)),
    ("client_attr", jstr (snake (clientMethodName T name))),
    ("stub_key", jstr (snake (transportSafeName T name)))])

def addrInfo (n : Naming) (a : Addr) : Json :=
  Json.mkObj [("proto", jstr (protoName a)), ("is_proto_plus", Json.bool (isProtoPlus n a)),
              ("import_module", jstr (importModule n a)), ("ident_module", jstr (identModule n a)),
              ("attr", codecJson (templCodec n a)), ("class", codecJson (runtimeClass n a))]

/-- `c03.service`: per-method static facts + whether the transport can be constructed -/
def opService (j : Json) : Except String Json := do
  let n ← namingOfJson (← j.getObjVal? "naming")
  let svc ← serviceOfJson (← j.getObjVal? "service")
  let T := pinnedTables
  let ms := svc.methods.map fun m => Json.mkObj [
    ("name", jstr m.name), ("path", jstr (rpcPath svc m)), ("kind", jstr (stubKind m)),
    ("void", Json.bool (isVoid m)), ("stub_key", jstr (stubKey T m)), ("client_attr", jstr (clientAttr T m)),
    ("diff_package", Json.bool (diffPackage svc m)),
    ("input", addrInfo n m.input), ("output", addrInfo n m.output)]
  let c := match construct T n svc with
    | .ok () => Json.str "ok"
    | .error e => errJson e
  pure (Json.mkObj [("methods", jarr ms), ("construct", c)])

/-- `c03.run`: one client call; messages are opaque canonical strings -/
def opRun (j : Json) : Except String Json := do
  let n ← namingOfJson (← j.getObjVal? "naming")
  let svc ← serviceOfJson (← j.getObjVal? "service")
  let idx ← (← j.getObjVal? "method").getNat?
  let some m := svc.methods[idx]? | throw "method index"
  let fl ← match ← (← j.getObjVal? "flavor").getStr? with
    | "sync" => pure Flavor.sync | "async" => pure Flavor.async | _ => throw "flavor"
  let a ← j.getObjVal? "arg"
  let arg : Arg String String ← match ← (← a.getObjVal? "kind").getStr? with
    | "omitted" => pure .omitted
    | "dict" => pure (.dict (← (← a.getObjVal? "msg").getStr?))
    | "inst" => pure (.inst (← (← a.getObjVal? "msg").getStr?))
    | "iter" => pure (.iter (← (← getArrL a "msgs").mapM fun v => v.getStr?))
    | _ => throw "arg kind"
  let replies ← (← getArrL j "replies").mapM fun v => v.getStr?
  let empty := (j.getObjVal? "empty" >>= Json.getStr?).toOption.getD "{}"   -- canonical text of the empty request message
  let ops : MsgOps String String := { empty := empty, ofDict := id }
  match runCall (ρ := String) pinnedTables n ops fl svc m arg replies with
  | .error e => pure (Json.mkObj [("error", errJson e)])
  | .ok t =>
    let ret := match t.ret with
      | .none => Json.mkObj [("kind", Json.str "none")]
      | .value r => Json.mkObj [("kind", Json.str "value"), ("item", Json.str r)]
      | .stream rs => Json.mkObj [("kind", Json.str "stream"), ("items", jarr (rs.map Json.str))]
      | .rpcError => Json.mkObj [("kind", Json.str "rpc_error")]
    pure (Json.mkObj [
      ("calls", jarr (t.calls.map fun c => Json.mkObj [("path", jstr c.path), ("kind", jstr c.kind), ("sent", jarr (c.sent.map Json.str))])),
      ("ret", ret)])

end C03

def opsC03 : List (String × (Json → Except String Json)) :=
  [("c03.names", C03.opNames), ("c03.service", C03.opService), ("c03.run", C03.opRun)]

end GapicModel.Driver
