import GapicModel.Driver.Base
import GapicModel.Model.Rest
open Lean GapicModel GapicModel.Regex
namespace GapicModel.Driver

/-! ### C04 -/

open Model.Http Model.Rest

def c04Str (j : Json) : Except String Str := do pure (← j.getStr?).toList

def c04OptStr (j : Json) : Except String (Option Str) :=
  match j with
  | Json.null => pure none
  | _ => do pure (some (← j.getStr?).toList)

def c04Rule (j : Json) : Except String RulePb := do
  let p ← c04OptStr (j.getObjValD "pattern")
  let uri ← getStrL j "uri"
  let body ← getStrL j "body"
  pure ⟨p, uri, body⟩

def c04Kind (s : String) : Except String Kind :=
  match s with
  | "str" => pure .str | "bytes" => pure .bytes | "bool" => pure .bool | "float" => pure .float
  | "int" => pure .int | "enum" => pure .enum | "msg" => pure .msg
  | _ => throw s!"bad kind {s}"

def c04Field (j : Json) : Except String FieldD := do
  match (← j.getArr?).toList with
  | [Json.str n, Json.str k, Json.bool rep, Json.bool req] => pure ⟨n.toList, ← c04Kind k, rep, req, .implicit⟩
  | [Json.str n, Json.str k, Json.bool rep, Json.bool req, Json.str pr] =>
    let pres ← match pr with
      | "implicit" => pure Presence.implicit | "optional" => pure Presence.optional | "oneof" => pure Presence.oneofMember
      | _ => throw s!"bad presence {pr}"
    pure ⟨n.toList, ← c04Kind k, rep, req, pres⟩
  | _ => throw "bad field"

def c04Method (j : Json) : Except String MethodD := do
  let http ← c04Rule (← j.getObjVal? "http")
  let add ← (← getArrL j "additional").mapM c04Rule
  let fields ← (← getArrL j "fields").mapM c04Field
  let cs ← (← j.getObjVal? "client_streaming").getBool?
  pure ⟨http, add, fields, cs⟩

def c04Atom (j : Json) : Except String Atom :=
  match j with
  | Json.str s => pure (.plain s.toList)
  | Json.arr #[Json.str "e", Json.str n, Json.str k] => pure (.enum n.toList k.toList)
  | _ => throw "bad atom"

def c04Leaf (j : Json) : Except String Leaf := do
  let p ← (← getArrL j "path").mapM c04Str
  let a ← (← getArrL j "atoms").mapM c04Atom
  pure ⟨p, a⟩

def c04HttpRule (j : Json) : Except String HttpRule := do
  pure ⟨← getStrL j "method", ← getStrL j "uri", ← c04OptStr (j.getObjValD "body")⟩

def pieceJson : Piece → Json
  | .text s => jarr [Json.str "text", jstr s]
  | .var n t => jarr [Json.str "var", jstr n, optJson jstr t]

def ruleJson (r : HttpRule) : Json :=
  Json.mkObj [("method", jstr r.method), ("uri", jstr r.uri), ("body", optJson jstr r.body)]

def atomJson : Atom → Json
  | .plain t => jstr t
  | .enum n k => jarr [Json.str "e", jstr n, jstr k]

def leafJson (l : Leaf) : Json :=
  Json.mkObj [("path", jarr (l.path.map jstr)), ("atoms", jarr (l.atoms.map atomJson))]

def jleafJson (l : JLeaf) : Json := jarr [jarr (l.path.map jstr), jarr (l.vals.map jstr)]

/-- literal text the reference `validate` cannot read faithfully (regex metacharacters other than `.`/`*`) -/
def templateUnsupported (ps : List Piece) : Bool :=
  ps.any fun
    | .text s => s.any unsupportedMeta
    | .var _ t => (t.getD []).any unsupportedMeta

def opC04Uri (j : Json) : Except String Json := do
  let uri ← getStrL j "uri"
  pure (Json.mkObj [("converted", jstr (convertUri uri)), ("pieces", jarr ((scan uri).map pieceJson)),
                    ("path_params", jarr ((pathParams uri).map jstr)),
                    ("rendered", jstr (render (scan uri))),
                    ("unconverted", jstr (render (((scan uri).map fixPiece).map unfixPiece)))])

def opC04Names (j : Json) : Except String Json := do
  let names ← (← getArrL j "names").mapM c04Str
  pure (Json.mkObj [("camel", jarr (names.map fun n => jstr (camelKey n))),
                    ("json", jarr (names.map fun n => jstr (toJsonName n))),
                    ("rt", jarr (names.map fun n => jstr (fixSeg n))),
                    ("body", jarr (names.map fun n => optJson jstr (fixBody n)))])

def opC04Schema (j : Json) : Except String Json := do
  let m ← c04Method (← j.getObjVal? "method")
  pure (Json.mkObj [
    ("http_options", jarr ((httpOptions m).map ruleJson)),
    ("path_params", match httpOpt m with
      | some (url, _) => jarr ((pathParams url).map jstr)
      | none => Json.null),
    ("query_params", match httpOpt m with
      | some _ => jarr ((queryParams m).map jstr)
      | none => Json.null),
    ("required_defaults", jarr ((requiredDefaults m).map fun (k, d) => jarr [jstr k, optJson jstr d])),
    ("available", Json.bool (restAvailable m))])

def transcodedJson (t : Transcoded) : Json :=
  Json.mkObj [("method", jstr t.method), ("uri", jstr t.uri),
              ("body", optJson (fun b => jarr (b.map leafJson)) t.body), ("query", jarr (t.query.map leafJson))]

def opC04Transcode (j : Json) : Except String Json := do
  let fields ← (← getArrL j "fields").mapM c04Str
  let opts ← (← getArrL j "opts").mapM c04HttpRule
  let msg ← (← getArrL j "msg").mapM c04Leaf
  if opts.any (fun b => templateUnsupported (scan b.uri)) then
    return unsupported "template literal with a regex metacharacter"
  pure (Json.mkObj [("result", optJson transcodedJson (refTranscode fields opts msg))])

def lowerSnakeB (s : Str) : Bool := s.all (fun c => c == '_' || c.isLower || c.isDigit)

def opC04Call (j : Json) : Except String Json := do
  let m ← c04Method (← j.getObjVal? "method")
  let numeric ← (← j.getObjVal? "numeric").getBool?
  let req ← (← getArrL j "req").mapM c04Leaf
  if m.fields.any (fun f => f.required && !lowerSnakeB f.name) then
    return unsupported "required field whose name is not lower snake_case (to_snake_case is not modelled)"
  if (httpOptions m).any (fun b => templateUnsupported (scan b.uri)) then
    return unsupported "template literal with a regex metacharacter"
  if !(httpOptions m).isEmpty && (httpOpt m).isNone then
    return unsupported "primary rule without a verb pattern but usable additional bindings"
  match restCall (refTranscode (rtNames m)) m numeric req with
  | .error e => pure (Json.mkObj [("raised", Json.str (match e with
      | .notImplemented => "NotImplementedError" | .noBinding => "ValueError" | .keyErrorBody => "KeyError"))])
  | .ok w =>
    let idx := selectedIndex (rtNames m) (httpOptions m) (rtMsg req)
    let agree := match idx.bind (fun i => (httpOptions m)[i]?) with
      | some b => Json.bool (decide (Agree m b))
      | none => Json.null
    pure (Json.mkObj [("verb", jstr w.verb), ("uri", jstr w.uri),
      ("binding", optJson jnat idx), ("agree", agree),
      ("body", optJson (fun b => jarr (b.map jleafJson)) w.body),
      ("query", jarr (w.query.map jleafJson)),
      ("flat", jarr ((flattenQuery w.query).map fun (k, v) => jarr [jstr k, jstr v]))])

def opC04Reply (j : Json) : Except String Json := do
  let st ← (← j.getObjVal? "status").getNat?
  pure (Json.mkObj [("raises", Json.bool (replyOutcome st != .parsed))])

def opsC04 : List (String × (Json → Except String Json)) :=
  [("c04.uri", opC04Uri), ("c04.names", opC04Names), ("c04.schema", opC04Schema),
   ("c04.transcode", opC04Transcode), ("c04.call", opC04Call), ("c04.reply", opC04Reply)]

end GapicModel.Driver
