import GapicModel.Driver.Base
import GapicModel.Model.Flatten
open Lean GapicModel
namespace GapicModel.Driver

/-! ### C05 -/

open Model.Flatten in
def c05KindOfJson (j : Json) : Except String Kind := do
  match j with
  | Json.str "prim" => pure .prim
  | Json.str "enum" => pure .enum
  | Json.arr #[Json.str "msg", Json.str n] => pure (.message n)
  | _ => throw "bad kind"

open Model.Flatten in
def c05FieldOfJson (j : Json) : Except String Field := do
  pure ⟨← (← j.getObjVal? "name").getStr?, ← (← j.getObjVal? "number").getNat?,
        ← c05KindOfJson (← j.getObjVal? "kind"), ← (← j.getObjVal? "repeated").getBool?,
        ← (← j.getObjVal? "map").getBool?, ← (← j.getObjVal? "value").getBool?⟩

open Model.Flatten in
def c05MsgOfJson (j : Json) : Except String MsgDef := do
  pure ⟨← (← j.getObjVal? "full").getStr?, ← (← j.getObjVal? "proto_plus").getBool?,
        ← (← getArrL j "fields").mapM c05FieldOfJson⟩

open Model.Flatten in
/-- a message with the package of its declaring file (`"pkg"`), for the derived mode of `c05.mapping` -/
def c05PMsgOfJson (j : Json) : Except String PMsg := do
  pure ⟨← (← j.getObjVal? "pkg").getStr?, ← (← j.getObjVal? "full").getStr?,
        ← (← getArrL j "fields").mapM c05FieldOfJson⟩

open Model.Flatten in
def c05ValToJson : Val → Json
  | .atom s => Json.mkObj [("a", Json.str s)]
  | .list xs => Json.mkObj [("l", jarr (xs.map Json.str))]
  | .map kv => Json.mkObj [("m", jarr (kv.map fun (k, v) => jarr [Json.str k, Json.str v]))]
  | .mnil => Json.mkObj [("f", jarr [])]
  | .mcons k v rest =>
    let tail := match c05ValToJson rest with
      | Json.obj o => (match o.get? "f" with | some (Json.arr a) => a.toList | _ => [])
      | _ => []
    Json.mkObj [("f", jarr (jarr [jnat k, c05ValToJson v] :: tail))]

open Model.Flatten in
/-- fuel-bounded reader (JSON depth is finite; fuel = a generous constant) -/
def c05ValOfJson : Nat → Json → Except String Val
  | 0, _ => throw "value too deep"
  | fuel + 1, j => do
    if let .ok a := j.getObjVal? "a" then return .atom (← a.getStr?)
    if let .ok l := j.getObjVal? "l" then return .list (← (← l.getArr?).toList.mapM fun x => x.getStr?)
    if let .ok m := j.getObjVal? "m" then
      return .map (← (← m.getArr?).toList.mapM fun x => do
        match (← x.getArr?).toList with
        | [Json.str k, Json.str v] => pure (k, v)
        | _ => throw "bad map entry")
    let fs ← (← (← j.getObjVal? "f").getArr?).toList.mapM fun x => do
      match (← x.getArr?).toList with
      | [n, v] => pure (← n.getNat?, ← c05ValOfJson fuel v)
      | _ => throw "bad field entry"
    -- the harness sends fields in ascending number order; `ins` keeps that canonical anyway
    pure (fs.foldl (fun acc (n, v) => Val.ins n v acc) Val.mnil)

open Model.Flatten in
def c05OptVal (j : Json) : Except String (Option Val) :=
  if j.isNull then pure none else do pure (some (← c05ValOfJson 64 j))

open Model.Flatten in
def c05GenErrJson : GenErr → Json
  | .keyError w => Json.mkObj [("error", Json.str "KeyError"), ("what", Json.str w)]

open Model.Flatten in
def c05EmitJson : Except EmitErr Unit → Json
  | .ok _ => Json.str "ok"
  | .error (.duplicateParam p) => jarr [Json.str "duplicate-param", Json.str p]
  | .error (.keywordAttr k) => jarr [Json.str "keyword-attr", Json.str k]

open Model.Flatten in
/-- `{"op":"c05.mapping","schema":[msg…],"input":full,"cross_pkg":bool,"sigs":[str…]}` — or, DERIVED mode
(`"api_package"` present): every message carries `"pkg"`, the op `"service_package"` and `"proto_plus_deps"`;
`proto_plus` of every message and `cross_pkg` are then computed by `isProtoPlusType` / `crossPkgOf`. -/
def opC05Mapping (j : Json) : Except String Json := do
  let inputName ← (← j.getObjVal? "input").getStr?
  let derived := (j.getObjVal? "api_package").toOption
  let (sch, cross) ← (match derived with
    | some ap => do
      let deps ← (← getArrL j "proto_plus_deps").mapM fun s => s.getStr?
      let n : Naming := ⟨← ap.getStr?, deps⟩
      let svcPkg ← (← j.getObjVal? "service_package").getStr?
      let ps ← (← getArrL j "schema").mapM c05PMsgOfJson
      let inPkg := match ps.find? (·.full == inputName) with | some m => m.pkg | none => ""
      pure (ps.map (PMsg.toMsgDef n), crossPkgOf inPkg svcPkg)
    | none => do
      let sch ← (← getArrL j "schema").mapM c05MsgOfJson
      pure (sch, ← (← j.getObjVal? "cross_pkg").getBool?) : Except String (Schema × Bool))
  let sigs ← (← getArrL j "sigs").mapM fun s => s.getStr?
  let cstream : Bool := match j.getObjVal? "client_streaming" with | .ok (Json.bool b) => b | _ => false
  match findMsg sch inputName with
  | none => pure (unsupported s!"input message {inputName} not in schema")
  | some input =>
    match fieldsMapping sch cross input sigs with
    | .error e => pure (c05GenErrJson e)
    | .ok es =>
      pure (Json.mkObj [
        ("paths", jarr ((sigs.flatMap parseSig).map fun p => jarr (p.map Json.str))),
        ("cross_pkg", Json.bool cross),
        ("input_proto_plus", Json.bool input.protoPlus),
        ("keys", jarr (es.map fun e => Json.str e.key)),
        ("params", jarr (es.map fun e => Json.str e.param)),
        ("param_list", jarr ((paramListOf cstream es).map Json.str)),
        ("emit", if emitCheck es == .ok () && !emitIndentOk (!cross) es then jarr [Json.str "indentation"] else c05EmitJson (emitCheck es)),
        ("entries", jarr (es.map fun e =>
          let s := e.slot input
          Json.mkObj [("key", Json.str e.key), ("param", Json.str e.param),
            ("field", Json.str e.field.pbName), ("owner", Json.str e.last.owner),
            ("path", jarr (s.path.map jnat)), ("repeated", Json.bool s.repeated), ("map", Json.bool s.isMap),
            ("value", Json.bool s.isValue), ("ctor", optJson jnat s.ctor),
            ("raw_owner", Json.bool s.rawOwner), ("is_msg", Json.bool s.isMsg),
            ("marshal_owner", Json.bool s.marshalOwner),
            ("key_segs", jarr (e.keySegs.map Json.str)),
            ("attrs_resolve", Json.bool (resolveAttrs sch input e.keySegs == some (e.links.map (·.field))))]))])

open Model.Flatten in
def c05SlotOfJson (j : Json) : Except String Slot := do
  let path ← (← getArrL j "path").mapM fun x => x.getNat?
  let ctorJ ← j.getObjVal? "ctor"
  let ctor ← if ctorJ.isNull then pure none else do pure (some (← ctorJ.getNat?))
  let optB (k : String) : Bool := match j.getObjVal? k with | .ok (Json.bool b) => b | _ => false
  pure ⟨path, ← (← j.getObjVal? "repeated").getBool?, ← (← j.getObjVal? "map").getBool?,
        ← (← j.getObjVal? "value").getBool?, ctor, optB "raw_owner", optB "is_msg", optB "marshal_owner"⟩

open Model.Flatten in
def c05CallJson : Except CallErr Val → Json
  | .ok v => Json.mkObj [("ok", c05ValToJson v)]
  | .error .valueError => Json.mkObj [("raised", Json.str "ValueError"), ("why", Json.str "mutual-exclusion")]
  | .error .ctorUnknownField => Json.mkObj [("raised", Json.str "ValueError"), ("why", Json.str "ctor-unknown-field")]
  | .error .attributeError => Json.mkObj [("raised", Json.str "AttributeError"), ("why", Json.str "raw-protobuf-assignment")]

open Model.Flatten in
/-- `{"op":"c05.call","same_pkg":bool,"slots":[…],"args":[val|null…],"request":null|{"inst":val}|{"dict":val}}`
→ the request each client would send (or the exception), and the reference `setAll`. -/
def opC05Call (j : Json) : Except String Json := do
  let same ← (← j.getObjVal? "same_pkg").getBool?
  let slots ← (← getArrL j "slots").mapM c05SlotOfJson
  let args ← (← getArrL j "args").mapM c05OptVal
  if slots.length ≠ args.length then throw "slots/args length mismatch"
  let bs : List Bound := slots.zip args
  let rj ← j.getObjVal? "request"
  let req : ReqArg ←
    if rj.isNull then pure ReqArg.none
    else if let .ok v := rj.getObjVal? "inst" then do pure (ReqArg.inst (← c05ValOfJson 64 v))
    else if let .ok v := rj.getObjVal? "dict" then do pure (ReqArg.dict (← c05ValOfJson 64 v))
    else throw "bad request"
  pure (Json.mkObj [
    ("sync", c05CallJson (call same false req bs)),
    ("async", c05CallJson (call same true req bs)),
    ("sent_sync", jnat (sent same false req bs).length),
    ("sent_async", jnat (sent same true req bs).length),
    ("ref", c05ValToJson (setAll bs .mnil))])

open Model.Flatten in
/-- `{"op":"c05.packages","api_package":str,"proto_plus_deps":[str…],"service_package":str,"pkgs":[str…]}` →
per package: `is_proto_plus_type` of an address in it, and whether a request declared there is a cross-package
request of a service declared in `service_package`. -/
def opC05Packages (j : Json) : Except String Json := do
  let deps ← (← getArrL j "proto_plus_deps").mapM fun s => s.getStr?
  let n : Naming := ⟨← (← j.getObjVal? "api_package").getStr?, deps⟩
  let svcPkg ← (← j.getObjVal? "service_package").getStr?
  let pkgs ← (← getArrL j "pkgs").mapM fun s => s.getStr?
  pure (jarr (pkgs.map fun p =>
    Json.mkObj [("proto_plus", Json.bool (isProtoPlusType n p)), ("cross", Json.bool (crossPkgOf p svcPkg))]))

def opsC05 : List (String × (Json → Except String Json)) :=
  [("c05.mapping", opC05Mapping), ("c05.call", opC05Call), ("c05.packages", opC05Packages)]

end GapicModel.Driver
