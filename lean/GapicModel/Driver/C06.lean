import GapicModel.Driver.Base
import GapicModel.Model.Routing
open Lean GapicModel GapicModel.Regex
namespace GapicModel.Driver

/-! ### C06 — routing header -/

open Model.Routing in
def c06Tok (j : Json) : Except String Tok := do
  match (← j.getArr?).toList with
  | [Json.str "lit", Json.str s] => pure (.lit s.toList)
  | [Json.str "star"] => pure .star
  | [Json.str "dstar"] => pure .dstar
  | _ => throw "bad tok"

open Model.Routing in
def c06Seg (j : Json) : Except String Seg := do
  match (← j.getArr?).toList with
  | [Json.str "named", Json.str k, Json.arr sub] => pure (.named k.toList (← sub.toList.mapM c06Tok))
  | [Json.str "bare", Json.str k] => pure (.bare k.toList)
  | _ => pure (.tok (← c06Tok j))

def c06ErrJson : Model.Routing.Err → Json
  | .manyNamed n => Json.mkObj [("error", Json.str "manyNamed"), ("n", jnat n)]
  | .noNamed => Json.mkObj [("error", Json.str "noNamed")]

def c06Request (j : Json) : Except String Model.Routing.Request := do
  let o ← j.getObj?
  let kv : List (String × Json) := o.toList
  let kvs ← kv.mapM fun (k, v) => do pure (k.toList, (← v.getStr?).toList)
  pure fun f => ((kvs.find? (·.1 = f)).map (·.2)).getD []

def pairsJson (kv : List (List Char × List Char)) : Json :=
  jarr (kv.map fun (k, v) => jarr [jstr k, jstr v])

-- `{"op":"c06.template","segs":[…],"values":[…]}` → regex AST, key, rendered string,
--     per value: the regex capture and the regex-free reference capture
open Model.Routing in
def opC06Template (j : Json) : Except String Json := do
  let segs ← (← getArrL j "segs").mapM c06Seg
  let values ← (← getArrL j "values").mapM fun v => do pure (← v.getStr?).toList
  let ct := Pinned.classTables
  match ofSegs segs with
  | .error .noNamed =>
    -- template without named segment: accepted by the code (key = field), no group
    let ts := segs.filterMap fun sg => match sg with | .tok t => some t | _ => none
    pure (Json.mkObj [
      ("error", Json.str "noNamed"),
      ("rendered", jstr (renderSegs segs)),
      ("regex", patternJson (toRegexUnnamed ts)),
      ("matches", jarr (values.map fun v => Json.bool (matchesUnnamed ct ts v))),
      ("chain_raises", jarr (values.map fun v => Json.bool (chainRaises ct ts v))),
      ("scanmatches", jarr (values.map fun v => Json.bool (match scanToks ts v with | some (_, []) => true | _ => false)))])
  | .error e => pure (c06ErrJson e)
  | .ok t =>
    pure (Json.mkObj [
      ("rendered", jstr (renderSegs segs)),
      ("rendered_normal", jstr (render t)),
      ("key", jstr (templateKey t)),
      ("regex", patternJson (toRegex t)),
      ("captures", jarr (values.map fun v => optJson jstr (Model.Routing.capture ct t v))),
      ("scan", jarr (values.map fun v => optJson jstr (scanCapture t v)))])

open Model.Routing in
def c06Param (j : Json) : Except String (Except Err Param) := do
  let field ← getStrL j "field"
  let tv ← j.getObjVal? "segs"
  match tv with
  | Json.null => pure (.ok ⟨field, none⟩)
  | _ =>
    let segs ← (← tv.getArr?).toList.mapM c06Seg
    match ofSegs segs with
    | .error e => pure (.error e)
    | .ok t => pure (.ok ⟨field, some t⟩)

-- `{"op":"c06.explicit","params":[{"field":…,"segs":null|[…]}],"requests":[{field: value}]}`
open Model.Routing in
def opC06Explicit (j : Json) : Except String Json := do
  let ps ← (← getArrL j "params").mapM c06Param
  let reqs ← (← getArrL j "requests").mapM c06Request
  let cs := (j.getObjValAs? Bool "client_streaming").toOption.getD false
  let ct := Pinned.classTables
  match ps.mapM id with
  | .error e => pure (c06ErrJson e)
  | .ok ps =>
    pure (Json.mkObj [
      ("keys", jarr (ps.map fun p => jstr (paramKey p))),
      ("results", jarr (reqs.map fun r => Json.mkObj [
        ("pairs", pairsJson (resolveExplicit ct ps r)),
        ("header", optJson jstr (header ct ⟨some ps, [], cs⟩ r))]))])

open Model.Routing in
def c06Verb (s : String) : Except String Verb :=
  match s with
  | "get" => pure .get | "put" => pure .put | "post" => pure .post
  | "delete" => pure .delete | "patch" => pure .patch
  | _ => if s.startsWith "custom:" then pure (.custom (s.toList.drop 7)) else throw s!"bad verb {s}"

open Model.Routing in
def c06Rule (j : Json) : Except String (Option HttpRule) := do
  match j with
  | Json.null => pure none
  | _ =>
    let verb ← c06Verb (String.ofList (← getStrL j "verb"))
    let path ← getStrL j "path"
    let bs ← (← getArrL j "bindings").mapM fun b => do
      match (← b.getArr?).toList with
      | [Json.str v, Json.str p] => pure ((← c06Verb v), p.toList)
      | _ => throw "bad binding"
    pure (some ⟨verb, path, bs⟩)

-- `{"op":"c06.implicit","verbs":[get,put,post,delete,patch,custom] | "rule": null|{"verb","path","bindings"},
--   "requests":[{attr: value}]}`
open Model.Routing in
def opC06Implicit (j : Json) : Except String Json := do
  let verbs ← match j.getObjVal? "rule" with
    | .ok rj => do pure (verbsOf (← c06Rule rj))
    | .error _ => (← getArrL j "verbs").mapM fun v => do pure (← v.getStr?).toList
  let reqs ← (← getArrL j "requests").mapM c06Request
  let cs := (j.getObjValAs? Bool "client_streaming").toOption.getD false
  let ct := Pinned.classTables
  let path := primaryPath verbs
  let hs := fieldHeaders ct path
  pure (Json.mkObj [
    ("path", jstr path),
    ("verbs", jarr (verbs.map jstr)),
    ("headers", jarr (hs.map jstr)),
    ("attrs", jarr (hs.map fun h => jstr (disambiguated h))),
    ("attrs_valid", jarr (hs.map fun h => Json.bool (attrPathValid (disambiguated h)))),
    ("results", jarr (reqs.map fun r => Json.mkObj [
      ("pairs", pairsJson (implicitPairs hs r)),
      ("header", optJson jstr (header ct ⟨none, verbs, cs⟩ r))]))])

def c06Pairs (j : Json) (k : String) : Except String (List (List Char × List Char)) := do
  (← getArrL j k).mapM fun p => do
    match (← p.getArr?).toList with
    | [Json.str k, Json.str v] => pure (k.toList, v.toList)
    | _ => throw "bad pair"

-- `{"op":"c06.transport","user":[[k,v]],"routing":null|str,"extra":[[k,v]]}`: the routing header values a
-- gRPC server sees (all, in order) and the one an HTTP server sees (`dict(metadata)`)
open Model.Routing in
def opC06Transport (j : Json) : Except String Json := do
  let user ← c06Pairs j "user"
  let extra ← c06Pairs j "extra"
  let routing ← match j.getObjVal? "routing" with
    | .ok (Json.str s) => pure (some s.toList)
    | _ => pure none
  let md := callMetadata user routing extra
  pure (Json.mkObj [
    ("grpc", jarr ((grpcValues md hdrName).map jstr)),
    ("rest", optJson jstr (restValue md hdrName)),
    ("rest_keys", jarr ((restHeaders md).map fun kv => jstr kv.1))])

-- `{"op":"c06.encode","pairs":[[k,v],…]}`
open Model.Routing in
def opC06Encode (j : Json) : Except String Json := do
  let kv ← (← getArrL j "pairs").mapM fun p => do
    match (← p.getArr?).toList with
    | [Json.str k, Json.str v] => pure (k.toList, v.toList)
    | _ => throw "bad pair"
  pure (Json.mkObj [("header", jstr (encodePairs kv))])

def c06DictRequest (j : Json) : Except String Model.Routing.DictRequest := do
  let o ← j.getObj?
  let kv : List (String × Json) := o.toList
  let kvs ← kv.mapM fun (k, v) => do pure (k.toList, (← v.getStr?).toList)
  pure fun f => (kvs.find? (·.1 = f)).map (·.2)

-- `{"op":"c06.schema","params":[…],"requests":[{field path: value}]}`: `RoutingRule.resolve`
-- (a field path absent from the object = `_get_field` returned None)
open Model.Routing in
def opC06Schema (j : Json) : Except String Json := do
  let ps ← (← getArrL j "params").mapM c06Param
  let reqs ← (← getArrL j "requests").mapM c06DictRequest
  let ct := Pinned.classTables
  match ps.mapM id with
  | .error e => pure (c06ErrJson e)
  | .ok ps => pure (Json.mkObj [("results", jarr (reqs.map fun r => pairsJson (resolveSchema ct ps r)))])

-- `{"op":"c06.program","store":[[[k,v]…]…],"calls":[{"md":null|i,"routing":null|str}…],"extra":[[k,v]]}`: per call the
-- routing-header values a gRPC / an HTTP server sees, and the caller's metadata objects after the program
open Model.Routing in
def opC06Program (j : Json) : Except String Json := do
  let store ← (← getArrL j "store").mapM fun o => do
    (← o.getArr?).toList.mapM fun p => do
      match (← p.getArr?).toList with
      | [Json.str k, Json.str v] => pure (k.toList, v.toList)
      | _ => throw "bad pair"
  let extra ← c06Pairs j "extra"
  let calls ← (← getArrL j "calls").mapM fun c => do
    let routing := match c.getObjVal? "routing" with
      | .ok (Json.str s) => some s.toList
      | _ => none
    let md := match c.getObjValAs? Nat "md" with
      | .ok i => some i
      | .error _ => none
    pure (⟨routing, md⟩ : Call)
  let (wires, st) := runProgram extra store calls
  pure (Json.mkObj [
    ("wires", jarr (wires.map fun w => Json.mkObj [
      ("grpc", jarr ((grpcValues w hdrName).map jstr)),
      ("rest", optJson jstr (restValue w hdrName))])),
    ("store", jarr (st.map pairsJson))])

-- `{"op":"c06.literal","lit":"v1.0"}`: the pattern of a template that is ONE literal segment, as the code inserts it
open Model.Routing in
def opC06Literal (j : Json) : Except String Json := do
  let cs ← getStrL j "lit"
  let values ← (← getArrL j "values").mapM fun v => do pure (← v.getStr?).toList
  let pat : Pattern := ⟨seqR (.bol :: litItemsReal cs ++ [.eol]), 0, []⟩
  pure (Json.mkObj [
    ("regex", patternJson pat),
    ("plain", Json.bool (litItemsReal cs == tokItems (.lit cs))),
    ("matches", jarr (values.map fun v => Json.bool (pyMatch Pinned.classTables pat.re v).isSome))])

def opsC06 : List (String × (Json → Except String Json)) :=
  [("c06.template", opC06Template), ("c06.explicit", opC06Explicit), ("c06.schema", opC06Schema),
   ("c06.implicit", opC06Implicit), ("c06.encode", opC06Encode), ("c06.transport", opC06Transport),
   ("c06.literal", opC06Literal), ("c06.program", opC06Program)]

end GapicModel.Driver
