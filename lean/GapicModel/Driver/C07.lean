import GapicModel.Driver.Base
import GapicModel.Model.Paging
open Lean GapicModel GapicModel.Regex
namespace GapicModel.Driver

/-! ### C07 -/

open Model.Paging in
def ftypeOfJson (j : Json) : Except String FType := do
  match j with
  | Json.str "str" => pure .str | Json.str "int" => pure .int | Json.str "float" => pure .float
  | Json.str "bool" => pure .bool | Json.str "bytes" => pure .bytes | Json.str "enum" => pure .enum
  | Json.arr #[Json.str "msg", Json.str n] => pure (.msg n)
  | _ => throw "bad ftype"

open Model.Paging in
def msgOfJson (j : Json) : Except String Msg := do
  (← j.getArr?).toList.mapM fun f => do
    let a ← f.getArr?
    match a.toList with
    | [Json.str n, t, Json.bool r] => pure ⟨n, ← ftypeOfJson t, r⟩
    | _ => throw "bad field"

open Model.Paging in
def opC07Classify (j : Json) : Except String Json := do
  let i ← msgOfJson (← j.getObjVal? "input")
  let o ← msgOfJson (← j.getObjVal? "output")
  pure (Json.mkObj [("field", optJson (fun f => Json.str f.name) (pagedField i o))])

open Model.Paging in
def opC07Run (j : Json) : Except String Json := do
  let pages ← (← getArrL j "pages").mapM fun p => do
    let items ← (← getArrL p "items").mapM fun x => x.getNat?
    let tok ← getStrL p "token"
    pure (⟨items, tok⟩ : Page Nat)
  let tok0 ← getStrL j "token0"
  let r := run (ρ := Unit) ⟨tok0, ()⟩ pages
  pure (Json.mkObj [("items", jarr (r.1.map jnat)), ("request_tokens", jarr (r.2.map fun q => jstr q.token))])


def opsC07 : List (String × (Json → Except String Json)) := [("c07.classify", opC07Classify), ("c07.run", opC07Run)]

end GapicModel.Driver
