import GapicModel.Driver.Base
import GapicModel.Model.Paging
open Lean GapicModel GapicModel.Regex
namespace GapicModel.Driver

/-! ### C07 -/

open Model.Paging in
def ftypeOfJson (j : Json) : Except String FType := do
  match j with
  | Json.str "str" => pure .str | Json.str "int" => pure .int | Json.str "float" => pure .float
  | Json.str "bool" => pure .bool | Json.str "bytes" => pure .bytes | Json.str "enum" => pure .enum
  | Json.arr #[Json.str "msg", Json.str n] => pure (.msg n)
  | _ => throw "bad ftype"

open Model.Paging in
def msgOfJson (j : Json) : Except String Msg := do
  (← j.getArr?).toList.mapM fun f => do
    let a ← f.getArr?
    match a.toList with
    | [Json.str n, t, Json.bool r] => pure ⟨n, ← ftypeOfJson t, r⟩
    | _ => throw "bad field"

open Model.Paging in
def opC07Classify (j : Json) : Except String Json := do
  let i ← msgOfJson (← j.getObjVal? "input")
  let o ← msgOfJson (← j.getObjVal? "output")
  pure (Json.mkObj [("field", optJson (fun f => Json.str f.name) (pagedField i o))])

open Model.Paging in
def opC07Run (j : Json) : Except String Json := do
  let pages ← (← getArrL j "pages").mapM fun p => do
    let items ← (← getArrL p "items").mapM fun x => x.getNat?
    let tok ← getStrL p "token"
    pure (⟨items, tok⟩ : Page Nat)
  let tok0 ← getStrL j "token0"
  let r := run (ρ := Unit) ⟨tok0, ()⟩ pages
  pure (Json.mkObj [("items", jarr (r.1.map jnat)), ("request_tokens", jarr (r.2.map fun q => jstr q.token))])


open Model.Paging in
def obsJson : Obs Nat → Json
  | .unit => Json.str "unit"
  | .stop => Json.str "stop"
  | .bad => Json.str "bad"
  | .item x => Json.mkObj [("item", jnat x)]
  | .tok t => Json.mkObj [("tok", jstr t)]
  | .page p => Json.mkObj [("page", Json.mkObj [("items", jarr (p.items.map jnat)), ("token", jstr p.token)])]

open Model.Paging in
def opOfJson (j : Json) : Except String Op := do
  match (← j.getArr?).toList with
  | [Json.str "pages"] => pure .newPages
  | [Json.str "iter"] => pure .newIter
  | [Json.str "attr"] => pure .attr
  | [Json.str "nextpage", n] => pure (.nextPage (← n.getNat?))
  | [Json.str "next", n] => pure (.nextItem (← n.getNat?))
  | _ => throw "bad op"

-- a program over one pager: per op the observation and the number of requests the pager has sent so far
open Model.Paging in
def opC07Program (j : Json) : Except String Json := do
  let pages ← (← getArrL j "pages").mapM fun p => do
    let items ← (← getArrL p "items").mapM fun x => x.getNat?
    let tok ← getStrL p "token"
    pure (⟨items, tok⟩ : Page Nat)
  let tok0 ← getStrL j "token0"
  let ops ← (← getArrL j "ops").mapM opOfJson
  match pages with
  | [] => throw "no first page"
  | p0 :: srv =>
    let rec go (w : World Nat Unit) : List Op → List Json
      | [] => []
      | o :: os =>
        let r := step w o
        Json.mkObj [("obs", obsJson r.1), ("sent", jnat r.2.sent.length)] :: go r.2 os
    let w0 := World.init (ρ := Unit) ⟨tok0, ()⟩ p0 srv
    let final := (exec w0 ops).2
    pure (Json.mkObj [("steps", jarr (go w0 ops)), ("sent_tokens", jarr (final.sent.map fun q => jstr q.token)),
                      ("last_token", jstr final.resp.token)])

open Model.Paging in
def opC07Wrap (j : Json) : Except String Json := do
  let b (k : String) : Except String Bool := do (← j.getObjVal? k).getBool?
  let k : MethodKind := ⟨← b "void", ← b "lro", ← b "ext", ← b "cs", ← b "ss"⟩
  let paged ← b "paged"
  let w (x : Wrap) : String := match x with
    | .operation => "operation" | .pager => "pager" | .extOperation => "ext_operation" | .raw => "raw"
  let o : String := match clientOutput k paged with
    | .none_ => "none" | .operation => "operation" | .extOperation => "ext_operation" | .pager => "pager" | .message => "message"
  let a : String := match pagerArgs k with
    | .nameError => "name_error" | .streamAsResponse => "stream_as_response" | .firstResponse => "first_response"
  pure (Json.mkObj [("wrap_sync", Json.str (w (wrapOf k paged true))), ("wrap_async", Json.str (w (wrapOf k paged false))),
                    ("client_output", Json.str o), ("pager_args", Json.str a)])


def opsC07 : List (String × (Json → Except String Json)) := [("c07.classify", opC07Classify), ("c07.run", opC07Run),
  ("c07.program", opC07Program), ("c07.wrap", opC07Wrap)]

end GapicModel.Driver
