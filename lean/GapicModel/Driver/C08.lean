import GapicModel.Driver.Base
import GapicModel.Model.Lro
open Lean GapicModel GapicModel.Regex
namespace GapicModel.Driver

/-! ### C08 -/

open Model.Lro in
def c08File (j : Json) : Except String File := do
  let name ← (← j.getObjVal? "name").getStr?
  let pkg ← getStrL j "package"
  let deps ← (← getArrL j "deps").mapM fun d => d.getStr?
  let msgs ← (← getArrL j "messages").mapM fun d => do pure (← d.getStr?).toList
  pure { name := name, package := pkg, deps := deps, messages := msgs }

open Model.Lro in
def c08Err : Err → Json
  | .typeError => Json.mkObj [("error", Json.str "TypeError")]
  | .keyError k => Json.mkObj [("error", Json.str "KeyError"), ("key", jstr k)]

/- `{"op":"c08.resolve","package":…,"selector":…}` -/
def opC08Resolve (j : Json) : Except String Json := do
  let pkg ← getStrL j "package"
  let sel ← getStrL j "selector"
  pure (Json.mkObj [("r", jstr (Model.Lro.resolve pkg sel))])

open Model.Lro in
def c08Method (j : Json) : Except String Method := do
  let out ← getStrL j "output"
  let info ← j.getObjVal? "opinfo"
  let oi ← match info with
    | Json.null => pure none
    | Json.arr #[Json.str r, Json.str m] => pure (some (⟨r.toList, m.toList⟩ : OpInfo))
    | _ => throw "bad opinfo"
  pure ⟨"", out, oi⟩

/- `{"op":"c08.lro","files":[…],"file":idx,"output":…,"opinfo":null|[resp,meta]}` -/
open Model.Lro in
def opC08Lro (j : Json) : Except String Json := do
  let files ← (← getArrL j "files").mapM c08File
  let idx ← (← j.getObjVal? "file").getNat?
  let m ← c08Method j
  match files[idx]? with
  | none => pure (unsupported "file index out of range")
  | some f =>
    match emitted files f m ⟨1⟩ with
    | .error e => pure (c08Err e)
    | .ok .raw => pure (Json.mkObj [("lro", Json.null), ("wrap", Json.str "raw")])
    | .ok (.future ops r md) =>
      pure (Json.mkObj [("lro", jarr [jstr r, jstr md]), ("wrap", Json.str "future"),
                        ("same_channel", Json.bool (ops.channel == 1))])

/- `{"op":"c08.client_output","void":b,"lro":b,"ext":b,"paged":b,"async":b,"output":…}` -/
open Model.Lro in
def opC08ClientOutput (j : Json) : Except String Json := do
  let b (k : String) : Except String Bool := do (← j.getObjVal? k).getBool?
  let v : MethodView := ⟨← b "void", ← b "lro", ← b "ext", ← b "paged", ← getStrL j "output"⟩
  let r := match clientOutput v (← b "async") with
    | .none_ => Json.str "None"
    | .operation => Json.str "operation.Operation"
    | .asyncOperation => Json.str "operation_async.AsyncOperation"
    | .extendedOperation => Json.str "extended_operation.ExtendedOperation"
    | .pager => Json.str "pager"
    | .asyncPager => Json.str "async_pager"
    | .message n => jarr [Json.str "message", jstr n]
  pure (Json.mkObj [("r", r)])

open Model.Lro in
def c08Any (j : Json) : Except String (Option AnyVal) := do
  match j with
  | Json.null => pure none
  | Json.arr #[Json.str t, n] => pure (some ⟨t.toList, ← n.getNat?⟩)
  | _ => throw "bad any"

open Model.Lro in
def c08Op (j : Json) : Except String OpState := do
  let done ← (← j.getObjVal? "done").getBool?
  let md ← c08Any (← j.getObjVal? "meta")
  let out ← match (← j.getObjVal? "out") with
    | Json.null => pure Outcome.neither
    | Json.arr #[Json.str "response", Json.str t, n] => pure (Outcome.response ⟨t.toList, ← n.getNat?⟩)
    | Json.arr #[Json.str "error", c] => pure (Outcome.error (← c.getNat?))
    | _ => throw "bad outcome"
  pure ⟨done, md, out⟩

open Model.Lro in
def c08Res : Res → Json
  | .ok t p => jarr [Json.str "ok", jstr t, jnat p]
  | .apiError c => jarr [Json.str "api_error", jnat c]
  | .unexpectedState => jarr [Json.str "unexpected_state"]
  | .typeError => jarr [Json.str "type_error"]
  | .timeout => jarr [Json.str "timeout"]

/- `{"op":"c08.run","rt":…,"mt":…,"ops":[{done,meta,out}…]}` (first op = the RPC's own reply) -/
open Model.Lro in
def opC08Run (j : Json) : Except String Json := do
  let rt ← getStrL j "rt"
  let mt ← getStrL j "mt"
  let ops ← (← getArrL j "ops").mapM c08Op
  match ops with
  | [] => pure (unsupported "empty history")
  | first :: replies =>
    let o := runFuture rt mt first replies
    pure (Json.mkObj [("polls", jnat o.polls), ("result", c08Res o.result),
                      ("metadata_before", optJson c08Res o.metadataBefore),
                      ("metadata", optJson c08Res o.metadataAfter)])

def opsC08 : List (String × (Json → Except String Json)) :=
  [("c08.resolve", opC08Resolve), ("c08.lro", opC08Lro), ("c08.client_output", opC08ClientOutput), ("c08.run", opC08Run)]

end GapicModel.Driver
