import GapicModel.Driver.Base
import GapicModel.Model.Lro
open Lean GapicModel GapicModel.Regex
namespace GapicModel.Driver

/-! ### C08 -/

open Model.Lro in
def c08File (j : Json) : Except String File := do
  let name ← (← j.getObjVal? "name").getStr?
  let pkg ← getStrL j "package"
  let deps ← (← getArrL j "deps").mapM fun d => d.getStr?
  let msgs ← (← getArrL j "messages").mapM fun d => do pure (← d.getStr?).toList
  pure { name := name, package := pkg, deps := deps, messages := msgs }

open Model.Lro in
def c08Err : Err → Json
  | .typeError => Json.mkObj [("error", Json.str "TypeError")]
  | .keyError k => Json.mkObj [("error", Json.str "KeyError"), ("key", jstr k)]

/- `{"op":"c08.resolve","package":…,"selector":…}` -/
def opC08Resolve (j : Json) : Except String Json := do
  let pkg ← getStrL j "package"
  let sel ← getStrL j "selector"
  pure (Json.mkObj [("r", jstr (Model.Lro.resolve pkg sel))])

open Model.Lro in
def c08Method (j : Json) : Except String Method := do
  let out ← getStrL j "output"
  let info ← j.getObjVal? "opinfo"
  let oi ← match info with
    | Json.null => pure none
    | Json.arr #[Json.str r, Json.str m] => pure (some (⟨r.toList, m.toList⟩ : OpInfo))
    | _ => throw "bad opinfo"
  pure ⟨"", out, oi⟩

/- `{"op":"c08.lro","files":[…],"file":idx,"output":…,"opinfo":null|[resp,meta]}` -/
open Model.Lro in
def opC08Lro (j : Json) : Except String Json := do
  let files ← (← getArrL j "files").mapM c08File
  let idx ← (← j.getObjVal? "file").getNat?
  let m ← c08Method j
  match files[idx]? with
  | none => pure (unsupported "file index out of range")
  | some f =>
    match emitted files f m ⟨1⟩ with
    | .error e => pure (c08Err e)
    | .ok .raw => pure (Json.mkObj [("lro", Json.null), ("wrap", Json.str "raw")])
    | .ok (.future ops r md) =>
      pure (Json.mkObj [("lro", jarr [jstr r, jstr md]), ("wrap", Json.str "future"),
                        ("same_channel", Json.bool (ops.channel == 1))])

/- `{"op":"c08.client_output","void":b,"lro":b,"ext":b,"paged":b,"async":b,"output":…}` -/
open Model.Lro in
def opC08ClientOutput (j : Json) : Except String Json := do
  let b (k : String) : Except String Bool := do (← j.getObjVal? k).getBool?
  let v : MethodView := ⟨← b "void", ← b "lro", ← b "ext", ← b "paged", ← getStrL j "output"⟩
  let r := match clientOutput v (← b "async") with
    | .none_ => Json.str "None"
    | .operation => Json.str "operation.Operation"
    | .asyncOperation => Json.str "operation_async.AsyncOperation"
    | .extendedOperation => Json.str "extended_operation.ExtendedOperation"
    | .pager => Json.str "pager"
    | .asyncPager => Json.str "async_pager"
    | .message n => jarr [Json.str "message", jstr n]
  pure (Json.mkObj [("r", r)])

open Model.Lro in
def c08Any (j : Json) : Except String (Option AnyVal) := do
  match j with
  | Json.null => pure none
  | Json.arr #[Json.str t, n] => pure (some ⟨t.toList, ← n.getNat?⟩)
  | _ => throw "bad any"

open Model.Lro in
def c08Op (j : Json) : Except String OpState := do
  let done ← (← j.getObjVal? "done").getBool?
  let md ← c08Any (← j.getObjVal? "meta")
  let out ← match (← j.getObjVal? "out") with
    | Json.null => pure Outcome.neither
    | Json.arr #[Json.str "response", Json.str t, n] => pure (Outcome.response ⟨t.toList, ← n.getNat?⟩)
    | Json.arr #[Json.str "error", c] => pure (Outcome.error (← c.getNat?))
    | _ => throw "bad outcome"
  pure ⟨done, md, out⟩

open Model.Lro in
def c08Res : Res → Json
  | .ok t p => jarr [Json.str "ok", jstr t, jnat p]
  | .apiError c => jarr [Json.str "api_error", jnat c]
  | .unexpectedState => jarr [Json.str "unexpected_state"]
  | .typeError => jarr [Json.str "type_error"]
  | .timeout => jarr [Json.str "timeout"]

/- `{"op":"c08.run","rt":…,"mt":…,"ops":[{done,meta,out}…]}` (first op = the RPC's own reply) -/
open Model.Lro in
def opC08Run (j : Json) : Except String Json := do
  let rt ← getStrL j "rt"
  let mt ← getStrL j "mt"
  let ops ← (← getArrL j "ops").mapM c08Op
  match ops with
  | [] => pure (unsupported "empty history")
  | first :: replies =>
    let o := runFuture rt mt first replies
    pure (Json.mkObj [("polls", jnat o.polls), ("result", c08Res o.result),
                      ("metadata_before", optJson c08Res o.metadataBefore),
                      ("metadata", optJson c08Res o.metadataAfter)])

/- `{"op":"c08.service","files":[…],"file":idx,"methods":[{"output":…,"opinfo":…}…]}` -/
open Model.Lro in
def opC08Service (j : Json) : Except String Json := do
  let files ← (← getArrL j "files").mapM c08File
  let idx ← (← j.getObjVal? "file").getNat?
  let ms ← (← getArrL j "methods").mapM c08Method
  match files[idx]? with
  | none => pure (unsupported "file index out of range")
  | some f =>
    match loadService files f ms with
    | .error e => pure (c08Err e)
    | .ok xs =>
      pure (Json.mkObj [("lro", jarr (xs.map fun x => optJson (fun (p : Str × Str) => jarr [jstr p.1, jstr p.2]) x)),
                        ("has_lro", Json.bool (hasLro xs))])

def c08Strs (j : Json) (k : String) : Except String (List (List Char)) := do
  (← getArrL j k).mapM fun d => do pure (← d.getStr?).toList

/- `{"op":"c08.alias","package":[…],"module":…,"version":…,"collisions":[…]}` (reserved = the pinned RESERVED_NAMES) -/
open Model.Lro in
def opC08Alias (j : Json) : Except String Json := do
  let pkg ← c08Strs j "package"
  let coll ← c08Strs j "collisions"
  let r := moduleAlias pkg (← getStrL j "module") (← getStrL j "version") coll (Pinned.reservedNames.map String.toList)
  pure (Json.mkObj [("alias", optJson jstr r)])

/- `{"op":"c08.future_code","async":b,"version":…,"collisions":[…]}` -/
open Model.Lro in
def opC08FutureCode (j : Json) : Except String Json := do
  let coll ← c08Strs j "collisions"
  let asy ← (← j.getObjVal? "async").getBool?
  match futureCode asy (← getStrL j "version") coll (Pinned.reservedNames.map String.toList) with
  | none => pure (Json.mkObj [("error", Json.str "IndexError")])
  | some c => pure (Json.mkObj [("import_module", jstr c.importModule), ("import_as", jstr c.importAs), ("callee", jstr c.callee)])

open Model.Lro in
def c08Binding (j : Json) : Except String Binding := do
  match j with
  | Json.arr #[Json.str v, Json.str u, Json.str b] => pure ⟨v.toList, u.toList, b.toList⟩
  | _ => throw "bad binding"

/- `{"op":"c08.ops_table","rules":[{"selector":…,"bindings":[[verb,uri,body]…]}…],"package":…,"names":[…]}` -/
open Model.Lro in
def opC08OpsTable (j : Json) : Except String Json := do
  let rules ← (← getArrL j "rules").mapM fun r => do
    let bs ← (← getArrL r "bindings").mapM c08Binding
    match bs with
    | [] => throw "rule without binding"
    | b :: more => pure (⟨← getStrL r "selector", b, more⟩ : YamlRule)
  let table := opsHttpTable (Pinned.reservedNames.map String.toList) rules
  -- "package": the package of the file that declares the service (the prefix is the model's `clientPackageVersion` of it)
  let pfx := clientPackageVersion (← getStrL j "package")
  let names ← c08Strs j "names"
  let rowJ (r : Row) : Json := jarr [jstr r.method, jstr r.uri, optJson jstr r.body]
  pure (Json.mkObj [("table", jarr (table.map fun e => jarr [jstr e.1, jarr (e.2.map rowJ)])),
                    ("prefix", jstr pfx),
                    ("paths", jarr (names.map fun n => optJson (fun (p : Str × Str) => jarr [jstr p.1, jstr p.2]) (opsGetPath table pfx n)))])

open Model.Lro in
def c08Cmd (j : Json) : Except String Cmd := do
  match ← j.getStr? with
  | "metadata" => pure .metadata | "done" => pure .done | "running" => pure .running
  | "cancel" => pure .cancel | "result" => pure .result | "exception" => pure .exception
  | c => throw s!"bad cmd {c}"

/- `{"op":"c08.exec","rt":…,"mt":…,"ops":[…],"cmds":["metadata","done",…]}` -/
open Model.Lro in
def opC08Exec (j : Json) : Except String Json := do
  let rt ← getStrL j "rt"
  let mt ← getStrL j "mt"
  let ops ← (← getArrL j "ops").mapM c08Op
  let cmds ← (← getArrL j "cmds").mapM c08Cmd
  match ops with
  | [] => pure (unsupported "empty history")
  | first :: replies =>
    let r := exec rt mt (Fut.init first replies) cmds
    let obsJ : Obs → Json
      | .md x => jarr [Json.str "metadata", optJson c08Res x]
      | .flag b => jarr [Json.str "bool", Json.bool b]
      | .res x => jarr [Json.str "result", c08Res x]
      | .exc x => jarr [Json.str "exception", optJson c08Res x]
    pure (Json.mkObj [("obs", jarr (r.2.map obsJ)), ("polls", jnat r.1.polls), ("cancels", jnat r.1.cancels)])

def opsC08 : List (String × (Json → Except String Json)) :=
  [("c08.resolve", opC08Resolve), ("c08.lro", opC08Lro), ("c08.client_output", opC08ClientOutput), ("c08.run", opC08Run),
   ("c08.service", opC08Service), ("c08.alias", opC08Alias), ("c08.future_code", opC08FutureCode),
   ("c08.ops_table", opC08OpsTable), ("c08.exec", opC08Exec)]

end GapicModel.Driver
