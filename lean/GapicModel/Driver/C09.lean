import GapicModel.Driver.Base
import GapicModel.Model.Retry
open Lean GapicModel GapicModel.Regex
namespace GapicModel.Driver

/-! ### C09 -/

/-- a rational crosses the boundary as `[num, den]` (exact; the harness turns it into a `Fraction`) -/
def ratJson (r : Rat) : Json :=
  jarr [Json.num (JsonNumber.fromInt r.num), Json.num (JsonNumber.fromNat r.den)]

/-- a JSON number is an exact decimal `mantissa / 10^exponent`; `[num, den]` is also accepted -/
def ratOfJson (j : Json) : Except String Rat :=
  match j with
  | Json.num n => pure ((n.mantissa : Rat) / ((10 ^ n.exponent : Nat) : Rat))
  | Json.arr #[Json.num a, Json.num b] =>
    if a.exponent = 0 ∧ b.exponent = 0 ∧ b.mantissa > 0 then pure ((a.mantissa : Rat) / (b.mantissa : Rat))
    else throw "bad rational"
  | _ => throw "bad rational"

def optField (j : Json) (k : String) : Option Json :=
  match j.getObjVal? k with
  | .ok Json.null => none
  | .ok v => some v
  | .error _ => none

open Model.Retry in
def c09NameOfJson (j : Json) : Except String Model.Retry.Name := do
  let o ← j.getObj?
  for (k, _) in o.toList do
    if k != "service" ∧ k != "method" then throw s!"unsupported: key {k} in a name"
  let s ← (optField j "service").mapM (·.getStr?)
  let m ← (optField j "method").mapM (·.getStr?)
  pure ⟨s, m⟩

open Model.Retry in
def c09PolicyOfJson (j : Json) : Except String RetryPolicy := do
  let ma ← (optField j "maxAttempts").mapM ratOfJson
  let ib ← (optField j "initialBackoff").mapM (·.getStr?)
  let mb ← (optField j "maxBackoff").mapM (·.getStr?)
  let mu ← (optField j "backoffMultiplier").mapM ratOfJson
  let cs ← match optField j "retryableStatusCodes" with
    | none => pure []
    | some a => do (← a.getArr?).toList.mapM (·.getStr?)
  pure ⟨ma, ib.map String.toList, mb.map String.toList, mu, cs⟩

open Model.Retry in
def c09ConfigOfJson (j : Json) : Except String ServiceConfig := do
  match optField j "methodConfig" with
  | none => pure []
  | some a =>
    (← a.getArr?).toList.mapM fun c => do
      let names ← match optField c "name" with
        | none => throw "unsupported: methodConfig entry without `name` (the real code raises TypeError)"
        | some n => do (← n.getArr?).toList.mapM c09NameOfJson
      let t ← (optField c "timeout").mapM (·.getStr?)
      let rp ← match c.getObjVal? "retryPolicy" with
        | .ok v => some <$> c09PolicyOfJson v       -- `"retryPolicy" in mc`
        | .error _ => pure none
      pure ⟨names, t.map String.toList, rp⟩

def optRat : Option Rat → Json
  | none => Json.null
  | some r => ratJson r

open Model.Retry in
def excsJson (xs : List Exc) : Json := jarr (xs.map fun x => Json.str x.name)

open Model.Retry in
def paramsJson (p : Params) : Json :=
  Json.mkObj [("initial", ratJson p.initial), ("maximum", ratJson p.maximum), ("multiplier", ratJson p.multiplier),
              ("predicate", excsJson p.predicate), ("deadline", optRat p.deadline)]

open Model.Retry in
def emittedJson (e : Emitted) : Json :=
  Json.mkObj [
    ("retry", match e.retry with
      | none => Json.null
      | some r => Json.mkObj [("initial", optRat r.initial), ("maximum", optRat r.maximum),
          ("multiplier", optRat r.multiplier), ("predicate", excsJson r.predicate), ("deadline", optRat r.deadline)]),
    ("timeout", optRat e.timeout),
    ("effective", match e.retry with
      | none => Json.null
      | some r => paramsJson (effective r))]

open Model.Retry in
def errJson : Err → Json
  | .badDuration => Json.mkObj [("error", Json.str "badDuration")]
  | .badStatusCode => Json.mkObj [("error", Json.str "badStatusCode")]

open Model.Retry in
def opC09ToFloat (j : Json) : Except String Json := do
  let s ← getStrL j "s"
  pure (Json.mkObj [("value", optRat (toFloat? s))])

open Model.Retry in
def opC09Selector (j : Json) : Except String Json := do
  let pkg ← (← getArrL j "package").mapM (·.getStr?)
  pure (Json.mkObj [("service", Json.str (selectorService pkg (← (← j.getObjVal? "name").getStr?)))])

open Model.Retry in
def opC09ExcTable (_ : Json) : Except String Json :=
  pure (Json.mkObj [
    ("table", jarr (Code.all.map fun c => jarr [Json.str c.name, Json.str (excOfCode c).name])),
    ("isinstance", jarr (Code.all.flatMap fun a => Code.all.map fun b =>
        jarr [Json.str a.name, Json.str b.name, Json.bool ((excOfCode a).isInstance (excOfCode b))]))])

open Model.Retry in
def c09Select (j : Json) : Except String (ServiceConfig × String × String) := do
  -- "configs": the files of all `retry-config=` options in order (`Options.build` reads the last); or one "config"
  let cfg ← match j.getObjVal? "configs" with
    | .ok (Json.arr a) => do pure (optsRetry (← a.toList.mapM c09ConfigOfJson))
    | _ => c09ConfigOfJson (← j.getObjVal? "config")
  -- "service": the full name, or {"package": [...], "name": "..."} = the declaring file's package and the service's name
  let sj ← j.getObjVal? "service"
  let svc ← match sj with
    | Json.str s => pure s
    | _ => do
      let pkg ← (← getArrL sj "package").mapM (·.getStr?)
      pure (selectorService pkg (← (← sj.getObjVal? "name").getStr?))
  let meth ← (← j.getObjVal? "method").getStr?
  pure (cfg, svc, meth)

open Model.Retry in
def opC09Defaults (j : Json) : Except String Json := do
  let (cfg, svc, meth) ← c09Select j
  let sel := cfg.findIdx? (fun c => c.namesMethod svc meth)
  match methodDefaults cfg svc meth with
  | .error e => pure (errJson e)
  | .ok d =>
    pure (Json.mkObj [
      ("selected", optJson jnat sel),
      ("retry", match d.1 with
        | none => Json.null
        | some ri => Json.mkObj [("max_attempts", ratJson ri.maxAttempts), ("initial_backoff", ratJson ri.initialBackoff),
            ("max_backoff", ratJson ri.maxBackoff), ("backoff_multiplier", ratJson ri.backoffMultiplier),
            ("exceptions", excsJson ri.exceptions)]),
      ("timeout", optRat d.2),
      ("emitted", emittedJson (emittedDefaults d))])

open Model.Retry in
def c09ExcOfName (s : String) : Except String Exc :=
  match ([Exc.googleAPICallError] ++ Code.all.map excOfCode).find? (fun x => x.name == s) with
  | some x => pure x
  | none => throw s!"unsupported: exception class {s}"

open Model.Retry in
def c09ParamsOfJson (j : Json) : Except String Params := do
  let i ← ratOfJson (← j.getObjVal? "initial")
  let m ← ratOfJson (← j.getObjVal? "maximum")
  let mu ← ratOfJson (← j.getObjVal? "multiplier")
  let ex ← (← getArrL j "exceptions").mapM fun x => do c09ExcOfName (← x.getStr?)
  let d ← (optField j "deadline").mapM ratOfJson
  pure ⟨i, m, mu, ex, d⟩

open Model.Retry in
def c09ReplyOfJson (j : Json) : Except String Reply := do
  let s ← j.getStr?
  match Code.ofName? s with
  | some .ok => pure .ok
  | some c => pure (.err c)
  | none => throw s!"unsupported: status {s}"

open Model.Retry in
def resultJson : Result → List (String × Json)
  | .success => [("result", Json.str "success"), ("raised", Json.null)]
  | .failed c => [("result", Json.str "failed"), ("raised", Json.str (excOfCode c).name)]
  | .retryError c => [("result", Json.str "retry_error"), ("raised", Json.str "RetryError"), ("cause", Json.str (excOfCode c).name)]
  | .exhausted => [("result", Json.str "exhausted"), ("raised", Json.null)]

open Model.Retry in
/-- a whole call of an emitted client method: config → table entry → per-call arguments → loop.
`retry`/`timeout`: the string "default", `null` (explicit None) or a value. -/
def opC09Call (j : Json) : Except String Json := do
  let (cfg, svc, meth) ← c09Select j
  match methodDefaults cfg svc meth with
  | .error e => pure (errJson e)
  | .ok d =>
    let isMixin := match j.getObjVal? "mixin" with | .ok (Json.bool true) => true | _ => false
    let e := if isMixin then mixinEntry else emittedDefaults d      -- a mixin RPC: the literal `default_timeout=None` entry
    let rarg : Arg (Option Params) ← match j.getObjVal? "retry" with
      | .ok (Json.str "default") => pure .default
      | .ok Json.null => pure (.given none)
      | .ok v => do pure (.given (some (← c09ParamsOfJson v)))
      | .error _ => pure .default
    let targ : Arg (Option Rat) ← match j.getObjVal? "timeout" with
      | .ok (Json.str "default") => pure .default
      | .ok Json.null => pure (.given none)
      | .ok v => do pure (.given (some (← ratOfJson v)))
      | .error _ => pure .default
    let replies ← (← getArrL j "replies").mapM c09ReplyOfJson
    let jl ← (← getArrL j "jitter").mapM ratOfJson
    let jtail ← ratOfJson (← j.getObjVal? "jitter_tail")
    let jit : Nat → Rat := fun i => jl.getD i jtail
    let t := call e rarg targ jit replies
    let bounds := match rarg.resolve (e.retry.map effective) with
      | none => []
      | some p => (List.range replies.length).map fun i => ratJson (bound p i)
    pure (Json.mkObj ([
      ("attempts", jarr (t.attempts.map fun a => Json.mkObj [("start", ratJson a.start), ("timeout", optRat a.timeout)])),
      ("waits", jarr (t.waits.map ratJson)),
      ("bounds", jarr bounds)] ++ resultJson t.result))

open Model.Retry in
/-- the whole `_wrapped_methods` table of one service: {"config"|"configs", "service", "methods": [...], "mixins": [...]} -/
def opC09Table (j : Json) : Except String Json := do
  let j' := j.setObjVal! "method" (Json.str "")
  let (cfg, svc, _) ← c09Select j'
  let ms ← (← getArrL j "methods").mapM (·.getStr?)
  let mx ← (← getArrL j "mixins").mapM (·.getStr?)
  match wrappedTable cfg svc ms mx with
  | .error e => pure (errJson e)
  | .ok tab => pure (Json.mkObj [("table", jarr (tab.map fun (m, e) => jarr [Json.str m, emittedJson e]))])

/-- input outside the model → `{"unsupported": reason}`, never a default -/
def c09Wrap (f : Json → Except String Json) (j : Json) : Except String Json :=
  match f j with
  | .error e => if e.startsWith "unsupported:" then .ok (unsupported e) else .error e
  | .ok r => .ok r

def opsC09 : List (String × (Json → Except String Json)) :=
  [("c09.to_float", opC09ToFloat), ("c09.selector", opC09Selector), ("c09.exc_table", opC09ExcTable), ("c09.defaults", c09Wrap opC09Defaults),
   ("c09.call", c09Wrap opC09Call), ("c09.table", c09Wrap opC09Table)]

end GapicModel.Driver
