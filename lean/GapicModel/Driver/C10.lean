import GapicModel.Driver.Base
import GapicModel.Model.Determinism
open Lean GapicModel GapicModel.Regex
namespace GapicModel.Driver

/-! ### C10 -/

open Model.Determinism in
def c10IsSpace (c : Char) : Bool := inRanges Pinned.classTables.space c

def c10StrList (j : Json) (k : String) : Except String (List (List Char)) := do
  (← getArrL j k).mapM fun v => do pure (← v.getStr?).toList

/-- `[[key, id], …]` -/
def c10Pairs (j : Json) (k : String) : Except String (List (List Char × String)) := do
  (← getArrL j k).mapM fun v => do
    match (← v.getArr?).toList with
    | [Json.str a, Json.str b] => pure (a.toList, b)
    | _ => throw "bad pair"

open Model.Determinism in
def opC10SortLines (j : Json) : Except String Json := do
  let text ← getStrL j "text"
  let dedupe ← (← j.getObjVal? "dedupe").getBool?
  pure (Json.mkObj [("r", jstr (sortLines c10IsSpace text dedupe))])

open Model.Determinism in
def opC10SortByKey (j : Json) : Except String Json := do
  let items ← c10Pairs j "items"
  let fold ← (← j.getObjVal? "fold").getBool?
  let key : (List Char × String) → Str := if fold then (fun p => lower p.1) else (·.1)
  let sorted := sortBy key items
  let injective := decide ((items.map key).Nodup)
  let outs : Json :=
    if items.length ≤ 6 then jarr ((outcomes (fun xs => (sortBy key xs).map (·.2)) items).map fun o => jarr (o.map Json.str))
    else Json.null
  pure (Json.mkObj [("order", jarr (sorted.map fun p => Json.str p.2)), ("injective", Json.bool injective),
                    ("outcomes", outs)])

open Model.Determinism in
def opC10Resources (j : Json) : Except String Json := do
  let rs ← (← getArrL j "resources").mapM fun v => do
    match (← v.getArr?).toList with
    | [Json.str t, Json.str p] => pure (⟨t.toList, p.toList⟩ : Resource)
    | _ => throw "bad resource"
  let injective := decide ((rs.map (·.type)).Nodup)
  let shortInjective := decide ((rs.map fun r => lower (resourceType r)).Nodup)
  let outs : Json :=
    if rs.length ≤ 6 then jarr ((outcomes (fun xs => (resourceHelperOrder xs).map (·.pattern)) rs).map fun o => jarr (o.map jstr))
    else Json.null
  pure (Json.mkObj [("order", jarr ((resourceHelperOrder rs).map fun r => jstr r.pattern)),
                    ("single_stage", jarr ((resourceHelperOrderSingleStage rs).map fun r => jstr r.pattern)),
                    ("keys", jarr (rs.map fun r => jstr (lower (resourceType r)))),
                    ("short", jarr (rs.map fun r => jstr (resourceType r))),
                    ("injective", Json.bool injective), ("short_injective", Json.bool shortInjective),
                    ("outcomes", outs)])

open Model.Determinism in
def opC10Disambiguate (j : Json) : Except String Json := do
  let names ← c10StrList j "names"
  let s ← getStrL j "s"
  pure (Json.mkObj [("r", jstr (disambiguate names s))])

open Model.Determinism in
def opC10QueryParams (j : Json) : Except String Json := do
  let fields ← c10StrList j "fields"
  let path ← c10StrList j "path"
  let body : Option Str := match j.getObjVal? "body" with
    | .ok (Json.str b) => some b.toList
    | _ => none
  pure (Json.mkObj [("r", jarr ((queryParams fields path body).map jstr))])

open Model.Determinism in
def c10Imports (j : Json) (k : String) : Except String (List Import) := do
  (← getArrL j k).mapM fun v => do
    match (← v.getArr?).toList with
    | [Json.str p, Json.str m] => pure (⟨p.toList, m.toList⟩ : Import)
    | _ => throw "bad import"

open Model.Determinism in
def opC10ImportBlock (j : Json) : Except String Json := do
  let fixed ← c10StrList j "fixed"
  let refs ← c10Imports j "refs"
  pure (Json.mkObj [("r", jarr ((importBlock fixed refs).map jstr))])

open Model.Determinism in
def opC10Colliding (j : Json) : Except String Json := do
  let types ← c10Imports j "types"
  let ms ← c10StrList j "modules"
  pure (Json.mkObj [("r", jarr (ms.map fun m => Json.bool (collidingModule types m)))])

open Model.Determinism in
def opC10Exceptions (_ : Json) : Except String Json :=
  pure (Json.mkObj [("names", jarr (exceptionNames.map Json.str))])

open Model.Determinism in
def opC10Scopes (j : Json) : Except String Json := do
  let opt ← getStrL j "opt"
  pure (Json.mkObj [("r", jarr ((oauthScopes c10IsSpace opt).map jstr))])

open Model.Determinism in
def opC10Subpackages (j : Json) : Except String Json := do
  let view ← c10StrList j "view"
  let subs ← (← getArrL j "subs").mapM fun v => do
    (← v.getArr?).toList.mapM fun x => do pure (← x.getStr?).toList
  let names := subpackageNames view subs
  pure (Json.mkObj [("r", jarr ((subpackageOrder (dedup names)).map jstr)),
                    ("outcomes", if (dedup names).length ≤ 6 then
                        jarr ((outcomes subpackageOrder (dedup names)).map fun o => jarr (o.map jstr)) else Json.null)])

def opsC10 : List (String × (Json → Except String Json)) :=
  [("c10.sort_lines", opC10SortLines), ("c10.sort_by_key", opC10SortByKey), ("c10.resources", opC10Resources),
   ("c10.disambiguate", opC10Disambiguate), ("c10.query_params", opC10QueryParams),
   ("c10.import_block", opC10ImportBlock), ("c10.scopes", opC10Scopes), ("c10.subpackages", opC10Subpackages), ("c10.colliding", opC10Colliding), ("c10.exceptions", opC10Exceptions)]

end GapicModel.Driver
