import GapicModel.Driver.Base
import GapicModel.Model.Determinism
open Lean GapicModel GapicModel.Regex
namespace GapicModel.Driver

/-! ### C10 -/

open Model.Determinism in
def c10IsSpace (c : Char) : Bool := inRanges Pinned.classTables.space c

def c10StrList (j : Json) (k : String) : Except String (List (List Char)) := do
  (← getArrL j k).mapM fun v => do pure (← v.getStr?).toList

/-- `[[key, id], …]` -/
def c10Pairs (j : Json) (k : String) : Except String (List (List Char × String)) := do
  (← getArrL j k).mapM fun v => do
    match (← v.getArr?).toList with
    | [Json.str a, Json.str b] => pure (a.toList, b)
    | _ => throw "bad pair"

open Model.Determinism in
def opC10SortLines (j : Json) : Except String Json := do
  let text ← getStrL j "text"
  let dedupe ← (← j.getObjVal? "dedupe").getBool?
  pure (Json.mkObj [("r", jstr (sortLines c10IsSpace text dedupe))])

open Model.Determinism in
def opC10SortByKey (j : Json) : Except String Json := do
  let items ← c10Pairs j "items"
  let fold ← (← j.getObjVal? "fold").getBool?
  let key : (List Char × String) → Str := if fold then (fun p => lower p.1) else (·.1)
  let sorted := sortBy key items
  let injective := decide ((items.map key).Nodup)
  let outs : Json :=
    if items.length ≤ 6 then jarr ((outcomes (fun xs => (sortBy key xs).map (·.2)) items).map fun o => jarr (o.map Json.str))
    else Json.null
  pure (Json.mkObj [("order", jarr (sorted.map fun p => Json.str p.2)), ("injective", Json.bool injective),
                    ("outcomes", outs)])

open Model.Determinism in
def opC10Resources (j : Json) : Except String Json := do
  let rs ← (← getArrL j "resources").mapM fun v => do
    match (← v.getArr?).toList with
    | [Json.str t, Json.str p] => pure (⟨t.toList, p.toList⟩ : Resource)
    | _ => throw "bad resource"
  let injective := decide ((rs.map (·.type)).Nodup)
  let shortInjective := decide ((rs.map fun r => lower (resourceType r)).Nodup)
  let outs : Json :=
    if rs.length ≤ 6 then jarr ((outcomes (fun xs => (resourceHelperOrder xs).map (·.pattern)) rs).map fun o => jarr (o.map jstr))
    else Json.null
  pure (Json.mkObj [("order", jarr ((resourceHelperOrder rs).map fun r => jstr r.pattern)),
                    ("single_stage", jarr ((resourceHelperOrderSingleStage rs).map fun r => jstr r.pattern)),
                    ("keys", jarr (rs.map fun r => jstr (lower (resourceType r)))),
                    ("short", jarr (rs.map fun r => jstr (resourceType r))),
                    ("injective", Json.bool injective), ("short_injective", Json.bool shortInjective),
                    ("outcomes", outs)])

open Model.Determinism in
def opC10Disambiguate (j : Json) : Except String Json := do
  let names ← c10StrList j "names"
  let s ← getStrL j "s"
  pure (Json.mkObj [("r", jstr (disambiguate names s))])

open Model.Determinism in
def opC10QueryParams (j : Json) : Except String Json := do
  let fields ← c10StrList j "fields"
  let path ← c10StrList j "path"
  let body : Option Str := match j.getObjVal? "body" with
    | .ok (Json.str b) => some b.toList
    | _ => none
  pure (Json.mkObj [("r", jarr ((queryParams fields path body).map jstr))])

open Model.Determinism in
def c10Imports (j : Json) (k : String) : Except String (List Import) := do
  (← getArrL j k).mapM fun v => do
    match (← v.getArr?).toList with
    | [Json.str p, Json.str m] => pure (⟨p.toList, m.toList⟩ : Import)
    | _ => throw "bad import"

open Model.Determinism in
def opC10ImportBlock (j : Json) : Except String Json := do
  let fixed ← c10StrList j "fixed"
  let refs ← c10Imports j "refs"
  pure (Json.mkObj [("r", jarr ((importBlock fixed refs).map jstr))])

open Model.Determinism in
def opC10Colliding (j : Json) : Except String Json := do
  let types ← c10Imports j "types"
  let ms ← c10StrList j "modules"
  pure (Json.mkObj [("r", jarr (ms.map fun m => Json.bool (collidingModule types m)))])

open Model.Determinism in
def opC10Exceptions (_ : Json) : Except String Json :=
  pure (Json.mkObj [("names", jarr (exceptionNames.map Json.str))])

open Model.Determinism in
def opC10Scopes (j : Json) : Except String Json := do
  let opt ← getStrL j "opt"
  pure (Json.mkObj [("r", jarr ((oauthScopes c10IsSpace opt).map jstr))])

open Model.Determinism in
def opC10Subpackages (j : Json) : Except String Json := do
  let view ← c10StrList j "view"
  let subs ← (← getArrL j "subs").mapM fun v => do
    (← v.getArr?).toList.mapM fun x => do pure (← x.getStr?).toList
  let names := subpackageNames view subs
  pure (Json.mkObj [("r", jarr ((subpackageOrder (dedup names)).map jstr)),
                    ("outcomes", if (dedup names).length ≤ 6 then
                        jarr ((outcomes subpackageOrder (dedup names)).map fun o => jarr (o.map jstr)) else Json.null)])

/-! round 2: insertion-ordered dicts -/

def c10Binding (v : Json) : Except String Model.Determinism.HttpBinding := do
  pure ⟨← getStrL v "verb", ← getStrL v "uri", ← getStrL v "body"⟩

def c10Rules (j : Json) (k : String) : Except String (List Model.Determinism.YamlRule) := do
  (← getArrL j k).mapM fun v => do
    let b ← c10Binding v
    let add ← (← getArrL v "additional").mapM c10Binding
    pure ⟨← getStrL v "selector", b, add⟩

def c10Table (j : Json) (k : String) : Except String Model.Determinism.MethodTable := do
  (← getArrL j k).mapM fun v => do
    match (← v.getArr?).toList with
    | [Json.str a, Json.str b] => pure (a.toList, b.toList)
    | _ => throw "bad table entry"

def c10BindingsJson (bs : List Model.Determinism.HttpBinding) : Json :=
  jarr (bs.map fun b => jarr [jstr b.verb, jstr b.uri, jstr b.body])

open Model.Determinism in
/-- `{k: v for …}` then `.update(more)`: keys, items -/
def opC10Omap (j : Json) : Except String Json := do
  let pairs ← c10Pairs j "pairs"
  let more ← c10Pairs j "more"
  let d := (OMap.ofPairs pairs).update more
  let probe ← c10StrList j "probe"
  pure (Json.mkObj [("keys", jarr (d.keys.map jstr)),
                    ("items", jarr (d.map fun p => jarr [jstr p.1, Json.str p.2])),
                    ("get", jarr (probe.map fun k => match d.get? k with | some v => Json.str v | none => Json.null))])

open Model.Determinism in
def opC10Mixins (j : Json) : Except String Json := do
  let tj ← j.getObjVal? "tables"
  let T : MixinTables := ⟨← c10Table tj "loc", ← c10Table tj "iam", ← c10Table tj "ops"⟩
  let apis ← c10StrList j "apis"
  let sm ← (← getArrL j "service_methods").mapM fun v => do
    (← v.getArr?).toList.mapM fun x => do pure (← x.getStr?).toList
  let rules ← c10Rules j "rules"
  let m := mixinApiMethods T apis sm rules
  let ho := mixinHttpOptions m
  let api := httpOptions rules
  pure (Json.mkObj [
    ("has", jarr [Json.bool (hasApi apis locApi), Json.bool (hasApi apis iamApi), Json.bool (hasApi apis opsApi)]),
    ("iam_overrides", Json.bool (iamOverrides T apis sm rules)),
    ("methods", jarr (m.map fun p => jarr [jstr p.1, jstr p.2.rule.uri])),
    ("signatures", jarr ((mixinApiSignatures m).keys.map jstr)),
    ("http_options", jarr (ho.map fun p => jarr [jstr p.1, c10BindingsJson p.2])),
    ("api_http_options", jarr (api.map fun p => jarr [jstr p.1, c10BindingsJson p.2])),
    ("spec", jarr ((dedup ((if hasApi apis locApi then selNames T.loc (rules.map (·.selector)) else []) ++
             (if !iamOverrides T apis sm rules && hasApi apis iamApi then selNames T.iam (rules.map (·.selector)) else []) ++
             (if hasApi apis opsApi then selNames T.ops (rules.map (·.selector)) else []))).map jstr))])

open Model.Determinism in
def opC10MethodSettings (j : Json) : Except String Json := do
  let ms ← (← getArrL j "settings").mapM fun v => do
    let fields ← c10StrList v "fields"
    pure ((⟨← getStrL v "selector", ← (← v.getObjVal? "long_running").getBool?, fields⟩ : MethodSetting),
          ← (← v.getObjVal? "valid").getBool?)
  let valid : MethodSetting → Bool := fun m => (ms.find? (fun p => p.1 = m)).map (·.2) |>.getD false
  match allMethodSettings valid (ms.map (·.1)) with
  | none => pure (Json.mkObj [("raises", Json.bool true)])
  | some d => pure (Json.mkObj [("raises", Json.bool false),
      ("items", jarr (d.map fun p => jarr [jstr p.1, jstr p.2.selector, Json.bool p.2.longRunning, jarr (p.2.autoPopulated.map jstr)]))])

open Model.Determinism in
/-- names per template (and the samples' names) → order of `CodeGeneratorResponse.file`, with the index of the
template that wrote each file last (`0` = samples) -/
def opC10ResponseOrder (j : Json) : Except String Json := do
  let sample ← c10StrList j "sample"
  let tpls ← (← getArrL j "templates").mapM fun v => do
    (← v.getArr?).toList.mapM fun x => do pure (← x.getStr?).toList
  let d := responseFiles (sample.map fun n => (n, 0)) ((tpls.zipIdx).map fun (ns, i) => ns.map fun n => (n, i + 1))
  pure (Json.mkObj [("order", jarr (d.keys.map jstr)), ("writer", jarr (d.map fun p => jnat p.2))])

open Model.Determinism in
def opC10ChainMap (j : Json) : Except String Json := do
  let maps ← (← getArrL j "maps").mapM fun v => do
    (← v.getArr?).toList.mapM fun x => do pure (← x.getStr?).toList
  pure (Json.mkObj [("keys", jarr ((chainMapKeys maps).map jstr))])

open Model.Determinism in
def opC10Dictsort (j : Json) : Except String Json := do
  let items ← c10Pairs j "items"
  pure (Json.mkObj [("order", jarr ((dictsort items).map fun p => Json.str p.2))])

def opsC10 : List (String × (Json → Except String Json)) :=
  [("c10.sort_lines", opC10SortLines), ("c10.sort_by_key", opC10SortByKey), ("c10.resources", opC10Resources),
   ("c10.disambiguate", opC10Disambiguate), ("c10.query_params", opC10QueryParams),
   ("c10.import_block", opC10ImportBlock), ("c10.scopes", opC10Scopes), ("c10.subpackages", opC10Subpackages), ("c10.colliding", opC10Colliding), ("c10.exceptions", opC10Exceptions),
   ("c10.omap", opC10Omap), ("c10.mixins", opC10Mixins), ("c10.method_settings", opC10MethodSettings),
   ("c10.response_order", opC10ResponseOrder), ("c10.dictsort", opC10Dictsort), ("c10.chain_map", opC10ChainMap)]

end GapicModel.Driver
