import GapicModel.Driver.Base
import GapicModel.Model.Emit
open Lean GapicModel GapicModel.Regex
namespace GapicModel.Driver

open Model.Emit in
def strsOf (j : Json) (k : String) : Except String (List Str) := do
  (← getArrL j k).mapM fun v => do pure (← v.getStr?).toList

open Model.Emit in
def subPkgOf (j : Json) : Except String SubPkg := do
  pure ⟨← strsOf j "view", ← strsOf j "services", ← strsOf j "protos"⟩

open Model.Emit in
def namingOf (j : Json) : Except String Naming := do
  pure ⟨← strsOf j "ns", ← getStrL j "name", ← getStrL j "version", ← getStrL j "versioned"⟩

open Model.Emit in
def opC11Renders (j : Json) : Except String Json := do
  let oj ← j.getObjVal? "opts"
  let o : Opts := ⟨← strsOf oj "transport", ← (← oj.getObjVal? "metadata").getBool?,
                   ← (← oj.getObjVal? "restAsync").getBool?, ← (← oj.getObjVal? "unversionedDisabled").getBool?⟩
  let sj ← j.getObjVal? "shape"
  let sh : Shape := ⟨← namingOf (← sj.getObjVal? "naming"), ← subPkgOf (← sj.getObjVal? "root"),
                     ← (← getArrL sj "subs").mapM subPkgOf⟩
  let which ← (← j.getObjVal? "templates").getStr?
  let ts := (if which == "ads" then Pinned.adsTemplates else Pinned.templates).map String.toList
  let out := renders o sh ts
  pure (Json.mkObj [("files", jarr (out.map fun p => jstr ("/".toList.intercalate p)))])

open Model.Emit in
def opC11Filename (j : Json) : Except String Json := do
  let t ← getStrL j "template"
  let nm ← namingOf (← j.getObjVal? "naming")
  let sub ← strsOf j "sub"
  let svc := match j.getObjVal? "service" with | .ok (Json.str s) => some s.toList | _ => none
  let pr := match j.getObjVal? "proto" with | .ok (Json.str s) => some s.toList | _ => none
  pure (Json.mkObj [("r", jstr ("/".toList.intercalate (getFilename ⟨nm, sub, svc, pr⟩ (parseTemplate t))))])

def opsC11 : List (String × (Json → Except String Json)) := [("c11.renders", opC11Renders), ("c11.filename", opC11Filename)]

end GapicModel.Driver
