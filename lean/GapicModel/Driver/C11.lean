import GapicModel.Driver.Base
import GapicModel.Model.Emit
import GapicModel.Model.NamingOptions
import GapicModel.Model.Layout
import GapicModel.Pinned.Funcs
open Lean GapicModel GapicModel.Regex
namespace GapicModel.Driver

open Model.Emit in
def strsOf (j : Json) (k : String) : Except String (List Str) := do
  (← getArrL j k).mapM fun v => do pure (← v.getStr?).toList

open Model.Emit in
def subPkgOf (j : Json) : Except String SubPkg := do
  pure ⟨← strsOf j "view", ← strsOf j "services", ← strsOf j "protos"⟩

open Model.Emit in
def namingOf (j : Json) : Except String Naming := do
  pure ⟨← strsOf j "ns", ← getStrL j "name", ← getStrL j "version", ← getStrL j "versioned"⟩

open Model.Emit in
def opC11Renders (j : Json) : Except String Json := do
  let oj ← j.getObjVal? "opts"
  let o : Opts := ⟨← strsOf oj "transport", ← (← oj.getObjVal? "metadata").getBool?,
                   ← (← oj.getObjVal? "restAsync").getBool?, ← (← oj.getObjVal? "unversionedDisabled").getBool?⟩
  -- either an explicit `shape` (root + flattened views) or a `layout`: the target protos with their sub-package,
  -- from which the model derives the views itself (`Layout.viewsOf`: nested and empty intermediate packages)
  let sh : Shape ← (match j.getObjVal? "layout" with
    | .ok lj => do
      let ps ← (← getArrL lj "protos").mapM fun pj => do
        pure (⟨← strsOf pj "sub", ← getStrL pj "module", ← strsOf pj "services"⟩ : Model.Layout.ProtoAt)
      pure (Model.Layout.shapeOf (← namingOf (← lj.getObjVal? "naming")) ps)
    | _ => do
      let sj ← j.getObjVal? "shape"
      pure (⟨← namingOf (← sj.getObjVal? "naming"), ← subPkgOf (← sj.getObjVal? "root"),
             ← (← getArrL sj "subs").mapM subPkgOf⟩ : Shape))
  let which ← (← j.getObjVal? "templates").getStr?
  let ts := (if which == "ads" then Pinned.adsTemplates else Pinned.templates).map String.toList
  let out := responseNames o sh ts
  pure (Json.mkObj [("files", jarr (out.map fun p => jstr ("/".toList.intercalate p))),
                    ("views", jarr (sh.subs.map fun sp => jstr ("/".toList.intercalate sp.view))),
                    ("rendered", Json.num (JsonNumber.fromNat (renders o sh ts).length))])

open Model.Emit in
def opC11Filename (j : Json) : Except String Json := do
  let t ← getStrL j "template"
  let nm ← namingOf (← j.getObjVal? "naming")
  let sub ← strsOf j "sub"
  let svc := match j.getObjVal? "service" with | .ok (Json.str s) => some s.toList | _ => none
  let pr := match j.getObjVal? "proto" with | .ok (Json.str s) => some s.toList | _ => none
  pure (Json.mkObj [("r", jstr ("/".toList.intercalate (getFilename ⟨nm, sub, svc, pr⟩ (parseTemplate t))))])

open Model.NamingOptions in
/-- `Naming.build(*files, opts)`: optional `"namespace"` (the values of the repeatable `python-gapic-namespace` key, in
order) and `"name"` overrides; `module`/`versionedModule` are `module_name`/`versioned_module_name` (new naming) -/
def opC11Naming (j : Json) : Except String Json := do
  let pkgs ← strsOf j "pkgs"
  let nsVals ← (match j.getObjVal? "namespace" with | .ok _ => strsOf j "namespace" | _ => pure [])
  let nameOv := match j.getObjVal? "name" with | .ok (Json.str s) => s.toList | _ => []
  let root := rootPackage pkgs
  match build pkgs with
  | none => pure (Json.mkObj [("root", jstr root), ("match", Json.bool false)])
  | some i =>
    let module := overriddenModule i nameOv
    let versionedM := overriddenVersioned i nameOv
    pure (Json.mkObj [("root", jstr root), ("match", Json.bool true), ("ns", jarr ((nsSegments i).map jstr)),
                      ("name", jstr i.name), ("version", jstr i.version), ("versioned", jstr (versionedModule i)),
                      ("nsWith", jarr ((nsWith i (nsVals.map PyRt.lower)).map jstr)),
                      ("module", jstr module), ("versionedModule", jstr versionedM)])

open Model.NamingOptions in
def opC11Opts (j : Json) : Except String Json := do
  let flags := Pinned.optFlags.map String.toList
  let kv := parseOpts flags (← getStrL j "s")
  let a := answer kv
  pure (Json.mkObj [("opts", jarr (kv.map fun (k, v) => jarr [jstr k, jstr v])),
    ("name", jstr a.name), ("namespace", jarr (a.nspace.map jstr)), ("warehouse", jstr a.warehouse),
    ("autogen", Json.bool a.autogenSnippets), ("lazy", Json.bool a.lazyImport), ("old", Json.bool a.oldNaming),
    ("iam", Json.bool a.addIam), ("metadata", Json.bool a.metadata), ("transport", jarr (a.transport.map jstr)),
    ("numeric", Json.bool a.restNumericEnums), ("deps", jarr (a.protoPlusDeps.map jstr)),
    ("unrecognised", jarr (a.unrecognised.map jstr))])

open Model.NamingOptions in
/-- the package directory for target packages `pkgs` under the option STRING `s` (parse, pick the winners, infer, override) -/
def opC11Root (j : Json) : Except String Json := do
  let flags := Pinned.optFlags.map String.toList
  let kv := parseOpts flags (← getStrL j "s")
  match build (← strsOf j "pkgs") with
  | none => pure (Json.mkObj [("match", Json.bool false)])
  | some i => pure (Json.mkObj [("match", Json.bool true), ("dir", jarr ((packageDir i kv).map jstr)),
                                ("name", jstr (answer kv).name), ("names", jarr ((values kv keyName).map jstr)),
                                ("module", jstr (overriddenModule i (answer kv).name)),
                                ("transport", jarr ((answer kv).transport.map jstr)),
                                ("transports", jarr ((values kv keyTransport).map jstr)),
                                ("warehouse", jstr (answer kv).warehouse)])

def opsC11 : List (String × (Json → Except String Json)) := [("c11.renders", opC11Renders), ("c11.filename", opC11Filename),
  ("c11.naming", opC11Naming), ("c11.opts", opC11Opts), ("c11.root", opC11Root)]

end GapicModel.Driver
