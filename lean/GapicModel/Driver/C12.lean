import GapicModel.Driver.Base
import GapicModel.Model.Names
open Lean GapicModel GapicModel.Regex
namespace GapicModel.Driver

open Model.Names in
def opC12Names (j : Json) : Except String Json := do
  let w ← (← j.getObjVal? "word").getStr?
  pure (Json.mkObj [
    ("reserved", Json.bool (isReserved w)), ("keyword", Json.bool (isKeyword w)),
    ("invalid_module", Json.bool (isInvalidModule w)),
    ("field_attr", Json.str (fieldAttr w)),
    ("client_method_name", Json.str (clientMethodName w)),
    ("transport_safe_name", Json.str (transportSafeName w)),
    ("client_method_snake", jstr (toSnakeCase (clientMethodName w).toList)),
    ("json_name", jstr (toJsonName w.toList)),
    ("json_name_suffixed", jstr (toJsonName (w.toList ++ ['_'])))])

open Model.Names in
def opC12Path (j : Json) : Except String Json := do
  let p ← (← getArrL j "path").mapM fun v => v.getStr?
  let js := fun (q : List String) => jarr (q.map Json.str)
  pure (Json.mkObj [("attr", js (attrPath p)), ("uri", js (uriVar p)), ("header", js (headerAttr p)),
    ("flatten_key", js (flattenKey p)), ("flatten_param", optJson Json.str (flattenParam p))])

open Model.Names in
def opC12File (j : Json) : Except String Json := do
  let visited ← (← getArrL j "visited").mapM fun v => v.getStr?
  let n ← (← j.getObjVal? "name").getStr?
  pure (Json.mkObj [("r", Json.str (disambFile visited (visited.length + 2) n))])

open Model.Names in
def opC12Snake (j : Json) : Except String Json := do
  let s ← getStrL j "s"
  pure (Json.mkObj [("r", jstr (toSnakeCase s))])

open Model.Names in
def opC12Camel (j : Json) : Except String Json := do
  let s ← getStrL j "s"
  pure (Json.mkObj [("r", jstr (toCamelCase s)), ("json_name", jstr (toJsonName s))])

open Model.Names in
def opC12Alias (j : Json) : Except String Json := do
  let svc ← (← getArrL j "names").mapM fun v => v.getStr?
  let sigs ← (← getArrL j "fields").mapM fun v => do (← v.getArr?).toList.mapM fun x => x.getStr?
  let m ← (← j.getObjVal? "module").getStr?
  pure (Json.mkObj [("aliased", Json.bool (isAliased (methodCollisions svc sigs) m)),
                    ("collisions", jarr ((methodCollisions svc sigs).map Json.str))])

open Model.Names in
def opC12SvcNames (j : Json) : Except String Json := do
  let own ← (← getArrL j "own").mapM fun v => v.getStr?
  let ms ← (← getArrL j "methods").mapM fun v => v.getStr?
  let refs ← (← getArrL j "refs").mapM fun v => do
    match (← v.getArr?).toList with
    | [a, b] => pure ((← a.getStr?, ← b.getStr?) : Ref)
    | _ => throw "ref: [module, package]"
  let m ← (← j.getObjVal? "module").getStr?
  let names := serviceNames own ms refs
  pure (Json.mkObj [("names", jarr (names.map Json.str)), ("aliased", Json.bool (isAliased (methodCollisions names []) m))])

open Model.Names in
def opC12Import (j : Json) : Except String Json := do
  let k ← (← j.getObjVal? "kind").getStr?
  let m ← (← j.getObjVal? "module").getStr?
  let a ← (← j.getObjVal? "alias").getStr?
  let kind ← match k with
    | "python" => pure ImportKind.python | "own" => pure ImportKind.own
    | "plus-dep" => pure ImportKind.plusDep | "pb2" => pure ImportKind.pb2
    | _ => throw s!"kind {k}"
  let i := pythonImport kind m a
  pure (Json.mkObj [("bound", Json.str i.bound), ("import_module", Json.str i.module), ("import_alias", Json.str i.alias),
                    ("reference", Json.str (referenceModule kind m a))])

open Model.Names in
def opC12DepModule (j : Json) : Except String Json := do
  let n ← (← j.getObjVal? "name").getStr?
  let plus ← (← j.getObjVal? "plus").getBool?
  pure (Json.mkObj [("imported", Json.str (importedDepModule [] n plus)), ("shipped", Json.str (shippedDepModule [] n plus))])

def opsC12 : List (String × (Json → Except String Json)) :=
  [("c12.names", opC12Names), ("c12.path", opC12Path), ("c12.file", opC12File), ("c12.snake", opC12Snake), ("c12.camel", opC12Camel), ("c12.alias", opC12Alias), ("c12.svcnames", opC12SvcNames), ("c12.import", opC12Import), ("c12.depmodule", opC12DepModule)]

end GapicModel.Driver
