import GapicModel.Driver.Base
import GapicModel.Model.Mock
open Lean GapicModel GapicModel.Regex
namespace GapicModel.Driver

open Model.Mock in
def opC13Sample (j : Json) : Except String Json := do
  let t ← getStrL j "template"
  let k ← (← j.getObjVal? "k").getNat?
  let toks := tokenize t.length [] t
  let r := sample k toks
  pure (Json.mkObj [("value", jstr r.1), ("next", jnat r.2.1), ("names", jarr (r.2.2.map jnat))])

def opsC13 : List (String × (Json → Except String Json)) := [("c13.sample", opC13Sample)]

end GapicModel.Driver
