import GapicModel.Driver.Base
import GapicModel.Model.Mock
open Lean GapicModel GapicModel.Regex
namespace GapicModel.Driver

open Model.Mock

def opC13Sample (j : Json) : Except String Json := do
  let t ← getStrL j "template"
  let k ← (← j.getObjVal? "k").getNat?
  let toks := tokenize t.length [] t
  let r := sample k toks
  pure (Json.mkObj [("value", jstr r.1), ("next", jnat r.2.1), ("names", jarr (r.2.2.map jnat))])

/-! ### JSON views of the mock-value model -/

def c13Bool (j : Json) (k : String) : Except String Bool := do (← j.getObjVal? k).getBool?
def c13Nat (j : Json) (k : String) : Except String Nat := do (← j.getObjVal? k).getNat?

def c13OptStr (j : Json) (k : String) : Except String (Option (List Char)) := do
  match j.getObjVal? k with
  | .ok (Json.str s) => pure (some s.toList)
  | _ => pure none

mutual
def c13_pyValJson : PyVal → Json
  | .none => Json.null
  | .bool b => Json.bool b
  | .str s => Json.mkObj [("s", jstr s)]
  | .bytes s => Json.mkObj [("b", jarr (s.map fun c => jnat c.toNat))]
  | .int i => Json.mkObj [("i", Json.num (JsonNumber.fromInt i))]
  | .dec n d => Json.mkObj [("f", jarr [jnat n, jnat d])]
  | .dnil => Json.mkObj [("d", jarr [])]
  | .dcons k v r => Json.mkObj [("d", jarr (jarr [jstr k, c13_pyValJson v] :: c13_dictEntriesJson r))]
  | .lnil => Json.mkObj [("l", jarr [])]
  | .lcons v r => Json.mkObj [("l", jarr (c13_pyValJson v :: c13_listItemsJson r))]
def c13_dictEntriesJson : PyVal → List Json
  | .dcons k v r => jarr [jstr k, c13_pyValJson v] :: c13_dictEntriesJson r
  | _ => []
def c13_listItemsJson : PyVal → List Json
  | .lcons v r => c13_pyValJson v :: c13_listItemsJson r
  | _ => []
end

/-- fuel = nesting depth of the JSON text -/
def c13_pyValOfJson : Nat → Json → Except String PyVal
  | 0, _ => throw "PyVal nested too deep"
  | fuel + 1, j => do
    match j with
    | Json.null => pure .none
    | Json.bool b => pure (.bool b)
    | _ =>
      if let .ok (Json.str s) := j.getObjVal? "s" then return .str s.toList
      if let .ok (Json.arr a) := j.getObjVal? "b" then
        return .bytes (← a.toList.mapM fun x => do pure (Char.ofNat (← x.getNat?)))
      if let .ok v := j.getObjVal? "i" then return .int (← v.getInt?)
      if let .ok (Json.arr a) := j.getObjVal? "f" then
        match a.toList with
        | [n, d] => return .dec (← n.getNat?) (← d.getNat?)
        | _ => throw "bad f"
      if let .ok (Json.arr a) := j.getObjVal? "d" then
        let kvs ← a.toList.mapM fun e => do
          match e with
          | Json.arr #[Json.str k, v] => pure (k.toList, ← c13_pyValOfJson fuel v)
          | _ => throw "bad d entry"
        return kvs.foldr (fun kv acc => .dcons kv.1 kv.2 acc) .dnil
      if let .ok (Json.arr a) := j.getObjVal? "l" then
        let vs ← a.toList.mapM (c13_pyValOfJson fuel)
        return vs.foldr (fun v acc => .lcons v acc) .lnil
      throw "bad PyVal"

def c13_mockErrStr : MockErr → String
  | .fuel => "fuel" | .emptyEnum => "emptyEnum" | .dangling => "dangling" | .noKeyValue => "noKeyValue"

def c13_pyTOfStr : String → Option PyT
  | "bool" => some .bool | "str" => some .str | "bytes" => some .bytes | "int" => some .int
  | "float" => some .float | _ => none

def c13FType (j : Json) : Except String FType := do
  match (← j.getArr?).toList with
  | [Json.str "prim", Json.str t] =>
    match c13_pyTOfStr t with
    | some t => pure (.prim t)
    | none => throw "bad prim"
  | [Json.str "enum", Json.str ident, Json.arr vals] =>
    let vs ← vals.toList.mapM fun v => do
      match v with
      | Json.arr #[Json.str n, num] => pure (n.toList, ← num.getInt?)
      | _ => throw "bad enum value"
    pure (.enum ident.toList vs)
  | [Json.str "msg", id] => pure (.msg (← id.getNat?))
  | _ => throw "bad ftype"

def c13Field (j : Json) : Except String Field := do
  pure ⟨← getStrL j "name", ← c13Nat j "fid", ← c13FType (← j.getObjVal? "ty"), ← c13Bool j "repeated"⟩

def c13Env (j : Json) : Except String Env := do
  (← getArrL j "env").mapM fun m => do
    let fs ← (← getArrL m "fields").mapM c13Field
    pure (⟨← getStrL m "ident", ← c13Nat m "cls", fs, ← c13Bool m "map", ← c13Bool m "any"⟩ : MsgDef)

def opC13ProtoType (j : Json) : Except String Json := do
  let n ← c13Nat j "type"
  pure (Json.mkObj [("py", match pyTOfProtoType n with
    | some .bool => Json.str "bool" | some .str => Json.str "str" | some .bytes => Json.str "bytes"
    | some .int => Json.str "int" | some .float => Json.str "float" | none => Json.null)])

def opC13Primitive (j : Json) : Except String Json := do
  let t ← (← j.getObjVal? "py").getStr?
  match c13_pyTOfStr t with
  | none => throw "bad py"
  | some t => pure (Json.mkObj [("value", c13_pyValJson (primitiveMock t (← getStrL j "name") (← c13Nat j "suffix")))])

/-- mock_value_original_type of every listed field, each with a fresh visited set (cached property) -/
def opC13MockOrig (j : Json) : Except String Json := do
  let env ← c13Env j
  let fs ← (← getArrL j "fields").mapM c13Field
  pure (Json.mkObj [("values", jarr (fs.map fun f =>
    match mockOrig env f with
    | .ok v => Json.mkObj [("ok", c13_pyValJson v), ("fits", Json.bool (fits false env v f.ty f.repeated)),
                           ("fits_strict", Json.bool (fits true env v f.ty f.repeated))]
    | .error e => Json.mkObj [("error", Json.str (c13_mockErrStr e))]))])

def opC13Merged (j : Json) : Except String Json := do
  pure (Json.mkObj [("value", c13_pyValJson (mergedMock (← c13_pyValOfJson 64 (← j.getObjVal? "mock")) (← c13_pyValOfJson 64 (← j.getObjVal? "other"))))])

def c13_mockExprJson : MockExpr → Json
  | .none => Json.null
  | .lit v => Json.mkObj [("lit", c13_pyValJson v)]
  | .enumMember i n => Json.mkObj [("enum", jarr [jstr i, jstr n])]
  | .ctor i s a => Json.mkObj [("ctor", jarr [jstr i, jstr s, c13_mockExprJson a])]
  | .mapLit k v => Json.mkObj [("map", jarr [c13_mockExprJson k, c13_mockExprJson v])]
  | .list1 e => Json.mkObj [("list", c13_mockExprJson e)]

def opC13MockValue (j : Json) : Except String Json := do
  let env ← c13Env j
  let fs ← (← getArrL j "fields").mapM c13Field
  let depth ← c13Nat j "depth"
  pure (Json.mkObj [("values", jarr (fs.map fun f =>
    match mockValueF depth env f with
    | .ok e => Json.mkObj [("ok", c13_mockExprJson e)]
    | .error e => Json.mkObj [("error", Json.str (c13_mockErrStr e))]))])

def c13_pieceJson : Piece → Json
  | .lit s => jarr [Json.str "lit", jstr s]
  | .var p t => jarr [Json.str "var", jstr p, optJson jstr t]

def c13_assignsJson (a : List (List Char × PyVal)) : Json := jarr (a.map fun kv => jarr [jstr kv.1, c13_pyValJson kv.2])

/-- parse a URI, and build the sample request from the per-variable facts the harness read off the schema
(`vars`: [{"str": bool, "other": PyVal}] aligned with the variables of the parse) -/
def opC13HttpSample (j : Json) : Except String Json := do
  let uri ← getStrL j "uri"
  let pieces := parseUri uri
  let pv := pieceVars pieces
  let infos ← getArrL j "vars"
  if infos.length ≠ pv.length then
    return Json.mkObj [("pieces", jarr (pieces.map c13_pieceJson)), ("mismatch", jnat pv.length)]
  let vars ← (pv.zip infos).mapM fun (v, i) => do
    pure (⟨v.1, v.2, ← c13Bool i "str", ← c13_pyValOfJson 64 (← i.getObjVal? "other")⟩ : PVar)
  let req := sampleRequest 0 vars
  let url := fill (fun p => strOf (getLast p req)) pieces
  pure (Json.mkObj [("pieces", jarr (pieces.map c13_pieceJson)), ("assigns", c13_assignsJson req), ("url", optJson jstr url)])

def opC13MixinSample (j : Json) : Except String Json := do
  let uri ← getStrL j "uri"
  let body ← c13OptStr j "body"
  pure (Json.mkObj [("assigns", c13_assignsJson (mixinSampleRequest (pieceVars (parseUri uri)) body))])

def opC13RoutingSample (j : Json) : Except String Json := do
  let t ← getStrL j "template"
  pure (Json.mkObj [("stripped", optJson jstr (stripNamed t)), ("value", optJson jstr (routingSample t))])

def opsC13 : List (String × (Json → Except String Json)) :=
  [("c13.sample", opC13Sample), ("c13.proto_type", opC13ProtoType), ("c13.primitive", opC13Primitive),
   ("c13.mock_orig", opC13MockOrig), ("c13.merged", opC13Merged), ("c13.mock_value", opC13MockValue),
   ("c13.http_sample", opC13HttpSample), ("c13.mixin_sample", opC13MixinSample),
   ("c13.routing_sample", opC13RoutingSample)]

end GapicModel.Driver
