import GapicModel.Driver.Base
import GapicModel.Model.Samples
import GapicModel.Pinned.Funcs
import GapicModel.Pinned.Tables
open Lean GapicModel GapicModel.Regex
namespace GapicModel.Driver

/-! ### C14 -/

open Model.Samples

def getBoolK (j : Json) (k : String) : Except String Bool := do
  (← j.getObjVal? k).getBool?

def transportOfStr : String → Option Transport
  | "grpc" => some .grpc | "grpc-async" => some .grpcAsync | "rest" => some .rest | _ => none

def opC14Specs (j : Json) : Except String Json := do
  let version ← getStrL j "version"
  let o : Opts := ⟨← getBoolK j "grpc", ← getBoolK j "rest"⟩
  let svcs ← (← getArrL j "services").mapM fun s => do
    let rpcs ← (← getArrL s "rpcs").mapM fun r => do
      pure (⟨← getStrL r "name", ← getBoolK r "internal"⟩ : Rpc)
    pure (⟨← getStrL s "name", ← getStrL s "shortname", rpcs⟩ : Service)
  let specs := sampleSpecs version o svcs
  pure (Json.mkObj [("specs", jarr (specs.map fun sp => Json.mkObj [
    ("service", jstr sp.service), ("rpc", jstr sp.rpc), ("transport", jstr sp.transport.str),
    ("region_tag", jstr sp.regionTag)]))])

def opC14Form (j : Json) : Except String Json := do
  let m : MethodShape := ⟨← getBoolK j "lro", ← getBoolK j "paged", ← getBoolK j "cs", ← getBoolK j "ss"⟩
  pure (Json.mkObj [("form", Json.str (callingForm m).str)])

def pinnedMarkers : Markers :=
  ⟨Pinned.clientInit.re, Pinned.requestInit.re, Pinned.requestExec.re, Pinned.responseHandling.re⟩

def kindStr : Kind → String
  | .start => "start" | .stop => "end" | .clientInit => "client_init" | .requestInit => "request_init"
  | .requestExec => "request_exec" | .responseHandling => "response_handling" | .other => "other"

def segJson (s : Seg) : Json := jarr [jnat s.start, jnat s.stop]

def opC14Segments (j : Json) : Except String Json := do
  let lines ← (← getArrL j "lines").mapM fun v => do pure (← v.getStr?).toList
  let t := Pinned.classTables
  let s := parseSegments t pinnedMarkers lines
  pure (Json.mkObj [
    ("segments", jarr [segJson s.full, segJson s.short, segJson s.clientInit, segJson s.requestInit,
                       segJson s.requestExec, segJson s.responseHandling]),
    ("full", jstr (fullSnippet lines s)),
    ("kinds", jarr (lines.map fun l => Json.str (kindStr (classify t pinnedMarkers l))))])

def pyTypeOfStr : String → Option PyType
  | "str" => some .str | "bytes" => some .bytes | "int" => some .int | "float" => some .float
  | "bool" => some .bool | _ => none

def fkindOfJson (j : Json) : Except String FKind := do
  match (← j.getArr?).toList with
  | [Json.str "prim", Json.str t] =>
    match pyTypeOfStr t with
    | some t => pure (.prim t)
    | none => throw s!"bad python type {t}"
  | [Json.str "enum", Json.arr vs] => pure (.enum (← vs.toList.mapM fun v => do pure (← v.getStr?).toList))
  | [Json.str "msg", Json.str n] => pure (.msg n.toList)
  | _ => throw "bad field kind"

def fieldOfJson (j : Json) : Except String Field := do
  match (← j.getArr?).toList with
  | [Json.str n, k, Json.bool rep, Json.bool req, oo, Json.bool p3] =>
    let oneof ← (match oo with
      | Json.null => pure none
      | Json.str o => pure (some o.toList)
      | _ => throw "bad oneof" : Except String (Option (List Char)))
    pure ⟨n.toList, ← fkindOfJson k, rep, req, oneof, p3⟩
  | _ => throw "bad field"

def scalarJson : Scalar → Json
  | .str s => jarr [Json.str "str", jstr s]
  | .bytes s => jarr [Json.str "bytes", jstr s]
  | .int n => jarr [Json.str "int", jnat n]
  | .float n => jarr [Json.str "float", jnat n]
  | .bool b => jarr [Json.str "bool", Json.bool b]
  | .none => jarr [Json.str "none"]

def valueJson : Value → Json
  | .one v => scalarJson v
  | .many vs => jarr [Json.str "list", jarr (vs.map scalarJson)]

def dotted (p : List (List Char)) : List Char := List.intercalate ['.'] p

def errStr : Err → String
  | .recursion => "recursion"
  | .noSuchMessage n => "no-such-message:" ++ String.ofList n
  | .emptyEnum => "empty-enum"

def treqJson (t : TReq) : Json :=
  match t.body with
  | .single v => Json.mkObj [("base", jstr t.base), ("single", valueJson v)]
  | .body as => Json.mkObj [("base", jstr t.base),
      ("body", jarr (as.map fun (p, v) => jarr [jstr (dotted p), valueJson v]))]

def opC14Request (j : Json) : Except String Json := do
  let envJ ← (← j.getObjVal? "env").getObj?
  let env : Env ← envJ.toList.mapM fun (n, fs) => do
    let fields ← (← fs.getArr?).toList.mapM fieldOfJson
    pure (n.toList, (⟨fields⟩ : Msg))
  let root ← getStrL j "message"
  let fuel ← (← j.getObjVal? "fuel").getNat?
  match env.get root with
  | none => pure (unsupported "root message not in env")
  | some m =>
    match requestObject env fuel m [] with
    | .error e => pure (Json.mkObj [("error", Json.str (errStr e))])
    | .ok es =>
      let tr := match transform es with
        | .ok ts => jarr (ts.map treqJson)
        | .error (.duplicateTopLevel n) => Json.mkObj [("error", Json.str ("duplicate-top-level:" ++ String.ofList n))]
        | .error .emptyPath => Json.mkObj [("error", Json.str "empty-path")]
      pure (Json.mkObj [
        ("entries", jarr (es.map fun e => Json.mkObj [("field", jstr (dotted e.path)), ("value", valueJson e.value)])),
        ("transformed", tr)])

/-- ids / names of one sample; `snake` is the machine-translated `to_snake_case` -/
def opC14Names (j : Json) : Except String Json := do
  let tags ← (← getArrL j "tags").mapM fun v => do pure (← v.getStr?).toList
  let tag ← getStrL j "tag"
  let h ← getStrL j "hash"
  let rpc ← getStrL j "rpc"
  let internal ← getBoolK j "internal"
  let snake := Pinned.Funcs.to_snake_case
  let mk (t : List Char) : Spec := ⟨[], [], .grpc, t⟩
  let id := sampleId (fun _ => h) (tags.map mk) (mk tag)
  pure (Json.mkObj [("id", jstr id), ("file", jstr (sampleFile snake id)), ("function", jstr (sampleFunction snake rpc)),
    ("called_method", jstr (calledMethod snake Pinned.Funcs.client_method_name rpc internal)),
    ("metadata_method", jstr (metadataMethod snake Pinned.Funcs.client_method_name rpc internal))])

def opC14Params (j : Json) : Except String Json := do
  let cs ← getBoolK j "cs"
  let it ← getStrL j "input_type"
  let fl ← (← getArrL j "flattened").mapM fun p => do
    match (← p.getArr?).toList with
    | [Json.str n, Json.str t] => pure (⟨n.toList, t.toList⟩ : Param)
    | _ => throw "bad param"
  -- optional "sig": [[[segment, …], type], …] — the method signature as paths; then the flattened parameters are derived
  let res : List Char → Bool := fun s => decide (s ∈ GapicModel.Pinned.reservedNames.map String.toList)
  let fl ← match j.getObjVal? "sig" with
    | .ok (Json.arr es) => do
      let sig ← es.toList.mapM fun e => do
        match (← e.getArr?).toList with
        | [Json.arr segs, Json.str t] => do
          let p ← segs.toList.mapM fun x => do pure (← x.getStr?).toList
          pure (p, t.toList)
        | _ => throw "bad sig entry"
      pure (flattenedParams res sig)
    | _ => pure fl
  pure (Json.mkObj [("params", jarr ((metadataParams cs it fl).map fun p => jarr [jstr p.name, jstr p.type]))])

/-- `result_type` of one metadata entry: {"void", "ss", "lro", "paged", "cs", "out_type"} -/
def opC14Result (j : Json) : Except String Json := do
  let void ← getBoolK j "void"
  let ss ← getBoolK j "ss"
  let t ← getStrL j "out_type"
  let m : MethodShape := ⟨← getBoolK j "lro", ← getBoolK j "paged", ← getBoolK j "cs", ss⟩
  let rt := metadataResultType void ss t
  pure (Json.mkObj [("result_type", match rt with | some r => jstr r | none => Json.null),
    ("stream_shaped", Json.bool (streamShaped t rt)), ("yields_stream", Json.bool (callingForm m).yieldsStream)])

/-- the snippet index: {"keys": [[service, rpc]], "snippets": [{"service","rpc","async","tag"}], "queries": [[service, rpc, sync]]}
    -> per query the region tag of the snippet `get_snippet` returns (null = None, or the error name) -/
def opC14Index (j : Json) : Except String Json := do
  let keys ← (← getArrL j "keys").mapM fun k => do
    match (← k.getArr?).toList with
    | [Json.str a, Json.str b] => pure (a.toList, b.toList)
    | _ => throw "bad key"
  let snips ← (← getArrL j "snippets").mapM fun s => do
    pure (⟨← getStrL s "service", ← getStrL s "rpc", ← getBoolK s "async", ← getStrL s "tag"⟩ : Snip)
  let errStr : IxErr → String := fun | .unknownService => "UnknownService" | .rpcMethodNotFound => "RpcMethodNotFound"
  match (Index.init keys).addAll snips with
  | .error e => pure (Json.mkObj [("error", Json.str (errStr e))])
  | .ok ix =>
    let res ← (← getArrL j "queries").mapM fun q => do
      match (← q.getArr?).toList with
      | [Json.str a, Json.str b, Json.bool sy] =>
        pure (match ix.getSnippet a.toList b.toList sy with
          | .ok (some s) => jstr s.regionTag
          | .ok none => Json.null
          | .error e => Json.str (errStr e))
      | _ => throw "bad query"
    pure (Json.mkObj [("results", jarr res)])

def opsC14 : List (String × (Json → Except String Json)) :=
  [("c14.specs", opC14Specs), ("c14.form", opC14Form), ("c14.segments", opC14Segments), ("c14.request", opC14Request),
   ("c14.names", opC14Names), ("c14.params", opC14Params), ("c14.result", opC14Result), ("c14.index", opC14Index)]

end GapicModel.Driver
