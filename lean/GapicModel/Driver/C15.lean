import GapicModel.Driver.Base
import GapicModel.Model.Metadata
open Lean GapicModel GapicModel.Regex
namespace GapicModel.Driver

/-! ### C15 -/

open Model.Metadata in
def c15FieldOfJson (j : Json) : Except String FieldS := do
  match (← j.getArr?).toList with
  | [Json.str n, Json.bool r] => pure ⟨n.toList, r, 0⟩
  | [Json.str n, Json.bool r, num] => pure ⟨n.toList, r, ← num.getNat?⟩
  | _ => throw "bad field"

def c15Bool (j : Json) (k : String) : Except String Bool := do
  (← j.getObjVal? k).getBool?

open Model.Metadata in
def c15MethodOfJson (j : Json) : Except String MethodS := do
  let fields ← (← getArrL j "fields").mapM c15FieldOfJson
  pure ⟨← getStrL j "name", ← c15Bool j "internal", ← c15Bool j "proto_plus", fields, ← c15Bool j "ext_op"⟩

open Model.Metadata in
def c15ApiOfJson (j : Json) : Except String Api := do
  let services ← (← getArrL j "services").mapM fun s => do
    let ms ← (← getArrL s "methods").mapM c15MethodOfJson
    pure (⟨← getStrL s "name", ms⟩ : ServiceS)
  let ns ← (← getArrL j "namespace").mapM fun v => do pure (← v.getStr?).toList
  pure ⟨← getStrL j "proto_package", ns, ← getStrL j "versioned_module", services⟩

open Model.Metadata in
def opC15 (j : Json) : Except String Json := do
  let api ← c15ApiOfJson (← j.getObjVal? "api")
  let tr ← (← getArrL j "transports").mapM fun v => do pure (← v.getStr?).toList
  let md := gapicMetadata api tr
  let svcJson (s : ServiceEntry) : Json := jarr [jstr s.name, jarr (s.clients.map fun c =>
    jarr [jstr c.kind, jstr c.libraryClient, jarr (c.rpcs.map fun r => jarr [jstr r.rpc, jarr (r.methods.map jstr)])])]
  pure (Json.mkObj [
    ("proto_package", jstr md.protoPackage),
    ("library_package", jstr md.libraryPackage),
    ("services", jarr (md.services.map svcJson)),
    ("rows", jarr (md.rows.map fun r => jarr [jstr r.service, jstr r.kind, jstr r.client, jstr r.rpc, jstr r.method])),
    ("classes", jarr ((emittedClasses api tr).map fun c => jarr [jstr c.1, jarr (c.2.map jstr)])),
    ("fixup", jarr ((fixupTable api).map fun e => jarr [jstr e.1, jarr (e.2.map jstr)])),
    ("names", jarr (api.services.map fun s => Json.mkObj [
        ("service", jstr s.name), ("client_name", jstr (clientName s)), ("async_client_name", jstr (asyncClientName s)),
        ("methods", jarr (s.methods.map fun m => Json.mkObj [
          ("name", jstr m.name), ("client_method_name", jstr (clientMethodName m)),
          ("py_method_name", jstr (pyMethodName m)), ("legacy", jarr ((legacyNames m).map jstr))]))]))])

open Model.Metadata in
def opC15Snake (j : Json) : Except String Json := do
  let names ← (← getArrL j "names").mapM fun v => do pure (← v.getStr?).toList
  pure (Json.mkObj [("snake", jarr (names.map fun n => jstr (toSnakeCase n)))])

open Model.Metadata in
def opC15Fix (j : Json) : Except String Json := do
  let tbl ← (← getArrL j "table").mapM fun e => do
    match (← e.getArr?).toList with
    | [Json.str k, Json.arr ps] => pure (k.toList, ← ps.toList.mapM fun p => do pure (← p.getStr?).toList)
    | _ => throw "bad table row"
  let calls ← (← getArrL j "calls").mapM fun c => do
    let key ← getStrL c "key"
    let args ← (← getArrL c "args").mapM fun a => do
      match (← a.getArr?).toList with
      | [Json.null, v] => pure (⟨none, ← v.getNat?⟩ : Arg)
      | [Json.str k, v] => pure (⟨some k.toList, ← v.getNat?⟩ : Arg)
      | _ => throw "bad arg"
    pure (key, args)
  let pairs (l : List (Str × Nat)) : Json := jarr (l.map fun x => jarr [jstr x.1, jnat x.2])
  pure (Json.mkObj [("results", jarr (calls.map fun (key, args) =>
    match fixCall tbl key args with
    | .unchanged => Json.null
    | .rewritten rq ctrl => Json.mkObj [("request", pairs rq), ("ctrl", pairs ctrl)]))])

open Model.Metadata in
def opC15Table (j : Json) : Except String Json := do
  let api ← c15ApiOfJson (← j.getObjVal? "api")
  let iam ← c15Bool j "add_iam"
  pure (Json.mkObj [("fixup", jarr ((fixupTableOpt api iam).map fun e => jarr [jstr e.1, jarr (e.2.map jstr)]))])

def opsC15 : List (String × (Json → Except String Json)) :=
  [("c15", opC15), ("c15.snake", opC15Snake), ("c15.fix", opC15Fix), ("c15.table", opC15Table)]

end GapicModel.Driver
