import GapicModel.Driver.Base
import GapicModel.Model.Selective
open Lean GapicModel GapicModel.Regex
namespace GapicModel.Driver

/-! ### C16 — selective generation -/

namespace C16
open Model.Selective

def optNat (j : Json) : Except String (Option Nat) :=
  match j with
  | Json.null => pure none
  | _ => do pure (some (← j.getNat?))

def optStr (j : Json) : Except String (Option (List Char)) :=
  match j with
  | Json.null => pure none
  | _ => do pure (some (← j.getStr?).toList)

def natList (j : Json) (k : String) : Except String (List Nat) := do
  (← getArrL j k).mapM fun x => x.getNat?

def strList (j : Json) (k : String) : Except String (List (List Char)) := do
  (← getArrL j k).mapM fun x => do pure (← x.getStr?).toList

def fieldOfJson (j : Json) : Except String Field := do
  match (← j.getArr?).toList with
  | [m, e, r] => pure ⟨← optNat m, ← optNat e, ← optStr r⟩
  | _ => throw "bad field"

def messageOfJson (j : Json) : Except String Message := do
  pure { addr := ← (← j.getObjVal? "addr").getNat?,
         fields := ← (← getArrL j "fields").mapM fieldOfJson,
         nestedEnums := ← natList j "nested_enums",
         nestedMsgs := ← natList j "nested_msgs" }

def methodOfJson (j : Json) : Except String Method := do
  let lro ← match (← j.getObjVal? "lro") with
    | Json.null => pure none
    | v => match (← v.getArr?).toList with
      | [r, m] => pure (some (← r.getNat?, ← m.getNat?))
      | _ => throw "bad lro"
  let ext ← match (← j.getObjVal? "ext") with
    | Json.null => pure none
    | v => pure (some { opService := ← getStrL v "svc", request := ← (← v.getObjVal? "request").getNat?,
                        operation := ← (← v.getObjVal? "operation").getNat? : ExtInfo })
  pure { addr := ← (← j.getObjVal? "addr").getNat?, name := ← getStrL j "name", fqn := ← getStrL j "fqn",
         input := ← (← j.getObjVal? "input").getNat?, output := ← (← j.getObjVal? "output").getNat?,
         lro := lro, ext := ext, polling := ← (← j.getObjVal? "polling").getBool?,
         internal := (match j.getObjVal? "internal" with | .ok (Json.bool b) => b | _ => false) }

def serviceOfJson (j : Json) : Except String Service := do
  pure { addr := ← (← j.getObjVal? "addr").getNat?, name := ← getStrL j "name",
         methods := ← (← getArrL j "methods").mapM methodOfJson }

def protoOfJson (j : Json) : Except String Proto := do
  pure { name := ← getStrL j "name", services := ← (← getArrL j "services").mapM serviceOfJson,
         messages := ← natList j "messages", enums := ← natList j "enums" }

def apiOfJson (j : Json) : Except String Api := do
  let res ← (← getArrL j "resources").mapM fun x => do
    match (← x.getArr?).toList with
    | [t, a] => pure ((← t.getStr?).toList, ← a.getNat?)
    | _ => throw "bad resource"
  pure { protos := ← (← getArrL j "protos").mapM protoOfJson, deps := ← (← getArrL j "deps").mapM protoOfJson,
         msgs := ← (← getArrL j "msgs").mapM messageOfJson, resources := res }

def settingsOfJson (j : Json) : Except String LibSettings := do
  pure { version := ← getStrL j "version", methods := ← strList j "methods",
         internal := ← (← j.getObjVal? "internal").getBool? }

def methodJson (m : Method) : Json :=
  Json.mkObj [("addr", jnat m.addr), ("name", jstr m.name), ("internal", Json.bool m.internal),
              ("client_method_name", jstr m.clientMethodName),
              ("surface", jarr (m.surfaceNames.map fun (a, b) => jarr [jstr a, jstr b]))]

def serviceJson (s : Service) : Json :=
  Json.mkObj [("addr", jnat s.addr), ("name", jstr s.name), ("internal", Json.bool s.isInternal),
              ("client_name", jstr s.clientName), ("async_client_name", jstr s.asyncClientName),
              ("methods", jarr (s.methods.map methodJson))]

def protoJson (api : Api) (p : Proto) : Json :=
  Json.mkObj [("name", jstr p.name), ("services", jarr (p.services.map serviceJson)),
              ("messages", jarr (p.messages.map jnat)), ("enums", jarr (p.enums.map jnat)),
              ("top_messages", jarr ((p.topMessages api).map jnat)), ("top_enums", jarr ((p.topEnums api).map jnat)),
              ("emitted", jarr ((p.emitted api).map jnat))]

def errJson : SettingsErr → Json
  | .duplicate => Json.str "duplicate"
  | .selective es => Json.mkObj (es.map fun (m, e) =>
      (String.ofList m, Json.str (match e with | .missing => "missing" | .mismatch => "mismatch")))

def errsJson (errs : List (List Char × SettingsErr)) : Json :=
  Json.mkObj (errs.map fun (v, e) => (String.ofList v, errJson e))

def opAllowlist (j : Json) : Except String Json := do
  let api ← apiOfJson (← j.getObjVal? "api")
  let listed ← strList j "listed"
  pure (Json.mkObj [("allowlist", jarr ((allowlist api listed).map jnat)),
                    ("wf", Json.bool (api.wf listed)), ("wf_addrs", Json.bool (api.wfAddrs listed)), ("wf_services", Json.bool api.wfServices),
                    ("roots", jnat (api.roots listed).length), ("fuel", jnat api.fuel)])

def opPrune (j : Json) : Except String Json := do
  let api ← apiOfJson (← j.getObjVal? "api")
  let al ← natList j "allowlist"
  pure (Json.mkObj [("protos", jarr (api.protos.map fun p => optJson (protoJson api) (pruneProto al p)))])

def opInternal (j : Json) : Except String Json := do
  let api ← apiOfJson (← j.getObjVal? "api")
  let pub ← strList j "public"
  pure (Json.mkObj [("protos", jarr (api.protos.map fun p => protoJson api (p.withInternal pub)))])

def opValidate (j : Json) : Except String Json := do
  let allM ← strList j "all_methods"
  let settings ← (← getArrL j "settings").mapM settingsOfJson
  pure (Json.mkObj [("errors", errsJson (validateSettings allM settings))])

def opThirdPass (j : Json) : Except String Json := do
  let api ← apiOfJson (← j.getObjVal? "api")
  let settings ← (← getArrL j "settings").mapM settingsOfJson
  let pp ← getStrL j "proto_package"
  let pkg ← getStrL j "package"
  match thirdPass api settings pp pkg with
  | .rejected errs => pure (Json.mkObj [("outcome", Json.str "rejected"), ("errors", errsJson errs)])
  | .unchanged => pure (Json.mkObj [("outcome", Json.str "unchanged")])
  | .built ps => pure (Json.mkObj [("outcome", Json.str "built"), ("protos", jarr (ps.map (protoJson api)))])

def opName (j : Json) : Except String Json := do
  let name ← getStrL j "name"
  let internal ← (← j.getObjVal? "internal").getBool?
  let m : Method := { addr := 0, name := name, fqn := [], input := 0, output := 0, lro := none, ext := none,
                      polling := false, internal := internal }
  pure (Json.mkObj [("client_method_name", jstr m.clientMethodName)])

end C16

def opsC16 : List (String × (Json → Except String Json)) :=
  [("c16.allowlist", C16.opAllowlist), ("c16.prune", C16.opPrune), ("c16.internal", C16.opInternal),
   ("c16.validate", C16.opValidate), ("c16.third_pass", C16.opThirdPass), ("c16.name", C16.opName)]

end GapicModel.Driver
