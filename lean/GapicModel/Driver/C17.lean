import GapicModel.Driver.Base
import GapicModel.Model.Mixins
import GapicModel.Pinned.Funcs
open Lean GapicModel
namespace GapicModel.Driver

/-! ### C17 -/

namespace C17
open Model.Mixins

def gs (j : Json) (k : String) : Except String String := do (← j.getObjVal? k).getStr?

def bindingOfJson (j : Json) : Except String Binding := do
  pure ⟨← gs j "verb", ← gs j "uri", ← gs j "body"⟩

def ruleOfJson (j : Json) : Except String Rule := do
  let add ← (← getArrL j "additional").mapM bindingOfJson
  pure ⟨← gs j "selector", ← bindingOfJson j, add⟩

def yamlOfJson (j : Json) : Except String Yaml := do
  let apis ← (← getArrL j "apis").mapM fun a => a.getStr?
  let rules ← (← getArrL j "rules").mapM ruleOfJson
  pure ⟨apis, rules⟩

def strsOfJson (j : Json) : Except String (List String) := do (← j.getArr?).toList.mapM fun m => m.getStr?

def genOfJson (j : Json) : Except String Gen := do
  match ← j.getStr? with
  | "public" => pure .pub
  | "internal" => pure .internal
  | "omitted" => pure .omitted
  | g => throw s!"bad RPC status {g}"

/-- an RPC: its name (public), or `[name, "public" | "internal" | "omitted"]` -/
def methOfJson (j : Json) : Except String (String × Gen) :=
  match j with
  | Json.str n => pure (n, .pub)
  | _ => do
    match (← j.getArr?).toList with
    | [n, g] => pure (← n.getStr?, ← genOfJson g)
    | _ => throw "bad RPC"

/-- a declared service: `{"sub": [...], "methods": [...]}`, or (inputs of earlier rounds) the bare list of RPC names = API package -/
def svcOfJson (j : Json) : Except String Svc :=
  match j with
  | Json.arr _ => do pure ⟨[], ← strsOfJson j⟩
  | _ => do
    let ms ← (← getArrL j "methods").mapM methOfJson
    pure (⟨← strsOfJson (← j.getObjVal? "sub"), ms⟩ : SrcSvc).generated

/-- the whole API and the sub-package of the examined service ("view", default the API package): the model works on
`FullApi.view`, the `api` object that service's templates are rendered with -/
def apiOfJson (j : Json) : Except String Api := do
  let svcs ← (← getArrL j "services").mapM svcOfJson
  let view ← match j.getObjVal? "view" with
    | .ok v => strsOfJson v
    | .error _ => pure []
  pure ((⟨svcs⟩ : FullApi).view view)

def reqOfJson (j : Json) : Except String Req := do
  (← j.getArr?).toList.mapM fun kv => do
    match (← kv.getArr?).toList with
    | [Json.str k, Json.str v] => pure (k, v)
    | _ => throw "bad req field"

def sj (s : String) : Json := Json.str s
def osj : Option String → Json
  | none => Json.null
  | some s => Json.str s
def reqJson (r : Req) : Json := jarr (r.map fun kv => jarr [sj kv.1, sj kv.2])
def httpRuleJson (r : HttpRule) : Json := jarr [sj r.method, sj r.uri, osj r.body]
def bindingJson (b : Binding) : Json := jarr [sj b.verb, sj b.uri, sj b.body]

def respJson : Resp → Json
  | .message t => jarr [sj "message", sj t]
  | .none => jarr [sj "none"]
  | .rawBytes => jarr [sj "bytes"]

def specJson (s : GrpcSpec) : Json :=
  Json.mkObj [("path", sj s.path), ("request", sj s.request), ("resp", respJson s.resp), ("routing", sj s.routingField)]

def grpcOutcomeJson : GrpcOutcome → Json
  | .absent => Json.mkObj [("outcome", sj "absent")]
  | .sent s => Json.mkObj [("outcome", sj "sent"), ("spec", specJson s)]

def restOutcomeJson : RestOutcome → Json
  | .notGenerated => Json.mkObj [("outcome", sj "not-generated")]
  | .valueError => Json.mkObj [("outcome", sj "ValueError")]
  | .keyError => Json.mkObj [("outcome", sj "KeyError")]
  | .sent v p b q => Json.mkObj [("outcome", sj "sent"), ("verb", sj v), ("path", sj p),
      ("body", match b with | none => Json.null | some r => reqJson r), ("query", reqJson q)]

def names : Names := ⟨Pinned.reservedNames, Pinned.Funcs.fix_field_path⟩

def allMethods : List String := allApis.flatMap (·.methods)

def opTables (_ : Json) : Except String Json :=
  pure (Json.mkObj [
    ("apis", jarr (allApis.map fun a => jarr [sj a.fullName, jarr (a.methods.map sj)])),
    ("types", jarr (canonicalTypes.map fun t => jarr [sj t.1, sj t.2.1, sj t.2.2])),
    ("grpc", jarr (grpcTable.map fun kv => jarr [sj kv.1, specJson kv.2])),
    ("canonical_resp", jarr (allMethods.map fun m => jarr [sj m, match canonicalResp m with | none => Json.null | some r => respJson r]))])

def opSelect (j : Json) : Except String Json := do
  let y ← yamlOfJson (← j.getObjVal? "yaml")
  let api ← apiOfJson (← j.getObjVal? "api")
  let o : Opts := ⟨← (← j.getObjVal? "add_iam").getBool?⟩
  let sel := mixinApiMethods y api
  pure (Json.mkObj [
    ("has", jarr ([MixinApi.locations, .iam, .operations].map fun a => Json.bool (hasMixin y a))),
    ("iam_overrides", Json.bool (iamOverrides y api)),
    ("methods", jarr (sel.map fun kv => jarr [sj kv.1, bindingJson kv.2.main, jarr (kv.2.additional.map bindingJson)])),
    ("http", jarr ((mixinHttpOptions names y api).map fun kv => jarr [sj kv.1, jarr (kv.2.map httpRuleJson)])),
    ("signatures", jarr ((mixinApiSignatures Pinned.mixinsMap y api).map fun kv => jarr [sj kv.1,
        match kv.2 with | none => Json.null | some t => jarr [sj t.1, sj t.2]])),
    ("wrapped", jarr ((wrappedMixins y api).map sj)),
    ("grpc_transport", jarr ((grpcTransportMixins y api o).map sj)),
    ("rest_transport", jarr ((restTransportMixins y api).map sj)),
    ("exposed_sync", jarr ((exposedMixins y api o .sync).map sj)),
    ("exposed_async", jarr ((exposedMixins y api o .async).map sj)),
    ("grpc_sync", jarr (allMethods.map fun m => jarr [sj m, grpcOutcomeJson (grpcCall y api o .sync m)])),
    ("grpc_async", jarr (allMethods.map fun m => jarr [sj m, grpcOutcomeJson (grpcCall y api o .async m)]))])

def opRest (j : Json) : Except String Json := do
  let y ← yamlOfJson (← j.getObjVal? "yaml")
  let api ← apiOfJson (← j.getObjVal? "api")
  let m ← gs j "method"
  let req ← reqOfJson (← j.getObjVal? "req")
  pure (restOutcomeJson (restCall refExt names y api m req))

def opApply (j : Json) : Except String Json := do
  let r ← j.getObjVal? "rule"
  let body ← match r.getObjVal? "body" with
    | .ok (Json.str s) => pure (some s)
    | _ => pure none
  let rule : HttpRule := ⟨← gs r "method", ← gs r "uri", body⟩
  let req ← reqOfJson (← j.getObjVal? "req")
  match refApply rule req with
  | none => pure (Json.mkObj [("r", Json.null)])
  | some t => pure (Json.mkObj [("r", Json.mkObj [("method", sj t.method), ("uri", sj t.uri),
      ("body", match t.body with | none => Json.null | some b => reqJson b), ("query", reqJson t.query)])])

end C17

def opsC17 : List (String × (Json → Except String Json)) :=
  [("c17.tables", C17.opTables), ("c17.select", C17.opSelect), ("c17.rest", C17.opRest), ("c17.apply", C17.opApply)]

end GapicModel.Driver
