import GapicModel.Driver.Base
import GapicModel.Model.AutoPop
open Lean GapicModel
namespace GapicModel.Driver

/-! ### C18 -/

open Model.AutoPop in
def c18Bool (j : Json) (k : String) : Except String Bool := do
  (← j.getObjVal? k).getBool?

open Model.AutoPop in
def c18Str (j : Json) (k : String) : Except String String := do
  (← j.getObjVal? k).getStr?

open Model.AutoPop in
def c18Field (j : Json) : Except String Field := do
  pure ⟨← c18Str j "name", ← c18Bool j "str", ← c18Bool j "required", ← c18Bool j "uuid4",
        ← c18Bool j "optional", ← c18Bool j "repeated"⟩

open Model.AutoPop in
def c18Method (j : Json) : Except String Method := do
  let inp ← (← getArrL j "input").mapM c18Field
  pure ⟨← c18Str j "selector", ← c18Bool j "cs", ← c18Bool j "ss", inp⟩

open Model.AutoPop in
def c18Settings (j : Json) : Except String Settings := do
  let fs ← (← getArrL j "fields").mapM fun f => f.getStr?
  pure ⟨← c18Str j "selector", fs⟩

open Model.AutoPop in
def c18FieldErrJson : FieldErr → Json
  | .notFound f => jarr [Json.str "notFound", Json.str f]
  | .notString f => jarr [Json.str "notString", Json.str f]
  | .isRequired f => jarr [Json.str "isRequired", Json.str f]
  | .notUuid4 f => jarr [Json.str "notUuid4", Json.str f]

open Model.AutoPop in
def c18ErrJson : Err → Json
  | .duplicate => Json.mkObj [("kind", Json.str "duplicate")]
  | .methodNotFound => Json.mkObj [("kind", Json.str "methodNotFound")]
  | .notUnary => Json.mkObj [("kind", Json.str "notUnary")]
  | .fields es => Json.mkObj [("kind", Json.str "fields"), ("fields", jarr (es.map c18FieldErrJson))]

open Model.AutoPop in
def opC18Validate (j : Json) : Except String Json := do
  let api ← (← getArrL j "api").mapM c18Method
  let ss ← (← getArrL j "settings").mapM c18Settings
  let errs := validate api ss
  pure (Json.mkObj [("accepted", Json.bool (accepted api ss)),
                    ("errors", jarr (errs.map fun (k, e) => jarr [Json.str k, c18ErrJson e]))])

open Model.AutoPop in
/-- generation outcome: `views` = for each view of the API that renders a service, the selectors of its `all_methods` -/
def opC18Generate (j : Json) : Except String Json := do
  let api ← (← getArrL j "api").mapM c18Method
  let ss ← (← getArrL j "settings").mapM c18Settings
  let views ← (← getArrL j "views").mapM fun v => do (← v.getArr?).toList.mapM fun s => s.getStr?
  -- optional selective GAPIC generation: `api` is the declared API, the model prunes it
  let api ← match j.getObjVal? "selective" with
    | .ok (Json.null) => pure api
    | .ok sg => do
      let allow ← (← getArrL sg "methods").mapM fun s => s.getStr?
      pure (prune allow (← c18Bool sg "internal") api)
    | .error _ => pure api
  -- (a key `hidden` — selectors of the methods whose request message is declared in a file that is not generated — is
  -- accepted and ignored: since f83c180 such a request is validated like any other)
  let errs := generate api (views.map (viewOf api)) ss
  pure (Json.mkObj [("accepted", Json.bool errs.isEmpty), ("outcome", Json.str (if errs.isEmpty then "ok" else "settingsError")),
                    ("errors", jarr (errs.map fun (k, e) => jarr [Json.str k, c18ErrJson e]))])

open Model.AutoPop in
def c18Req (j : Json) : Except String Req := do
  (← j.getArr?).toList.mapM fun kv => do
    match (← kv.getArr?).toList with
    | [Json.str k, Json.str v] => pure (k, v)
    | _ => throw "bad key/value"

open Model.AutoPop in
def c18Path : String → Except String Path
  | "sync" => pure .sync | "asyncio" => pure .asyncio | "rest" => pure .rest | "rest_asyncio" => pure .restAsyncio
  | p => throw s!"bad path {p}"

open Model.AutoPop in
def c18Mode : String → Except String Mode
  | "inst" => pure .inst | "dict" => pure .dict | "kwargs" => pure .kwargs | "none" => pure .none
  | p => throw s!"bad mode {p}"

/-- the k-th uuid is written `$k`: the harness compares which fields carry generated values and which
generated values coincide, never the values themselves -/
def c18Gen (k : Nat) : String := "$" ++ toString k

open Model.AutoPop in
def opC18Session (j : Json) : Except String Json := do
  let m ← c18Method (← j.getObjVal? "method")
  -- either the whole settings list (the method's entry is looked up as the macro does) or the field list
  let (s, imports) : Option Settings × Option Bool ← match j.getObjVal? "settings" with
    | .ok v => do
      let ss ← (← v.getArr?).toList.mapM c18Settings
      pure (settingsFor ss m.selector, some (importsUuid ss))
    | .error _ => match j.getObjVal? "fields" with
      | .ok Json.null => pure (none, none)
      | .ok v => do
        let fs ← (← v.getArr?).toList.mapM fun f => f.getStr?
        pure (some ⟨m.selector, fs⟩, none)
      | .error _ => pure (none, none)
  let path ← c18Path (← c18Str j "path")
  let objects ← (← getArrL j "objects").mapM c18Req
  let calls ← (← getArrL j "calls").mapM fun c => do
    match (← c.getArr?).toList with
    | [Json.str mode, i] => pure (← c18Mode mode, ← i.getNat?, ([] : List String))
    | [Json.str mode, i, toks] => do
      let ts ← (← toks.getArr?).toList.mapM fun t => t.getStr?
      pure (← c18Mode mode, ← i.getNat?, ts)
    | _ => throw "bad call"
  if calls.any (fun c => c.2.1 ≥ objects.length) then
    return unsupported "object index out of range"
  let out := session c18Gen m s path (calls.map fun c => (c.1, c.2.1)) objects 0
  let wire (r : Req) : Json := Json.mkObj (m.input.map fun fd => (fd.name, optJson Json.str (wireVal fd r)))
  pure (Json.mkObj [
    ("imports", optJson Json.bool imports),
    ("calls", jarr ((out.zip calls).map fun (r, c) =>
    match r with
    | none => Json.null
    | some r => Json.mkObj [
        ("sent", jarr (r.map fun (k, v) => jarr [Json.str k, Json.str v])),
        ("wire", wire r),
        ("pages", jarr ((pageRequests r c.2.2).map wire))]))])

open Model.AutoPop in
def opC18Imports (j : Json) : Except String Json := do
  let ss ← (← getArrL j "settings").mapM c18Settings
  let sel ← c18Str j "selector"
  pure (Json.mkObj [("imports", Json.bool (importsUuid ss)),
                    ("fields", optJson (fun (s : Settings) => jarr (s.fields.map Json.str)) (settingsFor ss sel))])

open Model.AutoPop in
def c18StmtName : Stmt → String
  | .coerce => "coerce" | .applyKwargs => "applyKwargs" | .wrapRpc => "wrapRpc" | .metadata => "metadata"
  | .apiVersionHeader => "apiVersionHeader" | .populate => "populate" | .validateUniverse => "validateUniverse"
  | .send => "send"

open Model.AutoPop in
def opC18Pipeline (j : Json) : Except String Json := do
  let path ← c18Path (← c18Str j "path")
  pure (Json.mkObj [("stmts", jarr ((pipeline path).map fun s => Json.str (c18StmtName s)))])

def opsC18 : List (String × (Json → Except String Json)) :=
  [("c18.validate", opC18Validate), ("c18.generate", opC18Generate), ("c18.session", opC18Session), ("c18.pipeline", opC18Pipeline),
   ("c18.imports", opC18Imports)]

end GapicModel.Driver
