import GapicModel.Driver.Base
import GapicModel.Model.PathHelpers
open Lean GapicModel GapicModel.Regex
namespace GapicModel.Driver

/-! ### C19 -/

open Model.PathHelpers in
def segOfJson (j : Json) : Except String Seg := do
  let a ← j.getArr?
  match a.toList with
  | [Json.str "lit", Json.str s] => pure (.lit s.toList)
  | [Json.str "var", Json.str n, Json.bool mu] => pure (.var n.toList mu)
  | _ => throw "bad seg"

open Model.PathHelpers in
def opC19 (j : Json) : Except String Json := do
  let segs ← (← getArrL j "segs").mapM segOfJson
  let values ← (← getArrL j "values").mapM fun v => do pure (← v.getStr?).toList
  let paths ← (← getArrL j "paths").mapM fun v => do pure (← v.getStr?).toList
  let t := Pinned.classTables
  let built := build segs values
  pure (Json.mkObj [
    ("pattern", jstr (render segs)),
    ("args", jarr ((pathArgs segs).map jstr)),
    ("formatted", jstr (formatted segs)),
    ("regex", patternJson (pathRegex segs)),
    ("built", jstr built),
    ("parsed_built", kvJson (parse t segs built)),
    ("parsed", jarr (paths.map fun p => kvJson (parse t segs p)))])


def opsC19 : List (String × (Json → Except String Json)) := [("c19", opC19)]

end GapicModel.Driver
