import GapicModel.Driver.Base
import GapicModel.Model.PathHelpers
import GapicModel.Model.ResourceVis
import GapicModel.Model.Names
open Lean GapicModel GapicModel.Regex
namespace GapicModel.Driver

/-! ### C19 -/

open Model.PathHelpers in
def segOfJson (j : Json) : Except String Seg := do
  let a ← j.getArr?
  match a.toList with
  | [Json.str "lit", Json.str s] => pure (.lit s.toList)
  | [Json.str "var", Json.str n, Json.bool mu] => pure (.var n.toList mu)
  | _ => throw "bad seg"

open Model.PathHelpers in
def opC19 (j : Json) : Except String Json := do
  let segs ← (← getArrL j "segs").mapM segOfJson
  let values ← (← getArrL j "values").mapM fun v => do pure (← v.getStr?).toList
  let paths ← (← getArrL j "paths").mapM fun v => do pure (← v.getStr?).toList
  let t := Pinned.classTables
  let built := build segs values
  pure (Json.mkObj [
    ("pattern", jstr (render segs)),
    ("args", jarr ((pathArgs segs).map jstr)),
    ("formatted", jstr (formatted segs)),
    ("regex", patternJson (pathRegex segs)),
    ("built", jstr built),
    ("parsed_built", kvJson (parse t segs built)),
    ("rebuilt", optJson jstr (buildKw segs (parse t segs built))),
    ("parsed", jarr (paths.map fun p => kvJson (parse t segs p)))])


/-! ### C19, visibility: `Service.resource_messages` as (type, first pattern) observables and the
helper names the client gets for them -/

def optStrL (j : Json) : Except String (Option (List Char)) :=
  match j with
  | Json.null => pure none
  | Json.str s => pure (some s.toList)
  | _ => throw "expected string or null"

open Model.ResourceVis in
def resOfJson (j : Json) : Except String Res := do
  match (← j.getArr?).toList with
  | [Json.str t, Json.str p] => pure ⟨t.toList, p.toList⟩
  | _ => throw "bad resource"

open Model.ResourceVis in
def opC19Vis (j : Json) : Except String Json := do
  let files ← (← getArrL j "files").mapM fun f => do
    let defs ← (← getArrL f "defs").mapM resOfJson
    let all ← (← getArrL f "all").mapM fun v => do pure (← v.getStr?).toList
    pure (File.mk defs all)
  let msgs ← (← getArrL j "msgs").mapM fun m => do
    let name ← getStrL m "name"
    let fields ← (← getArrL m "fields").mapM fun f => do
      match (← f.getArr?).toList with
      | [a, b] => pure (Field.mk (← optStrL a) (← optStrL b))
      | _ => throw "bad field"
    let res ← match (← m.getObjVal? "res") with
      | Json.null => pure none
      | r => do pure (some (← resOfJson r))
    pure (Message.mk name fields res)
  let methods ← (← getArrL j "methods").mapM fun m => do
    match (← m.getArr?).toList with
    | [Json.str i, Json.str o, l] => pure (Method.mk i.toList o.toList (← optStrL l))
    | _ => throw "bad method"
  let api : Api := ⟨files, msgs⟩
  let rs := (serviceResources api methods).eraseDups
  let resJson (r : Res) : Json := jarr [jstr r.type, jstr r.pattern]
  pure (Json.mkObj [
    ("resources", jarr (rs.map resJson)),
    ("helpers", jarr (rs.map fun r => jarr [jstr (Model.Names.toSnakeCase (shortName r.type)), jstr r.type])),
    ("reachable", jarr (methods.map fun me => jarr [jarr ((reachable api me.input).map jstr), jarr ((reachable api me.effOutput).map jstr)])),
    ("fuel", jnat (fuelFor api))])


def opsC19 : List (String × (Json → Except String Json)) := [("c19", opC19), ("c19vis", opC19Vis)]

end GapicModel.Driver
