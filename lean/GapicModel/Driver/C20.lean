import GapicModel.Driver.Base
import GapicModel.Model.Whitespace
import GapicModel.Model.Wrap
open Lean GapicModel GapicModel.Regex
namespace GapicModel.Driver

def getIntOpt (j : Json) (k : String) : Option Int :=
  match j.getObjVal? k with
  | .ok (Json.num n) => some n.mantissa
  | _ => none

def opC20Fixws (j : Json) : Except String Json := do
  let s ← getStrL j "s"
  pure (Json.mkObj [("r", jstr (Model.Whitespace.fixWhitespace s))])

open Model.Wrap in
def opC20Textwrap (j : Json) : Except String Json := do
  let text ← getStrL j "text"
  let width ← (← j.getObjVal? "width").getInt?
  let ii ← getStrL j "ii"
  let si ← getStrL j "si"
  pure (Json.mkObj [("lines", optJson (fun ls => jarr (ls.map jstr)) (textwrapWrap Pinned.classTables text width ii si))])

open Model.Wrap in
def opC20Wrap (j : Json) : Except String Json := do
  let text ← getStrL j "text"
  let width ← (← j.getObjVal? "width").getInt?
  let indent ← (← j.getObjVal? "indent").getNat?
  let offset := getIntOpt j "offset"
  pure (Json.mkObj [("r", optJson jstr (wrap Pinned.classTables text width offset indent))])

open Model.Wrap in
def opC20Rst (j : Json) : Except String Json := do
  let text ← getStrL j "text"
  let width ← (← j.getObjVal? "width").getInt?
  let indent ← (← j.getObjVal? "indent").getNat?
  let nl : Option Bool := match j.getObjVal? "nl" with
    | .ok (Json.bool b) => some b
    | _ => none
  pure (Json.mkObj [("r", optJson jstr (rstFast Pinned.classTables text width indent nl))])

def opsC20 : List (String × (Json → Except String Json)) :=
  [("c20.fixws", opC20Fixws), ("c20.textwrap", opC20Textwrap), ("c20.wrap", opC20Wrap), ("c20.rst", opC20Rst)]

end GapicModel.Driver
