-- written by harness/translate.py --pin
import GapicModel.Driver.Base
import GapicModel.Pinned.Funcs
open Lean GapicModel
namespace GapicModel.Driver

def argStr (j : Json) (i : Nat) : Except String (List Char) := do
  match (← getArrL j "args")[i]? with | some (Json.str s) => pure s.toList | _ => throw "argument: string expected"
def argInt (j : Json) (i : Nat) : Except String Int := do
  match (← getArrL j "args")[i]? with | some v => (do let n ← v.getInt?; pure n) | none => throw "argument: int expected"
def argBool (j : Json) (i : Nat) : Except String Bool := do
  match (← getArrL j "args")[i]? with | some (Json.bool b) => pure b | _ => throw "argument: bool expected"
def argListStr (j : Json) (i : Nat) : Except String (List (List Char)) := do
  match (← getArrL j "args")[i]? with
  | some (Json.arr a) => a.toList.mapM fun v => do pure (← v.getStr?).toList
  | _ => throw "argument: list of strings expected"

def opFn (j : Json) : Except String Json := do
  let name ← (← j.getObjVal? "name").getStr?
  if name == "to_valid_filename" then
    let a0 ← argStr j 0
    return Json.mkObj [("r", jstr (Pinned.Funcs.to_valid_filename a0))]
  if name == "to_valid_module_name" then
    let a0 ← argStr j 0
    return Json.mkObj [("r", jstr (Pinned.Funcs.to_valid_module_name a0))]
  if name == "to_snake_case" then
    let a0 ← argStr j 0
    return Json.mkObj [("r", jstr (Pinned.Funcs.to_snake_case a0))]
  if name == "is_list_item" then
    let a0 ← argStr j 0
    return Json.mkObj [("r", Json.bool (Pinned.Funcs.is_list_item a0))]
  if name == "get_subsequent_line_indentation_level" then
    let a0 ← argStr j 0
    return Json.mkObj [("r", (fun (n : Int) => Json.num (JsonNumber.fromInt n)) (Pinned.Funcs.get_subsequent_line_indentation_level a0))]
  if name == "address_resolve" then
    let a0 ← argListStr j 0
    let a1 ← argStr j 1
    return Json.mkObj [("r", jstr (Pinned.Funcs.address_resolve a0 a1))]
  if name == "fix_whitespace" then
    let a0 ← argStr j 0
    return Json.mkObj [("r", jstr (Pinned.Funcs.fix_whitespace a0))]
  if name == "make_private" then
    let a0 ← argStr j 0
    return Json.mkObj [("r", jstr (Pinned.Funcs.make_private a0))]
  if name == "coerce_response_name" then
    let a0 ← argStr j 0
    return Json.mkObj [("r", jstr (Pinned.Funcs.coerce_response_name a0))]
  if name == "to_camel_case" then
    let a0 ← argStr j 0
    return Json.mkObj [("r", jstr (Pinned.Funcs.to_camel_case a0))]
  if name == "fix_name_segment" then
    let a0 ← argStr j 0
    return Json.mkObj [("r", jstr (Pinned.Funcs.fix_name_segment a0))]
  if name == "fix_field_path" then
    let a0 ← argStr j 0
    return Json.mkObj [("r", jstr (Pinned.Funcs.fix_field_path a0))]
  if name == "field_header_disambiguated" then
    let a0 ← argStr j 0
    return Json.mkObj [("r", jstr (Pinned.Funcs.field_header_disambiguated a0))]
  if name == "routing_param_disambiguated_field" then
    let a0 ← argStr j 0
    return Json.mkObj [("r", jstr (Pinned.Funcs.routing_param_disambiguated_field a0))]
  if name == "client_method_name" then
    let a0 ← argStr j 0
    let a1 ← argBool j 1
    return Json.mkObj [("r", jstr (Pinned.Funcs.client_method_name a0 a1))]
  if name == "sort_lines" then
    let a0 ← argStr j 0
    let a1 ← argBool j 1
    return Json.mkObj [("r", jstr (Pinned.Funcs.sort_lines a0 a1))]
  if name == "service_client_name" then
    let a0 ← argBool j 0
    let a1 ← argStr j 1
    return Json.mkObj [("r", jstr (Pinned.Funcs.service_client_name a0 a1))]
  if name == "service_async_client_name" then
    let a0 ← argBool j 0
    let a1 ← argStr j 1
    return Json.mkObj [("r", jstr (Pinned.Funcs.service_async_client_name a0 a1))]
  if name == "service_transport_name" then
    let a0 ← argStr j 0
    return Json.mkObj [("r", jstr (Pinned.Funcs.service_transport_name a0))]
  if name == "service_grpc_transport_name" then
    let a0 ← argStr j 0
    return Json.mkObj [("r", jstr (Pinned.Funcs.service_grpc_transport_name a0))]
  if name == "service_grpc_asyncio_transport_name" then
    let a0 ← argStr j 0
    return Json.mkObj [("r", jstr (Pinned.Funcs.service_grpc_asyncio_transport_name a0))]
  if name == "service_rest_transport_name" then
    let a0 ← argStr j 0
    return Json.mkObj [("r", jstr (Pinned.Funcs.service_rest_transport_name a0))]
  if name == "service_module_name" then
    let a0 ← argStr j 0
    return Json.mkObj [("r", jstr (Pinned.Funcs.service_module_name a0))]
  if name == "naming_module_name" then
    let a0 ← argStr j 0
    return Json.mkObj [("r", jstr (Pinned.Funcs.naming_module_name a0))]
  if name == "new_naming_versioned_module_name" then
    let a0 ← argStr j 0
    let a1 ← argStr j 1
    return Json.mkObj [("r", jstr (Pinned.Funcs.new_naming_versioned_module_name a0 a1))]
  if name == "old_naming_versioned_module_name" then
    let a0 ← argStr j 0
    let a1 ← argStr j 1
    return Json.mkObj [("r", jstr (Pinned.Funcs.old_naming_versioned_module_name a0 a1))]
  if name == "metadata_doc" then
    let a0 ← argStr j 0
    let a1 ← argStr j 1
    let a2 ← argListStr j 2
    return Json.mkObj [("r", jstr (Pinned.Funcs.metadata_doc a0 a1 a2))]
  if name == "field_name" then
    let a0 ← argStr j 0
    let a1 ← argBool j 1
    return Json.mkObj [("r", jstr (Pinned.Funcs.field_name a0 a1))]
  if name == "method_void" then
    let a0 ← argStr j 0
    return Json.mkObj [("r", Json.bool (Pinned.Funcs.method_void a0))]
  if name == "service_client_package_version" then
    let a0 ← argListStr j 0
    if !(Pinned.Funcs.service_client_package_version_ok a0) then return Json.mkObj [("r", Json.mkObj [("raised", Json.str "IndexError")])]
    return Json.mkObj [("r", jstr (Pinned.Funcs.service_client_package_version a0))]
  if name == "import_str" then
    let a0 ← argStr j 0
    let a1 ← argStr j 1
    let a2 ← argListStr j 2
    return Json.mkObj [("r", jstr (Pinned.Funcs.import_str a0 a1 a2))]
  if name == "service_shortname" then
    let a0 ← argStr j 0
    return Json.mkObj [("r", jstr (Pinned.Funcs.service_shortname a0))]
  if name == "naming_long_name" then
    let a0 ← argListStr j 0
    let a1 ← argStr j 1
    return Json.mkObj [("r", jstr (Pinned.Funcs.naming_long_name a0 a1))]
  if name == "naming_module_namespace" then
    let a0 ← argListStr j 0
    return Json.mkObj [("r", (fun xs => jarr (xs.map jstr)) (Pinned.Funcs.naming_module_namespace a0))]
  if name == "naming_warehouse_package_name" then
    let a0 ← argStr j 0
    let a1 ← argListStr j 1
    let a2 ← argStr j 2
    return Json.mkObj [("r", jstr (Pinned.Funcs.naming_warehouse_package_name a0 a1 a2))]
  if name == "address_str" then
    let a0 ← argStr j 0
    let a1 ← argListStr j 1
    let a2 ← argStr j 2
    let a3 ← argStr j 3
    let a4 ← argBool j 4
    return Json.mkObj [("r", jstr (Pinned.Funcs.address_str a0 a1 a2 a3 a4))]
  if name == "address_module_alias" then
    let a0 ← argStr j 0
    let a1 ← argListStr j 1
    let a2 ← argListStr j 2
    let a3 ← argStr j 3
    if !(Pinned.Funcs.address_module_alias_ok a0 a1 a2 a3) then return Json.mkObj [("r", Json.mkObj [("raised", Json.str "IndexError")])]
    return Json.mkObj [("r", jstr (Pinned.Funcs.address_module_alias a0 a1 a2 a3))]
  if name == "address_proto" then
    let a0 ← argListStr j 0
    let a1 ← argListStr j 1
    let a2 ← argStr j 2
    return Json.mkObj [("r", jstr (Pinned.Funcs.address_proto a0 a1 a2))]
  if name == "address_proto_package" then
    let a0 ← argListStr j 0
    return Json.mkObj [("r", jstr (Pinned.Funcs.address_proto_package a0))]
  if name == "address_versioned_package" then
    let a0 ← argListStr j 0
    if !(Pinned.Funcs.address_versioned_package_ok a0) then return Json.mkObj [("r", Json.mkObj [("raised", Json.str "IndexError")])]
    return Json.mkObj [("r", (fun xs => jarr (xs.map jstr)) (Pinned.Funcs.address_versioned_package a0))]
  if name == "address_subpackage" then
    let a0 ← argListStr j 0
    let a1 ← argStr j 1
    return Json.mkObj [("r", (fun xs => jarr (xs.map jstr)) (Pinned.Funcs.address_subpackage a0 a1))]
  if name == "address_python_import" then
    let a0 ← argListStr j 0
    let a1 ← argStr j 1
    let a2 ← argListStr j 2
    let a3 ← argStr j 3
    let a4 ← argStr j 4
    let a5 ← argBool j 5
    let a6 ← argStr j 6
    let a7 ← argListStr j 7
    let a8 ← argBool j 8
    let a9 ← argListStr j 9
    let a10 ← argStr j 10
    return Json.mkObj [("r", (fun (i : PyRt.PyImport) => Json.mkObj [("package", jarr (i.package.map jstr)), ("module", jstr i.module), ("alias", jstr i.alias)]) (Pinned.Funcs.address_python_import a0 a1 a2 a3 a4 a5 a6 a7 a8 a9 a10))]
  if name == "address_rel" then
    let a0 ← argListStr j 0
    let a1 ← argStr j 1
    let a2 ← argListStr j 2
    let a3 ← argStr j 3
    let a4 ← argListStr j 4
    let a5 ← argStr j 5
    let a6 ← argListStr j 6
    let a7 ← argStr j 7
    let a8 ← argStr j 8
    if !(Pinned.Funcs.address_rel_ok a0 a1 a2 a3 a4 a5 a6 a7 a8) then return Json.mkObj [("r", Json.mkObj [("raised", Json.str "IndexError")])]
    return Json.mkObj [("r", jstr (Pinned.Funcs.address_rel a0 a1 a2 a3 a4 a5 a6 a7 a8))]
  if name == "address_sphinx" then
    let a0 ← argListStr j 0
    let a1 ← argStr j 1
    let a2 ← argListStr j 2
    let a3 ← argStr j 3
    let a4 ← argListStr j 4
    let a5 ← argStr j 5
    let a6 ← argStr j 6
    let a7 ← argBool j 7
    let a8 ← argStr j 8
    let a9 ← argListStr j 9
    let a10 ← argBool j 10
    let a11 ← argListStr j 11
    let a12 ← argStr j 12
    return Json.mkObj [("r", jstr (Pinned.Funcs.address_sphinx a0 a1 a2 a3 a4 a5 a6 a7 a8 a9 a10 a11 a12))]
  throw s!"unknown translated function {name}"

def opsFuncs : List (String × (Json → Except String Json)) := [("fn", opFn)]

end GapicModel.Driver
