import GapicModel.Driver.Base
import GapicModel.PyRt
/-
`pyrt` op: one primitive of GapicModel.PyRt on JSON arguments, for the differential test of the
run-time library against CPython (harness/props/pyrt.py).
  {"op":"pyrt","f":"slice","s":…,"a":int|null,"b":int|null}  …
-/
open Lean GapicModel
namespace GapicModel.Driver
open GapicModel.PyRt

def optInt (j : Json) (k : String) : Except String (Option Int) :=
  match j.getObjVal? k with
  | .ok Json.null => pure none
  | .ok v => do pure (some (← v.getInt?))
  | .error _ => pure none

def opPyRt (j : Json) : Except String Json := do
  let f ← (← j.getObjVal? "f").getStr?
  let s ← getStrL j "s"
  let str (x : List Char) := Json.mkObj [("r", jstr x)]
  let bool (b : Bool) := Json.mkObj [("r", Json.bool b)]
  match f with
  | "slice" => pure (str (slice s (← optInt j "a") (← optInt j "b")))
  | "strip" => pure (str (strip s))
  | "lstrip" => pure (str (lstrip s))
  | "rstrip" => pure (str (rstrip s))
  | "lower" => pure (str (lower s))
  | "upper" => pure (str (upper s))
  | "capitalize" => pure (str (capitalize s))
  | "expandtabs" => pure (str (expandtabs s))
  | "startswith" => pure (bool (startswith s (← getStrL j "x")))
  | "endswith" => pure (bool (endswith s (← getStrL j "x")))
  | "contains" => pure (bool (contains (← getStrL j "x") s))
  | "replace" => pure (str (replace s (← getStrL j "x") (← getStrL j "y")))
  | "replaceN" => pure (str (replaceN s (← getStrL j "x") (← getStrL j "y") (← (← j.getObjVal? "n").getInt?)))
  | "split" => pure (Json.mkObj [("r", jarr ((split s (← getStrL j "x")).map jstr))])
  | "join" => do
      let xs ← (← getArrL j "xs").mapM fun v => do pure (← v.getStr?).toList
      pure (str (join s xs))
  | "len" => pure (Json.mkObj [("r", Json.num (JsonNumber.fromInt (len s)))])
  | "idxStr" => do
      let k ← (← j.getObjVal? "n").getInt?
      if inRange (len s) k then pure (str (idxStr s k)) else pure (Json.mkObj [("r", Json.mkObj [("raised", Json.str "IndexError")])])
  | "idxList" => do
      let xs ← (← getArrL j "xs").mapM fun v => do pure (← v.getStr?).toList
      let k ← (← j.getObjVal? "n").getInt?
      if inRange (len xs) k then pure (str (idxList xs k)) else pure (Json.mkObj [("r", Json.mkObj [("raised", Json.str "IndexError")])])
  | _ => throw s!"unknown primitive {f}"

def opsPyRt : List (String × (Json → Except String Json)) := [("pyrt", opPyRt)]

end GapicModel.Driver
