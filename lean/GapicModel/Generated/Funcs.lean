-- REWRITTEN BY harness/translate.py ON EVERY CHECK RUN
-- Python functions of /repo translated by harness/pyfun2lean.py (subset and restrictions: see that file and PyRt.lean)
import GapicModel.PyRt
import GapicModel.Pinned.Tables
namespace GapicModel.Generated.Funcs
open GapicModel.PyRt GapicModel.Regex

-- gapic/utils/filename.py — to_valid_filename
def to_valid_filename (filename : Str) : Str :=
  (reSub (.seq (.cls true [.range 'a' 'z', .range '0' '9', .ch '.', .ch '$', .ch '_', .ch '-']) (.star (.cls true [.range 'a' 'z', .range '0' '9', .ch '.', .ch '$', .ch '_', .ch '-']) true)) [.lit ['-']] (lower filename))

-- gapic/utils/filename.py — to_valid_module_name
def to_valid_module_name (module_name : Str) : Str :=
  (replace (to_valid_filename module_name) ['-'] (['_'] : Str))

-- gapic/utils/case.py — to_snake_case
def to_snake_case (s : Str) : Str :=
  let s : Str := (reSub (.seq (.look false false (.cls false [.range 'a' 'z'])) (.group 1 (.cls false [.range 'A' 'Z']))) [.lit ['_'], .grp 1] s)
  let s : Str := (reSub (.seq (.look false false (.cls true [.ch '_'])) (.seq (.group 1 (.cls false [.range 'A' 'Z'])) (.look true false (.cls false [.range 'a' 'z'])))) [.lit ['_'], .grp 1] s)
  let s : Str := (reSub (.seq (.look false false (.cls false [.range 'a' 'z'])) (.seq (.group 1 (.cls false [.digit])) (.look true false (.seq (.cls false [.range 'A' 'Z']) (.cls false [.range 'A' 'Z']))))) [.lit ['_'], .grp 1] s)
  let s : Str := (reSub (.seq (.look false false (.cls false [.range 'a' 'z'])) (.seq (.group 1 (.cls false [.digit])) (.look true false (.seq (.cls false [.range 'A' 'Z']) .eol)))) [.lit ['_'], .grp 1] s)
  (lower s)

-- gapic/utils/lines.py — is_list_item
def is_list_item (list_item : Str) : Bool :=
  if (decide ((len list_item) < (3 : Int))) then
  (false)
  else
  (((startswith list_item (['-', ' '] : Str)) || (startswith list_item (['+', ' '] : Str)) || (reMatch (.seq .bol (.seq (.seq (.cls false [.digit]) (.star (.cls false [.digit]) true)) (.seq (.chr '.') (.chr ' ')))) list_item)))

-- gapic/utils/lines.py — get_subsequent_line_indentation_level
def get_subsequent_line_indentation_level (list_item : Str) : Int :=
  if ((decide ((len list_item) ≥ (2 : Int))) && (strIn (slice list_item (some (0 : Int)) (some (2 : Int))) [(['-', ' '] : Str), (['+', ' '] : Str)])) then
  (let indentation_level : Int := (2 : Int)
  indentation_level)
  else
  (if ((decide ((len list_item) ≥ (4 : Int))) && (reMatch (.seq .bol (.seq (.seq (.cls false [.digit]) (.star (.cls false [.digit]) true)) (.seq (.chr '.') (.chr ' ')))) list_item)) then
  (let indentation_level : Int := (4 : Int)
  indentation_level)
  else
  (let indentation_level : Int := (0 : Int)
  indentation_level))

-- gapic/schema/metadata.py — Address.resolve
def address_resolve (self_package : List Str) (selector : Str) : Str :=
  if (!contains (['.'] : Str) selector) then
  (((join (['.'] : Str) self_package) ++ (['.'] : Str) ++ selector))
  else
  (selector)

-- gapic/generator/formatter.py — fix_whitespace
def fix_whitespace (code : Str) : Str :=
  let code : Str := (reSub (.seq (.seq (.chr ' ') (.star (.chr ' ') true)) (.chr (Char.ofNat 10))) [.lit [(Char.ofNat 10)]] code)
  let code : Str := (reSub (.seq (.seq (.cls false [.space]) (.star (.cls false [.space]) true)) (.seq (.chr (Char.ofNat 10)) (.seq (.star (.cls false [.space]) true) (.seq (.chr (Char.ofNat 10)) (.seq (.star (.cls false [.space]) true) (.seq (.chr (Char.ofNat 10)) (.group 1 (.alt (.seq (.chr 'c') (.seq (.chr 'l') (.seq (.chr 'a') (.seq (.chr 's') (.chr 's'))))) (.alt (.seq (.chr 'd') (.seq (.chr 'e') (.chr 'f'))) (.alt (.chr '@') (.alt (.chr '#') (.chr '_')))))))))))) [.lit [(Char.ofNat 10), (Char.ofNat 10), (Char.ofNat 10)], .grp 1] code)
  let code : Str := (reSub (.seq (.seq (.cls false [.space]) (.star (.cls false [.space]) true)) (.seq (.chr (Char.ofNat 10)) (.seq (.star (.cls false [.space]) true) (.seq (.chr (Char.ofNat 10)) (.seq (.group 1 (.seq (.group 2 (.seq (.chr ' ') (.seq (.chr ' ') (.seq (.chr ' ') (.chr ' '))))) (.star (.group 2 (.seq (.chr ' ') (.seq (.chr ' ') (.seq (.chr ' ') (.chr ' '))))) true))) (.group 3 (.cls false [.word, .ch '_', .ch '@', .ch '#']))))))) [.lit [(Char.ofNat 10), (Char.ofNat 10)], .grp 1, .grp 3] code)
  ((rstrip code) ++ ([(Char.ofNat 10)] : Str))

-- gapic/utils/code.py — make_private
def make_private (object_name : Str) : Str :=
  (if (startswith object_name (['_'] : Str)) then object_name else ((['_'] : Str) ++ object_name))

-- gapic/samplegen_utils/utils.py — coerce_response_name
def coerce_response_name (s : Str) : Str :=
  (replace s ['$', 'r', 'e', 's', 'p'] (['r', 'e', 's', 'p', 'o', 'n', 's', 'e'] : Str))

-- gapic/utils/case.py — to_camel_case
def to_camel_case (s : Str) : Str :=
  let items : List Str := (reSplit (.cls false [.ch '_', .ch '-']) (to_snake_case s))
  ((lower (head0 items)) ++ (join ([] : Str) (((slice items (some (1 : Int)) none)).map fun x_ => (capitalize x_))))

-- gapic/utils/uri_conv.py — convert_uri_fieldnames._fix_name_segment
def fix_name_segment (name_seg : Str) : Str :=
  (if (strIn name_seg (GapicModel.Pinned.reservedNames.map String.toList)) then (name_seg ++ (['_'] : Str)) else name_seg)

-- gapic/utils/uri_conv.py — convert_uri_fieldnames._fix_field_path
def fix_field_path (field_path : Str) : Str :=
  (join (['.'] : Str) (((split field_path ['.'])).map fun name_seg_ => (fix_name_segment name_seg_)))

-- gapic/schema/wrappers.py — FieldHeader.disambiguated
def field_header_disambiguated (self_raw : Str) : Str :=
  (join (['.'] : Str) (((split self_raw ['.'])).map fun segment_ => (if (strIn segment_ (GapicModel.Pinned.reservedNames.map String.toList)) then (segment_ ++ (['_'] : Str)) else segment_)))

-- gapic/schema/wrappers.py — RoutingParameter.disambiguated_field
def routing_param_disambiguated_field (self_field : Str) : Str :=
  (join (['.'] : Str) (((split self_field ['.'])).map fun segment_ => (if (strIn segment_ (GapicModel.Pinned.reservedNames.map String.toList)) then (segment_ ++ (['_'] : Str)) else segment_)))

-- gapic/schema/wrappers.py — Method.client_method_name
def client_method_name (self_name : Str) (self_is_internal : Bool) : Str :=
  let name : Str := (if (strIn (lower self_name) (GapicModel.Pinned.pyKeywords.map String.toList)) then (self_name ++ (['_'] : Str)) else self_name)
  (if self_is_internal then (make_private name) else name)

-- gapic/utils/lines.py — sort_lines
def sort_lines (text : Str) (dedupe : Bool) : Str :=
  let leading : Str := (if (startswith text ([(Char.ofNat 10)] : Str)) then ([(Char.ofNat 10)] : Str) else ([] : Str))
  let trailing : Str := (if (endswith text ([(Char.ofNat 10)] : Str)) then ([(Char.ofNat 10)] : Str) else ([] : Str))
  let lines : List Str := (((((split (strip text) [(Char.ofNat 10)])).filter fun i_ => (truthy (strip i_)))).map fun i_ => i_)
  if dedupe then
  (let lines : List Str := (dedup lines)
  let answer : Str := (join ([(Char.ofNat 10)] : Str) (sortStr lines))
  (leading ++ answer ++ trailing))
  else
  (let answer : Str := (join ([(Char.ofNat 10)] : Str) (sortStr lines))
  (leading ++ answer ++ trailing))

-- gapic/schema/wrappers.py — Service.client_name
def service_client_name (self_is_internal : Bool) (self_name : Str) : Str :=
  (((if self_is_internal then (['B', 'a', 's', 'e'] : Str) else ([] : Str)) ++ self_name) ++ (['C', 'l', 'i', 'e', 'n', 't'] : Str))

-- gapic/schema/wrappers.py — Service.async_client_name
def service_async_client_name (self_is_internal : Bool) (self_name : Str) : Str :=
  (((if self_is_internal then (['B', 'a', 's', 'e'] : Str) else ([] : Str)) ++ self_name) ++ (['A', 's', 'y', 'n', 'c', 'C', 'l', 'i', 'e', 'n', 't'] : Str))

-- gapic/schema/wrappers.py — Service.transport_name
def service_transport_name (self_name : Str) : Str :=
  (self_name ++ (['T', 'r', 'a', 'n', 's', 'p', 'o', 'r', 't'] : Str))

-- gapic/schema/wrappers.py — Service.grpc_transport_name
def service_grpc_transport_name (self_name : Str) : Str :=
  (self_name ++ (['G', 'r', 'p', 'c', 'T', 'r', 'a', 'n', 's', 'p', 'o', 'r', 't'] : Str))

-- gapic/schema/wrappers.py — Service.grpc_asyncio_transport_name
def service_grpc_asyncio_transport_name (self_name : Str) : Str :=
  (self_name ++ (['G', 'r', 'p', 'c', 'A', 's', 'y', 'n', 'c', 'I', 'O', 'T', 'r', 'a', 'n', 's', 'p', 'o', 'r', 't'] : Str))

-- gapic/schema/wrappers.py — Service.rest_transport_name
def service_rest_transport_name (self_name : Str) : Str :=
  (self_name ++ (['R', 'e', 's', 't', 'T', 'r', 'a', 'n', 's', 'p', 'o', 'r', 't'] : Str))

-- gapic/schema/wrappers.py — Service.module_name
def service_module_name (self_name : Str) : Str :=
  (to_snake_case self_name)

-- gapic/schema/naming.py — Naming.module_name
def naming_module_name (self_name : Str) : Str :=
  (to_valid_module_name self_name)

-- gapic/schema/naming.py — NewNaming.versioned_module_name
def new_naming_versioned_module_name (self_module_name : Str) (self_version : Str) : Str :=
  (self_module_name ++ (if (truthy self_version) then ((['_'] : Str) ++ self_version) else ([] : Str)))

-- gapic/schema/naming.py — OldNaming.versioned_module_name
def old_naming_versioned_module_name (self_module_name : Str) (self_version : Str) : Str :=
  (self_module_name ++ (if (truthy self_version) then ((['.'] : Str) ++ self_version) else ([] : Str)))

-- gapic/schema/metadata.py — Metadata.doc
def metadata_doc (leading : Str) (trailing : Str) (detached : List Str) : Str :=
  if (truthy leading) then
  ((strip leading))
  else
  (if (truthy trailing) then
  ((strip trailing))
  else
  (if (truthy detached) then
  ((join ([(Char.ofNat 10), (Char.ofNat 10)] : Str) detached))
  else
  (([] : Str))))

-- gapic/schema/wrappers.py — Field.name
def field_name (pb_name : Str) (is_proto_plus_type : Bool) : Str :=
  let name : Str := pb_name
  (if ((strIn name (GapicModel.Pinned.reservedNames.map String.toList)) && is_proto_plus_type) then (name ++ (['_'] : Str)) else name)

-- gapic/schema/wrappers.py — Method.void
def method_void (output_proto : Str) : Bool :=
  (output_proto == (['g', 'o', 'o', 'g', 'l', 'e', '.', 'p', 'r', 'o', 't', 'o', 'b', 'u', 'f', '.', 'E', 'm', 'p', 't', 'y'] : Str))

-- gapic/schema/wrappers.py — Service.client_package_version
def service_client_package_version (package : List Str) : Str :=
  (if (truthy package) then (idxList package (-1 : Int)) else ([] : Str))
/-- true iff no index expression evaluated by `service_client_package_version` on these arguments is out of range (Python raises IndexError otherwise) -/
def service_client_package_version_ok (package : List Str) : Bool :=
  (if (truthy package) then (inRange (len package) (-1 : Int)) else true)

-- gapic/schema/imp.py — Import.__str__
def import_str (self_alias : Str) (self_module : Str) (self_package : List Str) : Str :=
  let answer : Str := ((['i', 'm', 'p', 'o', 'r', 't', ' '] : Str) ++ self_module)
  if (truthy self_package) then
  (let answer : Str := ((['f', 'r', 'o', 'm', ' '] : Str) ++ (join (['.'] : Str) self_package) ++ ([' '] : Str) ++ answer)
  if (truthy self_alias) then
  (let answer : Str := (answer ++ (([' ', 'a', 's', ' '] : Str) ++ self_alias))
  if ((endswith self_module (['_', 'p', 'b', '2'] : Str)) || (strIn (['a', 'p', 'i', '_', 'c', 'o', 'r', 'e'] : Str) self_package)) then
  (let answer : Str := (answer ++ ([' ', ' ', '#', ' ', 't', 'y', 'p', 'e', ':', ' ', 'i', 'g', 'n', 'o', 'r', 'e'] : Str))
  answer)
  else
  (answer))
  else
  (if ((endswith self_module (['_', 'p', 'b', '2'] : Str)) || (strIn (['a', 'p', 'i', '_', 'c', 'o', 'r', 'e'] : Str) self_package)) then
  (let answer : Str := (answer ++ ([' ', ' ', '#', ' ', 't', 'y', 'p', 'e', ':', ' ', 'i', 'g', 'n', 'o', 'r', 'e'] : Str))
  answer)
  else
  (answer)))
  else
  (if (truthy self_alias) then
  (let answer : Str := (answer ++ (([' ', 'a', 's', ' '] : Str) ++ self_alias))
  if ((endswith self_module (['_', 'p', 'b', '2'] : Str)) || (strIn (['a', 'p', 'i', '_', 'c', 'o', 'r', 'e'] : Str) self_package)) then
  (let answer : Str := (answer ++ ([' ', ' ', '#', ' ', 't', 'y', 'p', 'e', ':', ' ', 'i', 'g', 'n', 'o', 'r', 'e'] : Str))
  answer)
  else
  (answer))
  else
  (if ((endswith self_module (['_', 'p', 'b', '2'] : Str)) || (strIn (['a', 'p', 'i', '_', 'c', 'o', 'r', 'e'] : Str) self_package)) then
  (let answer : Str := (answer ++ ([' ', ' ', '#', ' ', 't', 'y', 'p', 'e', ':', ' ', 'i', 'g', 'n', 'o', 'r', 'e'] : Str))
  answer)
  else
  (answer)))

-- gapic/schema/wrappers.py — Service.shortname
def service_shortname (self_host : Str) : Str :=
  (head0 (split self_host ['.']))

-- gapic/schema/naming.py — Naming.long_name
def naming_long_name (self_namespace : List Str) (self_name : Str) : Str :=
  (join ([' '] : Str) (self_namespace ++ ([self_name] : List Str)))

-- gapic/schema/naming.py — Naming.module_namespace
def naming_module_namespace (self_namespace : List Str) : List Str :=
  ((self_namespace).map fun i_ => (to_valid_module_name i_))

-- gapic/schema/naming.py — Naming.warehouse_package_name
def naming_warehouse_package_name (self__warehouse_package_name : Str) (self_namespace : List Str) (self_name : Str) : Str :=
  if (truthy self__warehouse_package_name) then
  (self__warehouse_package_name)
  else
  (let answer : List Str := (self_namespace ++ (split self_name [' ']))
  (lower (join (['-'] : Str) answer)))

-- gapic/schema/metadata.py — Address.__str__
def address_str (self_module : Str) (self_parent : List Str) (self_name : Str) (module_alias : Str) (is_proto_plus_type : Bool) : Str :=
  if (truthy self_module) then
  (let module_name : Str := self_module
  if (truthy module_alias) then
  (let module_name : Str := module_alias
  if (!is_proto_plus_type) then
  (let module_name : Str := (self_module ++ (['_', 'p', 'b', '2'] : Str))
  (join (['.'] : Str) ((([module_name] : List Str) ++ self_parent) ++ ([self_name] : List Str))))
  else
  ((join (['.'] : Str) ((([module_name] : List Str) ++ self_parent) ++ ([self_name] : List Str)))))
  else
  (if (!is_proto_plus_type) then
  (let module_name : Str := (self_module ++ (['_', 'p', 'b', '2'] : Str))
  (join (['.'] : Str) ((([module_name] : List Str) ++ self_parent) ++ ([self_name] : List Str))))
  else
  ((join (['.'] : Str) ((([module_name] : List Str) ++ self_parent) ++ ([self_name] : List Str))))))
  else
  ((join (['.'] : Str) (self_parent ++ ([self_name] : List Str))))

-- gapic/schema/metadata.py — Address.module_alias
def address_module_alias (self_module : Str) (self_collisions : List Str) (self_package : List Str) (api_version : Str) : Str :=
  if ((strIn self_module self_collisions) || (strIn self_module (GapicModel.Pinned.reservedNames.map String.toList))) then
  ((join (['_'] : Str) ([(join ([] : Str) ((self_package).flatMap fun i_ => (((((split i_ ['_'])).filter fun partial_name_ => ((i_ != api_version) && (truthy partial_name_)))).map fun partial_name_ => (idxStr partial_name_ (0 : Int))))), self_module] : List Str)))
  else
  (([] : Str))
/-- true iff no index expression evaluated by `address_module_alias` on these arguments is out of range (Python raises IndexError otherwise) -/
def address_module_alias_ok (self_module : Str) (self_collisions : List Str) (self_package : List Str) (api_version : Str) : Bool :=
  (if ((strIn self_module self_collisions) || (strIn self_module (GapicModel.Pinned.reservedNames.map String.toList))) then ((self_package).all fun i_ => (((split i_ ['_'])).all fun partial_name_ => (!(((i_ != api_version) && (truthy partial_name_))) || (inRange (len partial_name_) (0 : Int))))) else true)

-- gapic/schema/metadata.py — Address.proto
def address_proto (self_package : List Str) (self_parent : List Str) (self_name : Str) : Str :=
  (join (['.'] : Str) ((self_package ++ self_parent) ++ ([self_name] : List Str)))

-- gapic/schema/metadata.py — Address.proto_package
def address_proto_package (self_package : List Str) : Str :=
  (join (['.'] : Str) self_package)

-- gapic/schema/metadata.py — Address.convert_to_versioned_package
def address_versioned_package (self_package : List Str) : List Str :=
  let version_regex : Str := (['^', 'v', (Char.ofNat 92), 'd', '[', '^', '/', ']', '*', '$'] : Str)
  let regex_match : Option Str := (reMatchText (.seq .bol (.seq (.chr 'v') (.seq (.cls false [.digit]) (.seq (.star (.cls true [.ch '/']) true) .eol)))) (idxList self_package (-1 : Int)))
  if ((regex_match).isSome && (decide ((len self_package) > (1 : Int)))) then
  (let versioned_module : Str := ((idxList self_package (-2 : Int)) ++ (['_'] : Str) ++ (matchText regex_match))
  ((slice self_package none (some (-2 : Int))) ++ ([versioned_module] : List Str)))
  else
  (self_package)
/-- true iff no index expression evaluated by `address_versioned_package` on these arguments is out of range (Python raises IndexError otherwise) -/
def address_versioned_package_ok (self_package : List Str) : Bool :=
  (let version_regex : Str := (['^', 'v', (Char.ofNat 92), 'd', '[', '^', '/', ']', '*', '$'] : Str); ((inRange (len self_package) (-1 : Int)) && (let regex_match : Option Str := (reMatchText (.seq .bol (.seq (.chr 'v') (.seq (.cls false [.digit]) (.seq (.star (.cls true [.ch '/']) true) .eol)))) (idxList self_package (-1 : Int))); (if ((regex_match).isSome && (decide ((len self_package) > (1 : Int)))) then (inRange (len self_package) (-2 : Int)) else true))))

-- gapic/schema/metadata.py — Address.subpackage
def address_subpackage (self_package : List Str) (api_proto_package : Str) : List Str :=
  (slice self_package (some (len (split api_proto_package ['.']))) none)

-- gapic/schema/metadata.py — Address.python_import
def address_python_import (self_package : List Str) (self_module : Str) (api_module_namespace : List Str) (api_versioned_module_name : Str) (api_proto_package : Str) (api_naming_truthy : Bool) (proto_package : Str) (subpackage : List Str) (is_proto_plus_type : Bool) (versioned_package : List Str) (module_alias : Str) : PyImport :=
  if (!api_naming_truthy) then
  ((PyImport.mk self_package self_module module_alias))
  else
  (if (startswith proto_package api_proto_package) then
  ((PyImport.mk (((api_module_namespace ++ ([api_versioned_module_name] : List Str)) ++ subpackage) ++ ([(['t', 'y', 'p', 'e', 's'] : Str)] : List Str)) self_module module_alias))
  else
  (if is_proto_plus_type then
  ((PyImport.mk (versioned_package ++ ([(['t', 'y', 'p', 'e', 's'] : Str)] : List Str)) self_module module_alias))
  else
  ((PyImport.mk self_package (self_module ++ (['_', 'p', 'b', '2'] : Str)) ([] : Str)))))

-- gapic/schema/metadata.py — Address.rel
def address_rel (self_package : List Str) (self_module : Str) (self_parent : List Str) (self_name : Str) (other_package : List Str) (other_module : Str) (other_parent : List Str) (other_name : Str) (self_str : Str) : Str :=
  if ((self_package == other_package) && (self_module == other_module)) then
  (if ((truthy self_parent) && (truthy other_parent) && ((idxList self_parent (0 : Int)) == (idxList other_parent (0 : Int)))) then
  ((([(Char.ofNat 39)] : Str) ++ (join (['.'] : Str) self_parent) ++ (['.'] : Str) ++ self_name ++ ([(Char.ofNat 39)] : Str)))
  else
  (if ((truthy self_parent) && (!(truthy other_parent)) && ((idxList self_parent (0 : Int)) == other_name)) then
  ((join (['.'] : Str) ((slice self_parent (some (1 : Int)) none) ++ ([self_name] : List Str))))
  else
  ((([(Char.ofNat 39)] : Str) ++ (join (['.'] : Str) (self_parent ++ ([self_name] : List Str))) ++ ([(Char.ofNat 39)] : Str)))))
  else
  (self_str)
/-- true iff no index expression evaluated by `address_rel` on these arguments is out of range (Python raises IndexError otherwise) -/
def address_rel_ok (self_package : List Str) (self_module : Str) (self_parent : List Str) (self_name : Str) (other_package : List Str) (other_module : Str) (other_parent : List Str) (other_name : Str) (self_str : Str) : Bool :=
  (if ((self_package == other_package) && (self_module == other_module)) then ((!(truthy self_parent) || (!(truthy other_parent) || ((inRange (len self_parent) (0 : Int)) && (inRange (len other_parent) (0 : Int))))) && (if ((truthy self_parent) && (truthy other_parent) && ((idxList self_parent (0 : Int)) == (idxList other_parent (0 : Int)))) then true else (!(truthy self_parent) || (!(!(truthy other_parent)) || (inRange (len self_parent) (0 : Int)))))) else true)

-- gapic/schema/metadata.py — Address.sphinx
def address_sphinx (self_package : List Str) (self_module : Str) (self_parent : List Str) (self_name : Str) (api_module_namespace : List Str) (api_versioned_module_name : Str) (api_proto_package : Str) (api_naming_truthy : Bool) (proto_package : Str) (subpackage : List Str) (is_proto_plus_type : Bool) (versioned_package : List Str) (self_str : Str) : Str :=
  if (!api_naming_truthy) then
  (if (truthy self_package) then
  ((join (['.'] : Str) (self_package ++ ([self_module, self_name] : List Str))))
  else
  (self_str))
  else
  (if (startswith proto_package api_proto_package) then
  ((join (['.'] : Str) (((((api_module_namespace ++ ([api_versioned_module_name] : List Str)) ++ subpackage) ++ ([(['t', 'y', 'p', 'e', 's'] : Str)] : List Str)) ++ self_parent) ++ ([self_name] : List Str))))
  else
  (if is_proto_plus_type then
  ((join (['.'] : Str) (((versioned_package ++ ([(['t', 'y', 'p', 'e', 's'] : Str)] : List Str)) ++ self_parent) ++ ([self_name] : List Str))))
  else
  ((proto_package ++ (['.'] : Str) ++ self_module ++ (['_', 'p', 'b', '2', '.'] : Str) ++ self_name))))

end GapicModel.Generated.Funcs
