import GapicModel.Model.AddressT
/-
Theorems about `Address` naming, stated over the bodies translated from the current source (Model/AddressT.lean).
No Mathlib.
-/
namespace GapicModel.Lemmas.AddressT
open GapicModel.PyRt GapicModel.Pinned.Funcs GapicModel.Model.AddressT

/-- `bool(api_naming)` is false only for the all-default `Naming` (its `__bool__` is `any(fields)`), whose `proto_package` is "" -/
def NamingInv (n : NamingV) : Prop := n.truthy = false → n.protoPackage = []

theorem startswith_nil (s : Str) : startswith s [] = true := by simp [startswith]

/-- **the import binds the name the references use** — for every address with a module, under every naming:
`str(address)` is `<bound name of address.python_import>.<parent…>.<name>`, in all four import branches (no naming,
own API, proto-plus dependency, `_pb2` dependency), with or without an alias.  (The seeded change of round 8 that
dropped `alias=` from the proto-plus branch makes this false.) -/
theorem import_binds_str_head (a : Addr) (hm : truthy a.module = true) (hn : NamingInv a.naming) :
    str a = join ['.'] ([bound (pythonImport a)] ++ a.parent ++ [a.name]) := by
  unfold str pythonImport address_str address_python_import bound
  simp only [hm, if_true]
  by_cases ht : a.naming.truthy = true
  · simp only [ht, Bool.not_true, Bool.false_eq_true, if_false]
    by_cases hs : startswith (protoPackage a) a.naming.protoPackage = true
    · have hp : isProtoPlus a = true := by simp [isProtoPlus, hs]
      simp only [hs, hp, if_true, Bool.not_true, Bool.false_eq_true, if_false]
      by_cases ha : truthy (moduleAlias a) = true <;> simp [ha]
    · simp only [hs, if_false]
      by_cases hp : isProtoPlus a = true
      · simp only [hp, if_true, Bool.not_true, Bool.false_eq_true, if_false]
        by_cases ha : truthy (moduleAlias a) = true <;> simp [ha]
      · have hp' : isProtoPlus a = false := by simpa using hp
        simp only [hp', Bool.false_eq_true, if_false, Bool.not_false, if_true]
        have : truthy ([] : Str) = false := by simp [truthy]
        by_cases ha : truthy (moduleAlias a) = true <;> simp [ha, this]
  · have ht' : a.naming.truthy = false := by simpa using ht
    have hpp := hn ht'
    have hp : isProtoPlus a = true := by simp [isProtoPlus, hpp, startswith_nil]
    simp only [ht', Bool.not_false, if_true, hp, Bool.not_true, Bool.false_eq_true, if_false]
    by_cases ha : truthy (moduleAlias a) = true <;> simp [ha]

theorem truthy_iff_len {α} (l : List α) : truthy l = true ↔ l ≠ [] := by
  cases l <;> simp [truthy]

theorem inRange_zero_of_truthy {α} (l : List α) (h : truthy l = true) : inRange (len l) 0 = true := by
  cases l with
  | nil => simp [truthy] at h
  | cons x xs =>
    simp [inRange, len]
    omega

/-- `Address.rel` never raises IndexError: every `parent[0]` is guarded by the truthiness of that tuple -/
theorem rel_never_raises (sp : List Str) (sm : Str) (spar : List Str) (sn : Str) (op : List Str) (om : Str) (opar : List Str) (on s : Str) :
    address_rel_ok sp sm spar sn op om opar on s = true := by
  unfold address_rel_ok
  by_cases h1 : truthy spar = true <;> by_cases h2 : truthy opar = true <;>
    simp [h1, h2, inRange_zero_of_truthy]

/-- `Address.module_alias` never raises (after a6e34e6: empty `_`-parts are skipped; before it this was false, e.g. for the
package segment `lib_`) -/
theorem module_alias_never_raises (m : Str) (c pk : List Str) (v : Str) : address_module_alias_ok m c pk v = true := by
  unfold address_module_alias_ok
  split
  · simp only [List.all_eq_true]
    intro i _ pn _
    by_cases h : ((i != v) && truthy pn) = true
    · have ht : truthy pn = true := by
        simp only [Bool.and_eq_true] at h; exact h.2
      simp [h, inRange_zero_of_truthy pn ht]
    · simp [h]
  · rfl

/-- `convert_to_versioned_package` raises exactly for the empty package -/
theorem versioned_package_ok_iff (pk : List Str) : address_versioned_package_ok pk = true ↔ pk ≠ [] := by
  unfold address_versioned_package_ok
  cases pk with
  | nil => simp [inRange, len]
  | cons x xs =>
    simp only [ne_eq, reduceCtorEq, not_false_eq_true, iff_true]
    have h1 : inRange (len (x :: xs)) (-1) = true := by
      simp only [inRange, len, List.length_cons, Bool.and_eq_true]
      refine ⟨decide_eq_true ?_, decide_eq_true ?_⟩ <;> omega
    simp only [h1, Bool.true_and]
    split
    · rename_i h
      simp only [Bool.and_eq_true, decide_eq_true_eq] at h
      simp only [inRange, Bool.and_eq_true, decide_eq_true_eq]
      have := h.2
      omega
    · rfl

/-- the alias, when there is one, is `<initials>_<module>`; there is one exactly when the module name collides or is reserved -/
theorem module_alias_shape (m : Str) (c pk : List Str) (v : Str) :
    (address_module_alias m c pk v = [] ∧ (strIn m c || strIn m (Pinned.reservedNames.map String.toList)) = false) ∨
    (∃ ini, address_module_alias m c pk v = ini ++ ['_'] ++ m ∧ (strIn m c || strIn m (Pinned.reservedNames.map String.toList)) = true) := by
  unfold address_module_alias
  split
  · rename_i h
    right
    exact ⟨_, rfl, h⟩
  · rename_i h
    left
    exact ⟨rfl, by simpa using h⟩

/-- an alias is never the module name itself (so an aliased import really frees the colliding name) -/
theorem module_alias_ne_module (m : Str) (c pk : List Str) (v : Str) (h : address_module_alias m c pk v ≠ []) :
    address_module_alias m c pk v ≠ m := by
  rcases module_alias_shape m c pk v with ⟨h0, _⟩ | ⟨ini, he, _⟩
  · exact absurd h0 h
  · rw [he]
    intro e
    have := congrArg List.length e
    simp at this
    omega

def quoted (s : Str) : Prop := ∃ body, s = [Char.ofNat 39] ++ body ++ [Char.ofNat 39]

/-- **what `rel` can answer.**  For a type of another file: `str(self)`.  For a type of the file being written: a QUOTED
(late-bound) name — except for a type nested in the top-level message being written (`address.parent = ()` and
`self.parent[0] == address.name`), which gets the bare name relative to that message.  In particular a bare name is never
produced for a reference to the enclosing message itself or to an earlier top-level declaration (the seeded change of
round 8 did that). -/
theorem rel_cases (a b : Addr) :
    ((a.package == b.package && a.module == b.module) = false ∧ rel a b = str a) ∨
    ((a.package == b.package && a.module == b.module) = true ∧
      (quoted (rel a b) ∨
       (b.parent = [] ∧ a.parent.head? = some b.name ∧ rel a b = join ['.'] (a.parent.drop 1 ++ [a.name])))) := by
  unfold rel address_rel
  by_cases hf : (a.package == b.package && a.module == b.module) = true
  · right
    refine ⟨hf, ?_⟩
    simp only [hf, if_true]
    split
    · left; exact ⟨join ['.'] a.parent ++ ['.'] ++ a.name, by simp [List.append_assoc]⟩
    · split
      · rename_i h
        right
        simp only [Bool.and_eq_true, Bool.not_eq_true', beq_iff_eq] at h
        obtain ⟨⟨hp, hb⟩, hh⟩ := h
        have hb' : b.parent = [] := by
          cases hbp : b.parent with
          | nil => rfl
          | cons x xs => rw [hbp] at hb; simp [truthy] at hb
        cases hap : a.parent with
        | nil => rw [hap] at hp; simp [truthy] at hp
        | cons x xs =>
          rw [hap] at hh
          refine ⟨hb', ?_, ?_⟩
          · simp only [idxList] at hh
            simpa using hh
          · simp [slice, normIdx]
      · left; exact ⟨join ['.'] (a.parent ++ [a.name]), by simp [List.append_assoc]⟩
  · left
    have hf' : (a.package == b.package && a.module == b.module) = false := by simpa using hf
    exact ⟨hf', by simp [hf']⟩

/-! ### the alias scheme is not injective (a genuine defect of the unchanged tree, recorded as a C12 finding) -/

/-- the initials part of an alias -/
def initials (pk : List Str) (v : Str) : Str :=
  join [] (pk.flatMap fun i => ((split i ['_']).filter fun pn => (i != v) && truthy pn).map fun pn => idxStr pn 0)

theorem module_alias_eq_initials (m : Str) (c pk : List Str) (v : Str)
    (h : (strIn m c || strIn m (Pinned.reservedNames.map String.toList)) = true) :
    address_module_alias m c pk v = initials pk v ++ ['_'] ++ m := by
  unfold address_module_alias initials
  simp only [h, if_true]
  rfl

/-- **counterexample to "two imported modules that share a base name get different aliases"**: the sub-packages `admin` and
`audit` of `acme.lib.v1` have the same initials, so `common.proto` of both is imported `as ala_common` and the second import
rebinds the first (replayed on the real generator: corpus/C12, finding `alias-collision:same-initials`) -/
theorem alias_not_injective_counterexample :
    address_module_alias "common".toList ["common".toList] ["acme".toList, "lib".toList, "v1".toList, "admin".toList] "v1".toList =
    address_module_alias "common".toList ["common".toList] ["acme".toList, "lib".toList, "v1".toList, "audit".toList] "v1".toList := by
  decide

/-- what does hold (`…_partial`: the full claim "different packages ⇒ different aliases" is false, see above): two colliding
modules of the same base name get different aliases exactly when their packages' initials differ -/
theorem alias_distinct_iff_initials_partial (m : Str) (c1 c2 pk1 pk2 : List Str) (v : Str)
    (h1 : (strIn m c1 || strIn m (Pinned.reservedNames.map String.toList)) = true)
    (h2 : (strIn m c2 || strIn m (Pinned.reservedNames.map String.toList)) = true) :
    address_module_alias m c1 pk1 v = address_module_alias m c2 pk2 v ↔ initials pk1 v = initials pk2 v := by
  rw [module_alias_eq_initials m c1 pk1 v h1, module_alias_eq_initials m c2 pk2 v h2]
  constructor
  · intro h
    have := List.append_cancel_right h
    exact List.append_cancel_right this
  · intro h; rw [h]

/-! ### a proto-plus dependency type in a SUB-package of a versioned package (finding `proto-plus-dep:sub-package-of-versioned`, C12) -/

/-- `convert_to_versioned_package` only recognises the version as the LAST segment: for `acme.dep.v1.sub` it answers the package
unchanged, so the import is `from acme.dep.v1.sub.types import common`, while the dependency's own library (this generator, own-API
branch: module namespace + `dep_v1` + sub-package + `types`) ships `….dep_v1.sub.types` — replayed on the real `Address` objects -/
theorem versioned_package_subpackage_counterexample :
    address_versioned_package ["acme".toList, "dep".toList, "v1".toList, "sub".toList]
      = ["acme".toList, "dep".toList, "v1".toList, "sub".toList] ∧
    address_versioned_package ["acme".toList, "dep".toList, "v1".toList] = ["acme".toList, "dep_v1".toList] := by
  decide

/-! ### the text of the import statement (`Import.__str__`, translated) -/

/-- **the emitted import line is `[from <package> ]import <module>[ as <alias>][  # type: ignore]`** — so, by Python's
grammar, the name it binds is the alias when there is one and the module otherwise: exactly `bound` (and by
`import_binds_str_head` the head of every reference to a type of that module) -/
theorem import_str_shape (alias module : Str) (package : List Str) :
    ∃ pre post, import_str alias module package =
        pre ++ "import ".toList ++ module ++ (if truthy alias then " as ".toList ++ alias else []) ++ post ∧
      (pre = [] ∨ pre = "from ".toList ++ join ['.'] package ++ [' ']) ∧
      (post = [] ∨ post = "  # type: ignore".toList) := by
  unfold import_str
  by_cases hp : truthy package = true <;> by_cases ha : truthy alias = true <;>
    by_cases hi : (endswith module ['_', 'p', 'b', '2'] || strIn ['a', 'p', 'i', '_', 'c', 'o', 'r', 'e'] package) = true
  all_goals simp only [hp, ha, hi, if_true, if_false, Bool.false_eq_true]
  · exact ⟨"from ".toList ++ join ['.'] package ++ [' '], "  # type: ignore".toList, by simp [List.append_assoc], Or.inr rfl, Or.inr rfl⟩
  · exact ⟨"from ".toList ++ join ['.'] package ++ [' '], [], by simp [List.append_assoc], Or.inr rfl, Or.inl rfl⟩
  · exact ⟨"from ".toList ++ join ['.'] package ++ [' '], "  # type: ignore".toList, by simp [List.append_assoc], Or.inr rfl, Or.inr rfl⟩
  · exact ⟨"from ".toList ++ join ['.'] package ++ [' '], [], by simp [List.append_assoc], Or.inr rfl, Or.inl rfl⟩
  · exact ⟨[], "  # type: ignore".toList, by simp [List.append_assoc], Or.inl rfl, Or.inr rfl⟩
  · exact ⟨[], [], by simp [List.append_assoc], Or.inl rfl, Or.inl rfl⟩
  · exact ⟨[], "  # type: ignore".toList, by simp [List.append_assoc], Or.inl rfl, Or.inr rfl⟩
  · exact ⟨[], [], by simp [List.append_assoc], Or.inl rfl, Or.inl rfl⟩

end GapicModel.Lemmas.AddressT
