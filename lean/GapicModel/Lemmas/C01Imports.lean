import GapicModel.Model.Imports
import GapicModel.Pinned.Templates
/-
Helper lemmas of Props/C01 about `Model/Imports.lean`: Boolean-parameter forms of `imports` / `emitted`,
list arithmetic of `resolveRel`, the layout of the service directory, membership in `renders`, the scan of `empty`.
-/
namespace GapicModel.Lemmas.C01Imports
open GapicModel GapicModel.Model.Emit GapicModel.Model.Transports GapicModel.Model.Imports

/-! ### Boolean-parameter forms -/

/-- `imports` as a function of (grpc listed, rest listed, async REST, paged) -/
def importsB (g r a paged : Bool) : SMod → List Imp
  | .init => [relTo [sClient] .client] ++ (if g then [relTo [sAsyncClient] .asyncClient] else [])
  | .client =>
    [⟨.rootAbs, [sGapicVersion], true, .gapicVersion⟩] ++
    (if paged then [⟨.svcAbs, [sPagers], true, .pagers⟩] else []) ++
    [relTo [sTransports, sBase] .base] ++
    (if g then [relTo [sTransports, grpc] .grpc, relTo [sTransports, grpcAsyncio] .grpcAsyncio] else []) ++
    (if r then
      [relTo [sTransports, rest] .rest] ++
      (if a then [⟨.rel 1, [sTransports, restAsyncio], false, .restAsyncio⟩] else []) else [])
  | .asyncClient =>
    [⟨.rootAbs, [sGapicVersion], true, .gapicVersion⟩] ++
    (if paged then [⟨.svcAbs, [sPagers], true, .pagers⟩] else []) ++
    [relTo [sTransports, sBase] .base, relTo [sTransports, grpcAsyncio] .grpcAsyncio, relTo [sClient] .client]
  | .pagers => []
  | .tInit =>
    [relTo [sBase] .base] ++
    (if g then [relTo [grpc] .grpc, relTo [grpcAsyncio] .grpcAsyncio] else []) ++
    (if r then [relTo [rest] .rest] ++ (if a then [⟨.rel 1, [restAsyncio], false, .restAsyncio⟩] else []) else [])
  | .base => [⟨.rootAbs, [sGapicVersion], true, .gapicVersion⟩]
  | .grpc => [relTo [sBase] .base]
  | .grpcAsyncio => [relTo [sBase] .base, relTo [grpc] .grpc]
  | .rest => [relTo [sRestBase] .restBase, relTo [sBase] .base]
  | .restBase => [relTo [sBase] .base]
  | .restAsyncio => [relTo [sRestBase] .restBase, relTo [sBase] .base]
  | .gapicVersion => []

theorem imports_eq (o : Opts) (paged : Bool) (m : SMod) :
    imports o paged m = importsB (o.transport.contains grpc) (o.transport.contains rest) o.restAsync paged m := by
  cases m <;> rfl

/-- the closed form of `emitted`: which service-level modules are in the response -/
def emittedT (g r a paged : Bool) : SMod → Bool
  | .init | .client | .tInit | .base | .gapicVersion => true
  | .asyncClient => g || a
  | .pagers => paged
  | .grpc | .grpcAsyncio => g
  | .rest | .restBase => r
  | .restAsyncio => r && a

/-! ### list arithmetic of `resolveRel` -/

theorem dropLastN_append {α} (k : Nat) (d x : List α) (h : k ≤ x.length) :
    dropLastN k (d ++ x) = d ++ dropLastN k x := by
  unfold dropLastN
  rw [List.take_append]
  have h1 : (d ++ x).length - k - d.length = x.length - k := by simp; omega
  have h2 : d.length ≤ (d ++ x).length - k := by simp; omega
  rw [h1, List.take_of_length_le h2]

theorem dropLast_append_ne {α} (d x : List α) (h : x ≠ []) : (d ++ x).dropLast = d ++ x.dropLast := by
  exact List.dropLast_append_of_ne_nil h

/-- a relative import that does not climb above the directory `d` resolves below `d` -/
theorem resolveRel_prefix (d r : Path) (n : Nat) (p : Path) (h : n ≤ r.length) (hn : 1 ≤ n) :
    resolveRel (d ++ r) n p = d ++ resolveRel r n p := by
  unfold resolveRel
  have hr : r ≠ [] := by intro h0; subst h0; simp at h; omega
  rw [dropLast_append_ne d r hr, dropLastN_append (n - 1) d r.dropLast (by simp; omega), List.append_assoc]

/-! ### the scan of `empty` -/

theorem emptyScan_comment_line (l : Str) (hn : '\n' ∉ l) : emptyScan true l = true := by
  induction l with
  | nil => rfl
  | cons c cs ih =>
    have hc : c ≠ '\n' := by intro h; subst h; simp at hn
    have hcs : '\n' ∉ cs := by intro h; exact hn (by simp [h])
    simp [emptyScan, hc, ih hcs]

theorem emptyScan_append_newline (st : Bool) (a b : Str) :
    emptyScan st (a ++ '\n' :: b) = (emptyScan st a && emptyScan false b) := by
  induction a generalizing st with
  | nil => simp [emptyScan]
  | cons c cs ih =>
    simp only [List.cons_append, emptyScan]
    by_cases h1 : c = '\n'
    · simp [h1, ih]
    · simp only [h1, if_false]
      cases st with
      | true => simp [ih]
      | false =>
        simp only [Bool.false_eq_true, if_false]
        by_cases h2 : PyRt.isWs c = true
        · simp [h2, ih]
        · simp only [h2]
          by_cases h3 : c = '#'
          · simp [h3, ih]
          · simp [h3]

theorem emptyScan_line (l : Str) (hn : '\n' ∉ l) : emptyScan false l = blankOrComment l := by
  induction l with
  | nil => rfl
  | cons c cs ih =>
    have hc : c ≠ '\n' := by intro h; subst h; simp at hn
    have hcs : '\n' ∉ cs := by intro h; exact hn (by simp [h])
    simp only [emptyScan, hc, if_false, Bool.false_eq_true]
    by_cases h2 : PyRt.isWs c = true
    · have : blankOrComment (c :: cs) = blankOrComment cs := by
        simp [blankOrComment, PyRt.lstrip, List.dropWhile, h2]
      simp [h2, this, ih hcs]
    · have hl : PyRt.lstrip (c :: cs) = c :: cs := by simp [PyRt.lstrip, List.dropWhile, h2]
      simp only [h2, blankOrComment, hl]
      by_cases h3 : c = '#'
      · simp [h3, emptyScan_comment_line cs hcs]
      · simp [h3]


/-! ### layout of the service directory, membership in `renders` -/

def sServices : Str := ['s', 'e', 'r', 'v', 'i', 'c', 'e', 's']

/-- the output directory of a service's package -/
def svcDirOf (nm : Naming) (view : Path) (s : Str) : Path :=
  nm.nsSegs.filter (· ≠ []) ++ (if nm.versioned = [] then [] else [nm.versioned]) ++ view.filter (· ≠ []) ++ [sServices, s]

/-- the output file of a service-level module -/
def fileOf (nm : Naming) (view : Path) (s : Str) (m : SMod) : Path :=
  getFilename ⟨nm, view, some s, none⟩ (parseTemplate m.template)

theorem parse_templates : ∀ m : SMod, m ≠ .gapicVersion →
    parseTemplate m.template =
      [[.var .ns], [.var .nameVersion], [.var .sub], [.lit sServices], [.var .service]] ++ m.rel.map (fun x => [Part.lit x]) := by
  intro m; cases m <;> intro h <;> first | exact absurd rfl h | decide

theorem getFilename_lits (c : Ctx) (l : Path) (h : ∀ x ∈ l, x ≠ []) :
    getFilename c (l.map fun x => [Part.lit x]) = l := by
  induction l with
  | nil => rfl
  | cons x xs ih =>
    have hx : x ≠ [] := h x (by simp)
    have ih' := ih (fun y hy => h y (by simp [hy]))
    simp only [getFilename, List.map_cons, List.flatten_cons] at ih' ⊢
    rw [ih']
    simp [segOut, partText, hx]

theorem rel_nonempty : ∀ m : SMod, ∀ x ∈ m.rel, x ≠ [] := by
  intro m; cases m <;> decide

theorem service_file_layout (nm : Naming) (view : Path) (s : Str) (m : SMod) (hs : s ≠ []) (hm : m ≠ .gapicVersion) :
    fileOf nm view s m = svcDirOf nm view s ++ m.rel := by
  unfold fileOf
  rw [parse_templates m hm]
  have happ : ∀ (c : Ctx) (d rest : TPath), getFilename c (d ++ rest) = getFilename c d ++ getFilename c rest := by
    intro c d rest; simp [getFilename]
  rw [happ, getFilename_lits _ _ (rel_nonempty m)]
  congr 1
  simp [getFilename, segOut, partText, varText, svcDirOf, hs, sServices]

/-- the service `s` belongs to the API view `view` of the shape -/
def InView (sh : Shape) (view : Path) (s : Str) : Prop :=
  (view = [] ∧ s ∈ sh.root.services) ∨ ∃ sp ∈ sh.subs, sp.view = view ∧ s ∈ sp.services

theorem template_facts : ∀ m : SMod, m ≠ .gapicVersion →
    m.template ∈ Pinned.templatesChars ∧ isPrivate m.template = false ∧ isSampleTemplate m.template = false ∧
    ['g', 'a', 'p', 'i', 'c', '_', 'm', 'e', 't', 'a', 'd', 'a', 't', 'a', '.', 'j', 's', 'o', 'n', '.', 'j', '2'].isSuffixOf m.template = false ∧
    startsWith ['%', 'n', 'a', 'm', 'e', 's', 'p', 'a', 'c', 'e', '/', '%', 'n', 'a', 'm', 'e', '/'] m.template = false ∧
    hasVar (parseTemplate m.template) .sub = true ∧ hasVar (parseTemplate m.template) .proto = false ∧
    hasVar (parseTemplate m.template) .service = true := by
  intro m; cases m <;> intro h <;> first | exact absurd rfl h | decide +kernel

/-- a service-level module whose gate is open is rendered for every service of every view -/
theorem service_module_rendered (o : Opts) (sh : Shape) (view : Path) (s : Str) (m : SMod) (hm : m ≠ .gapicVersion)
    (hin : InView sh view s) (hg : serviceGate m.template o = true) :
    fileOf sh.naming view s m ∈ renders o sh Pinned.templatesChars := by
  obtain ⟨hmem, hpriv, hsample, hmeta, hstart, hsub, hproto, hsvc⟩ := template_facts m hm
  simp only [renders, List.mem_flatMap, List.mem_filter]
  refine ⟨m.template, ⟨hmem, by simp [hpriv, hsample]⟩, ?_⟩
  unfold renderTemplate
  simp only [hmeta, hstart, hsub, Bool.and_false, Bool.false_and, Bool.false_eq_true, if_false, if_true]
  have hrv : ∀ (services protos : List Str), s ∈ services →
      fileOf sh.naming view s m ∈ renderView o sh.naming m.template (parseTemplate m.template) view services protos := by
    intro services protos hs
    simp only [renderView, hproto, hsvc, hg, Bool.false_eq_true, if_false, if_true, List.mem_map]
    exact ⟨s, hs, rfl⟩
  rcases hin with ⟨hv, hs⟩ | ⟨sp, hsp, hv, hs⟩
  · subst hv
    apply List.mem_append_right
    cases hsub' : sh.subs.isEmpty with
    | true => simp only [if_true]; exact hrv _ _ (by simp [allServices, hs])
    | false => simp only [Bool.false_eq_true, if_false]; exact hrv _ _ hs
  · subst hv
    apply List.mem_append_left
    simp only [List.mem_flatMap]
    exact ⟨sp, hsp, hrv _ _ hs⟩

end GapicModel.Lemmas.C01Imports
