import GapicModel.Model.Paging
/-
Helper lemmas for C07's small-step pager model (`Model/Paging.lean`: `fetch`, `genNext`, `itemNext`,
`step`, `exec`): the invariant every program preserves, and the link between an iterator's state
and the big-step page loop `pagesGen`.
-/
namespace GapicModel.Lemmas.C07Steps
open GapicModel.Model.Paging

variable {ι ρ : Type}

/-! ### big-step facts -/

theorem pagesGen_stop (st : PState ι ρ) (srv : List (Page ι)) (h : st.resp.token = [] ∨ srv = []) :
    (pagesGen st srv).1 = [st.resp] := by
  cases srv with
  | nil => simp [pagesGen]
  | cons q srv =>
    rcases h with h | h
    · simp [pagesGen, h]
    · simp at h

theorem pagesGen_go (st : PState ι ρ) (q : Page ι) (srv : List (Page ι)) (h : st.resp.token ≠ []) :
    (pagesGen st (q :: srv)).1 =
      st.resp :: (pagesGen ⟨{ st.req with token := st.resp.token }, q⟩ srv).1 := by
  simp [pagesGen, h]

/-! ### the pages a generator in state `g` will still yield, read off the big-step loop -/

def pagesFrom : GenSt → World ι ρ → List (Page ι)
  | .fresh, w => (pagesGen ⟨w.req, w.resp⟩ w.srv).1
  | .running, w => (pagesGen ⟨w.req, w.resp⟩ w.srv).1.tail
  | .done, _ => []

/-- the items an item iterator `(g, buf)` will still yield -/
def future (it : GenSt × List ι) (w : World ι ρ) : List ι :=
  it.2 ++ (pagesFrom it.1 w).flatMap (·.items)

theorem pagesFrom_fresh (w : World ι ρ) :
    pagesFrom .fresh w = w.resp :: pagesFrom .running w := by
  simp only [pagesFrom]
  cases hs : w.srv with
  | nil => simp [pagesGen]
  | cons q srv =>
    by_cases h : w.resp.token = []
    · simp [pagesGen, h]
    · simp [pagesGen, h]

theorem fetch_none (w : World ι ρ) (h : fetch w = none) : pagesFrom .running w = [] := by
  simp only [pagesFrom]
  have : w.resp.token = [] ∨ w.srv = [] := by
    unfold fetch at h
    by_cases ht : w.resp.token = []
    · exact Or.inl ht
    · right
      simp only [ht, if_false] at h
      cases hs : w.srv with
      | nil => rfl
      | cons q rest => simp [hs] at h
  have := pagesGen_stop (ρ := ρ) ⟨w.req, w.resp⟩ w.srv this
  simp [this]

theorem fetch_some (w w' : World ι ρ) (q : Page ι) (h : fetch w = some (q, w')) :
    pagesFrom .running w = q :: pagesFrom .running w' ∧ w'.srv.length + 1 = w.srv.length := by
  unfold fetch at h
  by_cases ht : w.resp.token = []
  · simp [ht] at h
  · simp only [ht, if_false] at h
    cases hs : w.srv with
    | nil => simp [hs] at h
    | cons q0 rest =>
      simp only [hs, Option.some.injEq, Prod.mk.injEq] at h
      obtain ⟨hq, hw⟩ := h
      subst hq
      subst hw
      constructor
      · have h1 := pagesGen_go (ρ := ρ) ⟨w.req, w.resp⟩ q0 rest ht
        have h2 := pagesFrom_fresh (ι := ι) (ρ := ρ)
          { w with req := { w.req with token := w.resp.token }, resp := q0, srv := rest,
                   sent := w.sent ++ [{ w.req with token := w.resp.token }] }
        simp only [pagesFrom, hs] at h2 ⊢
        rw [h1]
        simp only [List.tail_cons]
        exact h2
      · simp

/-- fuel that suffices for `itemNext` on an iterator whose private generator is in state `g` -/
def need (g : GenSt) (w : World ι ρ) : Nat :=
  match g with
  | .fresh => w.srv.length + 2
  | _ => w.srv.length + 1

/-- **`next(it)` returns the head of the iterator's future and leaves it with the tail** -/
theorem itemNext_spec (fuel : Nat) (g : GenSt) (buf : List ι) (w : World ι ρ) (hf : need g w ≤ fuel) :
    (itemNext fuel (g, buf) w).1 = (future (g, buf) w).head? ∧
    future (itemNext fuel (g, buf) w).2.1 (itemNext fuel (g, buf) w).2.2 = (future (g, buf) w).tail := by
  induction fuel generalizing g buf w with
  | zero =>
    cases g <;> simp [need] at hf
  | succ fuel ih =>
    cases buf with
    | cons x buf => simp [itemNext, future]
    | nil =>
      cases g with
      | fresh =>
        simp only [itemNext, genNext]
        have := ih .running w.resp.items w (by simp [need] at hf ⊢; omega)
        have hfr := pagesFrom_fresh w
        simp only [future, hfr, List.nil_append, List.flatMap_cons] at this ⊢
        exact this
      | done =>
        simp [itemNext, genNext, future, pagesFrom]
      | running =>
        simp only [itemNext, genNext]
        cases hfe : fetch w with
        | none =>
          have := fetch_none w hfe
          simp only [future, this]
          simp [pagesFrom]
        | some qw =>
          obtain ⟨q, w'⟩ := qw
          have ⟨hp, hl⟩ := fetch_some w w' q hfe
          have := ih .running q.items w' (by simp [need] at hf ⊢; omega)
          simp only [future, hp, List.nil_append, List.flatMap_cons] at this ⊢
          exact this

/-! ### the invariant of every program -/

/-- `all` = the whole scripted history (first response included).  The pages before the current
one all carried a token, exactly those tokens were sent, in order, on requests that differ from the
caller's only in `page_token`. -/
def Good (r0 : Req ρ) (all : List (Page ι)) (w : World ι ρ) : Prop :=
  ∃ pre, all = pre ++ w.resp :: w.srv ∧ (∀ p ∈ pre, p.token ≠ []) ∧
    w.sent.map (·.token) = pre.map (·.token) ∧ (∀ r ∈ w.sent, r.other = r0.other) ∧
    w.req.other = r0.other

theorem Good.init (r0 : Req ρ) (p0 : Page ι) (srv : List (Page ι)) :
    Good r0 (p0 :: srv) (World.init r0 p0 srv) :=
  ⟨[], by simp [World.init], by simp, by simp [World.init], by simp [World.init], by simp [World.init]⟩

theorem Good.fetch {r0 : Req ρ} {all : List (Page ι)} {w w' : World ι ρ} {q : Page ι}
    (hg : Good r0 all w) (h : fetch w = some (q, w')) : Good r0 all w' := by
  obtain ⟨pre, hall, hpre, htok, hoth, hreq⟩ := hg
  unfold Model.Paging.fetch at h
  by_cases ht : w.resp.token = []
  · simp [ht] at h
  · simp only [ht, if_false] at h
    cases hs : w.srv with
    | nil => simp [hs] at h
    | cons q0 rest =>
      simp only [hs, Option.some.injEq, Prod.mk.injEq] at h
      obtain ⟨hq, hw⟩ := h
      subst hq
      subst hw
      refine ⟨pre ++ [w.resp], by simp [hall, hs], ?_, by simp [htok], ?_, by simp [hreq]⟩
      · intro p hp
        simp only [List.mem_append, List.mem_singleton] at hp
        rcases hp with hp | hp
        · exact hpre p hp
        · subst hp; exact ht
      · intro r hr
        simp only [List.mem_append, List.mem_singleton] at hr
        rcases hr with hr | hr
        · exact hoth r hr
        · subst hr; exact hreq

/-- `Good` only looks at the pager and the server, not at the generator tables -/
theorem Good.congr {r0 : Req ρ} {all : List (Page ι)} {w w' : World ι ρ} (hg : Good r0 all w)
    (h1 : w'.req = w.req) (h2 : w'.resp = w.resp) (h3 : w'.srv = w.srv) (h4 : w'.sent = w.sent) :
    Good r0 all w' := by
  unfold Good at *
  rw [h1, h2, h3, h4]
  exact hg

theorem Good.genNext {r0 : Req ρ} {all : List (Page ι)} {w : World ι ρ} (g : GenSt)
    (hg : Good r0 all w) : Good r0 all (genNext g w).2.2 := by
  cases g with
  | fresh => exact hg
  | done => exact hg
  | running =>
    simp only [Model.Paging.genNext]
    cases hfe : Model.Paging.fetch w with
    | none => exact hg
    | some qw => exact hg.fetch hfe

theorem Good.itemNext {r0 : Req ρ} {all : List (Page ι)} (fuel : Nat) (it : GenSt × List ι)
    {w : World ι ρ} (hg : Good r0 all w) : Good r0 all (itemNext fuel it w).2.2 := by
  induction fuel generalizing it w with
  | zero =>
    obtain ⟨g, buf⟩ := it
    cases buf <;> simpa [Model.Paging.itemNext] using hg
  | succ fuel ih =>
    obtain ⟨g, buf⟩ := it
    cases buf with
    | cons x buf => simpa [Model.Paging.itemNext] using hg
    | nil =>
      simp only [Model.Paging.itemNext]
      have hn := hg.genNext g
      rcases hgn : Model.Paging.genNext g w with ⟨_ | p, g', w'⟩
      · simpa [hgn] using hn
      · rw [hgn] at hn
        exact ih (g', p.items) hn

theorem Good.step {r0 : Req ρ} {all : List (Page ι)} {w : World ι ρ} (o : Op)
    (hg : Good r0 all w) : Good r0 all (step w o).2 := by
  cases o with
  | newPages => exact hg.congr rfl rfl rfl rfl
  | newIter => exact hg.congr rfl rfl rfl rfl
  | attr => exact hg
  | nextPage j =>
    simp only [Model.Paging.step]
    cases hj : w.gens[j]? with
    | none => exact hg
    | some g => exact (hg.genNext g).congr rfl rfl rfl rfl
  | nextItem i =>
    simp only [Model.Paging.step]
    cases hi : w.its[i]? with
    | none => exact hg
    | some it => exact (hg.itemNext (w.srv.length + 2) it).congr rfl rfl rfl rfl

theorem Good.exec {r0 : Req ρ} {all : List (Page ι)} (prog : List Op) {w : World ι ρ}
    (hg : Good r0 all w) : Good r0 all (exec w prog).2 := by
  induction prog generalizing w with
  | nil => exact hg
  | cons o os ih => exact ih (hg.step o)

/-! ### generator tables are untouched by the pager's own transitions; `future` ignores them -/

theorem fetch_its (w w' : World ι ρ) (q : Page ι) (h : fetch w = some (q, w')) :
    w'.its = w.its ∧ w'.gens = w.gens := by
  unfold fetch at h
  split at h
  · simp at h
  · split at h
    · simp at h
    · simp only [Option.some.injEq, Prod.mk.injEq] at h
      obtain ⟨_, hw⟩ := h
      subst hw
      simp

theorem genNext_its (g : GenSt) (w : World ι ρ) : (genNext g w).2.2.its = w.its := by
  cases g with
  | fresh => rfl
  | done => rfl
  | running =>
    simp only [genNext]
    cases hfe : fetch w with
    | none => rfl
    | some qw => exact (fetch_its w qw.2 qw.1 hfe).1

theorem itemNext_its (fuel : Nat) (it : GenSt × List ι) (w : World ι ρ) :
    (itemNext fuel it w).2.2.its = w.its := by
  induction fuel generalizing it w with
  | zero => obtain ⟨g, buf⟩ := it; cases buf <;> simp [itemNext]
  | succ fuel ih =>
    obtain ⟨g, buf⟩ := it
    cases buf with
    | cons x buf => simp [itemNext]
    | nil =>
      simp only [itemNext]
      have hn := genNext_its g w
      rcases hgn : genNext g w with ⟨_ | p, g', w'⟩
      · simpa [hgn] using hn
      · rw [hgn] at hn
        simp only
        rw [ih, hn]

theorem future_congr (it : GenSt × List ι) (w w' : World ι ρ) (h1 : w'.req = w.req) (h2 : w'.resp = w.resp)
    (h3 : w'.srv = w.srv) : future it w' = future it w := by
  obtain ⟨g, buf⟩ := it
  cases g <;> simp [future, pagesFrom, h1, h2, h3]

theorem need_le (g : GenSt) (w : World ι ρ) : need g w ≤ w.srv.length + 2 := by
  cases g <;> simp [need]


end GapicModel.Lemmas.C07Steps
