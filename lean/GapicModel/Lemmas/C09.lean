import GapicModel.Model.Retry
/-
Helper lemmas for C09 (Model/Retry.lean), second deepening round: the duration reader `toFloat?` on EVERY
well-formed decimal literal (no bound on the number of digits): digit strings, their positional value, the
canonical zero-padded rendering `digitsOf` and its round trip.
-/
namespace GapicModel.Lemmas.C09
open GapicModel.Model.Retry

def isDigit (c : Char) : Bool := decide ('0' ≤ c ∧ c ≤ '9')

def AllDigits (cs : List Char) : Prop := ∀ c ∈ cs, isDigit c = true

instance (cs : List Char) : Decidable (AllDigits cs) := inferInstanceAs (Decidable (∀ c ∈ cs, isDigit c = true))

/-- digits and the decimal point: the characters of an unsigned mantissa -/
def Plain (cs : List Char) : Prop := ∀ c ∈ cs, isDigit c = true ∨ c = '.'

/-- positional value of a digit string (Horner); `0` for the empty string -/
def digitsVal (cs : List Char) : Nat := cs.foldl (fun a c => a * 10 + (c.toNat - '0'.toNat)) 0

theorem digitVal_of_isDigit (c : Char) (h : isDigit c = true) : digitVal? c = some (c.toNat - '0'.toNat) := by
  have := of_decide_eq_true h
  simp [digitVal?, this]

theorem digit_ne (c x : Char) (h : isDigit c = true) (hx : isDigit x = false) : c ≠ x := by
  intro e; subst e; rw [h] at hx; exact absurd hx (by decide)

theorem foldl_digits (cs : List Char) (h : AllDigits cs) (a : Nat) :
    cs.foldl (fun acc c => match acc, digitVal? c with
      | some a, some d => some (a * 10 + d)
      | _, _ => none) (some a)
    = some (cs.foldl (fun a c => a * 10 + (c.toNat - '0'.toNat)) a) := by
  induction cs generalizing a with
  | nil => rfl
  | cons c cs ih =>
    have hc := digitVal_of_isDigit c (h c (by simp))
    simp only [List.foldl_cons, hc]
    exact ih (fun c' h' => h c' (by simp [h'])) _

theorem natOfDigits_eq (cs : List Char) (h : AllDigits cs) (hne : cs ≠ []) :
    natOfDigits? cs = some (digitsVal cs) := by
  unfold natOfDigits? digitsVal
  have : cs.isEmpty = false := by cases cs <;> simp_all
  simp only [this, Bool.false_eq_true, if_false]
  exact foldl_digits cs h 0

theorem natOfDigits_nil : natOfDigits? [] = none := rfl

theorem digitsVal_snoc (cs : List Char) (c : Char) :
    digitsVal (cs ++ [c]) = digitsVal cs * 10 + (c.toNat - '0'.toNat) := by
  simp [digitsVal, List.foldl_append]

/-! ### `takeWhile` / `dropWhile` up to a stop character -/

theorem takeWhile_stop (p : Char → Bool) (a b : List Char) (x : Char) (ha : ∀ c ∈ a, p c = true)
    (hx : p x = false) : (a ++ x :: b).takeWhile p = a ∧ (a ++ x :: b).dropWhile p = x :: b := by
  induction a with
  | nil => simp [hx]
  | cons c cs ih =>
    have hc := ha c (by simp)
    have := ih (fun c' h' => ha c' (by simp [h']))
    simp [hc, this]

theorem takeWhile_all (p : Char → Bool) (a : List Char) (ha : ∀ c ∈ a, p c = true) :
    a.takeWhile p = a ∧ a.dropWhile p = [] := by
  induction a with
  | nil => simp
  | cons c cs ih =>
    have hc := ha c (by simp)
    have := ih (fun c' h' => ha c' (by simp [h']))
    simp [hc, this]

/-! ### the unsigned mantissa -/

theorem parseDecimal_whole (ip : List Char) (hi : AllDigits ip) (hne : ip ≠ []) :
    parseDecimal? ip = some (digitsVal ip : Rat) := by
  have h := takeWhile_all (fun c => decide (c ≠ '.')) ip
    (fun c hc => by simpa using digit_ne c '.' (hi c hc) (by decide))
  simp only [parseDecimal?, h.1, h.2, natOfDigits_eq ip hi hne]
  rfl

theorem parseDecimal_frac (ip fp : List Char) (hi : AllDigits ip) (hf : AllDigits fp)
    (hne : ip ≠ [] ∨ fp ≠ []) :
    parseDecimal? (ip ++ '.' :: fp) = some ((digitsVal ip : Rat) + (digitsVal fp : Rat) / pow10 fp.length) := by
  have h := takeWhile_stop (fun c => decide (c ≠ '.')) ip fp '.'
    (fun c hc => by simpa using digit_ne c '.' (hi c hc) (by decide)) (by simp)
  simp only [parseDecimal?, h.1, h.2]
  have hcond : ¬ (ip.isEmpty = true ∧ fp.isEmpty = true) := by
    rcases hne with h | h
    · cases ip <;> simp_all
    · cases fp <;> simp_all
  simp only [hcond, if_false]
  have e1 : (if ip.isEmpty = true then some 0 else natOfDigits? ip) = some (digitsVal ip) := by
    cases ip with
    | nil => rfl
    | cons c cs => simpa using natOfDigits_eq (c :: cs) hi (by simp)
  have e2 : (if fp.isEmpty = true then some 0 else natOfDigits? fp) = some (digitsVal fp) := by
    cases fp with
    | nil => rfl
    | cons c cs => simpa using natOfDigits_eq (c :: cs) hf (by simp)
  rw [e1, e2]

/-! ### signs and the exponent-free float -/

theorem splitSign_plain (cs : List Char) (h : Plain cs) : splitSign cs = (false, cs) := by
  cases cs with
  | nil => rfl
  | cons c cs =>
    have hc := h c (by simp)
    have h1 : c ≠ '-' := by
      rcases hc with hc | hc
      · exact digit_ne c '-' hc (by decide)
      · subst hc; decide
    have h2 : c ≠ '+' := by
      rcases hc with hc | hc
      · exact digit_ne c '+' hc (by decide)
      · subst hc; decide
    unfold splitSign
    split <;> simp_all

theorem notExp_plain (cs : List Char) (h : Plain cs) : ∀ c ∈ cs, notExp c = true := by
  intro c hc
  have h1 : c ≠ 'e' := by
    rcases h c hc with hd | hd
    · exact digit_ne c 'e' hd (by decide)
    · subst hd; decide
  have h2 : c ≠ 'E' := by
    rcases h c hc with hd | hd
    · exact digit_ne c 'E' hd (by decide)
    · subst hd; decide
  simp [notExp, h1, h2]

theorem applySign_false (r : Rat) : applySign false r = r := rfl
theorem applySign_true (r : Rat) : applySign true r = -r := rfl

/-- an unsigned literal without exponent: `float` reads the mantissa -/
theorem parseFloat_plain (body : List Char) (h : Plain body) : parseFloat? body = parseDecimal? body := by
  have ht := takeWhile_all notExp body (notExp_plain body h)
  simp only [parseFloat?, splitSign_plain body h, ht.1, ht.2]
  cases parseDecimal? body <;> simp [applySign]

theorem splitSign_minus (r : List Char) : splitSign ('-' :: r) = (true, r) := rfl
theorem splitSign_plus (r : List Char) : splitSign ('+' :: r) = (false, r) := rfl

theorem parseFloat_minus (body : List Char) (h : Plain body) :
    parseFloat? ('-' :: body) = (parseDecimal? body).map (applySign true) := by
  have ht := takeWhile_all notExp body (notExp_plain body h)
  simp only [parseFloat?, splitSign_minus, ht.1, ht.2]

theorem parseFloat_plus (body : List Char) (h : Plain body) :
    parseFloat? ('+' :: body) = parseDecimal? body := by
  have ht := takeWhile_all notExp body (notExp_plain body h)
  simp only [parseFloat?, splitSign_plus, ht.1, ht.2]
  cases parseDecimal? body <;> simp [applySign]

theorem plain_of_digits (ip : List Char) (hi : AllDigits ip) : Plain ip := fun c hc => Or.inl (hi c hc)

theorem plain_frac (ip fp : List Char) (hi : AllDigits ip) (hf : AllDigits fp) : Plain (ip ++ '.' :: fp) := by
  intro c hc
  rcases List.mem_append.1 hc with h | h
  · exact Or.inl (hi c h)
  · rcases List.mem_cons.1 h with h | h
    · exact Or.inr h
    · exact Or.inl (hf c h)

theorem parseInt_digits (ds : List Char) (hd : AllDigits ds) (hne : ds ≠ []) :
    parseInt? ds = some (digitsVal ds : Rat) := by
  simp [parseInt?, splitSign_plain ds (plain_of_digits ds hd), natOfDigits_eq ds hd hne, applySign]

theorem parseInt_minus (ds : List Char) (hd : AllDigits ds) (hne : ds ≠ []) :
    parseInt? ('-' :: ds) = some (-(digitsVal ds : Rat)) := by
  simp [parseInt?, splitSign_minus, natOfDigits_eq ds hd hne, applySign]

/-- the last character decides the branch and is dropped -/
theorem toFloat_snoc (body : List Char) (c : Char) :
    toFloat? (body ++ [c]) =
      if c = 'n' then (parseInt? body).map (fun n => n / pow10 9) else parseFloat? body := by
  simp [toFloat?]

/-! ### canonical rendering: `w` digits, zero padded -/

def digitChar (i : Fin 10) : Char := Char.ofNat (48 + i.val)

theorem digitChar_spec : ∀ i : Fin 10, isDigit (digitChar i) = true ∧ (digitChar i).toNat - '0'.toNat = i.val := by
  decide +kernel

/-- the last `w` decimal digits of `n`, most significant first, zero padded -/
def digitsOf : Nat → Nat → List Char
  | 0, _ => []
  | w + 1, n => digitsOf w (n / 10) ++ [digitChar ⟨n % 10, Nat.mod_lt n (by decide)⟩]

theorem digitsOf_length (w n : Nat) : (digitsOf w n).length = w := by
  induction w generalizing n with
  | zero => rfl
  | succ w ih => simp [digitsOf, ih]

theorem digitsOf_allDigits (w n : Nat) : AllDigits (digitsOf w n) := by
  induction w generalizing n with
  | zero => intro c hc; simp [digitsOf] at hc
  | succ w ih =>
    intro c hc
    simp only [digitsOf, List.mem_append, List.mem_singleton] at hc
    rcases hc with hc | hc
    · exact ih _ c hc
    · subst hc; exact (digitChar_spec _).1

theorem digitsOf_ne_nil (w n : Nat) (hw : 0 < w) : digitsOf w n ≠ [] := by
  intro h
  have := digitsOf_length w n
  rw [h] at this
  simp at this
  omega

theorem digitsVal_digitsOf (w n : Nat) : digitsVal (digitsOf w n) = n % 10 ^ w := by
  induction w generalizing n with
  | zero => simp [digitsOf, digitsVal, Nat.mod_one]
  | succ w ih =>
    simp only [digitsOf, digitsVal_snoc, ih, (digitChar_spec _).2]
    rw [Nat.pow_succ, Nat.mul_comm (10 ^ w) 10, Nat.mod_mul]
    omega

/-- `(s·10⁹ + n) / 10⁹ = s + n / 10⁹` over the rationals -/
theorem rat_split (s n : Nat) : (((s * 10 ^ 9 + n : Nat)) : Rat) / pow10 9 = (s : Rat) + (n : Rat) / pow10 9 := by
  unfold pow10
  have h : ((10 ^ 9 : Nat) : Rat) ≠ 0 := by decide +kernel
  simp only [Rat.natCast_add, Rat.natCast_mul, Rat.div_def, Rat.add_mul, Rat.mul_assoc, Rat.mul_inv_cancel _ h, Rat.mul_one]

end GapicModel.Lemmas.C09
