import GapicModel.Model.Determinism
/-
Helper lemmas for Props/C10.lean, round 2: Python's insertion-ordered `dict` (`OMap`): key order and
lookup after `d[k] = v`, `dict.update`, a dict comprehension; `dedup` (first occurrences) algebra;
lookups in a table with distinct keys do not see the order of the table.
-/
namespace GapicModel.Lemmas.C10Dicts
open GapicModel.Model.Determinism
open List

section Dedup
variable {α : Type} [DecidableEq α]

theorem mem_dedup (a : α) (xs : List α) : a ∈ dedup xs ↔ a ∈ xs := by
  induction xs with
  | nil => simp [dedup]
  | cons x xs ih =>
    simp only [dedup, mem_cons, mem_filter, ih, decide_eq_true_eq]
    constructor
    · rintro (h | ⟨h, _⟩)
      · exact Or.inl h
      · exact Or.inr h
    · rintro (h | h)
      · exact Or.inl h
      · by_cases hx : a = x
        · exact Or.inl hx
        · exact Or.inr ⟨h, by simpa using hx⟩

theorem nodup_dedup (xs : List α) : (dedup xs).Nodup := by
  induction xs with
  | nil => simp [dedup]
  | cons x xs ih =>
    simp only [dedup, nodup_cons, mem_filter, decide_eq_true_eq]
    exact ⟨fun h => h.2 rfl, ih.filter _⟩

theorem dedup_of_nodup (xs : List α) (h : xs.Nodup) : dedup xs = xs := by
  induction xs with
  | nil => rfl
  | cons x xs ih =>
    rw [nodup_cons] at h
    simp only [dedup, ih h.2]
    congr 1
    apply filter_eq_self.mpr
    intro a ha
    simp only [decide_eq_true_eq]
    intro e
    exact h.1 (e ▸ ha)

theorem dedup_dedup (xs : List α) : dedup (dedup xs) = dedup xs := dedup_of_nodup _ (nodup_dedup xs)

/-- first occurrences of a concatenation -/
theorem dedup_append (x y : List α) :
    dedup (x ++ y) = dedup x ++ (dedup y).filter (fun k => decide (k ∉ x)) := by
  induction x with
  | nil =>
    simp only [nil_append, dedup, not_mem_nil, not_false_eq_true, decide_true]
    exact (filter_eq_self.mpr (by simp)).symm
  | cons a x ih =>
    simp only [cons_append, dedup, ih, filter_append, filter_filter]
    congr 2
    apply filter_congr
    intro k _
    by_cases h1 : k = a <;> by_cases h2 : k ∈ x <;> simp [h1, h2]

theorem dedup_append_dedup_left (x y : List α) : dedup (dedup x ++ y) = dedup (x ++ y) := by
  rw [dedup_append, dedup_append, dedup_dedup]
  congr 1
  apply filter_congr
  intro k _
  simp [mem_dedup]

theorem dedup_append_dedup_right (x y : List α) : dedup (x ++ dedup y) = dedup (x ++ y) := by
  rw [dedup_append, dedup_append, dedup_dedup]

end Dedup

section OMapLemmas
variable {V : Type}

theorem keys_nil : OMap.keys ([] : OMap V) = [] := rfl

theorem keys_append (a b : OMap V) : OMap.keys (a ++ b) = a.keys ++ OMap.keys b := by
  simp [OMap.keys]

theorem keys_set (d : OMap V) (k : Str) (v : V) :
    (d.set k v).keys = if k ∈ d.keys then d.keys else d.keys ++ [k] := by
  induction d with
  | nil => simp [OMap.set, OMap.keys]
  | cons p rest ih =>
    obtain ⟨k', v'⟩ := p
    by_cases h : k' = k
    · subst h; simp [OMap.set, OMap.keys]
    · have hne : ¬ k = k' := fun e => h e.symm
      simp only [OMap.set, h, if_false]
      simp only [OMap.keys, map_cons, mem_cons, hne, false_or] at ih ⊢
      rw [ih]
      split <;> simp [*]

/-- a key that is not there yet goes last -/
theorem set_of_not_mem (d : OMap V) (k : Str) (v : V) (h : k ∉ d.keys) : d.set k v = d ++ [(k, v)] := by
  induction d with
  | nil => rfl
  | cons p rest ih =>
    obtain ⟨k', v'⟩ := p
    simp only [OMap.keys, map_cons, mem_cons, not_or] at h
    have hne : ¬ k' = k := fun e => h.1 e.symm
    simp only [OMap.set, hne, if_false, cons_append]
    rw [ih (by simpa [OMap.keys] using h.2)]

theorem get_set (d : OMap V) (k : Str) (v : V) (k' : Str) :
    (d.set k v).get? k' = if k' = k then some v else d.get? k' := by
  induction d with
  | nil =>
    by_cases h : k = k'
    · subst h; simp [OMap.set, OMap.get?]
    · have : ¬ k' = k := fun e => h e.symm
      simp [OMap.set, OMap.get?, h, this]
  | cons p rest ih =>
    obtain ⟨k1, v1⟩ := p
    by_cases h1 : k1 = k
    · subst h1
      by_cases h2 : k1 = k'
      · subst h2; simp [OMap.set, OMap.get?]
      · have : ¬ k' = k1 := fun e => h2 e.symm
        simp [OMap.set, OMap.get?, h2, this]
    · simp only [OMap.set, h1, if_false]
      by_cases h2 : k1 = k'
      · subst h2
        simp [OMap.get?, h1]
      · simp only [OMap.get?, find?_cons, h2, decide_false] at ih ⊢
        exact ih

/-- the key order after adding the keys `ks` one by one to the key list `acc` -/
def addKey (ks : List Str) (k : Str) : List Str := if k ∈ ks then ks else ks ++ [k]

theorem keys_update_fold (a : OMap V) (b : List (Str × V)) :
    (a.update b).keys = (b.map (·.1)).foldl addKey a.keys := by
  induction b generalizing a with
  | nil => rfl
  | cons p b ih =>
    simp only [OMap.update, foldl_cons, map_cons] at ih ⊢
    rw [ih (a.set p.1 p.2), keys_set]
    rfl

theorem foldl_addKey (ks acc : List Str) :
    ks.foldl addKey acc = acc ++ (dedup ks).filter (fun k => decide (k ∉ acc)) := by
  induction ks generalizing acc with
  | nil => simp [dedup]
  | cons k ks ih =>
    simp only [foldl_cons, addKey]
    split
    · rename_i hk
      rw [ih acc]
      simp only [dedup, filter_cons, hk, not_true_eq_false, decide_false, filter_filter]
      congr 1
      apply filter_congr
      intro x _
      by_cases h2 : x = k
      · subst h2; simp [hk]
      · simp [h2]
    · rename_i hk
      rw [ih (acc ++ [k])]
      simp only [dedup, filter_cons, hk, not_false_eq_true, decide_true, if_true, filter_filter, append_assoc,
        singleton_append]
      congr 2
      apply filter_congr
      intro x _
      by_cases h1 : x ∈ acc <;> by_cases h2 : x = k <;> simp [h1, h2]

/-- **keys after `a.update(b)`**: the keys of `a` in place, then the NEW keys of `b` at their first occurrence -/
theorem keys_update (a : OMap V) (b : List (Str × V)) :
    (a.update b).keys = a.keys ++ (dedup (b.map (·.1))).filter (fun k => decide (k ∉ a.keys)) := by
  rw [keys_update_fold, foldl_addKey]

theorem keys_update_nodup (a : OMap V) (b : List (Str × V)) (h : a.keys.Nodup) :
    (a.update b).keys = dedup (a.keys ++ b.map (·.1)) := by
  rw [keys_update, dedup_append, dedup_of_nodup _ h]
  congr 1
  apply filter_congr
  intro x _
  simp

/-- **keys of a dict comprehension**: the first occurrences of the keys, in order -/
theorem keys_ofPairs (ps : List (Str × V)) : (OMap.ofPairs ps).keys = dedup (ps.map (·.1)) := by
  rw [OMap.ofPairs, keys_update_nodup _ _ (by simp [OMap.keys])]
  rfl

theorem nodup_keys_ofPairs (ps : List (Str × V)) : (OMap.ofPairs ps).keys.Nodup := by
  rw [keys_ofPairs]; exact nodup_dedup _

theorem nodup_keys_update (a : OMap V) (b : List (Str × V)) (h : a.keys.Nodup) : (a.update b).keys.Nodup := by
  rw [keys_update_nodup a b h]; exact nodup_dedup _

/-- **lookup after `a.update(b)`**: the LAST item of `b` with that key wins, else `a`'s value -/
theorem get_update (a : OMap V) (b : List (Str × V)) (k : Str) :
    (a.update b).get? k = match b.reverse.find? (fun p => p.1 = k) with
      | some p => some p.2
      | none => a.get? k := by
  induction b generalizing a with
  | nil => simp [OMap.update]
  | cons p b ih =>
    have e : OMap.update a (p :: b) = OMap.update (a.set p.1 p.2) b := rfl
    rw [e, ih (a.set p.1 p.2), reverse_cons, find?_append]
    cases hb : b.reverse.find? (fun q => q.1 = k) with
    | some q => simp
    | none =>
      simp only [Option.none_or, get_set]
      by_cases hk : p.1 = k
      · have : k = p.1 := hk.symm
        simp [hk]
      · have : ¬ k = p.1 := fun e => hk e.symm
        simp [hk, this]

theorem get_ofPairs (ps : List (Str × V)) (k : Str) :
    (OMap.ofPairs ps).get? k = (ps.reverse.find? (fun p => p.1 = k)).map (·.2) := by
  rw [OMap.ofPairs, get_update]
  cases ps.reverse.find? (fun p => p.1 = k) <;> simp [OMap.get?]

/-- adding items with fresh, distinct keys appends them -/
theorem update_of_fresh (a : OMap V) (b : List (Str × V)) (h : (a.keys ++ b.map (·.1)).Nodup) :
    a.update b = a ++ b := by
  induction b generalizing a with
  | nil => simp [OMap.update]
  | cons p b ih =>
    have e : OMap.update a (p :: b) = OMap.update (a.set p.1 p.2) b := rfl
    have hp : p.1 ∉ a.keys := by
      intro hm
      have := (nodup_append.mp h).2.2 _ hm p.1 (by simp)
      exact this rfl
    rw [e, set_of_not_mem a p.1 p.2 hp, ih]
    · simp
    · rw [keys_append]
      simpa [OMap.keys] using h

/-- a dict comprehension over distinct keys IS the list of its items -/
theorem ofPairs_of_nodup (ps : List (Str × V)) (h : (ps.map (·.1)).Nodup) : OMap.ofPairs ps = ps := by
  rw [OMap.ofPairs, update_of_fresh] <;> simpa [OMap.keys] using h

end OMapLemmas

section Tables

/-- in a table with distinct keys a member is what the lookup of its key finds -/
theorem find_key_of_mem {β : Type} (t : List (Str × β)) (hnd : (t.map (·.1)).Nodup) (e : Str × β) (he : e ∈ t) :
    t.find? (fun x => x.1 = e.1) = some e := by
  induction t with
  | nil => cases he
  | cons x t ih =>
    rw [map_cons, nodup_cons] at hnd
    rcases mem_cons.mp he with h | h
    · subst h; simp
    · have hne : ¬ x.1 = e.1 := by
        intro eq
        exact hnd.1 (eq ▸ mem_map_of_mem h)
      simp only [find?_cons, hne, decide_false]
      exact ih hnd.2 h

/-- lookups in a table with distinct keys do not depend on the order of the table -/
theorem find_key_perm {β : Type} (t t' : List (Str × β)) (h : t.Perm t') (hnd : (t.map (·.1)).Nodup) (k : Str) :
    t.find? (fun x => x.1 = k) = t'.find? (fun x => x.1 = k) := by
  have hnd' : (t'.map (·.1)).Nodup := (h.map _).nodup_iff.mp hnd
  cases hf : t.find? (fun x => x.1 = k) with
  | none =>
    symm
    rw [find?_eq_none] at hf ⊢
    intro x hx
    exact hf x (h.mem_iff.mpr hx)
  | some e =>
    have hk : e.1 = k := by simpa using find?_some hf
    have hm : e ∈ t' := h.mem_iff.mp (mem_of_find?_eq_some hf)
    rw [← hk]
    exact (find_key_of_mem t' hnd' e hm).symm

theorem name?_perm (t t' : MethodTable) (h : t.Perm t') (hnd : (t.map (·.1)).Nodup) (sel : Str) :
    t.name? sel = t'.name? sel := by
  simp only [MethodTable.name?, find_key_perm t t' h hnd sel]

end Tables

end GapicModel.Lemmas.C10Dicts
