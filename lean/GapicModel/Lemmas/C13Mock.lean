import GapicModel.Model.Mock
/-
Helper lemmas for Props/C13: digit count of `decDigits`, bounds of `ordSum`, the visited-set invariant of
`mockOrigF` (termination within `env.length + 1` levels), monotonicity of `chainF` / `mockValueF` in the fuel.
-/
namespace GapicModel.Lemmas.C13Mock
open GapicModel.Model.Mock

/-! ### `len(str(n))` -/

theorem decDigitsAux_len : ∀ (f n : Nat) (acc : Str), n < f →
    ∃ L, (decDigitsAux f n acc).length = acc.length + L ∧ 1 ≤ L ∧ n < 10 ^ L ∧ (n ≠ 0 → 10 ^ (L - 1) ≤ n) := by
  intro f
  induction f with
  | zero => intro n acc h; omega
  | succ f ih =>
    intro n acc h
    simp only [decDigitsAux]
    by_cases h0 : n / 10 = 0
    · simp only [h0, if_true]
      refine ⟨1, by simp, by omega, by omega, ?_⟩
      intro hn; simp; omega
    · simp only [h0, if_false]
      have hlt : n / 10 < f := by omega
      obtain ⟨L, hl, h1, hub, hlb⟩ := ih (n / 10) (digitChar (n % 10) :: acc) hlt
      refine ⟨L + 1, by simp [hl]; omega, by omega, ?_, ?_⟩
      · rw [Nat.pow_succ]; omega
      · intro _
        have hlb' := hlb h0
        have hp : 10 ^ (L + 1 - 1) = 10 ^ (L - 1) * 10 := by
          have : L + 1 - 1 = (L - 1) + 1 := by omega
          rw [this, Nat.pow_succ]
        rw [hp]; omega

theorem decDigits_len (n : Nat) :
    1 ≤ (decDigits n).length ∧ n < 10 ^ (decDigits n).length ∧ (n ≠ 0 → 10 ^ ((decDigits n).length - 1) ≤ n) := by
  obtain ⟨L, hl, h1, hub, hlb⟩ := decDigitsAux_len (n + 1) n [] (by omega)
  have : (decDigits n).length = L := by simp [decDigits, hl]
  rw [this]; exact ⟨h1, hub, hlb⟩

theorem decDigits_ne_nil (n : Nat) : decDigits n ≠ [] := by
  have := (decDigits_len n).1
  intro h; rw [h] at this; simp at this

/-! ### `sum(ord(c))` of an ASCII name -/

theorem ordSum_le : ∀ (name : Str), (∀ c ∈ name, c.toNat < 128) → ordSum name ≤ 127 * name.length := by
  intro name
  induction name with
  | nil => intro _; simp [ordSum]
  | cons c r ih =>
    intro h
    have hc : c.toNat < 128 := h c (by simp)
    have hr := ih (fun d hd => h d (by simp [hd]))
    simp only [ordSum, List.length_cons]; omega

/-! ### `mock_value_original_type` ends: the visited set grows at every descent -/

/-- what protoc guarantees of a field: its message type exists, its enum has a value -/
def fieldOk (env : Env) (f : Field) : Bool :=
  match f.ty with
  | .msg id => decide (id < env.length)
  | .enum _ vals => vals != []
  | .prim _ => true

def closed (env : Env) : Bool := env.all fun m => m.fields.all (fieldOk env)

def Inv (env : Env) (vis : List Nat) : Prop := vis.Nodup ∧ vis ⊆ env.map (·.cls)

theorem Inv.length_le {env : Env} {vis : List Nat} (h : Inv env vis) : vis.length ≤ env.length := by
  have := List.Nodup.length_le_of_subset h.1 h.2
  simpa using this

theorem closed_fields {env : Env} (hc : closed env = true) {m : MsgDef} (hm : m ∈ env) :
    ∀ f ∈ m.fields, fieldOk env f = true := by
  intro f hf
  simp only [closed, List.all_eq_true] at hc
  exact hc m hm f hf

/-- the shape of a successful step: a value, and a visited set that still satisfies the invariant and did not shrink -/
def StepOk (env : Env) (vis : List Nat) (r : Except MockErr (PyVal × List Nat)) : Prop :=
  ∃ v vis', r = .ok (v, vis') ∧ Inv env vis' ∧ vis.length ≤ vis'.length

theorem foldFields_ok (env : Env) (N : Nat) (rec : List Nat → Field → Except MockErr (PyVal × List Nat))
    (hrec : ∀ vis f, fieldOk env f = true → Inv env vis → N ≤ vis.length → StepOk env vis (rec vis f)) :
    ∀ (fs : List Field) (vis : List Nat), (∀ f ∈ fs, fieldOk env f = true) → Inv env vis → N ≤ vis.length →
      StepOk env vis (foldFields rec vis fs) := by
  intro fs
  induction fs with
  | nil => intro vis _ hi _; exact ⟨.dnil, vis, rfl, hi, Nat.le_refl _⟩
  | cons f r ih =>
    intro vis hok hi hb
    obtain ⟨v, vis1, h1, hi1, hl1⟩ := hrec vis f (hok f (by simp)) hi hb
    obtain ⟨d, vis2, h2, hi2, hl2⟩ := ih vis1 (fun g hg => hok g (by simp [hg])) hi1 (by omega)
    refine ⟨.dcons f.name v d, vis2, ?_, hi2, by omega⟩
    simp only [foldFields, h1, h2]

theorem mockOrigF_ok : ∀ (fuel : Nat) (env : Env) (vis : List Nat) (f : Field), closed env = true →
    fieldOk env f = true → Inv env vis → env.length + 1 ≤ fuel + vis.length →
    StepOk env vis (mockOrigF fuel env vis f) := by
  intro fuel
  induction fuel with
  | zero =>
    intro env vis f _ _ hi hb
    have := hi.length_le; omega
  | succ fuel ih =>
    intro env vis f hc hf hi hb
    unfold mockOrigF
    cases hty : f.ty with
    | prim t =>
      simp only []
      by_cases hr : f.repeated = true
      · simp only [hr, if_true]; exact ⟨_, vis, rfl, hi, Nat.le_refl _⟩
      · simp only [hr]; exact ⟨_, vis, rfl, hi, Nat.le_refl _⟩
    | enum ident vals =>
      simp only []
      have hv : vals ≠ [] := by simpa [fieldOk, hty] using hf
      cases vals with
      | nil => exact absurd rfl hv
      | cons v0 r => simp only [enumMockNumber]; exact ⟨_, vis, rfl, hi, Nat.le_refl _⟩
    | msg id =>
      simp only []
      have hid : id < env.length := by simpa [fieldOk, hty] using hf
      have hget : env[id]? = some env[id] := List.getElem?_eq_getElem hid
      have hmem : env[id] ∈ env := List.getElem_mem hid
      rw [hget]
      simp only []
      by_cases hvis : (env[id]).cls ∈ vis
      · simp only [hvis, if_true]; exact ⟨_, vis, rfl, hi, Nat.le_refl _⟩
      · simp only [hvis, if_false]
        have hi1 : Inv env ((env[id]).cls :: vis) := by
          refine ⟨List.nodup_cons.mpr ⟨hvis, hi.1⟩, ?_⟩
          intro x hx
          rcases List.mem_cons.mp hx with h | h
          · subst h; exact List.mem_map.mpr ⟨env[id], hmem, rfl⟩
          · exact hi.2 h
        by_cases hmap : (f.repeated && (env[id]).isMap) = true
        · simp only [hmap, if_true]; exact ⟨_, _, rfl, hi1, by simp⟩
        · simp only [hmap]
          by_cases hany : (env[id]).isAny = true
          · simp only [hany, if_true]; exact ⟨_, _, rfl, hi1, by simp⟩
          · simp only [hany]
            have hfold := foldFields_ok env (env.length + 1 - fuel) (mockOrigF fuel env)
              (fun vis' g hg hi' hb' => ih env vis' g hc hg hi' (by omega))
              (env[id]).fields ((env[id]).cls :: vis) (closed_fields hc hmem) hi1 (by simp; omega)
            obtain ⟨d, vis2, h2, hi2, hl2⟩ := hfold
            rw [h2]
            exact ⟨_, vis2, rfl, hi2, by simp at hl2; omega⟩

theorem inv_nil (env : Env) : Inv env [] := ⟨List.nodup_nil, by intro x hx; cases hx⟩

/-! ### the values fit the types they are handed to -/

def distinctNames (env : Env) : Bool := env.all fun m => decide ((m.fields.map (·.name)).Nodup)

theorem findField_of_mem : ∀ (fs : List Field), (fs.map (·.name)).Nodup → ∀ f ∈ fs, findField fs f.name = some f := by
  intro fs
  induction fs with
  | nil => intro _ f hf; cases hf
  | cons g r ih =>
    intro hnd f hf
    simp only [List.map_cons, List.nodup_cons] at hnd
    simp only [findField, List.find?_cons]
    rcases List.mem_cons.mp hf with h | h
    · subst h; simp
    · have hne : g.name ≠ f.name := by
        intro he; apply hnd.1; rw [he]; exact List.mem_map.mpr ⟨f, h, rfl⟩
      simp only [hne, decide_false]
      exact ih hnd.2 f h

theorem primitiveMock_suffix_truthy (t : PyT) (name : Str) (k : Nat) (hk : 0 < k) :
    truthy (primitiveMock t name k) = true := by
  cases t <;> simp only [primitiveMock]
  · simp [truthy]
  · split
    · simp [truthy, typeUrlMock]
    · simp [truthy, valueSuffix]
  · simp [truthy, blobSuffix]
  · simp [truthy]; omega
  · simp [truthy]; omega

theorem primFits_primitiveMock (t : PyT) (name : Str) (k : Nat) : primFits t (primitiveMock t name k) = true := by
  cases t <;> simp only [primitiveMock]
  · rfl
  · split <;> rfl
  · rfl
  · rfl
  · rfl

theorem fitsOne_orNone (strict : Bool) (env : Env) (t : PyT) (name : Str) (k : Nat) :
    fitsOne strict env (orNone (primitiveMock t name k)) (.prim t) = true := by
  unfold orNone
  split
  · have h := primFits_primitiveMock t name k
    cases hv : primitiveMock t name k <;> rw [hv] at h <;> simp_all [fitsOne]
  · simp [fitsOne]

theorem orNone_truthy {v : PyVal} (h : truthy v = true) : orNone v = v := by simp [orNone, h]

theorem truthy_ne_none {v : PyVal} (h : truthy v = true) : (v != .none) = true := by
  cases v <;> simp_all [truthy]

theorem fitsOne_prim_of_primFits (strict : Bool) (env : Env) (t : PyT) (v : PyVal) (h : primFits t v = true) :
    fitsOne strict env v (.prim t) = true := by
  cases v <;> simp_all [fitsOne, primFits]

theorem enumMockNumber_mem {vals : List (Str × Int)} {n : Int} (h : enumMockNumber vals = some n) :
    ∃ v ∈ vals, v.2 = n := by
  cases vals with
  | nil => simp [enumMockNumber] at h
  | cons v0 r =>
    simp only [enumMockNumber, Option.some.injEq] at h
    cases hf : List.find? (fun v => decide (v.2 ≠ 0)) (v0 :: r) with
    | none => rw [hf] at h; exact ⟨v0, by simp, by simpa using h⟩
    | some w => rw [hf] at h; exact ⟨w, List.mem_of_find?_eq_some hf, by simpa using h⟩

/-- the step relation the fold needs: whatever `rec` returns fits the field it was asked for -/
theorem foldFields_fits (env : Env) (all : List Field) (rec : List Nat → Field → Except MockErr (PyVal × List Nat))
    (hrec : ∀ vis f v vis', rec vis f = .ok (v, vis') → fits false env v f.ty f.repeated = true) :
    ∀ (fs : List Field) (vis : List Nat) (d : PyVal) (vis' : List Nat),
      (∀ f ∈ fs, findField all f.name = some f) → foldFields rec vis fs = .ok (d, vis') →
      fitsDict false env d all = true := by
  intro fs
  induction fs with
  | nil =>
    intro vis d vis' _ h
    simp only [foldFields, Except.ok.injEq, Prod.mk.injEq] at h
    rw [← h.1]; simp [fitsDict]
  | cons f r ih =>
    intro vis d vis' hfind h
    simp only [foldFields] at h
    cases h1 : rec vis f with
    | error e => rw [h1] at h; simp at h
    | ok p =>
      obtain ⟨v, vis1⟩ := p
      rw [h1] at h
      simp only [] at h
      cases h2 : foldFields rec vis1 r with
      | error e => rw [h2] at h; simp at h
      | ok q =>
        obtain ⟨d2, vis2⟩ := q
        rw [h2] at h
        simp only [Except.ok.injEq, Prod.mk.injEq] at h
        rw [← h.1]
        simp only [fitsDict, hfind f (by simp), Bool.and_eq_true]
        exact ⟨hrec vis f v vis1 h1, ih vis1 d2 vis2 (fun g hg => hfind g (by simp [hg])) h2⟩

theorem fits_dnil_msg (env : Env) (id : Nat) (rep : Bool) : fits false env .dnil (.msg id) rep = true := by
  cases rep <;> simp [fits, fitsOne]

theorem fits_wrap_of_fitsOne (env : Env) (v : PyVal) (ty : FType) (rep : Bool) (hn : (v != .none) = true)
    (hd : v ≠ .dnil ∨ rep = false ∨ True) (h : fitsOne false env v ty = true) :
    fits false env (wrapRepeated rep v) ty rep = true := by
  cases rep
  · simpa [wrapRepeated, fits] using h
  · simp only [wrapRepeated, if_true]
    cases ty <;> simp [fits, fitsList, hn, h]

theorem mockOrigF_fits : ∀ (fuel : Nat) (env : Env) (vis : List Nat) (f : Field) (v : PyVal) (vis' : List Nat),
    distinctNames env = true → mockOrigF fuel env vis f = .ok (v, vis') → fits false env v f.ty f.repeated = true := by
  intro fuel
  induction fuel with
  | zero => intro env vis f v vis' _ h; simp [mockOrigF] at h
  | succ fuel ih =>
    intro env vis f v vis' hdn h
    unfold mockOrigF at h
    cases hty : f.ty with
    | prim t =>
      rw [hty] at h
      simp only [] at h
      by_cases hr : f.repeated = true
      · simp only [hr, if_true, Except.ok.injEq, Prod.mk.injEq] at h
        rw [← h.1, hr]
        have t1 := primitiveMock_suffix_truthy t f.name 1 (by omega)
        have t2 := primitiveMock_suffix_truthy t f.name 2 (by omega)
        simp only [fits, fitsList, orNone_truthy t1, orNone_truthy t2, truthy_ne_none t1, truthy_ne_none t2,
          fitsOne_prim_of_primFits false env t _ (primFits_primitiveMock t f.name 1),
          fitsOne_prim_of_primFits false env t _ (primFits_primitiveMock t f.name 2), Bool.and_self]
      · have hr' : f.repeated = false := by simpa using hr
        simp only [hr', Bool.false_eq_true, if_false, Except.ok.injEq, Prod.mk.injEq] at h
        rw [← h.1, hr']
        simp only [fits]
        exact fitsOne_orNone false env t f.name 0
    | enum ident vals =>
      rw [hty] at h
      simp only [] at h
      cases hn : enumMockNumber vals with
      | none => rw [hn] at h; simp at h
      | some n =>
        rw [hn] at h
        simp only [Except.ok.injEq, Prod.mk.injEq] at h
        rw [← h.1]
        obtain ⟨w, hw, hwn⟩ := enumMockNumber_mem hn
        have hone : fitsOne false env (.int n) (.enum ident vals) = true := by
          simp only [fitsOne, List.any_eq_true]; exact ⟨w, hw, by simpa using hwn⟩
        exact fits_wrap_of_fitsOne env (.int n) _ f.repeated (by simp) (Or.inr (Or.inr trivial)) hone
    | msg id =>
      rw [hty] at h
      simp only [] at h
      cases hget : env[id]? with
      | none => rw [hget] at h; simp at h
      | some m =>
        rw [hget] at h
        simp only [] at h
        have hmem : m ∈ env := List.mem_of_getElem? hget
        by_cases hvis : m.cls ∈ vis
        · simp only [hvis, if_true, Except.ok.injEq, Prod.mk.injEq] at h
          rw [← h.1]; exact fits_dnil_msg env id f.repeated
        · simp only [hvis, if_false] at h
          by_cases hmap : (f.repeated && m.isMap) = true
          · simp only [hmap, if_true, Except.ok.injEq, Prod.mk.injEq] at h
            rw [← h.1]; exact fits_dnil_msg env id f.repeated
          · have hmap' : (f.repeated && m.isMap) = false := by simpa using hmap
            simp only [hmap', Bool.false_eq_true, if_false] at h
            by_cases hany : m.isAny = true
            · simp only [hany, if_true, Except.ok.injEq, Prod.mk.injEq] at h
              rw [← h.1]
              have hone : fitsOne false env anyDict (.msg id) = true := by
                simp [anyDict, fitsOne, hget, hany]
              exact fits_wrap_of_fitsOne env anyDict _ f.repeated (by simp [anyDict]) (Or.inr (Or.inr trivial)) hone
            · have hany' : m.isAny = false := by simpa using hany
              simp only [hany', Bool.false_eq_true, if_false] at h
              cases hfold : foldFields (mockOrigF fuel env) (m.cls :: vis) m.fields with
              | error e => rw [hfold] at h; simp at h
              | ok q =>
                obtain ⟨d, vis2⟩ := q
                rw [hfold] at h
                simp only [Except.ok.injEq, Prod.mk.injEq] at h
                rw [← h.1]
                have hnd : (m.fields.map (·.name)).Nodup := by
                  simp only [distinctNames, List.all_eq_true, decide_eq_true_eq] at hdn
                  exact hdn m hmem
                have hfd := foldFields_fits env m.fields (mockOrigF fuel env)
                  (fun vis0 g v0 vis0' hg => ih env vis0 g v0 vis0' hdn hg)
                  m.fields (m.cls :: vis) d vis2 (findField_of_mem m.fields hnd) hfold
                have hone : fitsOne false env d (.msg id) = true := by
                  cases d <;> simp_all [fitsOne, fitsDict]
                by_cases hd : d = .dnil
                · subst hd
                  cases hrep : f.repeated
                  · simp [wrapRepeated, fits, fitsOne]
                  · simp [wrapRepeated, fits, fitsList, fitsOne]
                · have hnn : (d != .none) = true := by
                    cases d <;> simp_all [fitsDict]
                  exact fits_wrap_of_fitsOne env d _ f.repeated hnn (Or.inl hd) hone

/-! ### `mock_value`: a larger recursion depth never changes a value already obtained -/

theorem chainF_mono (rec rec' : Field → Except MockErr MockExpr) (h : ∀ f e, rec f = .ok e → rec' f = .ok e)
    (env : Env) : ∀ (c : Nat) (vis : List Field) (f : Field) (e : MockExpr),
    chainF rec env c vis f = .ok e → chainF rec' env c vis f = .ok e := by
  intro c
  induction c with
  | zero => intro vis f e he; simp [chainF] at he
  | succ c ih =>
    intro vis f e he
    unfold chainF at he ⊢
    cases hty : f.ty with
    | prim t => rw [hty] at he; simpa using he
    | enum ident vals => rw [hty] at he; simpa using he
    | msg id =>
      rw [hty] at he
      simp only [] at he ⊢
      cases hget : env[id]? with
      | none => rw [hget] at he; simp at he
      | some m =>
        rw [hget] at he
        simp only [] at he ⊢
        by_cases hmap : (f.repeated && m.isMap) = true
        · simp only [hmap, if_true] at he ⊢
          cases hk : findField m.fields "key".toList with
          | none => rw [hk] at he; simp at he
          | some kf =>
            cases hv : findField m.fields "value".toList with
            | none => rw [hk, hv] at he; simp at he
            | some vf =>
              rw [hk, hv] at he
              simp only [] at he ⊢
              cases hrk : rec kf with
              | error e1 => rw [hrk] at he; simp at he
              | ok k =>
                cases hrv : rec vf with
                | error e2 => rw [hrk, hrv] at he; simp at he
                | ok v =>
                  rw [hrk, hrv] at he
                  rw [h kf k hrk, h vf v hrv]
                  simpa using he
        · have hmap' : (f.repeated && m.isMap) = false := by simpa using hmap
          simp only [hmap', Bool.false_eq_true, if_false] at he ⊢
          cases hfs : m.fields with
          | nil => rw [hfs] at he; simpa using he
          | cons sub rest =>
            rw [hfs] at he
            simp only [] at he ⊢
            by_cases hvis : f ∈ vis
            · simp only [hvis, if_true] at he ⊢; exact he
            · simp only [hvis, if_false] at he ⊢
              cases hc : chainF rec env c (f :: vis) sub with
              | error e1 => rw [hc] at he; simp at he
              | ok a =>
                rw [hc] at he
                rw [ih (f :: vis) sub a hc]
                exact he

theorem mockValueF_mono : ∀ (d : Nat) (env : Env) (f : Field) (e : MockExpr),
    mockValueF d env f = .ok e → mockValueF (d + 1) env f = .ok e := by
  intro d
  induction d with
  | zero => intro env f e h; simp [mockValueF] at h
  | succ d ih =>
    intro env f e h
    simp only [mockValueF] at h ⊢
    exact chainF_mono _ _ (fun g e' hg => ih env g e' hg) env _ [] f e h

end GapicModel.Lemmas.C13Mock
