import GapicModel.Model.ResourceVis
/-
Helper lemmas for the visibility part of C19 (Model/ResourceVis.lean): the work-list closure
`close` computes exactly the messages reachable through message-typed fields, for every API (no
bound on the number of messages, on the depth or on cycles); the fuel `fuelFor` always suffices.
-/
namespace GapicModel.Lemmas.C19Vis
open GapicModel.Model.ResourceVis

/-- reachability through message-typed fields (zero or more steps) -/
inductive Reach (api : Api) : Name → Name → Prop
  | refl (a : Name) : Reach api a a
  | step {a b c : Name} : Reach api a b → c ∈ succs api b → Reach api a c

def Closed (api : Api) (S : List Name) : Prop := ∀ s ∈ S, ∀ y ∈ succs api s, y ∈ S

theorem pot_mono (api : Api) (x : Name) (seen : List Name) :
    ∀ ns, pot api (x :: seen) ns ≤ pot api seen ns := by
  intro ns
  induction ns with
  | nil => simp [pot]
  | cons n ns ih =>
    simp only [pot]
    have h1 : (if n ∈ x :: seen then 0 else (succs api n).length)
        ≤ (if n ∈ seen then 0 else (succs api n).length) := by
      by_cases h : n ∈ seen
      · simp [h]
      · by_cases h2 : n = x <;> simp [h, h2]
    omega

theorem pot_dec (api : Api) (x : Name) (seen : List Name) (hx : x ∉ seen) :
    ∀ ns, x ∈ ns → pot api (x :: seen) ns + (succs api x).length ≤ pot api seen ns := by
  intro ns
  induction ns with
  | nil => intro h; cases h
  | cons n ns ih =>
    intro hmem
    simp only [pot]
    by_cases hn : n = x
    · subst hn
      have := pot_mono api n seen ns
      simp only [List.mem_cons, true_or, if_true, hx, if_false]
      omega
    · have hx' : x ∈ ns := by
        cases hmem with
        | head => exact absurd rfl hn
        | tail _ h => exact h
      have := ih hx'
      have h1 : (if n ∈ x :: seen then 0 else (succs api n).length)
          = (if n ∈ seen then 0 else (succs api n).length) := by simp [hn]
      rw [h1]; omega

theorem succs_of_not_name (api : Api) (x : Name) (h : x ∉ api.names) : succs api x = [] := by
  unfold succs Api.findMsg
  have : api.msgs.find? (fun m => m.name == x) = none := by
    rw [List.find?_eq_none]
    intro m hm hb
    apply h
    simp only [Api.names, List.mem_map]
    exact ⟨m, hm, by simpa using hb⟩
  rw [this]

/-- with enough fuel the result contains `seen` and `work` and is closed under `succs`. -/
theorem close_complete (api : Api) : ∀ (f : Nat) (work seen : List Name),
    work.length + pot api seen api.names ≤ f →
    (∀ s ∈ seen, ∀ y ∈ succs api s, y ∈ seen ∨ y ∈ work) →
    (∀ s ∈ seen, s ∈ close api f work seen) ∧ (∀ x ∈ work, x ∈ close api f work seen)
      ∧ Closed api (close api f work seen) := by
  intro f
  induction f with
  | zero =>
    intro work seen hf inv
    have hw : work = [] := by
      cases work with
      | nil => rfl
      | cons _ _ => simp at hf
    subst hw
    refine ⟨fun s hs => (by simpa [close] using hs), fun x hx => (by cases hx), ?_⟩
    intro s hs y hy
    simp only [close] at hs ⊢
    cases inv s hs y hy with
    | inl h => exact h
    | inr h => cases h
  | succ f ih =>
    intro work seen hf inv
    cases work with
    | nil =>
      refine ⟨fun s hs => (by simpa [close] using hs), fun x hx => (by cases hx), ?_⟩
      intro s hs y hy
      simp only [close] at hs ⊢
      cases inv s hs y hy with
      | inl h => exact h
      | inr h => cases h
    | cons x w =>
      by_cases hx : x ∈ seen
      · have hc : close api (f+1) (x :: w) seen = close api f w seen := by simp [close, hx]
        rw [hc]
        have hf' : w.length + pot api seen api.names ≤ f := by simp at hf; omega
        have inv' : ∀ s ∈ seen, ∀ y ∈ succs api s, y ∈ seen ∨ y ∈ w := by
          intro s hs y hy
          cases inv s hs y hy with
          | inl h => exact Or.inl h
          | inr h =>
            cases h with
            | head => exact Or.inl hx
            | tail _ h => exact Or.inr h
        obtain ⟨a, b, c⟩ := ih w seen hf' inv'
        refine ⟨a, ?_, c⟩
        intro y hy
        cases hy with
        | head => exact a x hx
        | tail _ h => exact b y h
      · have hc : close api (f+1) (x :: w) seen = close api f (succs api x ++ w) (x :: seen) := by
          simp [close, hx]
        rw [hc]
        have hf' : (succs api x ++ w).length + pot api (x :: seen) api.names ≤ f := by
          simp only [List.length_append, List.length_cons] at hf ⊢
          by_cases hn : x ∈ api.names
          · have := pot_dec api x seen hx api.names hn
            omega
          · have h0 := succs_of_not_name api x hn
            have := pot_mono api x seen api.names
            simp only [h0, List.length_nil]
            omega
        have inv' : ∀ s ∈ x :: seen, ∀ y ∈ succs api s, y ∈ x :: seen ∨ y ∈ succs api x ++ w := by
          intro s hs y hy
          cases hs with
          | head => exact Or.inr (List.mem_append_left _ hy)
          | tail _ hs =>
            cases inv s hs y hy with
            | inl h => exact Or.inl (List.mem_cons_of_mem _ h)
            | inr h =>
              cases h with
              | head => exact Or.inl (List.mem_cons_self)
              | tail _ h => exact Or.inr (List.mem_append_right _ h)
        obtain ⟨a, b, c⟩ := ih (succs api x ++ w) (x :: seen) hf' inv'
        refine ⟨fun s hs => a s (List.mem_cons_of_mem _ hs), ?_, c⟩
        intro y hy
        cases hy with
        | head => exact a x (List.mem_cons_self)
        | tail _ h => exact b y (List.mem_append_right _ h)

/-- whatever the fuel, the result only holds what `seen`/`work` held, closed forward. -/
theorem close_sound (api : Api) (P : Name → Prop) (hP : ∀ b c, P b → c ∈ succs api b → P c) :
    ∀ (f : Nat) (work seen : List Name), (∀ x ∈ work, P x) → (∀ s ∈ seen, P s) →
    ∀ n ∈ close api f work seen, P n := by
  intro f
  induction f with
  | zero => intro work seen _ hs n hn; exact hs n (by simpa [close] using hn)
  | succ f ih =>
    intro work seen hw hs n hn
    cases work with
    | nil => exact hs n (by simpa [close] using hn)
    | cons x w =>
      by_cases hx : x ∈ seen
      · have hc : close api (f+1) (x :: w) seen = close api f w seen := by simp [close, hx]
        rw [hc] at hn
        exact ih w seen (fun y hy => hw y (List.mem_cons_of_mem _ hy)) hs n hn
      · have hc : close api (f+1) (x :: w) seen = close api f (succs api x ++ w) (x :: seen) := by
          simp [close, hx]
        rw [hc] at hn
        have px : P x := hw x (List.mem_cons_self)
        refine ih (succs api x ++ w) (x :: seen) ?_ ?_ n hn
        · intro y hy
          cases List.mem_append.mp hy with
          | inl h => exact hP x y px h
          | inr h => exact hw y (List.mem_cons_of_mem _ h)
        · intro s hs'
          cases hs' with
          | head => exact px
          | tail _ h => exact hs s h

/-- **`recursive_field_types` is reachability**: for every API and root. -/
theorem mem_reachable_iff (api : Api) (root n : Name) : n ∈ reachable api root ↔ Reach api root n := by
  constructor
  · intro h
    refine close_sound api (Reach api root) (fun b c hb hc => Reach.step hb hc) (fuelFor api) [root] [] ?_ ?_ n h
    · intro x hx
      cases hx with
      | head => exact Reach.refl _
      | tail _ h => cases h
    · intro s hs; cases hs
  · intro h
    have hf : [root].length + pot api [] api.names ≤ fuelFor api := by simp [fuelFor]
    obtain ⟨_, hw, hc⟩ := close_complete api (fuelFor api) [root] [] hf (fun s hs => by cases hs)
    induction h with
    | refl => exact hw root (List.mem_cons_self)
    | step _ hcb ih => exact hc _ ih _ hcb

theorem find_last (nm : Res → Name) (r : Res) : ∀ (l : List Res),
    (∀ a ∈ l, nm a = nm r → a = r) → r ∈ l → l.find? (fun x => nm x == nm r) = some r := by
  intro l
  induction l with
  | nil => intro _ h; cases h
  | cons a l ih =>
    intro hinj hmem
    by_cases ha : nm a = nm r
    · have : a = r := hinj a (List.mem_cons_self) ha
      subst this
      simp [List.find?]
    · have hr : r ∈ l := by
        cases hmem with
        | head => exact absurd rfl ha
        | tail _ h => exact h
      have hb : (nm a == nm r) = false := by simpa using ha
      simp only [List.find?, hb]
      exact ih (fun b hb' => hinj b (List.mem_cons_of_mem _ hb')) hr

end GapicModel.Lemmas.C19Vis
