import GapicModel.Model.Whitespace
import GapicModel.Lemmas.RegexSound
import GapicModel.Lemmas.WsRegex
import GapicModel.Lemmas.WrapWidth
/-
C20 — `fix_whitespace` only removes trailing blanks and surplus blank lines: the CODE LINES of a source (its
non-blank lines, right-stripped, each with its indentation) are unchanged.  No Mathlib.
-/
namespace GapicModel.Lemmas.CodeLines
open GapicModel.Regex GapicModel.Model.Whitespace
open GapicModel.Model.Wrap (splitOn)
open GapicModel.Lemmas.WrapWidth (splitOn_append_sep splitOn_cons_sep splitOn_cons_ne)
open GapicModel.Lemmas.WrapWords (splitOn_ne_nil)

abbrev Str := List Char
abbrev T := Pinned.classTables

/-- the non-blank lines of a source, right-stripped, in order (indentation kept) -/
def codeLines (s : Str) : List Str :=
  ((splitOn '\n' s).map (rstrip T)).filter (fun l => !l.isEmpty)

def Blank (s : Str) : Prop := ∀ c ∈ s, isWs T c = true

theorem ws_nl : isWs T '\n' = true := by decide
theorem ws_sp : isWs T ' ' = true := by decide

/-! ### generic contextual equivalence -/

def Ctx {β} (f : Str → β) (a b : Str) : Prop := ∀ pre post, f (pre ++ a ++ post) = f (pre ++ b ++ post)

theorem Ctx.refl {β} (f : Str → β) (a : Str) : Ctx f a a := fun _ _ => rfl
theorem Ctx.symm {β} {f : Str → β} {a b : Str} (h : Ctx f a b) : Ctx f b a := fun p q => (h p q).symm
theorem Ctx.trans {β} {f : Str → β} {a b c : Str} (h1 : Ctx f a b) (h2 : Ctx f b c) : Ctx f a c :=
  fun p q => (h1 p q).trans (h2 p q)
theorem Ctx.eq {β} {f : Str → β} {a b : Str} (h : Ctx f a b) : f a = f b := by simpa using h [] []
theorem Ctx.append {β} {f : Str → β} {a a' b b' : Str} (h1 : Ctx f a a') (h2 : Ctx f b b') : Ctx f (a ++ b) (a' ++ b') := by
  intro p q
  have e1 := h1 p (b ++ q)
  have e2 := h2 (p ++ a') q
  simp only [List.append_assoc] at e1 e2 ⊢
  rw [e1, e2]
theorem Ctx.cons {β} {f : Str → β} {a b : Str} (c : Char) (h : Ctx f a b) : Ctx f (c :: a) (c :: b) :=
  Ctx.append (Ctx.refl f [c]) h

/-- generic: if every match is replaced by a contextually equivalent text, `re.sub` yields an equivalent text -/
theorem subLoop_ctx {β} (f : Str → β) (r : Re) (repl : List RItem)
    (hstep : ∀ pre rest st, matchAt T r pre rest = some st →
      ∃ w, rest = w ++ st.rest ∧ Ctx f (expand st.caps repl) w) :
    ∀ n pre rest, Ctx f (subLoop T r repl n pre rest) rest := by
  intro n
  induction n with
  | zero => intro pre rest; exact Ctx.refl f rest
  | succ n ih =>
    intro pre rest
    cases rest with
    | nil => exact Ctx.refl f []
    | cons c cs =>
      simp only [subLoop]
      cases hm : matchAt T r pre (c :: cs) with
      | none => exact Ctx.cons c (ih (c :: pre) cs)
      | some st =>
        simp only
        by_cases hl : st.rest.length < (c :: cs).length
        · simp only [hl, if_true]
          obtain ⟨w, hw, he⟩ := hstep pre (c :: cs) st hm
          rw [hw]
          exact Ctx.append he (ih st.pre st.rest)
        · simp only [hl, if_false]
          exact Ctx.cons c (ih (c :: pre) cs)

theorem pySub_ctx {β} (f : Str → β) (r : Re) (repl : List RItem)
    (hstep : ∀ pre rest st, matchAt T r pre rest = some st →
      ∃ w, rest = w ++ st.rest ∧ Ctx f (expand st.caps repl) w) (s : Str) :
    Ctx f (pySub T r repl s) s := subLoop_ctx f r repl hstep _ _ _

/-! ### code lines and blank text -/

theorem codeLines_append_nl (a b : Str) : codeLines (a ++ '\n' :: b) = codeLines a ++ codeLines b := by
  simp only [codeLines, splitOn_append_sep, List.map_append, List.filter_append]

theorem codeLines_nil : codeLines [] = [] := by
  simp [codeLines, splitOn, rstrip]

theorem splitOn_snoc_ne (sep b : Char) (hb : b ≠ sep) : ∀ (a : Str),
    ∃ init last, splitOn sep a = init ++ [last] ∧ splitOn sep (a ++ [b]) = init ++ [last ++ [b]]
  | [] => ⟨[], [], by simp [splitOn], by
      rw [List.nil_append, splitOn_cons_ne sep b [] hb]; simp [splitOn]⟩
  | c :: a => by
    obtain ⟨init, last, h1, h2⟩ := splitOn_snoc_ne sep b hb a
    by_cases hc : c = sep
    · subst hc
      refine ⟨[] :: init, last, ?_, ?_⟩
      · rw [splitOn_cons_sep, h1]; rfl
      · rw [List.cons_append, splitOn_cons_sep, h2]; rfl
    · rw [List.cons_append, splitOn_cons_ne sep c a hc, splitOn_cons_ne sep c _ hc, h1, h2]
      cases init with
      | nil => exact ⟨[], c :: last, by simp, by simp⟩
      | cons x xs => exact ⟨(c :: x) :: xs, last, by simp, by simp⟩

theorem rstrip_snoc_ws (l : Str) (b : Char) (hb : isWs T b = true) : rstrip T (l ++ [b]) = rstrip T l := by
  simp [rstrip, List.reverse_append, List.dropWhile_cons, hb]

theorem codeLines_snoc_ws (a : Str) (b : Char) (hb : isWs T b = true) : codeLines (a ++ [b]) = codeLines a := by
  by_cases hnl : b = '\n'
  · subst hnl
    rw [codeLines_append_nl, codeLines_nil, List.append_nil]
  · obtain ⟨init, last, h1, h2⟩ := splitOn_snoc_ne '\n' b hnl a
    simp only [codeLines, h1, h2, List.map_append, List.map_cons, List.map_nil, rstrip_snoc_ws last b hb]

theorem codeLines_append_blank : ∀ (B a : Str), Blank B → codeLines (a ++ B) = codeLines a
  | [], a, _ => by simp
  | b :: B, a, h => by
    have : a ++ b :: B = (a ++ [b]) ++ B := by simp
    rw [this, codeLines_append_blank B (a ++ [b]) (fun c hc => h c (by simp [hc])),
      codeLines_snoc_ws a b (h b (by simp))]

/-- a blank stretch that ends in a line break separates what is before from what is after -/
theorem codeLines_blank_nl (pre W post : Str) (hW : Blank W) :
    codeLines (pre ++ (W ++ ['\n']) ++ post) = codeLines pre ++ codeLines post := by
  have : pre ++ (W ++ ['\n']) ++ post = (pre ++ W) ++ '\n' :: post := by simp
  rw [this, codeLines_append_nl, codeLines_append_blank W pre hW]

/-- any two blank stretches ending in a line break are interchangeable -/
theorem ctx_blank_nl (W N : Str) (hW : Blank W) (hN : Blank N) : Ctx codeLines (W ++ ['\n']) (N ++ ['\n']) := by
  intro pre post
  rw [codeLines_blank_nl pre W post hW, codeLines_blank_nl pre N post hN]

theorem codeLines_rstrip_nl (s : Str) : codeLines (rstrip T s ++ ['\n']) = codeLines s := by
  have h := List.takeWhile_append_dropWhile (p := isWs T) (l := s.reverse)
  have hb : Blank (s.reverse.takeWhile (isWs T)).reverse := by
    intro c hc
    exact GapicModel.Lemmas.WrapWords.mem_takeWhile_imp (List.mem_reverse.mp hc)
  have hs : s = rstrip T s ++ (s.reverse.takeWhile (isWs T)).reverse := by
    have := congrArg List.reverse h
    simp only [List.reverse_append, List.reverse_reverse] at this
    exact this.symm
  rw [codeLines_snoc_ws _ '\n' ws_nl]
  conv => rhs; rw [hs]
  rw [codeLines_append_blank _ _ hb]

/-! ### the three patterns of `fix_whitespace`: each match is a blank stretch ending in a line break, then kept text -/

theorem matchAt_run {t r pre rest st} (h : matchAt t r pre rest = some st) : Run t r ⟨pre, rest, []⟩ st := by
  obtain ⟨s', hr, hk⟩ := m_sound t r ⟨pre, rest, []⟩ some st h
  cases hk
  exact hr

theorem Run.chr_prefix {t c b s s'} (h : Run t (.seq (.chr c) b) s s') :
    ∃ s1, Run t b s1 s' ∧ s.rest = c :: s1.rest ∧ s1.caps = s.caps ∧ s1.pre = c :: s.pre := by
  obtain ⟨s1, h1, h2⟩ := h.seq_inv
  cases h1 with
  | chr _ _ r hs => exact ⟨_, h2, by simp [St.push, hs], rfl, rfl⟩

theorem Run.chr_last {t c s s'} (h : Run t (.chr c) s s') : s.rest = c :: s'.rest ∧ s'.caps = s.caps := by
  cases h with
  | chr _ _ r hs => exact ⟨by simp [St.push, hs], rfl⟩

theorem wsRe_SP : wsRe T SP = true := by decide
theorem wsRe_SS : wsRe T SS = true := by decide
theorem wsRe_NL : wsRe T NL = true := by decide

theorem blank_append {a b : Str} (ha : Blank a) (hb : Blank b) : Blank (a ++ b) := by
  intro x hx
  rcases List.mem_append.mp hx with h | h
  · exact ha x h
  · exact hb x h

theorem blank_nil : Blank [] := by intro x hx; simp at hx
theorem blank_nl : Blank ['\n'] := by intro x hx; simp at hx; subst hx; exact ws_nl
theorem blank_nlnl : Blank ['\n', '\n'] := by
  intro x hx
  simp only [List.mem_cons, List.not_mem_nil, or_false] at hx
  rcases hx with h | h
  · subst h; exact ws_nl
  · subst h; exact ws_nl

theorem ws1_ctx : ∀ pre rest st, matchAt T ws1Re pre rest = some st →
    ∃ w, rest = w ++ st.rest ∧ Ctx codeLines (expand st.caps ws1Repl) w := by
  intro pre rest st h
  have hr := matchAt_run h
  unfold ws1Re at hr
  have hw : wsRe T (.seq (.chr ' ') (.star (.chr ' ') true)) = true := by decide
  obtain ⟨s1, w1, hr, e1, _, a1⟩ := hr.ws_prefix hw
  obtain ⟨e2, _⟩ := Run.chr_last hr
  refine ⟨w1 ++ ['\n'], by simp only [] at e1; rw [e1, e2]; simp, ?_⟩
  simp only [ws1Repl, expand, List.append_nil]
  exact ctx_blank_nl [] w1 blank_nil a1

theorem ws2_ctx : ∀ pre rest st, matchAt T ws2Re pre rest = some st →
    ∃ w, rest = w ++ st.rest ∧ Ctx codeLines (expand st.caps ws2Repl) w := by
  intro pre rest st h
  have hr := matchAt_run h
  unfold ws2Re at hr
  obtain ⟨s1, w1, hr, e1, c1, a1⟩ := hr.ws_prefix wsRe_SP
  obtain ⟨s2, w2, hr, e2, c2, a2⟩ := hr.ws_prefix wsRe_NL
  obtain ⟨s3, w3, hr, e3, c3, a3⟩ := hr.ws_prefix wsRe_SS
  obtain ⟨s4, w4, hr, e4, c4, a4⟩ := hr.ws_prefix wsRe_NL
  obtain ⟨s5, w5, hr, e5, c5, a5⟩ := hr.ws_prefix wsRe_SS
  unfold NL at hr
  obtain ⟨s6, hr, e6, c6, _⟩ := Run.chr_prefix hr
  obtain ⟨s7, hr7, hst⟩ := hr.group_inv
  obtain ⟨g, eg, pg⟩ := hr7.consumed
  have hcap : capture s6 s7 = g := capture_eq pg
  refine ⟨(w1 ++ w2 ++ w3 ++ w4 ++ w5 ++ ['\n']) ++ g, ?_, ?_⟩
  · simp only [] at e1
    rw [e1, e2, e3, e4, e5, e6, eg, hst]; simp
  · rw [hst]
    simp only [ws2Repl, expand, St.group?, List.find?, hcap, beq_self_eq_true, Option.map, Option.getD, List.append_nil]
    have hW : Blank (w1 ++ w2 ++ w3 ++ w4 ++ w5) :=
      blank_append (blank_append (blank_append (blank_append a1 a2) a3) a4) a5
    exact Ctx.append (a := ['\n', '\n', '\n']) (ctx_blank_nl ['\n', '\n'] _ blank_nlnl hW) (Ctx.refl codeLines g)

theorem ws3_ctx : ∀ pre rest st, matchAt T ws3Re pre rest = some st →
    ∃ w, rest = w ++ st.rest ∧ Ctx codeLines (expand st.caps ws3Repl) w := by
  intro pre rest st h
  have hr := matchAt_run h
  unfold ws3Re at hr
  obtain ⟨s1, w1, hr, e1, c1, a1⟩ := hr.ws_prefix wsRe_SP
  obtain ⟨s2, w2, hr, e2, c2, a2⟩ := hr.ws_prefix wsRe_NL
  obtain ⟨s3, w3, hr, e3, c3, a3⟩ := hr.ws_prefix wsRe_SS
  unfold NL at hr
  obtain ⟨s4, hr, e4, c4, _⟩ := Run.chr_prefix hr
  obtain ⟨s5, hg1, hg3⟩ := hr.seq_inv
  obtain ⟨s5', hr5, hs5⟩ := hg1.group_inv
  obtain ⟨g1, eg1, pg1⟩ := hr5.consumed
  have hcap1 : capture s4 s5' = g1 := capture_eq pg1
  obtain ⟨s6, hr6, hst⟩ := hg3.group_inv
  obtain ⟨g3, eg3, pg3⟩ := hr6.consumed
  have hcap3 : capture s5 s6 = g3 := capture_eq pg3
  refine ⟨(w1 ++ w2 ++ w3 ++ ['\n']) ++ (g1 ++ g3), ?_, ?_⟩
  · simp only [] at e1
    have : s5.rest = s5'.rest := by rw [hs5]
    rw [e1, e2, e3, e4, eg1, ← this, eg3, hst]; simp
  · have hc6 : s6.caps = s5.caps := by
      cases hr6 with
      | cls _ _ _ d r _ _ => rfl
    rw [hcap3] at hst
    rw [hst, hc6, hs5]
    simp only [ws3Repl, expand, St.group?, List.find?, hcap1, beq_self_eq_true, Option.map, Option.getD]
    have h31 : ((3 : Nat) == 1) = false := by decide
    simp only [h31, List.append_nil]
    have hW : Blank (w1 ++ w2 ++ w3) := blank_append (blank_append a1 a2) a3
    exact Ctx.append (a := ['\n', '\n']) (ctx_blank_nl ['\n'] _ blank_nl hW) (Ctx.refl codeLines (g1 ++ g3))

/-- **`fix_whitespace` keeps every code line**: the non-blank lines of the source, right-stripped, with their
indentation, in order, are unchanged — it only removes trailing blanks and blank lines -/
theorem fixWhitespace_codeLines (s : Str) : codeLines (fixWhitespace s) = codeLines s := by
  unfold fixWhitespace fixWhitespaceWith
  rw [codeLines_rstrip_nl, (pySub_ctx codeLines ws3Re ws3Repl ws3_ctx _).eq,
    (pySub_ctx codeLines ws2Re ws2Repl ws2_ctx _).eq, (pySub_ctx codeLines ws1Re ws1Repl ws1_ctx _).eq]

end GapicModel.Lemmas.CodeLines
