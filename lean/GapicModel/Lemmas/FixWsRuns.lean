import GapicModel.Lemmas.RegexComplete
import GapicModel.Lemmas.RegexCaps
import GapicModel.Lemmas.WsRegex
import GapicModel.Lemmas.MapRuns
/-
The three `re.sub` passes of `fix_whitespace`, characterised exactly: each is a run-local rewriting (`mapRuns`) of
the maximal whitespace runs of the text.  Soundness of the matcher gives the shape of every match it reports,
completeness (Lemmas/RegexComplete) gives that a position the left-most search skipped has no match at all.
No Mathlib.
-/
namespace GapicModel.Lemmas.FixWsRuns
open GapicModel.Regex GapicModel.Model.Whitespace GapicModel.Lemmas.MapRuns

abbrev Str := List Char
abbrev T := Pinned.classTables
abbrev wsT : Char → Bool := isWs T

/-! ### character facts -/

theorem ws_nl : wsT '\n' = true := by decide
theorem ws_sp : wsT ' ' = true := by decide

def rangesDisjoint (a b : List (Nat × Nat)) : Bool :=
  a.all fun x => b.all fun y => decide (x.2 < y.1) || decide (y.2 < x.1)

theorem space_word_disjoint : rangesDisjoint T.space T.word = true := by decide +kernel

theorem word_not_ws (c : Char) (h : inRanges T.word c = true) : wsT c = false := by
  cases hw : wsT c with
  | false => rfl
  | true =>
    exfalso
    simp only [wsT, isWs, inRanges, List.any_eq_true] at hw h
    obtain ⟨x, hx, hxc⟩ := hw
    obtain ⟨y, hy, hyc⟩ := h
    have hd := space_word_disjoint
    simp only [rangesDisjoint, List.all_eq_true] at hd
    have := hd x hx y hy
    simp only [Bool.and_eq_true, decide_eq_true_eq, Bool.or_eq_true] at hxc hyc this
    omega

def C3items : List CItem := [.word, .ch '_', .ch '@', .ch '#']

theorem c3_not_ws (c : Char) (h : clsTest T false C3items c = true) : wsT c = false := by
  simp only [clsTest, C3items, List.any_cons, List.any_nil, Bool.or_false, CItem.test, bne_iff_ne, ne_eq,
    Bool.not_eq_false, Bool.or_eq_true, beq_iff_eq] at h
  rcases h with h | h | h | h
  · exact word_not_ws c h
  · subst h; decide
  · subst h; decide
  · subst h; decide

/-- the five alternatives of group 1 of the second pattern -/
def KWs : List Str := ["class".toList, "def".toList, ['@'], ['#'], ['_']]

theorem kw_nonws : ∀ kw ∈ KWs, kw ≠ [] ∧ ∀ c ∈ kw, wsT c = false := by decide

/-! ### runs that consume exactly a given string -/

/-- from any state whose rest starts with `w`, `r` can consume exactly `w` -/
def Goes (r : Re) (w : Str) : Prop :=
  ∀ pre rest caps, ∃ caps', Run T r ⟨pre, w ++ rest, caps⟩ ⟨w.reverse ++ pre, rest, caps'⟩

theorem Goes.seq {a b w1 w2} (h1 : Goes a w1) (h2 : Goes b w2) : Goes (.seq a b) (w1 ++ w2) := by
  intro pre rest caps
  obtain ⟨c1, r1⟩ := h1 pre (w2 ++ rest) caps
  obtain ⟨c2, r2⟩ := h2 (w1.reverse ++ pre) rest c1
  refine ⟨c2, ?_⟩
  have := Run.seq _ _ _ _ _ r1 r2
  simpa [List.append_assoc] using this

theorem Goes.chr (c : Char) : Goes (.chr c) [c] := by
  intro pre rest caps
  exact ⟨caps, by simpa [St.push] using Run.chr (t := T) c ⟨pre, c :: rest, caps⟩ rest rfl⟩

theorem Goes.ofS {c : Char} (h : wsT c = true) : Goes Model.Whitespace.S [c] := by
  intro pre rest caps
  refine ⟨caps, ?_⟩
  have ht : clsTest T false [.space] c = true := by simpa [clsTest, CItem.test, wsT, isWs] using h
  simpa [St.push, Model.Whitespace.S] using Run.cls (t := T) false [.space] ⟨pre, c :: rest, caps⟩ c rest rfl ht

theorem Goes.ofStarS : ∀ (w : Str), AllWs wsT w → Goes Model.Whitespace.SS w := by
  intro w
  induction w with
  | nil => intro _ pre rest caps; exact ⟨caps, by simpa [Model.Whitespace.SS] using Run.star0 (t := T) Model.Whitespace.S true ⟨pre, rest, caps⟩⟩
  | cons c w ih =>
    intro hw pre rest caps
    have hc := hw c (by simp)
    obtain ⟨c1, r1⟩ := Goes.ofS hc pre (w ++ rest) caps
    obtain ⟨c2, r2⟩ := ih (fun d hd => hw d (by simp [hd])) ([c].reverse ++ pre) rest c1
    refine ⟨c2, ?_⟩
    have := Run.starS (t := T) Model.Whitespace.S true _ _ _ r1 (by simp) r2
    simpa [Model.Whitespace.SS, List.append_assoc] using this

theorem Goes.ofSP {w : Str} (hne : w ≠ []) (hw : AllWs wsT w) : Goes Model.Whitespace.SP w := by
  cases w with
  | nil => exact absurd rfl hne
  | cons c w =>
    have := Goes.seq (Goes.ofS (hw c (by simp))) (Goes.ofStarS w (fun d hd => hw d (by simp [hd])))
    simpa [Model.Whitespace.SP, Model.Whitespace.SS] using this

theorem Goes.group {r w} (i : Nat) (h : Goes r w) : Goes (.group i r) w := by
  intro pre rest caps
  obtain ⟨c1, r1⟩ := h pre rest caps
  exact ⟨_, Run.group i r _ _ r1⟩

theorem Goes.altL {a b w} (h : Goes a w) : Goes (.alt a b) w := by
  intro pre rest caps
  obtain ⟨c1, r1⟩ := h pre rest caps
  exact ⟨c1, Run.altL _ _ _ _ r1⟩

theorem Goes.altR {a b w} (h : Goes b w) : Goes (.alt a b) w := by
  intro pre rest caps
  obtain ⟨c1, r1⟩ := h pre rest caps
  exact ⟨c1, Run.altR _ _ _ _ r1⟩

theorem KW_eq : KW = .alt (.seq (.chr 'c') (.seq (.chr 'l') (.seq (.chr 'a') (.seq (.chr 's') (.chr 's')))))
    (.alt (.seq (.chr 'd') (.seq (.chr 'e') (.chr 'f'))) (.alt (.chr '@') (.alt (.chr '#') (.chr '_')))) := by decide

theorem Goes.ofKW : ∀ kw ∈ KWs, Goes Model.Whitespace.KW kw := by
  intro kw hkw
  rw [KW_eq]
  simp only [KWs, List.mem_cons, List.not_mem_nil, or_false] at hkw
  rcases hkw with h | h | h | h | h <;> subst h
  · exact Goes.altL (Goes.seq (Goes.chr 'c') (Goes.seq (Goes.chr 'l') (Goes.seq (Goes.chr 'a') (Goes.seq (Goes.chr 's') (Goes.chr 's')))))
  · exact Goes.altR (Goes.altL (Goes.seq (Goes.chr 'd') (Goes.seq (Goes.chr 'e') (Goes.chr 'f'))))
  · exact Goes.altR (Goes.altR (Goes.altL (Goes.chr '@')))
  · exact Goes.altR (Goes.altR (Goes.altR (Goes.altL (Goes.chr '#'))))
  · exact Goes.altR (Goes.altR (Goes.altR (Goes.altR (Goes.chr '_'))))

theorem S4_eq : S4 = .seq (.chr ' ') (.seq (.chr ' ') (.seq (.chr ' ') (.chr ' '))) := by decide

theorem Goes.ofG2 : Goes Model.Whitespace.G2 [' ', ' ', ' ', ' '] := by
  unfold Model.Whitespace.G2
  rw [S4_eq]
  exact Goes.group 2 (Goes.seq (Goes.chr ' ') (Goes.seq (Goes.chr ' ') (Goes.seq (Goes.chr ' ') (Goes.chr ' '))))

theorem Goes.ofStarG2 : ∀ k : Nat, Goes (.star Model.Whitespace.G2 true) (List.replicate (4 * k) ' ') := by
  intro k
  induction k with
  | zero => intro pre rest caps; exact ⟨caps, by simpa using Run.star0 (t := T) Model.Whitespace.G2 true ⟨pre, rest, caps⟩⟩
  | succ k ih =>
    intro pre rest caps
    obtain ⟨c1, r1⟩ := Goes.ofG2 pre (List.replicate (4 * k) ' ' ++ rest) caps
    obtain ⟨c2, r2⟩ := ih ([' ', ' ', ' ', ' '].reverse ++ pre) rest c1
    refine ⟨c2, ?_⟩
    have := Run.starS (t := T) Model.Whitespace.G2 true _ _ _ r1 (by simp; omega) r2
    have e : List.replicate (4 * (k + 1)) ' ' = [' ', ' ', ' ', ' '] ++ List.replicate (4 * k) ' ' := by
      have : 4 * (k + 1) = 4 * k + 1 + 1 + 1 + 1 := by omega
      rw [this]; simp [List.replicate_succ]
    rw [e]
    simpa [List.append_assoc] using this

/-- a `Goes` gives a match at any position -/
theorem Goes.matchAt_isSome {r w} (h : Goes r w) (hl : noLook r = true) (pre rest : Str) :
    (matchAt T r pre (w ++ rest)).isSome = true := by
  obtain ⟨c1, r1⟩ := h pre rest []
  exact matchAt_complete r1 hl

/-! ### the predicates on a whitespace run that make pass 2 / pass 3 fire -/

/-- `\s+\n\s*\n\s*\n` -/
def P2 (R : Str) : Prop := ∃ A B C : Str, A ≠ [] ∧ R = A ++ '\n' :: (B ++ '\n' :: (C ++ ['\n']))
/-- `\s+\n\s*\n(    )+` -/
def P3 (R : Str) : Prop := ∃ (A B : Str) (k : Nat), A ≠ [] ∧ R = A ++ '\n' :: (B ++ '\n' :: List.replicate (4 * (k + 1)) ' ')

theorem P2.cons {R} (c : Char) (h : P2 R) : P2 (c :: R) := by
  obtain ⟨A, B, C, _, e⟩ := h
  exact ⟨c :: A, B, C, by simp, by simp [e]⟩

theorem P3.cons {R} (c : Char) (h : P3 R) : P3 (c :: R) := by
  obtain ⟨A, B, k, _, e⟩ := h
  exact ⟨c :: A, B, k, by simp, by simp [e]⟩

theorem allWs_parts {A B C : Str} {x y : Char} (h : AllWs wsT (A ++ x :: (B ++ y :: C))) :
    AllWs wsT A ∧ AllWs wsT B ∧ AllWs wsT C := by
  refine ⟨fun c hc => h c (by simp [hc]), fun c hc => h c (by simp [hc]), fun c hc => h c (by simp [hc])⟩

theorem ws2_complete {R : Str} (hR : AllWs wsT R) (hP : P2 R) {kw : Str} (hkw : kw ∈ KWs) (pre rest : Str) :
    (matchAt T ws2Re pre (R ++ (kw ++ rest))).isSome = true := by
  obtain ⟨A, B, C, hA, e⟩ := hP
  subst e
  obtain ⟨wA, wB, wC⟩ := allWs_parts hR
  have wC' : AllWs wsT C := fun c hc => wC c (by simp [hc])
  have g : Goes ws2Re (A ++ (['\n'] ++ (B ++ (['\n'] ++ (C ++ (['\n'] ++ kw)))))) :=
    Goes.seq (Goes.ofSP hA wA) (Goes.seq (Goes.chr '\n') (Goes.seq (Goes.ofStarS B wB) (Goes.seq (Goes.chr '\n')
      (Goes.seq (Goes.ofStarS C wC') (Goes.seq (Goes.chr '\n') (Goes.group 1 (Goes.ofKW kw hkw)))))))
  have := g.matchAt_isSome (by decide) pre rest
  simpa [List.append_assoc] using this

theorem ws3_complete {R : Str} (hR : AllWs wsT R) (hP : P3 R) {c : Char} (hc : clsTest T false C3items c = true)
    (pre rest : Str) : (matchAt T ws3Re pre (R ++ c :: rest)).isSome = true := by
  obtain ⟨A, B, k, hA, e⟩ := hP
  subst e
  obtain ⟨wA, wB, _⟩ := allWs_parts hR
  have gC3 : Goes C3 [c] := by
    intro pre rest caps
    exact ⟨caps, by simpa [St.push, C3, C3items] using Run.cls (t := T) false C3items ⟨pre, c :: rest, caps⟩ c rest rfl hc⟩
  have e4 : List.replicate (4 * (k + 1)) ' ' = [' ', ' ', ' ', ' '] ++ List.replicate (4 * k) ' ' := by
    have : 4 * (k + 1) = 4 * k + 1 + 1 + 1 + 1 := by omega
    rw [this]; simp [List.replicate_succ]
  have g : Goes ws3Re (A ++ (['\n'] ++ (B ++ (['\n'] ++ (([' ', ' ', ' ', ' '] ++ List.replicate (4 * k) ' ') ++ [c]))))) :=
    Goes.seq (Goes.ofSP hA wA) (Goes.seq (Goes.chr '\n') (Goes.seq (Goes.ofStarS B wB) (Goes.seq (Goes.chr '\n')
      (Goes.seq (Goes.group 1 (Goes.seq Goes.ofG2 (Goes.ofStarG2 k))) (Goes.group 3 gC3)))))
  have := g.matchAt_isSome (by decide) pre rest
  rw [e4]
  simpa [List.append_assoc] using this

theorem ws1_complete (k : Nat) (pre rest : Str) :
    (matchAt T ws1Re pre (List.replicate (k + 1) ' ' ++ '\n' :: rest)).isSome = true := by
  have gs : ∀ k : Nat, Goes (.star (.chr ' ') true) (List.replicate k ' ') := by
    intro k
    induction k with
    | zero => intro pre rest caps; exact ⟨caps, by simpa using Run.star0 (t := T) (.chr ' ') true ⟨pre, rest, caps⟩⟩
    | succ k ih =>
      intro pre rest caps
      obtain ⟨c1, r1⟩ := Goes.chr ' ' pre (List.replicate k ' ' ++ rest) caps
      obtain ⟨c2, r2⟩ := ih ([' '].reverse ++ pre) rest c1
      refine ⟨c2, ?_⟩
      have := Run.starS (t := T) (.chr ' ') true _ _ _ r1 (by simp) r2
      simpa [List.replicate_succ, List.append_assoc] using this
  have g : Goes ws1Re (([' '] ++ List.replicate k ' ') ++ ['\n']) :=
    Goes.seq (Goes.seq (Goes.chr ' ') (gs k)) (Goes.chr '\n')
  have := g.matchAt_isSome (by decide) pre rest
  simpa [List.replicate_succ, List.append_assoc] using this

/-! ### what a reported match looks like (soundness) -/

theorem run_chr_prefix {c b s s'} (h : Run T (.seq (.chr c) b) s s') :
    ∃ s1, Run T b s1 s' ∧ s.rest = c :: s1.rest ∧ s1.caps = s.caps := by
  obtain ⟨s1, h1, h2⟩ := h.seq_inv
  cases h1 with
  | chr _ _ r hs => exact ⟨_, h2, by simp [St.push, hs], rfl⟩

theorem run_chr_last {c s s'} (h : Run T (.chr c) s s') : s.rest = c :: s'.rest ∧ s'.caps = s.caps := by
  cases h with
  | chr _ _ r hs => exact ⟨by simp [St.push, hs], rfl⟩

theorem run_SP_prefix {b s s'} (h : Run T (.seq Model.Whitespace.SP b) s s') :
    ∃ s1 w, Run T b s1 s' ∧ s.rest = w ++ s1.rest ∧ s1.caps = s.caps ∧ AllWs wsT w ∧ w ≠ [] := by
  obtain ⟨sa, h1, h2⟩ := h.seq_inv
  unfold Model.Whitespace.SP at h1
  obtain ⟨s0, hS, hSS⟩ := h1.seq_inv
  have hwS : wsRe T Model.Whitespace.S = true := by decide
  have hwSS : wsRe T (.star Model.Whitespace.S true) = true := by decide
  obtain ⟨w0, e0, _, c0, a0⟩ := hS.ws hwS
  obtain ⟨w1, e1, _, c1, a1⟩ := hSS.ws hwSS
  have hne : w0 ≠ [] := by
    cases hS with
    | cls _ _ _ d r hs _ =>
      intro hw; subst hw
      simp [St.push, hs] at e0
  refine ⟨sa, w0 ++ w1, h2, by rw [e0, e1, List.append_assoc], by rw [c1, c0], ?_, by simp [hne]⟩
  intro c hc
  rcases List.mem_append.mp hc with hc | hc
  · exact a0 c hc
  · exact a1 c hc

theorem run_star_chr {c : Char} {g : Bool} {s s' : St} (h : Run T (.star (.chr c) g) s s') :
    ∃ k, s.rest = List.replicate k c ++ s'.rest ∧ s'.caps = s.caps := by
  generalize hr : Re.star (.chr c) g = r at h
  induction h with
  | star0 r g s => exact ⟨0, by simp, rfl⟩
  | starS r0 g0 s s1 s2 h1 _ _ _ ih2 =>
    cases hr
    obtain ⟨e1, c1⟩ := run_chr_last h1
    obtain ⟨k, e2, c2⟩ := ih2 rfl
    exact ⟨k + 1, by rw [e1, e2]; simp [List.replicate_succ], by rw [c2, c1]⟩
  | _ => cases hr

theorem run_G2 {s s' : St} (h : Run T Model.Whitespace.G2 s s') : s.rest = [' ', ' ', ' ', ' '] ++ s'.rest := by
  unfold Model.Whitespace.G2 at h
  obtain ⟨s1, hr, hst⟩ := h.group_inv
  rw [S4_eq] at hr
  obtain ⟨sa, hr, ea, _⟩ := run_chr_prefix hr
  obtain ⟨sb, hr, eb, _⟩ := run_chr_prefix hr
  obtain ⟨sc, hr, ec, _⟩ := run_chr_prefix hr
  obtain ⟨ed, _⟩ := run_chr_last hr
  rw [hst, ea, eb, ec, ed]; simp

theorem run_star_G2 {g : Bool} {s s' : St} (h : Run T (.star Model.Whitespace.G2 g) s s') :
    ∃ k, s.rest = List.replicate (4 * k) ' ' ++ s'.rest := by
  generalize hr : Re.star Model.Whitespace.G2 g = r at h
  induction h with
  | star0 r g s => exact ⟨0, by simp⟩
  | starS r0 g0 s s1 s2 h1 _ _ _ ih2 =>
    cases hr
    have e1 := run_G2 h1
    obtain ⟨k, e2⟩ := ih2 rfl
    refine ⟨k + 1, ?_⟩
    have : 4 * (k + 1) = 4 * k + 1 + 1 + 1 + 1 := by omega
    rw [e1, e2, this]; simp [List.replicate_succ]
  | _ => cases hr

theorem run_KW {s s' : St} (h : Run T Model.Whitespace.KW s s') : ∃ kw ∈ KWs, s.rest = kw ++ s'.rest := by
  rw [KW_eq] at h
  cases h with
  | altL _ _ _ _ h =>
    obtain ⟨sa, h, ea, _⟩ := run_chr_prefix h
    obtain ⟨sb, h, eb, _⟩ := run_chr_prefix h
    obtain ⟨sc, h, ec, _⟩ := run_chr_prefix h
    obtain ⟨sd, h, ed, _⟩ := run_chr_prefix h
    obtain ⟨ee, _⟩ := run_chr_last h
    exact ⟨"class".toList, by decide, by rw [ea, eb, ec, ed, ee]; rfl⟩
  | altR _ _ _ _ h =>
    cases h with
    | altL _ _ _ _ h =>
      obtain ⟨sa, h, ea, _⟩ := run_chr_prefix h
      obtain ⟨sb, h, eb, _⟩ := run_chr_prefix h
      obtain ⟨ec, _⟩ := run_chr_last h
      exact ⟨"def".toList, by decide, by rw [ea, eb, ec]; rfl⟩
    | altR _ _ _ _ h =>
      cases h with
      | altL _ _ _ _ h => exact ⟨['@'], by decide, by rw [(run_chr_last h).1]; rfl⟩
      | altR _ _ _ _ h =>
        cases h with
        | altL _ _ _ _ h => exact ⟨['#'], by decide, by rw [(run_chr_last h).1]; rfl⟩
        | altR _ _ _ _ h => exact ⟨['_'], by decide, by rw [(run_chr_last h).1]; rfl⟩

theorem ws1_shape {pre rest st} (h : matchAt T ws1Re pre rest = some st) :
    ∃ k, rest = List.replicate (k + 1) ' ' ++ '\n' :: st.rest ∧ expand st.caps ws1Repl = ['\n'] := by
  have hr := matchAt_sound h
  unfold ws1Re at hr
  obtain ⟨s1, h1, h2⟩ := hr.seq_inv
  obtain ⟨s0, hs, e0, _⟩ := run_chr_prefix h1
  obtain ⟨k, ek, _⟩ := run_star_chr hs
  obtain ⟨enl, _⟩ := run_chr_last h2
  refine ⟨k, ?_, by simp [ws1Repl, expand]⟩
  simp only [] at e0
  rw [e0, ek, enl]; simp [List.replicate_succ]

theorem ws2_shape {pre rest st} (h : matchAt T ws2Re pre rest = some st) :
    ∃ R kw, AllWs wsT R ∧ P2 R ∧ kw ∈ KWs ∧ rest = R ++ (kw ++ st.rest) ∧
      expand st.caps ws2Repl = '\n' :: '\n' :: '\n' :: kw := by
  have hr := matchAt_sound h
  unfold ws2Re at hr
  obtain ⟨s1, w1, hr, e1, c1, a1, n1⟩ := run_SP_prefix hr
  unfold Model.Whitespace.NL at hr
  obtain ⟨s2, hr, e2, c2⟩ := run_chr_prefix hr
  obtain ⟨s3, w3, hr, e3, c3, a3⟩ := hr.ws_prefix (by decide : wsRe T Model.Whitespace.SS = true)
  obtain ⟨s4, hr, e4, c4⟩ := run_chr_prefix hr
  obtain ⟨s5, w5, hr, e5, c5, a5⟩ := hr.ws_prefix (by decide : wsRe T Model.Whitespace.SS = true)
  obtain ⟨s6, hr, e6, c6⟩ := run_chr_prefix hr
  obtain ⟨s7, hr7, hst⟩ := hr.group_inv
  obtain ⟨kw, hkw, ekw⟩ := run_KW hr7
  obtain ⟨g, eg, pg⟩ := hr7.consumed
  have hcap : capture s6 s7 = g := capture_eq pg
  have hg : g = kw := by
    rw [eg] at ekw
    exact List.append_cancel_right ekw
  have hrest : st.rest = s7.rest := by rw [hst]
  refine ⟨w1 ++ '\n' :: (w3 ++ '\n' :: (w5 ++ ['\n'])), kw, ?_, ⟨w1, w3, w5, n1, rfl⟩, hkw, ?_, ?_⟩
  · intro c hc
    simp only [List.mem_append, List.mem_cons, List.not_mem_nil, or_false] at hc
    rcases hc with hc | rfl | hc | rfl | hc | rfl
    · exact a1 c hc
    · exact ws_nl
    · exact a3 c hc
    · exact ws_nl
    · exact a5 c hc
    · exact ws_nl
  · simp only [] at e1
    rw [e1, e2, e3, e4, e5, e6, ekw, hrest]; simp
  · rw [hst]
    simp only [ws2Repl, expand, St.group?, List.find?, hcap, beq_self_eq_true, Option.map, Option.getD, List.append_nil, hg]
    rfl

theorem ws3_shape {pre rest st} (h : matchAt T ws3Re pre rest = some st) :
    ∃ (A B : Str) (k : Nat) (c : Char), A ≠ [] ∧ AllWs wsT A ∧ AllWs wsT B ∧ clsTest T false C3items c = true ∧
      rest = A ++ '\n' :: (B ++ '\n' :: (List.replicate (4 * (k + 1)) ' ' ++ c :: st.rest)) ∧
      expand st.caps ws3Repl = '\n' :: '\n' :: (List.replicate (4 * (k + 1)) ' ' ++ [c]) := by
  have hr := matchAt_sound h
  unfold ws3Re at hr
  obtain ⟨s1, w1, hr, e1, c1, a1, n1⟩ := run_SP_prefix hr
  unfold Model.Whitespace.NL at hr
  obtain ⟨s2, hr, e2, c2⟩ := run_chr_prefix hr
  obtain ⟨s3, w3, hr, e3, c3, a3⟩ := hr.ws_prefix (by decide : wsRe T Model.Whitespace.SS = true)
  obtain ⟨s4, hr, e4, c4⟩ := run_chr_prefix hr
  obtain ⟨s5, hg1, hg3⟩ := hr.seq_inv
  obtain ⟨s5', hr5, hs5⟩ := hg1.group_inv
  obtain ⟨g1, eg1, pg1⟩ := hr5.consumed
  have hcap1 : capture s4 s5' = g1 := capture_eq pg1
  -- group 1 consumed 4(k+1) spaces
  obtain ⟨sm, hG2, hstar⟩ := hr5.seq_inv
  have eG2 := run_G2 hG2
  obtain ⟨k, ek⟩ := run_star_G2 hstar
  have hg1 : g1 = List.replicate (4 * (k + 1)) ' ' := by
    have : s4.rest = List.replicate (4 * (k + 1)) ' ' ++ s5'.rest := by
      have h4 : 4 * (k + 1) = 4 * k + 1 + 1 + 1 + 1 := by omega
      rw [eG2, ek, h4]; simp [List.replicate_succ]
    rw [eg1] at this
    exact List.append_cancel_right this
  obtain ⟨s6, hr6, hst⟩ := hg3.group_inv
  obtain ⟨g3, eg3, pg3⟩ := hr6.consumed
  have hcap3 : capture s5 s6 = g3 := capture_eq pg3
  unfold Model.Whitespace.C3 at hr6
  cases hr6 with
  | cls _ _ _ d r hs ht =>
    have hg3 : g3 = [d] := by
      simp only [St.push] at eg3
      rw [hs] at eg3
      have : d :: r = [d] ++ r := rfl
      rw [this] at eg3
      exact (List.append_cancel_right eg3).symm
    have h5 : s5.rest = s5'.rest := by rw [hs5]
    refine ⟨w1, w3, k, d, n1, a1, a3, ht, ?_, ?_⟩
    · simp only [] at e1
      rw [e1, e2, e3, e4, eg1, hg1, ← h5, hs, hst]
      simp [St.push]
    · rw [hcap3, hg3] at hst
      rw [hst]
      simp only [St.push, hs5]
      simp only [ws3Repl, expand, St.group?, List.find?, hcap1, beq_self_eq_true, Option.map, Option.getD]
      have h31 : ((3 : Nat) == 1) = false := by decide
      simp only [h31, List.append_nil, hg1]
      rfl

/-! ### the three passes as run-local rewriters -/

/-- pass 1 (`[ ]+\n` → `\n`): drop the spaces that stand right before a line break -/
def strip1 : Str → Str
  | [] => []
  | c :: cs => if c = ' ' ∧ (strip1 cs).head? = some '\n' then strip1 cs else c :: strip1 cs

def h1 (R _la : Str) : Str := strip1 R

def kwHead (la : Str) : Prop := ∃ kw ∈ KWs, kw <+: la
def c3Head (la : Str) : Prop := ∃ c, la.head? = some c ∧ clsTest T false C3items c = true

/-- the text after the last line break of a run -/
def afterNl (R : Str) : Str := (R.reverse.takeWhile (fun c => c != '\n')).reverse

open Classical in
/-- pass 2: a run with three line breaks (and something before the first) in front of a top-level definition -/
noncomputable def h2 (R la : Str) : Str := if kwHead la ∧ P2 R then ['\n', '\n', '\n'] else R

open Classical in
/-- pass 3: a run with two line breaks (and something before the first) in front of an indented definition -/
noncomputable def h3 (R la : Str) : Str := if c3Head la ∧ P3 R then '\n' :: '\n' :: afterNl R else R

theorem takeWhile_append_stop {p : Char → Bool} (l : Str) (x : Char) (r : Str) (hl : ∀ c ∈ l, p c = true) (hx : p x = false) :
    (l ++ x :: r).takeWhile p = l := by
  induction l with
  | nil => simp [hx]
  | cons d l ih =>
    have hd := hl d (by simp)
    simp only [List.cons_append, List.takeWhile, hd]
    rw [ih (fun c hc => hl c (by simp [hc]))]

theorem afterNl_append (X I : Str) (hI : '\n' ∉ I) : afterNl (X ++ '\n' :: I) = I := by
  unfold afterNl
  have : (X ++ '\n' :: I).reverse = I.reverse ++ '\n' :: X.reverse := by simp
  rw [this, takeWhile_append_stop _ _ _ _ (by simp), List.reverse_reverse]
  intro c hc
  have : c ∈ I := by simpa using hc
  simp only [bne_iff_ne, ne_eq]
  intro e; subst e; exact hI this

theorem suffix_P2 {R' R : Str} (hs : R' <:+ R) (h : P2 R') : P2 R := by
  obtain ⟨p, rfl⟩ := hs
  induction p with
  | nil => simpa using h
  | cons c p ih => exact P2.cons c ih

theorem suffix_P3 {R' R : Str} (hs : R' <:+ R) (h : P3 R') : P3 R := by
  obtain ⟨p, rfl⟩ := hs
  induction p with
  | nil => simpa using h
  | cons c p ih => exact P3.cons c ih

theorem prefix_takeWhile {p : Char → Bool} {K r : Str} (hK : ∀ c ∈ K, p c = true) : K <+: (K ++ r).takeWhile p := by
  induction K with
  | nil => exact List.nil_prefix
  | cons c K ih =>
    have hc := hK c (by simp)
    simp only [List.cons_append, List.takeWhile, hc]
    exact List.cons_prefix_cons.mpr ⟨rfl, ih (fun d hd => hK d (by simp [hd]))⟩

theorem run_split (c : Char) (cs : Str) : c :: cs = (c :: cs.takeWhile wsT) ++ cs.dropWhile wsT := by simp

theorem run_allWs {c : Char} (cs : Str) (hc : wsT c = true) : AllWs wsT (c :: cs.takeWhile wsT) := by
  intro d hd
  rcases List.mem_cons.mp hd with rfl | hd
  · exact hc
  · exact takeWhile_allWs cs d hd

/-- a text that splits as (white run) ++ (something starting non-white) has that run as its leading run -/
theorem run_unique {c : Char} {cs R nx : Str} (e : c :: cs = R ++ nx) (hR : AllWs wsT R) (hne : R ≠ [])
    (hn : StartsNonWs wsT nx) : R = c :: cs.takeWhile wsT ∧ nx = cs.dropWhile wsT := by
  have h := takeWhile_allws_append (ws := wsT) hR hn
  rw [← e] at h
  have hc : wsT c = true := by
    cases R with
    | nil => exact absurd rfl hne
    | cons d R' =>
      simp only [List.cons_append, List.cons.injEq] at e
      rw [e.1]; exact hR d (by simp)
  simp only [List.takeWhile, List.dropWhile, hc] at h
  exact ⟨h.1.symm, h.2.symm⟩

theorem kw_startsNonWs {kw : Str} (hkw : kw ∈ KWs) (r : Str) : StartsNonWs wsT (kw ++ r) := by
  obtain ⟨hne, hall⟩ := kw_nonws kw hkw
  cases kw with
  | nil => exact absurd rfl hne
  | cons d k =>
    intro c hc
    simp only [List.cons_append, List.head?_cons, Option.some.injEq] at hc
    subst hc; exact hall d (by simp)

theorem P2_ne_nil {R} (h : P2 R) : R ≠ [] := by
  obtain ⟨A, B, C, hA, e⟩ := h
  subst e
  cases A with
  | nil => exact absurd rfl hA
  | cons a A => simp

theorem P3_ne_nil {R} (h : P3 R) : R ≠ [] := by
  obtain ⟨A, B, k, hA, e⟩ := h
  subst e
  cases A with
  | nil => exact absurd rfl hA
  | cons a A => simp

theorem head_takeWhile {p : Char → Bool} {l : Str} {c : Char} (h : (l.takeWhile p).head? = some c) : ∃ r, l = c :: r := by
  cases l with
  | nil => simp at h
  | cons d r =>
    by_cases hd : p d = true
    · simp only [List.takeWhile, hd, List.head?_cons, Option.some.injEq] at h
      exact ⟨r, by rw [h]⟩
    · simp [List.takeWhile, hd] at h

/-- **pass 2 is the run-local rewriter `h2`** -/
theorem pass2_eq : ∀ (n : Nat) (pre s : Str), s.length < n → subLoop T ws2Re ws2Repl n pre s = mapRuns wsT h2 s := by
  intro n
  induction n with
  | zero => intro pre s hs; omega
  | succ n ih =>
    intro pre s hs
    cases s with
    | nil => simp [subLoop]
    | cons c cs =>
      simp only [subLoop]
      cases hm : matchAt T ws2Re pre (c :: cs) with
      | some st =>
        obtain ⟨R, kw, hR, hP, hkw, e, hex⟩ := ws2_shape hm
        have hRne := P2_ne_nil hP
        have hkne := (kw_nonws kw hkw).1
        have hlen : st.rest.length < (c :: cs).length := by
          rw [e]; simp only [List.length_append]
          have : 0 < R.length := List.length_pos_iff.mpr hRne
          omega
        simp only [hlen, if_true]
        rw [ih st.pre st.rest (by simp only [List.length_cons] at hs hlen; omega), hex, e]
        rw [mapRuns_run_append h2 hRne hR (kw_startsNonWs hkw _)]
        have hcond : kwHead ((kw ++ st.rest).takeWhile (fun d => !wsT d)) ∧ P2 R :=
          ⟨⟨kw, hkw, prefix_takeWhile (fun d hd => by simp [(kw_nonws kw hkw).2 d hd])⟩, hP⟩
        rw [mapRuns_nonws_append h2 (kw_nonws kw hkw).2]
        simp [h2, hcond]
      | none =>
        simp only []
        rw [ih (c :: pre) cs (by simp only [List.length_cons] at hs; omega)]
        by_cases hc : wsT c = true
        · symm
          apply mapRuns_skip_ws h2 hc
          intro R' hsuf hne'
          unfold h2
          rw [if_neg]
          rintro ⟨⟨kw, hkw, r', hla⟩, hP'⟩
          have hP := suffix_P2 hsuf hP'
          -- the text is R ++ kw ++ …: the matcher would have answered
          have hnx : ∃ r'', cs.dropWhile wsT = kw ++ r'' := by
            have hpre : (cs.dropWhile wsT).takeWhile (fun d => !wsT d) <+: cs.dropWhile wsT := List.takeWhile_prefix _
            obtain ⟨t, ht⟩ := hpre
            exact ⟨r' ++ t, by rw [← ht, ← hla]; simp⟩
          obtain ⟨r'', hr''⟩ := hnx
          have := ws2_complete (run_allWs cs hc) hP hkw pre r''
          rw [← hr'', ← run_split, hm] at this
          simp at this
        · have hc' : wsT c = false := by simpa using hc
          rw [mapRuns_nonws_cons h2 _ hc']

/-- **pass 3 is the run-local rewriter `h3`** -/
theorem pass3_eq : ∀ (n : Nat) (pre s : Str), s.length < n → subLoop T ws3Re ws3Repl n pre s = mapRuns wsT h3 s := by
  intro n
  induction n with
  | zero => intro pre s hs; omega
  | succ n ih =>
    intro pre s hs
    cases s with
    | nil => simp [subLoop]
    | cons c cs =>
      simp only [subLoop]
      cases hm : matchAt T ws3Re pre (c :: cs) with
      | some st =>
        obtain ⟨A, B, k, d, hA, wA, wB, hd, e, hex⟩ := ws3_shape hm
        have hsp : AllWs wsT (List.replicate (4 * (k + 1)) ' ') := by
          intro x hx; rw [List.eq_of_mem_replicate hx]; exact ws_sp
        have hR : AllWs wsT (A ++ '\n' :: (B ++ '\n' :: List.replicate (4 * (k + 1)) ' ')) := by
          intro x hx
          simp only [List.mem_append, List.mem_cons] at hx
          rcases hx with hx | rfl | hx | rfl | hx
          · exact wA x hx
          · exact ws_nl
          · exact wB x hx
          · exact ws_nl
          · exact hsp x hx
        have hP : P3 (A ++ '\n' :: (B ++ '\n' :: List.replicate (4 * (k + 1)) ' ')) := ⟨A, B, k, hA, rfl⟩
        have hRne := P3_ne_nil hP
        have e' : c :: cs = (A ++ '\n' :: (B ++ '\n' :: List.replicate (4 * (k + 1)) ' ')) ++ d :: st.rest := by
          rw [e]; simp
        have hdn : wsT d = false := c3_not_ws d hd
        have hlen : st.rest.length < (c :: cs).length := by
          rw [e']; simp only [List.length_append, List.length_cons]; omega
        simp only [hlen, if_true]
        rw [ih st.pre st.rest (by simp only [List.length_cons] at hs hlen; omega), hex, e']
        have hsn : StartsNonWs wsT (d :: st.rest) := by
          intro x hx; simp only [List.head?_cons, Option.some.injEq] at hx; subst hx; exact hdn
        rw [mapRuns_run_append h3 hRne hR hsn, mapRuns_nonws_cons h3 _ hdn]
        have hcond : c3Head ((d :: st.rest).takeWhile (fun x => !wsT x)) ∧
            P3 (A ++ '\n' :: (B ++ '\n' :: List.replicate (4 * (k + 1)) ' ')) :=
          ⟨⟨d, by simp [List.takeWhile, hdn], hd⟩, hP⟩
        have hafter : afterNl (A ++ '\n' :: (B ++ '\n' :: List.replicate (4 * (k + 1)) ' ')) = List.replicate (4 * (k + 1)) ' ' := by
          have : A ++ '\n' :: (B ++ '\n' :: List.replicate (4 * (k + 1)) ' ') = (A ++ '\n' :: B) ++ '\n' :: List.replicate (4 * (k + 1)) ' ' := by simp
          rw [this]
          apply afterNl_append
          intro hx
          have := List.eq_of_mem_replicate hx
          exact absurd this (by decide)
        simp [h3, hcond, hafter]
      | none =>
        simp only []
        rw [ih (c :: pre) cs (by simp only [List.length_cons] at hs; omega)]
        by_cases hc : wsT c = true
        · symm
          apply mapRuns_skip_ws h3 hc
          intro R' hsuf hne'
          unfold h3
          rw [if_neg]
          rintro ⟨⟨d, hla, hd⟩, hP'⟩
          have hP := suffix_P3 hsuf hP'
          obtain ⟨r'', hr''⟩ := head_takeWhile hla
          have := ws3_complete (run_allWs cs hc) hP hd pre r''
          rw [← hr'', ← run_split, hm] at this
          simp at this
        · have hc' : wsT c = false := by simpa using hc
          rw [mapRuns_nonws_cons h3 _ hc']

/-! ### pass 1 -/

theorem strip1_cons_ne (c : Char) (cs : Str) (h : c ≠ ' ') : strip1 (c :: cs) = c :: strip1 cs := by
  simp [strip1, h]

theorem strip1_nl (cs : Str) : strip1 ('\n' :: cs) = '\n' :: strip1 cs := strip1_cons_ne _ _ (by decide)

theorem strip1_spaces_nl (k : Nat) (r : Str) : strip1 (List.replicate k ' ' ++ '\n' :: r) = '\n' :: strip1 r := by
  induction k with
  | zero => simpa using strip1_nl r
  | succ k ih =>
    rw [List.replicate_succ, List.cons_append]
    simp only [strip1, ih]
    simp

/-- the result of `strip1` starts with a line break only if the text is spaces followed by a line break -/
theorem strip1_head_nl : ∀ (cs : Str), (strip1 cs).head? = some '\n' → ∃ j r, cs = List.replicate j ' ' ++ '\n' :: r := by
  intro cs
  induction cs with
  | nil => intro h; simp [strip1] at h
  | cons d ds ih =>
    intro h
    by_cases hc : d = ' ' ∧ (strip1 ds).head? = some '\n'
    · obtain ⟨j, r, e⟩ := ih hc.2
      exact ⟨j + 1, r, by rw [e, hc.1, List.replicate_succ]; simp⟩
    · simp only [strip1, hc, if_false, List.head?_cons, Option.some.injEq] at h
      exact ⟨0, ds, by simp [h]⟩

/-- **pass 1 is `strip1`** -/
theorem pass1_eq : ∀ (n : Nat) (pre s : Str), s.length < n → subLoop T ws1Re ws1Repl n pre s = strip1 s := by
  intro n
  induction n with
  | zero => intro pre s hs; omega
  | succ n ih =>
    intro pre s hs
    cases s with
    | nil => simp [subLoop, strip1]
    | cons c cs =>
      simp only [subLoop]
      cases hm : matchAt T ws1Re pre (c :: cs) with
      | some st =>
        obtain ⟨k, e, hex⟩ := ws1_shape hm
        have hlen : st.rest.length < (c :: cs).length := by
          rw [e]; simp only [List.length_append, List.length_cons, List.length_replicate]; omega
        simp only [hlen, if_true]
        rw [ih st.pre st.rest (by simp only [List.length_cons] at hs hlen; omega), hex, e, strip1_spaces_nl]
        simp
      | none =>
        simp only []
        rw [ih (c :: pre) cs (by simp only [List.length_cons] at hs; omega)]
        have hno : ¬ (c = ' ' ∧ (strip1 cs).head? = some '\n') := by
          rintro ⟨hc, hh⟩
          obtain ⟨j, r, e⟩ := strip1_head_nl cs hh
          have := ws1_complete j pre r
          rw [List.replicate_succ, List.cons_append, ← e, ← hc, hm] at this
          simp at this
        simp [strip1, hno]

theorem strip1_eq_nil {s : Str} : strip1 s = [] ↔ s = [] := by
  constructor
  · intro h
    cases s with
    | nil => rfl
    | cons c cs =>
      exfalso
      by_cases hc : c = ' ' ∧ (strip1 cs).head? = some '\n'
      · simp only [strip1, hc, and_self, if_true] at h
        rw [h] at hc; simp at hc
      · simp [strip1, hc] at h
  · intro h; subst h; simp [strip1]

theorem strip1_mem {s : Str} : ∀ c ∈ strip1 s, c ∈ s := by
  induction s with
  | nil => intro c hc; simp [strip1] at hc
  | cons d ds ih =>
    intro c hc
    by_cases hcond : d = ' ' ∧ (strip1 ds).head? = some '\n'
    · simp only [strip1, hcond, and_self, if_true] at hc
      exact List.mem_cons_of_mem _ (ih c hc)
    · simp only [strip1, hcond, if_false, List.mem_cons] at hc
      rcases hc with rfl | hc
      · simp
      · exact List.mem_cons_of_mem _ (ih c hc)

/-- `strip1` works run by run: a run followed by a token (or the end) is stripped on its own -/
theorem strip1_append (a b : Str) (hb : (strip1 b).head? ≠ some '\n') : strip1 (a ++ b) = strip1 a ++ strip1 b := by
  induction a with
  | nil => simp [strip1]
  | cons c a ih =>
    have hhead : (strip1 a ++ strip1 b).head? = some '\n' ↔ (strip1 a).head? = some '\n' := by
      cases hsa : strip1 a with
      | nil => simp [hb]
      | cons x xs => simp
    simp only [List.cons_append, strip1, ih, hhead]
    split <;> simp

theorem strip1_startsNonWs {b : Str} (hb : StartsNonWs wsT b) : (strip1 b).head? ≠ some '\n' := by
  cases b with
  | nil => simp [strip1]
  | cons d r =>
    have hd := hb d rfl
    have hne : d ≠ ' ' := by intro e; subst e; rw [ws_sp] at hd; cases hd
    rw [strip1_cons_ne _ _ hne]
    simp only [List.head?_cons, ne_eq, Option.some.injEq]
    intro e; subst e; rw [ws_nl] at hd; cases hd

theorem strip1_mapRuns : ∀ (n : Nat) (s : Str), s.length ≤ n → strip1 s = mapRuns wsT h1 s := by
  intro n
  induction n with
  | zero =>
    intro s hs
    have : s = [] := List.eq_nil_of_length_eq_zero (by omega)
    subst this; simp [strip1]
  | succ n ih =>
    intro s hs
    cases s with
    | nil => simp [strip1]
    | cons c cs =>
      by_cases hc : wsT c = true
      · rw [mapRuns_ws_cons h1 _ hc]
        have hlen : (cs.dropWhile wsT).length ≤ n := by
          have := length_dropWhile_le' wsT cs
          simp only [List.length_cons] at hs
          omega
        rw [← ih _ hlen]
        conv => lhs; rw [run_split c cs]
        rw [strip1_append _ _ (strip1_startsNonWs (dropWhile_startsNonWs cs))]
        rfl
      · have hc' : wsT c = false := by simpa using hc
        have hne : c ≠ ' ' := by intro e; subst e; rw [ws_sp] at hc'; cases hc'
        rw [mapRuns_nonws_cons h1 _ hc', strip1_cons_ne _ _ hne, ih cs (by simp only [List.length_cons] at hs; omega)]

/-! ### `fix_whitespace` as one pass over the runs -/

theorem wsPres_h1 : WsPres wsT h1 := by
  intro R la hne hR
  exact ⟨fun h => hne (strip1_eq_nil.mp h), fun c hc => hR c (strip1_mem c hc)⟩

theorem allWs_nl3 : AllWs wsT ['\n', '\n', '\n'] := by
  intro c hc
  simp only [List.mem_cons, List.not_mem_nil, or_false] at hc
  rcases hc with rfl | rfl | rfl <;> exact ws_nl

theorem afterNl_mem (R : Str) : ∀ c ∈ afterNl R, c ∈ R := by
  intro c hc
  unfold afterNl at hc
  have : c ∈ R.reverse.takeWhile (fun c => c != '\n') := by simpa using hc
  have := (List.takeWhile_prefix _).subset this
  simpa using this

theorem wsPres_h2 : WsPres wsT h2 := by
  intro R la hne hR
  unfold h2
  split
  · exact ⟨by simp, allWs_nl3⟩
  · exact ⟨hne, hR⟩

theorem wsPres_h3 : WsPres wsT h3 := by
  intro R la hne hR
  unfold h3
  split
  · refine ⟨by simp, ?_⟩
    intro c hc
    simp only [List.mem_cons] at hc
    rcases hc with rfl | rfl | hc
    · exact ws_nl
    · exact ws_nl
    · exact hR c (afterNl_mem R c hc)
  · exact ⟨hne, hR⟩

/-- the composed per-run rewriter of `fix_whitespace` -/
noncomputable def H (R la : Str) : Str := h3 (h2 (h1 R la) la) la

theorem wsPres_H : WsPres wsT H := by
  intro R la hne hR
  obtain ⟨n1, a1⟩ := wsPres_h1 R la hne hR
  obtain ⟨n2, a2⟩ := wsPres_h2 _ la n1 a1
  exact wsPres_h3 _ la n2 a2

/-- **`fix_whitespace` = one run-local pass, then `rstrip() + "\n"`** -/
theorem fixWhitespace_eq (s : Str) : fixWhitespace s = tailF wsT (mapRuns wsT H s) := by
  unfold fixWhitespace fixWhitespaceWith pySub
  rw [pass1_eq _ _ _ (Nat.lt_succ_self _), pass2_eq _ _ _ (Nat.lt_succ_self _), pass3_eq _ _ _ (Nat.lt_succ_self _)]
  rw [strip1_mapRuns _ _ (Nat.le_refl _)]
  rw [mapRuns_fuse wsPres_h1 _ _ (Nat.le_refl _)]
  have hp21 : WsPres wsT (fun R la => h2 (h1 R la) la) := by
    intro R la hne hR
    obtain ⟨n1, a1⟩ := wsPres_h1 R la hne hR
    exact wsPres_h2 _ la n1 a1
  rw [mapRuns_fuse hp21 _ _ (Nat.le_refl _)]
  rfl

/-! ### the per-run rewriter is idempotent -/

theorem strip1_idem (s : Str) : strip1 (strip1 s) = strip1 s := by
  induction s with
  | nil => simp [strip1]
  | cons c cs ih =>
    by_cases hc : c = ' ' ∧ (strip1 cs).head? = some '\n'
    · simp only [strip1, hc, and_self, if_true, ih]
    · simp only [strip1, hc, if_false]
      rw [ih]; simp [hc]

theorem not_P2_nl3 : ¬ P2 ['\n', '\n', '\n'] := by
  rintro ⟨A, B, C, hA, e⟩
  have := congrArg List.length e
  simp only [List.length_cons, List.length_nil, List.length_append] at this
  have : 0 < A.length := List.length_pos_iff.mpr hA
  omega

theorem getLast?_rep (m : Nat) (X : Str) : (X ++ List.replicate (m + 1) ' ').getLast? = some ' ' := by
  rw [List.replicate_succ', ← List.append_assoc]; exact List.getLast?_concat

theorem not_P3_nl3 : ¬ P3 ['\n', '\n', '\n'] := by
  rintro ⟨A, B, k, hA, e⟩
  have h4 : 4 * (k + 1) = 4 * k + 3 + 1 := by omega
  have e2 : ['\n', '\n', '\n'] = (A ++ '\n' :: (B ++ ['\n'])) ++ List.replicate (4 * k + 3 + 1) ' ' := by rw [e, h4]; simp
  have := congrArg List.getLast? e2
  rw [getLast?_rep] at this
  simp at this

/-- the replacement of pass 3 (`"\n\n" ++ Z` with `Z` after the last line break of the run) satisfies neither predicate -/
theorem P3_out {R : Str} (h : P3 R) : ¬ P2 ('\n' :: '\n' :: afterNl R) ∧ ¬ P3 ('\n' :: '\n' :: afterNl R) ∧
    strip1 ('\n' :: '\n' :: afterNl R) = '\n' :: '\n' :: afterNl R := by
  obtain ⟨A, B, k, hA, e⟩ := h
  have hafter : afterNl R = List.replicate (4 * (k + 1)) ' ' := by
    have : R = (A ++ '\n' :: B) ++ '\n' :: List.replicate (4 * (k + 1)) ' ' := by rw [e]; simp
    rw [this]
    apply afterNl_append
    intro hx
    exact absurd (List.eq_of_mem_replicate hx) (by decide)
  rw [hafter]
  have h4 : 4 * (k + 1) = 4 * k + 3 + 1 := by omega
  refine ⟨?_, ?_, ?_⟩
  · rintro ⟨A', B', C', _, e'⟩
    have l1 : ('\n' :: '\n' :: List.replicate (4 * (k + 1)) ' ').getLast? = some ' ' := by
      rw [h4]; exact getLast?_rep (4 * k + 3) ['\n', '\n']
    have l2 : (A' ++ '\n' :: (B' ++ '\n' :: (C' ++ ['\n']))).getLast? = some '\n' := by
      have : A' ++ '\n' :: (B' ++ '\n' :: (C' ++ ['\n'])) = (A' ++ '\n' :: (B' ++ '\n' :: C')) ++ ['\n'] := by simp
      rw [this]; exact List.getLast?_concat
    rw [e', l2] at l1
    exact absurd l1 (by decide)
  · rintro ⟨A', B', k', hA', e'⟩
    -- two line breaks on the left, so A' and B' hold none; but A' is a non-empty prefix of a text starting with '\n'
    have hcount := congrArg (List.count '\n') e'
    simp [List.count_append, List.count_replicate] at hcount
    have hcA : List.count '\n' A' = 0 := by omega
    cases A' with
    | nil => exact hA' rfl
    | cons a A'' =>
      simp only [List.cons_append, List.cons.injEq] at e'
      rw [← e'.1] at hcA
      simp at hcA
  · rw [strip1_nl, strip1_nl]
    congr 2
    generalize 4 * (k + 1) = m
    induction m with
    | zero => simp [strip1]
    | succ m ih =>
      rw [List.replicate_succ]
      simp only [strip1, ih]
      cases m with
      | zero => simp [strip1]
      | succ m => simp [List.replicate_succ]

theorem H_idem (R la : Str) : H (H R la) la = H R la := by
  unfold H h1
  by_cases c2 : kwHead la ∧ P2 (strip1 R)
  · -- pass 2 fires: "\n\n\n", which nothing touches
    have e2 : h2 (strip1 R) la = ['\n', '\n', '\n'] := by simp [h2, c2]
    have e3 : h3 ['\n', '\n', '\n'] la = ['\n', '\n', '\n'] := by
      unfold h3; rw [if_neg]; exact fun h => not_P3_nl3 h.2
    have e1 : strip1 ['\n', '\n', '\n'] = ['\n', '\n', '\n'] := by simp [strip1]
    have e2' : h2 ['\n', '\n', '\n'] la = ['\n', '\n', '\n'] := by
      unfold h2; rw [if_neg]; exact fun h => not_P2_nl3 h.2
    rw [e2, e3, e1, e2', e3]
  · have e2 : h2 (strip1 R) la = strip1 R := by simp [h2, c2]
    rw [e2]
    by_cases c3 : c3Head la ∧ P3 (strip1 R)
    · have e3 : h3 (strip1 R) la = '\n' :: '\n' :: afterNl (strip1 R) := by simp [h3, c3]
      obtain ⟨n2, n3, s1⟩ := P3_out c3.2
      rw [e3, s1]
      have e2' : h2 ('\n' :: '\n' :: afterNl (strip1 R)) la = '\n' :: '\n' :: afterNl (strip1 R) := by
        unfold h2; rw [if_neg]; exact fun h => n2 h.2
      rw [e2']
      unfold h3; rw [if_neg]; exact fun h => n3 h.2
    · have e3 : h3 (strip1 R) la = strip1 R := by simp [h3, c3]
      rw [e3, strip1_idem, e2, e3]

/-- **`fix_whitespace` is idempotent** -/
theorem fixWhitespace_idem (s : Str) : fixWhitespace (fixWhitespace s) = fixWhitespace s := by
  rw [fixWhitespace_eq s, fixWhitespace_eq]
  exact tail_mapRuns_idem wsPres_H ws_nl (fun R la _ _ => H_idem R la) s

end GapicModel.Lemmas.FixWsRuns
