/-
Run-local rewriting of the maximal whitespace runs of a text ("mapRuns"), generic in the whitespace predicate.

`mapRuns ws h s` replaces every maximal run `R` of whitespace in `s` by `h R la`, where `la` is the token (maximal
run of non-whitespace) that follows it (`[]` at the end of the text); everything else is copied.  The three `re.sub`
passes of `fix_whitespace` are of this form (Lemmas/FixWsExplicit.lean), and for rewriters that keep runs non-empty
and white the composition of two passes is again one pass (`mapRuns_fuse`), which reduces idempotence of the whole
function to idempotence of the per-run rewriter (`tail_mapRuns_idem`).  No Mathlib.
-/
namespace GapicModel.Lemmas.MapRuns

variable (ws : Char → Bool)

theorem length_dropWhile_le' (p : Char → Bool) (l : List Char) : (l.dropWhile p).length ≤ l.length :=
  (List.dropWhile_sublist p).length_le

theorem mem_takeWhile_imp' {p : Char → Bool} {l : List Char} {c : Char} (h : c ∈ l.takeWhile p) : p c = true := by
  induction l with
  | nil => simp at h
  | cons d r ih =>
    by_cases hd : p d = true
    · simp only [List.takeWhile, hd] at h
      rcases List.mem_cons.mp h with rfl | h
      · exact hd
      · exact ih h
    · simp [List.takeWhile, hd] at h

theorem getLast?_append_of_ne_nil' (l : List Char) {l' : List Char} (h : l' ≠ []) : (l ++ l').getLast? = l'.getLast? := by
  rw [List.getLast?_append]
  cases hl : l'.getLast? with
  | none => exact absurd (by simpa using hl) h
  | some x => simp

def mapRuns (h : List Char → List Char → List Char) : List Char → List Char
  | [] => []
  | c :: cs =>
    if ws c then
      h (c :: cs.takeWhile ws) ((cs.dropWhile ws).takeWhile (fun d => !ws d)) ++ mapRuns h (cs.dropWhile ws)
    else c :: mapRuns h cs
termination_by s => s.length
decreasing_by
  · simp only [List.length_cons]
    have := length_dropWhile_le' ws cs
    omega
  · simp

abbrev AllWs (w : List Char) : Prop := ∀ c ∈ w, ws c = true
/-- empty or starting with a non-white character -/
abbrev StartsNonWs (x : List Char) : Prop := ∀ c, x.head? = some c → ws c = false
/-- empty or ending with a non-white character -/
abbrev EndsNonWs (x : List Char) : Prop := ∀ c, x.getLast? = some c → ws c = false

/-- the rewriter keeps runs non-empty and white (so token boundaries survive a pass) -/
def WsPres (h : List Char → List Char → List Char) : Prop :=
  ∀ R la, R ≠ [] → AllWs ws R → h R la ≠ [] ∧ AllWs ws (h R la)

variable {ws}

@[simp] theorem mapRuns_nil (h) : mapRuns ws h [] = [] := by simp [mapRuns]

theorem mapRuns_nonws_cons (h) {c : Char} (cs : List Char) (hc : ws c = false) :
    mapRuns ws h (c :: cs) = c :: mapRuns ws h cs := by
  rw [mapRuns]; simp [hc]

theorem mapRuns_ws_cons (h) {c : Char} (cs : List Char) (hc : ws c = true) :
    mapRuns ws h (c :: cs) =
      h (c :: cs.takeWhile ws) ((cs.dropWhile ws).takeWhile (fun d => !ws d)) ++ mapRuns ws h (cs.dropWhile ws) := by
  rw [mapRuns]; simp [hc]

theorem takeWhile_allws_append {w nx : List Char} (hw : AllWs ws w) (hn : StartsNonWs ws nx) :
    (w ++ nx).takeWhile ws = w ∧ (w ++ nx).dropWhile ws = nx := by
  induction w with
  | nil =>
    cases nx with
    | nil => simp
    | cons d r =>
      have := hn d rfl
      simp [this]
  | cons c w ih =>
    have hc : ws c = true := hw c (by simp)
    have := ih (fun d hd => hw d (by simp [hd]))
    simp [hc, this.1, this.2]

/-- a whole run followed by a token (or the end): one application of the rewriter -/
theorem mapRuns_run_append (h) {R nx : List Char} (hR : R ≠ []) (hw : AllWs ws R) (hn : StartsNonWs ws nx) :
    mapRuns ws h (R ++ nx) = h R (nx.takeWhile (fun d => !ws d)) ++ mapRuns ws h nx := by
  cases R with
  | nil => exact absurd rfl hR
  | cons c w =>
    have hc : ws c = true := hw c (by simp)
    have := takeWhile_allws_append (ws := ws) (w := w) (nx := nx) (fun d hd => hw d (by simp [hd])) hn
    rw [List.cons_append, mapRuns_ws_cons h _ hc, this.1, this.2]

theorem dropWhile_startsNonWs (cs : List Char) : StartsNonWs ws (cs.dropWhile ws) := by
  intro c hc
  induction cs with
  | nil => simp at hc
  | cons d r ih =>
    by_cases hd : ws d = true
    · simp only [List.dropWhile, hd] at hc; exact ih hc
    · simp only [List.dropWhile, hd] at hc
      simp only [List.head?_cons, Option.some.injEq] at hc
      subst hc; simpa using hd

theorem takeWhile_allWs (cs : List Char) : AllWs ws (cs.takeWhile ws) := by
  intro c hc
  exact (mem_takeWhile_imp' hc)

/-- the first token is not touched by a pass -/
theorem mapRuns_token {h} (hp : WsPres ws h) (s : List Char) :
    (mapRuns ws h s).takeWhile (fun d => !ws d) = s.takeWhile (fun d => !ws d) := by
  induction s with
  | nil => simp
  | cons c cs ih =>
    by_cases hc : ws c = true
    · rw [mapRuns_ws_cons h _ hc]
      obtain ⟨hne, hall⟩ := hp (c :: cs.takeWhile ws) ((cs.dropWhile ws).takeWhile (fun d => !ws d)) (by simp)
        (by intro d hd
            rcases List.mem_cons.mp hd with rfl | hd
            · exact hc
            · exact takeWhile_allWs cs d hd)
      cases hh : h (c :: cs.takeWhile ws) ((cs.dropWhile ws).takeWhile (fun d => !ws d)) with
      | nil => exact absurd hh hne
      | cons x xs =>
        have hx : ws x = true := hall x (by rw [hh]; simp)
        simp [List.takeWhile, hx, hc]
    · have hc' : ws c = false := by simpa using hc
      rw [mapRuns_nonws_cons h _ hc']
      simp [List.takeWhile, hc', ih]

theorem mapRuns_startsNonWs (h) {s : List Char} (hs : StartsNonWs ws s) : StartsNonWs ws (mapRuns ws h s) := by
  cases s with
  | nil => intro c hc; simp at hc
  | cons d r =>
    have hd := hs d rfl
    rw [mapRuns_nonws_cons h _ hd]
    intro c hc
    simp only [List.head?_cons, Option.some.injEq] at hc
    subst hc; exact hd

/-- two passes are one pass with the composed rewriter -/
theorem mapRuns_fuse {h h'} (hp : WsPres ws h') : ∀ (n : Nat) (s : List Char), s.length ≤ n →
    mapRuns ws h (mapRuns ws h' s) = mapRuns ws (fun R la => h (h' R la) la) s := by
  intro n
  induction n with
  | zero =>
    intro s hs
    have : s = [] := List.eq_nil_of_length_eq_zero (by omega)
    subst this; simp
  | succ n ih =>
    intro s hs
    cases s with
    | nil => simp
    | cons c cs =>
      by_cases hc : ws c = true
      · rw [mapRuns_ws_cons h' _ hc, mapRuns_ws_cons _ _ hc]
        have hRw : AllWs ws (c :: cs.takeWhile ws) := by
          intro d hd
          rcases List.mem_cons.mp hd with rfl | hd
          · exact hc
          · exact takeWhile_allWs cs d hd
        obtain ⟨hne, hall⟩ := hp (c :: cs.takeWhile ws) ((cs.dropWhile ws).takeWhile (fun d => !ws d)) (by simp) hRw
        have hnx := mapRuns_startsNonWs h' (dropWhile_startsNonWs (ws := ws) cs)
        rw [mapRuns_run_append h hne hall hnx, mapRuns_token hp]
        have hlen : (cs.dropWhile ws).length ≤ n := by
          have := length_dropWhile_le' ws cs
          simp only [List.length_cons] at hs
          omega
        rw [ih _ hlen]
      · have hc' : ws c = false := by simpa using hc
        rw [mapRuns_nonws_cons h' _ hc', mapRuns_nonws_cons h _ hc', mapRuns_nonws_cons _ _ hc']
        rw [ih cs (by simp only [List.length_cons] at hs; omega)]

/-- a pass only depends on the rewriter's values on non-empty white runs -/
theorem mapRuns_congr {h h'} (he : ∀ R la, R ≠ [] → AllWs ws R → h R la = h' R la) :
    ∀ (n : Nat) (s : List Char), s.length ≤ n → mapRuns ws h s = mapRuns ws h' s := by
  intro n
  induction n with
  | zero =>
    intro s hs
    have : s = [] := List.eq_nil_of_length_eq_zero (by omega)
    subst this; simp
  | succ n ih =>
    intro s hs
    cases s with
    | nil => simp
    | cons c cs =>
      by_cases hc : ws c = true
      · rw [mapRuns_ws_cons h _ hc, mapRuns_ws_cons h' _ hc]
        have hRw : AllWs ws (c :: cs.takeWhile ws) := by
          intro d hd
          rcases List.mem_cons.mp hd with rfl | hd
          · exact hc
          · exact takeWhile_allWs cs d hd
        have hlen : (cs.dropWhile ws).length ≤ n := by
          have := length_dropWhile_le' ws cs
          simp only [List.length_cons] at hs
          omega
        rw [he _ _ (by simp) hRw, ih _ hlen]
      · have hc' : ws c = false := by simpa using hc
        rw [mapRuns_nonws_cons h _ hc', mapRuns_nonws_cons h' _ hc']
        rw [ih cs (by simp only [List.length_cons] at hs; omega)]

theorem takeWhile_nonws_append_ws {nx W : List Char} (hW : AllWs ws W) :
    (nx ++ W).takeWhile (fun d => !ws d) = nx.takeWhile (fun d => !ws d) := by
  induction nx with
  | nil =>
    cases W with
    | nil => simp
    | cons d r => have := hW d (by simp); simp [List.takeWhile, this]
  | cons c cs ih =>
    by_cases hc : ws c = true
    · simp [List.takeWhile, hc]
    · have hc' : ws c = false := by simpa using hc
      simp [List.takeWhile, hc', ih]

/-- a text that ends with a token, followed by trailing whitespace: the trailing run is rewritten on its own -/
theorem mapRuns_append_ws (h) {W : List Char} (hW : AllWs ws W) : ∀ (n : Nat) (s0 : List Char), s0.length ≤ n →
    EndsNonWs ws s0 → mapRuns ws h (s0 ++ W) = mapRuns ws h s0 ++ (if W = [] then [] else h W []) := by
  intro n
  induction n with
  | zero =>
    intro s0 hs _
    have : s0 = [] := List.eq_nil_of_length_eq_zero (by omega)
    subst this
    by_cases hWn : W = []
    · subst hWn; simp
    · have := mapRuns_run_append (ws := ws) h (R := W) (nx := []) hWn hW (by intro c hc; simp at hc)
      simpa [hWn] using this
  | succ n ih =>
    intro s0 hs he
    cases s0 with
    | nil =>
      by_cases hWn : W = []
      · subst hWn; simp
      · have := mapRuns_run_append (ws := ws) h (R := W) (nx := []) hWn hW (by intro c hc; simp at hc)
        simpa [hWn] using this
    | cons c cs =>
      by_cases hc : ws c = true
      · -- s0 = R ++ nx with nx non-empty (s0 ends with a non-white character)
        have hsplit : c :: cs = (c :: cs.takeWhile ws) ++ cs.dropWhile ws := by simp
        have hRw : AllWs ws (c :: cs.takeWhile ws) := by
          intro d hd
          rcases List.mem_cons.mp hd with rfl | hd
          · exact hc
          · exact takeWhile_allWs cs d hd
        have hnx : StartsNonWs ws (cs.dropWhile ws) := dropWhile_startsNonWs cs
        have hnxW : StartsNonWs ws (cs.dropWhile ws ++ W) := by
          intro d hd
          cases hdw : cs.dropWhile ws with
          | nil =>
            -- then s0 is all white but ends with a non-white character: impossible
            exfalso
            have hall : AllWs ws (c :: cs) := by
              rw [hsplit, hdw]; simpa using hRw
            have hl : (c :: cs).getLast? = some ((c :: cs).getLast (by simp)) := List.getLast?_eq_some_getLast (by simp)
            have := he _ hl
            have h2 := hall _ (List.getLast_mem (l := c :: cs) (by simp))
            rw [this] at h2; cases h2
          | cons x xs =>
            rw [hdw] at hd hnx
            simp only [List.cons_append, List.head?_cons, Option.some.injEq] at hd
            subst hd
            exact hnx _ rfl
        have hEnd : EndsNonWs ws (cs.dropWhile ws) := by
          intro d hd
          apply he d
          rw [hsplit]
          cases hdw : cs.dropWhile ws with
          | nil => rw [hdw] at hd; simp at hd
          | cons x xs =>
            rw [hdw] at hd
            rw [getLast?_append_of_ne_nil' _ (by simp)]
            exact hd
        have hlen : (cs.dropWhile ws).length ≤ n := by
          have := length_dropWhile_le' ws cs
          simp only [List.length_cons] at hs
          omega
        calc mapRuns ws h (c :: cs ++ W)
            = mapRuns ws h ((c :: cs.takeWhile ws) ++ (cs.dropWhile ws ++ W)) := by
              rw [← List.append_assoc, ← hsplit]
          _ = h (c :: cs.takeWhile ws) ((cs.dropWhile ws ++ W).takeWhile (fun d => !ws d)) ++ mapRuns ws h (cs.dropWhile ws ++ W) :=
              mapRuns_run_append h (by simp) hRw hnxW
          _ = h (c :: cs.takeWhile ws) ((cs.dropWhile ws).takeWhile (fun d => !ws d)) ++
                (mapRuns ws h (cs.dropWhile ws) ++ (if W = [] then [] else h W [])) := by
              rw [takeWhile_nonws_append_ws hW, ih _ hlen hEnd]
          _ = mapRuns ws h (c :: cs) ++ (if W = [] then [] else h W []) := by
              rw [mapRuns_ws_cons h _ hc, List.append_assoc]
      · have hc' : ws c = false := by simpa using hc
        rw [List.cons_append, mapRuns_nonws_cons h _ hc', mapRuns_nonws_cons h _ hc']
        have hEnd : EndsNonWs ws cs := by
          intro d hd
          apply he d
          cases cs with
          | nil => simp at hd
          | cons x xs => rw [List.getLast?_cons_cons]; exact hd
        rw [ih cs (by simp only [List.length_cons] at hs; omega) hEnd]
        simp

/-- a pass keeps a final non-white character in place -/
theorem mapRuns_getLast (h) : ∀ (n : Nat) (s : List Char), s.length ≤ n → ∀ c, s.getLast? = some c → ws c = false →
    (mapRuns ws h s).getLast? = some c := by
  intro n
  induction n with
  | zero =>
    intro s hs c hc
    have : s = [] := List.eq_nil_of_length_eq_zero (by omega)
    subst this; simp at hc
  | succ n ih =>
    intro s hs c hl hc
    cases s with
    | nil => simp at hl
    | cons d ds =>
      by_cases hd : ws d = true
      · have hsplit : d :: ds = (d :: ds.takeWhile ws) ++ ds.dropWhile ws := by simp
        rw [mapRuns_ws_cons h _ hd]
        have hlen : (ds.dropWhile ws).length ≤ n := by
          have := length_dropWhile_le' ws ds
          simp only [List.length_cons] at hs
          omega
        cases hdw : ds.dropWhile ws with
        | nil =>
          exfalso
          have hall : AllWs ws (d :: ds) := by
            rw [hsplit, hdw]
            intro x hx
            simp only [List.append_nil] at hx
            rcases List.mem_cons.mp hx with rfl | hx
            · exact hd
            · exact takeWhile_allWs ds x hx
          have hmem : c ∈ d :: ds := List.mem_of_getLast? hl
          have := hall c hmem
          rw [hc] at this; cases this
        | cons x xs =>
          have hl' : (x :: xs).getLast? = some c := by
            rw [hsplit, hdw, getLast?_append_of_ne_nil' _ (by simp)] at hl
            exact hl
          have := ih (x :: xs) (by rw [← hdw]; exact hlen) c hl' hc
          have hne : mapRuns ws h (x :: xs) ≠ [] := by
            intro he; rw [he] at this; simp at this
          rw [getLast?_append_of_ne_nil' _ hne]
          exact this
      · have hd' : ws d = false := by simpa using hd
        rw [mapRuns_nonws_cons h _ hd']
        cases ds with
        | nil =>
          simp only [mapRuns_nil]
          exact hl
        | cons x xs =>
          rw [List.getLast?_cons_cons] at hl
          have := ih (x :: xs) (by simp only [List.length_cons] at hs ⊢; omega) c hl hc
          have hne : mapRuns ws h (x :: xs) ≠ [] := by
            intro he; rw [he] at this; simp at this
          cases hm : mapRuns ws h (x :: xs) with
          | nil => exact absurd hm hne
          | cons y ys => rw [List.getLast?_cons_cons, ← hm]; exact this

theorem mapRuns_endsNonWs (h) {s : List Char} (he : EndsNonWs ws s) : EndsNonWs ws (mapRuns ws h s) := by
  cases hs : s.getLast? with
  | none =>
    have : s = [] := by simpa using hs
    subst this
    intro c hc; simp at hc
  | some c =>
    have hc := he c hs
    have := mapRuns_getLast (ws := ws) h s.length s (Nat.le_refl _) c hs hc
    intro d hd
    rw [this] at hd
    cases hd; exact hc


/-- non-white characters are copied -/
theorem mapRuns_nonws_append (h) {K : List Char} (hK : ∀ c ∈ K, ws c = false) (r : List Char) :
    mapRuns ws h (K ++ r) = K ++ mapRuns ws h r := by
  induction K with
  | nil => simp
  | cons c K ih =>
    rw [List.cons_append, mapRuns_nonws_cons h _ (hK c (by simp)), ih (fun d hd => hK d (by simp [hd]))]
    simp

theorem takeWhile_nil_dropWhile {p : Char → Bool} {cs : List Char} (h : cs.takeWhile p = []) : cs.dropWhile p = cs := by
  cases cs with
  | nil => simp
  | cons d r =>
    by_cases hd : p d = true
    · simp [List.takeWhile, hd] at h
    · simp [List.dropWhile, hd]

/-- when the rewriter leaves a run and all its non-empty suffixes alone, the pass copies the run's first character -/
theorem mapRuns_skip_ws (h) {c : Char} {cs : List Char} (hc : ws c = true)
    (hid : ∀ R, R <:+ (c :: cs.takeWhile ws) → R ≠ [] → h R ((cs.dropWhile ws).takeWhile (fun d => !ws d)) = R) :
    mapRuns ws h (c :: cs) = c :: mapRuns ws h cs := by
  rw [mapRuns_ws_cons h _ hc, hid _ (List.suffix_refl _) (by simp)]
  by_cases ht : cs.takeWhile ws = []
  · rw [ht, takeWhile_nil_dropWhile ht]; simp
  · have hsplit : cs = cs.takeWhile ws ++ cs.dropWhile ws := by simp
    have hrun := mapRuns_run_append (ws := ws) h ht (takeWhile_allWs cs) (dropWhile_startsNonWs (ws := ws) cs)
    rw [← hsplit] at hrun
    rw [hrun, hid _ (List.suffix_cons _ _) ht]
    simp

/-! `str.rstrip()` and the final `rstrip() + "\n"` -/

def rstripW (ws : Char → Bool) (s : List Char) : List Char := (s.reverse.dropWhile ws).reverse

theorem rstripW_split (s : List Char) :
    ∃ W, s = rstripW ws s ++ W ∧ AllWs ws W ∧ EndsNonWs ws (rstripW ws s) := by
  refine ⟨(s.reverse.takeWhile ws).reverse, ?_, ?_, ?_⟩
  · unfold rstripW
    rw [← List.reverse_append, List.takeWhile_append_dropWhile, List.reverse_reverse]
  · intro c hc
    exact takeWhile_allWs s.reverse c (by simpa using hc)
  · intro c hc
    unfold rstripW at hc
    rw [List.getLast?_reverse] at hc
    exact dropWhile_startsNonWs s.reverse c hc

theorem rstripW_append_ws {a W : List Char} (ha : EndsNonWs ws a) (hW : AllWs ws W) : rstripW ws (a ++ W) = a := by
  unfold rstripW
  rw [List.reverse_append]
  have hs : StartsNonWs ws a.reverse := by
    intro c hc
    rw [List.head?_reverse] at hc
    exact ha c hc
  have hW' : AllWs ws W.reverse := by intro c hc; exact hW c (by simpa using hc)
  rw [(takeWhile_allws_append hW' hs).2, List.reverse_reverse]

/-- `fix_whitespace`-shaped functions: a pass over the runs, then `rstrip() + "\n"` -/
def tailF (ws : Char → Bool) (s : List Char) : List Char := rstripW ws s ++ ['\n']

theorem tail_mapRuns {h} (hp : WsPres ws h) (s : List Char) :
    tailF ws (mapRuns ws h s) = mapRuns ws h (rstripW ws s) ++ ['\n'] := by
  obtain ⟨W, hs, hW, hE⟩ := rstripW_split (ws := ws) s
  unfold tailF
  congr 1
  conv => lhs; rw [hs]
  rw [mapRuns_append_ws h hW _ _ (Nat.le_refl _) hE]
  apply rstripW_append_ws (mapRuns_endsNonWs h hE)
  by_cases hWn : W = []
  · intro c hc; simp [hWn] at hc
  · simp only [hWn, if_false]
    exact (hp W [] hWn hW).2

/-- idempotence of `tailF ∘ mapRuns h` from idempotence of the per-run rewriter -/
theorem tail_mapRuns_idem {h} (hp : WsPres ws h) (hnl : ws '\n' = true)
    (hi : ∀ R la, R ≠ [] → AllWs ws R → h (h R la) la = h R la) (s : List Char) :
    tailF ws (mapRuns ws h (tailF ws (mapRuns ws h s))) = tailF ws (mapRuns ws h s) := by
  rw [tail_mapRuns hp s, tail_mapRuns hp]
  congr 1
  have hE : EndsNonWs ws (mapRuns ws h (rstripW ws s)) := mapRuns_endsNonWs h (rstripW_split (ws := ws) s).choose_spec.2.2
  have hW : AllWs ws ['\n'] := by intro c hc; simp at hc; subst hc; exact hnl
  rw [rstripW_append_ws hE hW, mapRuns_fuse hp _ _ (Nat.le_refl _)]
  exact mapRuns_congr hi _ _ (Nat.le_refl _)

end GapicModel.Lemmas.MapRuns
