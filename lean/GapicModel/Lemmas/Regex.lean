import GapicModel.Regex.Match
/- Generic lemmas about the matcher (no Mathlib). -/
namespace GapicModel.Regex

theorem m_seqR_cons (t : ClassTables) (a : Re) (r : List Re) (s : St) (k : K) :
    m t (seqR (a :: r)) s k = m t a s (fun s' => m t (seqR r) s' k) := by
  cases r with
  | nil => simp [seqR, m]
  | cons b r => simp [seqR, m]

theorem m_seqR_chrs (t : ClassTables) (cs : List Char) (r : List Re) (s : St) (k : K) :
    m t (seqR (cs.map .chr ++ r)) s k = if cs <+: s.rest then m t (seqR r) (adv s cs) k else none := by
  induction cs generalizing s with
  | nil => simp [adv]
  | cons c cs ih =>
    simp only [List.map_cons, List.cons_append, m_seqR_cons, m]
    cases h : s.rest with
    | nil => simp
    | cons d rest =>
      by_cases hcd : c = d
      · subst hcd
        simp only [if_true]
        rw [ih]
        simp [adv, h, List.cons_prefix_cons]
      · simp [hcd, List.cons_prefix_cons]

/-- spec of lazy `.*?` followed by continuation `k` -/
def lazySpec (k : K) (pre : List Char) (caps : List (Nat × List Char)) : List Char → Option St
  | [] => k ⟨pre, [], caps⟩
  | d :: r => (k ⟨pre, d :: r, caps⟩).orElse fun _ =>
      if d ≠ '\n' then lazySpec k (d :: pre) caps r else none

theorem m_any_cons (t : ClassTables) (pre : List Char) (d : Char) (r : List Char) (caps) (k : K) :
    m t .any ⟨pre, d :: r, caps⟩ k = if d ≠ '\n' then k ⟨d :: pre, r, caps⟩ else none := by
  simp [m]

theorem star_any_lazy_loop (t : ClassTables) (k : K) (caps) :
    ∀ (n : Nat) (rest pre : List Char), rest.length ≤ n →
      starLoop (m t .any) false k n ⟨pre, rest, caps⟩ = lazySpec k pre caps rest := by
  intro n
  induction n with
  | zero =>
    intro rest pre h
    have : rest = [] := by cases rest <;> simp_all
    subst this; simp [starLoop, lazySpec]
  | succ n ih =>
    intro rest pre h
    cases rest with
    | nil => simp [starLoop, lazySpec, m]
    | cons d r =>
      simp only [starLoop, lazySpec, m_any_cons]
      by_cases hd : d = '\n'
      · simp [hd]
      · have hlen : r.length ≤ n := by simpa using h
        simp [hd, ih r (d :: pre) hlen]

theorem star_any_lazy (t : ClassTables) (k : K) (s : St) :
    m t (.star .any false) s k = lazySpec k s.pre s.caps s.rest := by
  cases s with
  | mk pre rest caps =>
    simp only [m]
    exact star_any_lazy_loop t k caps rest.length rest pre (Nat.le_refl _)

/-- if `k` fails at every earlier offset inside `x`, and `x` has no newline,
    the lazy star reaches the end of `x`. -/
theorem lazySpec_skip (k : K) (caps) :
    ∀ (x pre rest' : List Char), '\n' ∉ x →
      (∀ j, j < x.length → k ⟨(x.take j).reverse ++ pre, x.drop j ++ rest', caps⟩ = none) →
      lazySpec k pre caps (x ++ rest') = lazySpec k (x.reverse ++ pre) caps rest' := by
  intro x
  induction x with
  | nil => intro pre rest' _ _; simp
  | cons d x ih =>
    intro pre rest' hnl hfail
    have h0 := hfail 0 (by simp)
    simp at h0
    have hd : d ≠ '\n' := by intro h; apply hnl; simp [h]
    have hx : '\n' ∉ x := by intro h; apply hnl; simp [h]
    simp only [List.cons_append, lazySpec, h0, Option.orElse]
    simp only [hd, ne_eq, not_false_eq_true, if_true]
    have := ih (d :: pre) rest' hx (by
      intro j hj
      have := hfail (j+1) (by simp; omega)
      simpa using this)
    simpa using this

theorem eol_fail (t : ClassTables) (pre rest caps) (k : K) (h1 : rest ≠ []) (h2 : '\n' ∉ rest) :
    m t .eol ⟨pre, rest, caps⟩ k = none := by
  simp only [m]
  have : ¬ (rest = [] ∨ rest = ['\n']) := by
    intro h; cases h with
    | inl h => exact h1 h
    | inr h => apply h2; simp [h]
  simp [this]

end GapicModel.Regex
