import GapicModel.Lemmas.RegexSound
/-
What a successful match says about its capture groups, for every pattern and subject:
every recorded capture belongs to a group of the pattern and is text matched by that group's body
(`Run.caps_spec`), a group on every path of the pattern is always recorded (`mustCap`), a body that only
accepts characters outside `bad` captures no character of `bad` (`Run.safe`), and a body with a mandatory
consuming atom captures a non-empty string (`Run.nonempty`).  No Mathlib.
-/
namespace GapicModel.Regex

/-- all capturing groups of a pattern with their bodies (groups inside look-around are not run by `Run`) -/
def groupsOf : Re → List (Nat × Re)
  | .seq a b => groupsOf a ++ groupsOf b
  | .alt a b => groupsOf a ++ groupsOf b
  | .star r _ => groupsOf r
  | .group i r => (i, r) :: groupsOf r
  | _ => []

/-- `w` is text some run of `body` consumed -/
def Matches (t : ClassTables) (body : Re) (w : List Char) : Prop :=
  ∃ s1 s2, Run t body s1 s2 ∧ capture s1 s2 = w

/-- group `i` lies on every path through the pattern -/
def mustCap (i : Nat) : Re → Bool
  | .seq a b => mustCap i a || mustCap i b
  | .alt a b => mustCap i a && mustCap i b
  | .group j r => j == i || mustCap i r
  | _ => false

theorem Run.caps_spec {t : ClassTables} {r : Re} {s s' : St} (h : Run t r s s') :
    ∃ added, s'.caps = added ++ s.caps ∧
      (∀ p ∈ added, ∃ body, (p.1, body) ∈ groupsOf r ∧ Matches t body p.2) ∧
      (∀ i, mustCap i r = true → ∃ w, (i, w) ∈ added) := by
  induction h with
  | eps s => exact ⟨[], by simp, by simp, by simp [mustCap]⟩
  | chr c s r hs => exact ⟨[], by simp [St.push], by simp, by simp [mustCap]⟩
  | any s d r hs hd => exact ⟨[], by simp [St.push], by simp, by simp [mustCap]⟩
  | cls neg items s d r hs hc => exact ⟨[], by simp [St.push], by simp, by simp [mustCap]⟩
  | seq a b s s1 s2 _ _ ih1 ih2 =>
    obtain ⟨a1, e1, p1, m1⟩ := ih1
    obtain ⟨a2, e2, p2, m2⟩ := ih2
    refine ⟨a2 ++ a1, by simp [e2, e1], ?_, ?_⟩
    · intro p hp
      rcases List.mem_append.mp hp with hp | hp
      · obtain ⟨body, hb, hm⟩ := p2 p hp
        exact ⟨body, by simp [groupsOf, hb], hm⟩
      · obtain ⟨body, hb, hm⟩ := p1 p hp
        exact ⟨body, by simp [groupsOf, hb], hm⟩
    · intro i hi
      simp only [mustCap, Bool.or_eq_true] at hi
      rcases hi with hi | hi
      · obtain ⟨w, hw⟩ := m1 i hi; exact ⟨w, by simp [hw]⟩
      · obtain ⟨w, hw⟩ := m2 i hi; exact ⟨w, by simp [hw]⟩
  | altL a b s s1 _ ih =>
    obtain ⟨a1, e1, p1, m1⟩ := ih
    refine ⟨a1, e1, ?_, ?_⟩
    · intro p hp
      obtain ⟨body, hb, hm⟩ := p1 p hp
      exact ⟨body, by simp [groupsOf, hb], hm⟩
    · intro i hi
      simp only [mustCap, Bool.and_eq_true] at hi
      exact m1 i hi.1
  | altR a b s s1 _ ih =>
    obtain ⟨a1, e1, p1, m1⟩ := ih
    refine ⟨a1, e1, ?_, ?_⟩
    · intro p hp
      obtain ⟨body, hb, hm⟩ := p1 p hp
      exact ⟨body, by simp [groupsOf, hb], hm⟩
    · intro i hi
      simp only [mustCap, Bool.and_eq_true] at hi
      exact m1 i hi.2
  | star0 r g s => exact ⟨[], by simp, by simp, by simp [mustCap]⟩
  | starS r g s s1 s2 _ _ _ ih1 ih2 =>
    obtain ⟨a1, e1, p1, _⟩ := ih1
    obtain ⟨a2, e2, p2, _⟩ := ih2
    refine ⟨a2 ++ a1, by simp [e2, e1], ?_, by simp [mustCap]⟩
    intro p hp
    rcases List.mem_append.mp hp with hp | hp
    · exact p2 p hp
    · obtain ⟨body, hb, hm⟩ := p1 p hp
      exact ⟨body, by simpa [groupsOf] using hb, hm⟩
  | group i r s s1 hr ih =>
    obtain ⟨a1, e1, p1, m1⟩ := ih
    refine ⟨(i, capture s s1) :: a1, by simp [e1], ?_, ?_⟩
    · intro p hp
      rcases List.mem_cons.mp hp with hp | hp
      · subst hp
        exact ⟨r, by simp [groupsOf], s, s1, hr, rfl⟩
      · obtain ⟨body, hb, hm⟩ := p1 p hp
        exact ⟨body, by simp [groupsOf, hb], hm⟩
    · intro j hj
      simp only [mustCap, Bool.or_eq_true, beq_iff_eq] at hj
      rcases hj with hj | hj
      · subst hj; exact ⟨capture s s1, by simp⟩
      · obtain ⟨w, hw⟩ := m1 j hj; exact ⟨w, by simp [hw]⟩
  | bol s _ => exact ⟨[], by simp, by simp, by simp [mustCap]⟩
  | eol s _ => exact ⟨[], by simp, by simp, by simp [mustCap]⟩
  | look a n r s => exact ⟨[], by simp, by simp, by simp [mustCap]⟩

/-- a class item that accepts no character of `bad` (syntactic, decidable) -/
def CItem.safe (bad : List Char) : CItem → Bool
  | .ch c => !bad.contains c
  | .range lo hi => bad.all fun b => !(lo.toNat ≤ b.toNat && b.toNat ≤ hi.toNat)
  | _ => false

/-- a pattern none of whose consuming atoms accepts a character of `bad` -/
def safeRe (bad : List Char) : Re → Bool
  | .eps => true
  | .bol => true
  | .eol => true
  | .look _ _ _ => true
  | .chr c => !bad.contains c
  | .any => false
  | .cls neg items => !neg && items.all (CItem.safe bad)
  | .seq a b => safeRe bad a && safeRe bad b
  | .alt a b => safeRe bad a && safeRe bad b
  | .star r _ => safeRe bad r
  | .group _ r => safeRe bad r

theorem CItem.safe_sound (t : ClassTables) (bad : List Char) (it : CItem) (d : Char)
    (hs : it.safe bad = true) (ht : it.test t d = true) : d ∉ bad := by
  cases it with
  | ch c =>
    simp only [CItem.test, beq_iff_eq] at ht
    subst ht
    simpa [CItem.safe] using hs
  | range lo hi =>
    simp only [CItem.test, Bool.and_eq_true, decide_eq_true_eq] at ht
    intro hb
    simp only [CItem.safe, List.all_eq_true] at hs
    have := hs d hb
    simp [ht.1, ht.2] at this
  | space => simp [CItem.safe] at hs
  | word => simp [CItem.safe] at hs
  | digit => simp [CItem.safe] at hs
  | nspace => simp [CItem.safe] at hs
  | nword => simp [CItem.safe] at hs
  | ndigit => simp [CItem.safe] at hs

theorem Run.safe {t : ClassTables} {bad : List Char} {r : Re} {s s' : St} (h : Run t r s s')
    (hs : safeRe bad r = true) : ∃ w : List Char, s'.pre = w.reverse ++ s.pre ∧ ∀ c ∈ w, c ∉ bad := by
  induction h with
  | eps s => exact ⟨[], by simp, by simp⟩
  | chr c s r hr =>
    refine ⟨[c], by simp [St.push], ?_⟩
    intro d hd
    simp only [List.mem_singleton] at hd
    subst hd
    simpa [safeRe] using hs
  | any s d r _ _ => simp [safeRe] at hs
  | cls neg items s d r hr hc =>
    refine ⟨[d], by simp [St.push], ?_⟩
    intro e he
    simp only [List.mem_singleton] at he
    subst he
    simp only [safeRe, Bool.and_eq_true, Bool.not_eq_true', List.all_eq_true] at hs
    obtain ⟨hneg, hall⟩ := hs
    subst hneg
    simp only [clsTest, bne_iff_ne, ne_eq, Bool.not_eq_false, List.any_eq_true] at hc
    obtain ⟨it, hit, htest⟩ := hc
    exact CItem.safe_sound t bad it e (hall it hit) htest
  | seq a b s s1 s2 _ _ ih1 ih2 =>
    simp only [safeRe, Bool.and_eq_true] at hs
    obtain ⟨w1, e1, c1⟩ := ih1 hs.1
    obtain ⟨w2, e2, c2⟩ := ih2 hs.2
    refine ⟨w1 ++ w2, by simp [e2, e1], ?_⟩
    intro c hc
    rcases List.mem_append.mp hc with hc | hc
    · exact c1 c hc
    · exact c2 c hc
  | altL a b s s1 _ ih =>
    simp only [safeRe, Bool.and_eq_true] at hs
    exact ih hs.1
  | altR a b s s1 _ ih =>
    simp only [safeRe, Bool.and_eq_true] at hs
    exact ih hs.2
  | star0 r g s => exact ⟨[], by simp, by simp⟩
  | starS r g s s1 s2 _ _ _ ih1 ih2 =>
    have hr : safeRe bad r = true := by simpa [safeRe] using hs
    obtain ⟨w1, e1, c1⟩ := ih1 hr
    obtain ⟨w2, e2, c2⟩ := ih2 hs
    refine ⟨w1 ++ w2, by simp [e2, e1], ?_⟩
    intro c hc
    rcases List.mem_append.mp hc with hc | hc
    · exact c1 c hc
    · exact c2 c hc
  | group i r s s1 _ ih =>
    have hr : safeRe bad r = true := by simpa [safeRe] using hs
    obtain ⟨w, e, c⟩ := ih hr
    exact ⟨w, by simpa using e, c⟩
  | bol s _ => exact ⟨[], by simp, by simp⟩
  | eol s _ => exact ⟨[], by simp, by simp⟩
  | look a n r s => exact ⟨[], by simp, by simp⟩

/-- every path through the pattern consumes at least one character -/
def consumesOne : Re → Bool
  | .chr _ => true
  | .any => true
  | .cls _ _ => true
  | .seq a b => consumesOne a || consumesOne b
  | .alt a b => consumesOne a && consumesOne b
  | .group _ r => consumesOne r
  | _ => false

theorem Run.nonempty {t : ClassTables} {r : Re} {s s' : St} (h : Run t r s s')
    (hc : consumesOne r = true) : ∃ w : List Char, s'.pre = w.reverse ++ s.pre ∧ w ≠ [] := by
  induction h with
  | eps s => simp [consumesOne] at hc
  | chr c s r hr => exact ⟨[c], by simp [St.push], by simp⟩
  | any s d r _ _ => exact ⟨[d], by simp [St.push], by simp⟩
  | cls neg items s d r _ _ => exact ⟨[d], by simp [St.push], by simp⟩
  | seq a b s s1 s2 h1 h2 ih1 ih2 =>
    simp only [consumesOne, Bool.or_eq_true] at hc
    obtain ⟨u1, _, e1⟩ := Run.consumed h1
    obtain ⟨u2, _, e2⟩ := Run.consumed h2
    rcases hc with hc | hc
    · obtain ⟨w1, f1, n1⟩ := ih1 hc
      have : u1 = w1 := by
        have := e1.symm.trans f1
        simpa using this
      subst this
      exact ⟨u1 ++ u2, by simp [e2, e1], by simp [n1]⟩
    · obtain ⟨w2, f2, n2⟩ := ih2 hc
      have : u2 = w2 := by
        have := e2.symm.trans f2
        simpa using this
      subst this
      exact ⟨u1 ++ u2, by simp [e2, e1], by simp [n2]⟩
  | altL a b s s1 _ ih =>
    simp only [consumesOne, Bool.and_eq_true] at hc
    exact ih hc.1
  | altR a b s s1 _ ih =>
    simp only [consumesOne, Bool.and_eq_true] at hc
    exact ih hc.2
  | star0 r g s => simp [consumesOne] at hc
  | starS r g s s1 s2 _ _ _ _ _ => simp [consumesOne] at hc
  | group i r s s1 _ ih =>
    have hr : consumesOne r = true := by simpa [consumesOne] using hc
    obtain ⟨w, e, n⟩ := ih hr
    exact ⟨w, by simpa using e, n⟩
  | bol s _ => simp [consumesOne] at hc
  | eol s _ => simp [consumesOne] at hc
  | look a n r s => simp [consumesOne] at hc

theorem Matches.safe {t : ClassTables} {bad : List Char} {body : Re} {w : List Char}
    (h : Matches t body w) (hs : safeRe bad body = true) : ∀ c ∈ w, c ∉ bad := by
  obtain ⟨s1, s2, hr, hc⟩ := h
  obtain ⟨u, e, hu⟩ := Run.safe hr hs
  rw [capture_eq e] at hc
  subst hc
  exact hu

theorem Matches.nonempty {t : ClassTables} {body : Re} {w : List Char}
    (h : Matches t body w) (hs : consumesOne body = true) : w ≠ [] := by
  obtain ⟨s1, s2, hr, hc⟩ := h
  obtain ⟨u, e, hu⟩ := Run.nonempty hr hs
  rw [capture_eq e] at hc
  subst hc
  exact hu

/-- a successful `re.search` is a run of the pattern from some position with no captures yet -/
theorem searchFrom_run (t : ClassTables) (r : Re) : ∀ (rest pre : List Char) (s0 st : St),
    searchFrom t r pre rest = some (s0, st) → ∃ pre' rest', Run t r ⟨pre', rest', []⟩ st := by
  intro rest
  induction rest with
  | nil =>
    intro pre s0 st h
    simp only [searchFrom, matchAt, Option.map_eq_some_iff] at h
    obtain ⟨a, ha, he⟩ := h
    obtain ⟨s', hrun, hk⟩ := m_sound t r _ _ _ ha
    simp only [Option.some.injEq] at hk
    subst hk
    simp only [Prod.mk.injEq] at he
    exact ⟨pre, [], he.2 ▸ hrun⟩
  | cons c cs ih =>
    intro pre s0 st h
    simp only [searchFrom] at h
    split at h
    · rename_i st' hm
      simp only [Option.some.injEq, Prod.mk.injEq] at h
      obtain ⟨s', hrun, hk⟩ := m_sound t r _ _ _ hm
      simp only [Option.some.injEq] at hk
      subst hk
      exact ⟨pre, c :: cs, h.2 ▸ hrun⟩
    · exact ih _ _ _ h

/-- `m.group(i)` of a successful search: present whenever the group lies on every path, and then text its
body matched -/
theorem search_group (t : ClassTables) (r : Re) (subj : List Char) (res : MatchRes)
    (h : pySearch t r subj = some res) (i : Nat) :
    (mustCap i r = true → (St.group? res.caps i).isSome) ∧
    (∀ w, St.group? res.caps i = some w → ∃ body, (i, body) ∈ groupsOf r ∧ Matches t body w) := by
  simp only [pySearch, Option.map_eq_some_iff] at h
  obtain ⟨⟨s0, st⟩, hs, he⟩ := h
  obtain ⟨pre', rest', hrun⟩ := searchFrom_run t r _ _ _ _ hs
  obtain ⟨added, hcaps, hspec, hmust⟩ := Run.caps_spec hrun
  simp only [List.append_nil] at hcaps
  subst he
  simp only [hcaps]
  constructor
  · intro hm
    obtain ⟨w, hw⟩ := hmust i hm
    simp only [St.group?, Option.isSome_map]
    rw [List.find?_isSome]
    exact ⟨(i, w), hw, by simp⟩
  · intro w hw
    simp only [St.group?, Option.map_eq_some_iff] at hw
    obtain ⟨p, hp, hpw⟩ := hw
    have hmem := List.mem_of_find?_eq_some hp
    have hidx := List.find?_some hp
    simp only [beq_iff_eq] at hidx
    obtain ⟨body, hb, hmt⟩ := hspec p hmem
    exact ⟨body, by rw [← hidx]; exact hb, by rw [← hpw]; exact hmt⟩

end GapicModel.Regex
