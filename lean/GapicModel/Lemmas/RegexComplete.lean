import GapicModel.Lemmas.RegexSound
/-
Completeness of the CPS backtracking matcher w.r.t. the relational semantics `Run`, for patterns without
look-around: if SOME run of `r` from `s` reaches a state the continuation accepts, the matcher does not fail.
Together with `m_sound` this gives, for look-free patterns,  `matchAt t r pre rest = none ↔ no run exists`,
which is what a "left-most match" argument needs (every position the search skipped has no match at all).
No Mathlib.
-/
namespace GapicModel.Regex

/-- no look-ahead / look-behind anywhere in the pattern (`Run` over-approximates those) -/
def noLook : Re → Bool
  | .eps | .chr _ | .any | .cls _ _ | .bol | .eol => true
  | .seq a b => noLook a && noLook b
  | .alt a b => noLook a && noLook b
  | .star r _ => noLook r
  | .group _ r => noLook r
  | .look _ _ _ => false

theorem orElse_isSome_left {α} (a : Option α) (f : Unit → Option α) (h : a.isSome = true) : (a.orElse f).isSome = true := by
  cases a with
  | none => simp at h
  | some x => simp [Option.orElse]

theorem orElse_isSome_right {α} (a : Option α) (f : Unit → Option α) (h : (f ()).isSome = true) : (a.orElse f).isSome = true := by
  cases a with
  | none => simpa [Option.orElse] using h
  | some x => simp [Option.orElse]

/-- the statement proved by induction on runs; the second part generalises the fuel of `star` -/
def Complete (t : ClassTables) (r : Re) (s s' : St) : Prop :=
  ∀ k : K, (k s').isSome = true →
    (m t r s k).isSome = true ∧
    (∀ r0 g, r = .star r0 g → ∀ n, s.rest.length ≤ n → (starLoop (m t r0) g k n s).isSome = true)

theorem Run.complete {t : ClassTables} {r : Re} {s s' : St} (h : Run t r s s') (hl : noLook r = true) :
    Complete t r s s' := by
  induction h with
  | eps s => intro k hk; exact ⟨by simpa [m] using hk, by intro r0 g e; cases e⟩
  | chr c s r hs =>
    intro k hk
    refine ⟨?_, by intro r0 g e; cases e⟩
    simp only [m, hs, if_true]
    exact hk
  | any s d r hs hd =>
    intro k hk
    refine ⟨?_, by intro r0 g e; cases e⟩
    simp only [m, hs, ne_eq, hd, not_false_eq_true, if_true]
    exact hk
  | cls neg items s d r hs ht =>
    intro k hk
    refine ⟨?_, by intro r0 g e; cases e⟩
    simp only [m, hs, ht, if_true]
    exact hk
  | seq a b s s1 s2 _ _ ih1 ih2 =>
    simp only [noLook, Bool.and_eq_true] at hl
    intro k hk
    refine ⟨?_, by intro r0 g e; cases e⟩
    simp only [m]
    exact (ih1 hl.1 (fun s' => m t b s' k) ((ih2 hl.2 k hk).1)).1
  | altL a b s s1 _ ih =>
    simp only [noLook, Bool.and_eq_true] at hl
    intro k hk
    refine ⟨?_, by intro r0 g e; cases e⟩
    simp only [m]
    exact orElse_isSome_left _ _ (ih hl.1 k hk).1
  | altR a b s s1 _ ih =>
    simp only [noLook, Bool.and_eq_true] at hl
    intro k hk
    refine ⟨?_, by intro r0 g e; cases e⟩
    simp only [m]
    exact orElse_isSome_right _ _ (ih hl.2 k hk).1
  | star0 r g s =>
    intro k hk
    have key : ∀ n, (starLoop (m t r) g k n s).isSome = true := by
      intro n
      cases n with
      | zero => simpa [starLoop] using hk
      | succ n =>
        simp only [starLoop]
        cases g with
        | true => simp only [if_true]; exact orElse_isSome_right _ _ hk
        | false => simp only [Bool.false_eq_true, if_false]; exact orElse_isSome_left _ _ hk
    refine ⟨by simp only [m]; exact key _, ?_⟩
    intro r0 g0 e n _
    cases e
    exact key n
  | starS r g s s1 s2 _ hlt _ ih1 ih2 =>
    have hlr : noLook r = true := by simpa [noLook] using hl
    intro k hk
    have key : ∀ n, s.rest.length ≤ n → (starLoop (m t r) g k n s).isSome = true := by
      intro n hn
      cases n with
      | zero => omega
      | succ n =>
        have hn1 : s1.rest.length ≤ n := by omega
        have hrest := (ih2 hl k hk).2 r g rfl n hn1
        have hstep : (m t r s (fun s' => if s'.rest.length < s.rest.length then starLoop (m t r) g k n s' else none)).isSome = true := by
          apply (ih1 hlr _ _).1
          simp only [hlt, if_true]
          exact hrest
        simp only [starLoop]
        cases g with
        | true => simp only [if_true]; exact orElse_isSome_left _ _ hstep
        | false => simp only [Bool.false_eq_true, if_false]; exact orElse_isSome_right _ _ hstep
    refine ⟨by simp only [m]; exact key _ (Nat.le_refl _), ?_⟩
    intro r0 g0 e n hn
    cases e
    exact key n hn
  | group i r s s1 _ ih =>
    have hlr : noLook r = true := by simpa [noLook] using hl
    intro k hk
    refine ⟨?_, by intro r0 g e; cases e⟩
    simp only [m]
    exact (ih hlr (fun s' => k { s' with caps := (i, capture s s') :: s'.caps }) hk).1
  | bol s hp =>
    intro k hk
    refine ⟨?_, by intro r0 g e; cases e⟩
    simp only [m, hp, if_true]
    exact hk
  | eol s hp =>
    intro k hk
    refine ⟨?_, by intro r0 g e; cases e⟩
    simp only [m, hp, if_true]
    exact hk
  | look a n r s => simp [noLook] at hl

/-- completeness of `re.match` at a position: a run exists ⇒ the matcher answers -/
theorem matchAt_complete {t : ClassTables} {r : Re} {pre rest : List Char} {st : St}
    (h : Run t r ⟨pre, rest, []⟩ st) (hl : noLook r = true) : (matchAt t r pre rest).isSome = true :=
  (h.complete hl some (by simp)).1

/-- soundness in the same shape -/
theorem matchAt_sound {t : ClassTables} {r : Re} {pre rest : List Char} {st : St}
    (h : matchAt t r pre rest = some st) : Run t r ⟨pre, rest, []⟩ st := by
  obtain ⟨s', hr, hk⟩ := m_sound t r ⟨pre, rest, []⟩ some st h
  cases hk
  exact hr

/-- for look-free patterns the matcher fails exactly when no run exists -/
theorem matchAt_none_iff {t : ClassTables} {r : Re} (hl : noLook r = true) (pre rest : List Char) :
    matchAt t r pre rest = none ↔ ¬ ∃ st, Run t r ⟨pre, rest, []⟩ st := by
  constructor
  · intro hn ⟨st, hr⟩
    have := matchAt_complete hr hl
    rw [hn] at this
    simp at this
  · intro hno
    cases hm : matchAt t r pre rest with
    | none => rfl
    | some st => exact absurd ⟨st, matchAt_sound hm⟩ hno

end GapicModel.Regex
