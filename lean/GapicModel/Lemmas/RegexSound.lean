import GapicModel.Regex.Match
/-
Soundness of the CPS matcher w.r.t. a relational ("big-step") semantics `Run`.
`m t r s k = some s''`  ⇒  the match of `r` took `s` to some `s'` with `Run t r s s'`, and `k s' = some s''`.
No Mathlib.
-/
namespace GapicModel.Regex

def St.push (s : St) (d : Char) (r : List Char) : St := { s with pre := d :: s.pre, rest := r }

inductive Run (t : ClassTables) : Re → St → St → Prop where
  | eps (s) : Run t .eps s s
  | chr (c s r) : s.rest = c :: r → Run t (.chr c) s (s.push c r)
  | any (s d r) : s.rest = d :: r → d ≠ '\n' → Run t .any s (s.push d r)
  | cls (neg items s d r) : s.rest = d :: r → clsTest t neg items d = true → Run t (.cls neg items) s (s.push d r)
  | seq (a b s s1 s2) : Run t a s s1 → Run t b s1 s2 → Run t (.seq a b) s s2
  | altL (a b s s1) : Run t a s s1 → Run t (.alt a b) s s1
  | altR (a b s s1) : Run t b s s1 → Run t (.alt a b) s s1
  | star0 (r g s) : Run t (.star r g) s s
  | starS (r g s s1 s2) : Run t r s s1 → s1.rest.length < s.rest.length → Run t (.star r g) s1 s2 → Run t (.star r g) s s2
  | group (i r s s1) : Run t r s s1 → Run t (.group i r) s { s1 with caps := (i, capture s s1) :: s1.caps }
  | bol (s) : s.pre = [] → Run t .bol s s
  | eol (s) : (s.rest = [] ∨ s.rest = ['\n']) → Run t .eol s s
  | look (a n r s) : Run t (.look a n r) s s

theorem starLoop_sound (t : ClassTables) (r : Re) (g : Bool)
    (ih : ∀ (s : St) (k : K) (s'' : St), m t r s k = some s'' → ∃ s', Run t r s s' ∧ k s' = some s'') :
    ∀ (n : Nat) (s : St) (k : K) (s'' : St), starLoop (m t r) g k n s = some s'' →
      ∃ s', Run t (.star r g) s s' ∧ k s' = some s'' := by
  intro n
  induction n with
  | zero =>
    intro s k s'' h
    simp only [starLoop] at h
    exact ⟨s, Run.star0 r g s, h⟩
  | succ n ihn =>
    intro s k s'' h
    simp only [starLoop] at h
    have step : ∀ s'', m t r s (fun s' => if s'.rest.length < s.rest.length then starLoop (m t r) g k n s' else none) = some s'' →
        ∃ s', Run t (.star r g) s s' ∧ k s' = some s'' := by
      intro s'' hm
      obtain ⟨s1, hr1, hk1⟩ := ih s _ s'' hm
      by_cases hlt : s1.rest.length < s.rest.length
      · simp only [hlt, if_true] at hk1
        obtain ⟨s2, hr2, hk2⟩ := ihn s1 k s'' hk1
        exact ⟨s2, Run.starS r g s s1 s2 hr1 hlt hr2, hk2⟩
      · simp [hlt] at hk1
    cases g with
    | true =>
      simp only [if_true] at h
      cases hm : m t r s (fun s' => if s'.rest.length < s.rest.length then starLoop (m t r) true k n s' else none) with
      | some x =>
        rw [hm] at h
        simp [Option.orElse] at h
        subst h
        exact step x hm
      | none =>
        rw [hm] at h
        simp [Option.orElse] at h
        exact ⟨s, Run.star0 r true s, h⟩
    | false =>
      simp only [Bool.false_eq_true, if_false] at h
      cases hk : k s with
      | some x =>
        rw [hk] at h
        simp [Option.orElse] at h
        subst h
        exact ⟨s, Run.star0 r false s, hk⟩
      | none =>
        rw [hk] at h
        simp [Option.orElse] at h
        exact step s'' h

theorem m_sound (t : ClassTables) : ∀ (r : Re) (s : St) (k : K) (s'' : St),
    m t r s k = some s'' → ∃ s', Run t r s s' ∧ k s' = some s'' := by
  intro r
  induction r with
  | eps => intro s k s'' h; exact ⟨s, Run.eps s, by simpa [m] using h⟩
  | chr c =>
    intro s k s'' h
    simp only [m] at h
    split at h
    · rename_i d r hs
      by_cases hc : c = d
      · subst hc
        simp only [if_true] at h
        exact ⟨s.push c r, Run.chr c s r hs, h⟩
      · simp [hc] at h
    · simp at h
  | any =>
    intro s k s'' h
    simp only [m] at h
    split at h
    · rename_i d r hs
      by_cases hd : d = '\n'
      · simp [hd] at h
      · simp only [ne_eq, hd, not_false_eq_true, if_true] at h
        exact ⟨s.push d r, Run.any s d r hs hd, h⟩
    · simp at h
  | cls neg items =>
    intro s k s'' h
    simp only [m] at h
    split at h
    · rename_i d r hs
      by_cases hd : clsTest t neg items d = true
      · simp only [hd, if_true] at h
        exact ⟨s.push d r, Run.cls neg items s d r hs hd, h⟩
      · simp [hd] at h
    · simp at h
  | seq a b iha ihb =>
    intro s k s'' h
    simp only [m] at h
    obtain ⟨s1, hr1, hk1⟩ := iha s _ s'' h
    obtain ⟨s2, hr2, hk2⟩ := ihb s1 k s'' hk1
    exact ⟨s2, Run.seq a b s s1 s2 hr1 hr2, hk2⟩
  | alt a b iha ihb =>
    intro s k s'' h
    simp only [m] at h
    cases ha : m t a s k with
    | some x =>
      rw [ha] at h
      simp [Option.orElse] at h
      subst h
      obtain ⟨s1, hr1, hk1⟩ := iha s k x ha
      exact ⟨s1, Run.altL a b s s1 hr1, hk1⟩
    | none =>
      rw [ha] at h
      simp [Option.orElse] at h
      obtain ⟨s1, hr1, hk1⟩ := ihb s k s'' h
      exact ⟨s1, Run.altR a b s s1 hr1, hk1⟩
  | star r g ih =>
    intro s k s'' h
    simp only [m] at h
    exact starLoop_sound t r g ih s.rest.length s k s'' h
  | group i r ih =>
    intro s k s'' h
    simp only [m] at h
    obtain ⟨s1, hr1, hk1⟩ := ih s _ s'' h
    exact ⟨_, Run.group i r s s1 hr1, hk1⟩
  | bol =>
    intro s k s'' h
    simp only [m] at h
    by_cases hp : s.pre = []
    · simp only [hp, if_true] at h
      exact ⟨s, Run.bol s hp, h⟩
    · simp [hp] at h
  | eol =>
    intro s k s'' h
    simp only [m] at h
    by_cases hp : s.rest = [] ∨ s.rest = ['\n']
    · simp only [hp, if_true] at h
      exact ⟨s, Run.eol s hp, h⟩
    · simp [hp] at h
  | look a n r _ =>
    intro s k s'' h
    cases a with
    | true =>
      simp only [m] at h
      split at h
      · exact ⟨s, Run.look true n r s, h⟩
      · simp at h
    | false =>
      simp only [m] at h
      refine ⟨s, Run.look false n r s, ?_⟩
      have key : ∀ hit : Bool, (if (hit != n) = true then k s else none) = some s'' → k s = some s'' := by
        intro hit hh
        by_cases c : (hit != n) = true
        · simpa [c] using hh
        · simp [c] at hh
      exact key _ h

/-- what a run consumed: `s.rest = w ++ s'.rest` and `s'.pre = w.reverse ++ s.pre` -/
theorem Run.consumed {t : ClassTables} {r : Re} {s s' : St} (h : Run t r s s') :
    ∃ w, s.rest = w ++ s'.rest ∧ s'.pre = w.reverse ++ s.pre := by
  induction h with
  | eps s => exact ⟨[], by simp⟩
  | chr c s r hs => exact ⟨[c], by simp [St.push, hs]⟩
  | any s d r hs _ => exact ⟨[d], by simp [St.push, hs]⟩
  | cls neg items s d r hs _ => exact ⟨[d], by simp [St.push, hs]⟩
  | seq a b s s1 s2 _ _ ih1 ih2 =>
    obtain ⟨w1, h1, p1⟩ := ih1
    obtain ⟨w2, h2, p2⟩ := ih2
    exact ⟨w1 ++ w2, by simp [h1, h2], by simp [p1, p2]⟩
  | altL a b s s1 _ ih => exact ih
  | altR a b s s1 _ ih => exact ih
  | star0 r g s => exact ⟨[], by simp⟩
  | starS r g s s1 s2 _ _ _ ih1 ih2 =>
    obtain ⟨w1, h1, p1⟩ := ih1
    obtain ⟨w2, h2, p2⟩ := ih2
    exact ⟨w1 ++ w2, by simp [h1, h2], by simp [p1, p2]⟩
  | group i r s s1 _ ih => obtain ⟨w, h1, p1⟩ := ih; exact ⟨w, h1, p1⟩
  | bol s _ => exact ⟨[], by simp⟩
  | eol s _ => exact ⟨[], by simp⟩
  | look a n r s => exact ⟨[], by simp⟩

/-- the text of a capture is exactly what the group's body consumed -/
theorem capture_eq {s s' : St} {w : List Char} (hp : s'.pre = w.reverse ++ s.pre) : capture s s' = w := by
  simp only [capture, hp]
  have : (w.reverse ++ s.pre).length - s.pre.length = w.reverse.length := by simp
  rw [this, List.take_left']
  · simp
  · rfl

end GapicModel.Regex
