import GapicModel.Lemmas.WrapWhole
/-
C20 — the plain-text fast path of `gapic.utils.rst.rst`: a comment without double quotes and backslashes reaches
the docstring with exactly its words.  No Mathlib.
-/
namespace GapicModel.Lemmas.RstWords
open GapicModel.Regex GapicModel.Model.Wrap GapicModel.Lemmas.Words GapicModel.Lemmas.WrapWords
open GapicModel.Lemmas.WrapWhole

theorem wordsAux_flatten (t) : ∀ (s cur : Str),
    (wordsAux t s cur).flatten = cur.reverse ++ s.filter (fun c => !isWs t c)
  | [], cur => by
    simp only [wordsAux]
    split <;> simp_all
  | c :: cs, cur => by
    have ih1 := wordsAux_flatten t cs []
    have ih2 := wordsAux_flatten t cs (c :: cur)
    simp only [wordsAux]
    by_cases hw : isWs t c = true
    · simp only [hw, if_true, List.filter_cons, Bool.not_true, Bool.false_eq_true, if_false]
      by_cases hcur : cur = []
      · simp only [hcur, if_true]; rw [ih1] <;> simp
      · simp only [hcur, if_false, List.flatten_cons]; rw [ih1] <;> simp
    · have hw' : isWs t c = false := by simpa using hw
      simp only [hw', Bool.false_eq_true, if_false, List.filter_cons, Bool.not_false, if_true]
      rw [ih2]; simp

/-- the characters of the words are the non-whitespace characters of the text -/
theorem words_flatten (t) (s : Str) : (words t s).flatten = s.filter (fun c => !isWs t c) := by
  simpa [words] using wordsAux_flatten t s []

/-- a non-whitespace character of a text with the same words occurs in the other text -/
theorem mem_of_words_eq {a b : Str} (h : words T a = words T b) (c : Char) (hc : isWs T c = false) (hm : c ∈ a) : c ∈ b := by
  have h1 : c ∈ a.filter (fun c => !isWs T c) := List.mem_filter.mpr ⟨hm, by simp [hc]⟩
  rw [← words_flatten, h, words_flatten] at h1
  exact (List.mem_filter.mp h1).1

theorem replaceTQ_id : ∀ (s : Str), '"' ∉ s → replaceTQ s = s
  | [], _ => by simp [replaceTQ]
  | c :: r, h => by
    have hc : c ≠ '"' := fun e => h (by simp [e])
    have ih := replaceTQ_id r (fun e => h (by simp [e]))
    unfold replaceTQ
    split
    · rename_i heq; simp only [List.cons.injEq] at heq; exact absurd heq.1 hc
    · rename_i heq; simp only [List.cons.injEq] at heq; rw [← heq.1, ← heq.2, ih]
    · rename_i heq; simp at heq

theorem dq_not_ws : isWs T '"' = false := by decide
theorem bs_not_ws : isWs T '\\' = false := by decide

/-- **a plain comment reaches the docstring with exactly its words**: on the fast path of `rst()` (no formatting
character in the text), for a text without double quotes and backslashes, the words of the result are the
words of the text -/
theorem rstFast_words (text : Str) (width : Int) (indent : Nat) (nl : Option Bool) (out : Str)
    (hq : '"' ∉ text) (hb : '\\' ∉ text) (h : rstFast T text width indent nl = some out) :
    words T out = words T text := by
  unfold rstFast at h
  split at h
  · simp at h
  · split at h
    · simp at h
    · rename_i answer hans
      simp only [Option.some.injEq] at h
      subst h
      have hw := wrap_words text _ _ indent answer hans
      have hq' : '"' ∉ answer := fun hm => hq (mem_of_words_eq hw '"' dq_not_ws hm)
      have hb' : '\\' ∉ answer := fun hm => hb (mem_of_words_eq hw '\\' bs_not_ws hm)
      unfold rstTail
      simp only
      generalize hans' : (if nl = some true ∨ (answer.contains '\n' = true ∧ nl = none) then
        answer ++ ['\n'] ++ List.replicate indent ' ' else answer) = answer'
      have hsuf : ∃ b, answer' = answer ++ b ∧ Blank T b ∧ '"' ∉ b ∧ '\\' ∉ b := by
        rw [← hans']
        split
        · refine ⟨['\n'] ++ List.replicate indent ' ', by simp, ?_, ?_, ?_⟩
          · exact blank_append (blank_cons ws_nl (blank_nil T)) (blank_replicate ' ' ws_sp _)
          · intro hm
            rcases List.mem_append.mp hm with e | e
            · simp at e
            · exact absurd (List.eq_of_mem_replicate e) (by decide)
          · intro hm
            rcases List.mem_append.mp hm with e | e
            · simp at e
            · exact absurd (List.eq_of_mem_replicate e) (by decide)
        · exact ⟨[], by simp, blank_nil T, by simp, by simp⟩
      obtain ⟨b, hb1, hb2, hb3, hb4⟩ := hsuf
      have hq'' : '"' ∉ answer' := by
        rw [hb1]; intro hm
        rcases List.mem_append.mp hm with e | e
        · exact hq' e
        · exact hb3 e
      have hbs'' : '\\' ∉ answer' := by
        rw [hb1]; intro hm
        rcases List.mem_append.mp hm with e | e
        · exact hb' e
        · exact hb4 e
      rw [replaceTQ_id answer' hq'']
      have hno : ¬ (answer'.getLast? = some '"' ∨ answer'.getLast? = some '\\') := by
        intro hl
        rcases hl with hl | hl
        · exact hq'' (List.mem_of_getLast? hl)
        · exact hbs'' (List.mem_of_getLast? hl)
      rw [if_neg hno, hb1, words_append_blank T answer b hb2, hw]

end GapicModel.Lemmas.RstWords
