import GapicModel.PyRt
/-
`str.split(c)` / `c.join(...)` of the Python runtime model (PyRt) for a one-character separator:
splitting a joined list of separator-free segments gives the segments back.  No Mathlib.
-/
namespace GapicModel.Lemmas.SplitJoin
open GapicModel GapicModel.PyRt

theorem isPrefixOf_single (c d : Char) (ds : Str) : List.isPrefixOf [c] (d :: ds) = (c == d) := by
  simp [List.isPrefixOf]

theorem splitAux_nosep (c : Char) (s : Str) (h : c ∉ s) : ∀ cur : Str, splitAux [c] 0 cur s = [cur.reverse ++ s] := by
  induction s with
  | nil => intro cur; simp [splitAux]
  | cons d ds ih =>
    intro cur
    have hd : (c == d) = false := by
      simp only [beq_eq_false_iff_ne, ne_eq]; intro e; exact h (by simp [e])
    have hs : c ∉ ds := fun e => h (List.mem_cons_of_mem _ e)
    simp only [splitAux, isPrefixOf_single, hd, Bool.false_eq_true, if_false]
    rw [ih hs]; simp

theorem splitAux_append_sep (c : Char) (s rest : Str) (h : c ∉ s) :
    ∀ cur : Str, splitAux [c] 0 cur (s ++ c :: rest) = (cur.reverse ++ s) :: splitAux [c] 0 [] rest := by
  induction s with
  | nil => intro cur; simp [splitAux, isPrefixOf_single]
  | cons d ds ih =>
    intro cur
    have hd : (c == d) = false := by
      simp only [beq_eq_false_iff_ne, ne_eq]; intro e; exact h (by simp [e])
    have hs : c ∉ ds := fun e => h (List.mem_cons_of_mem _ e)
    simp only [List.cons_append, splitAux, isPrefixOf_single, hd, Bool.false_eq_true, if_false]
    rw [ih hs]; simp

/-- **`c.join(xs).split(c) == xs`** for a non-empty list of segments that do not contain `c` -/
theorem split_join (c : Char) (xs : List Str) (hne : xs ≠ []) (h : ∀ s ∈ xs, c ∉ s) :
    split (join [c] xs) [c] = xs := by
  unfold split
  induction xs with
  | nil => exact absurd rfl hne
  | cons x xs ih =>
    cases xs with
    | nil => simpa [join] using splitAux_nosep c x (h x (by simp)) []
    | cons y ys =>
      simp only [join, List.append_assoc, List.singleton_append]
      rw [splitAux_append_sep c x _ (h x (by simp)) []]
      rw [ih (by simp) (fun s hs => h s (List.mem_cons_of_mem _ hs))]
      simp

end GapicModel.Lemmas.SplitJoin
