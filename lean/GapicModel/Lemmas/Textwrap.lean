import GapicModel.Model.Wrap
/-
C20 — `textwrap._wrap_chunks` core: helper lemmas and the two chunk-level theorems (restated in Props/C20.lean).
No Mathlib.
-/
namespace GapicModel.Lemmas.Textwrap
open GapicModel GapicModel.Regex GapicModel.Model.Wrap

/-! ## `textwrap` core (`_wrap_chunks`): words are kept, width is respected -/


def lenSum (cur : List Str) : Nat := (cur.map List.length).sum

/-- the non-blank chunks (the "words") of a chunk list -/
def wordsOf (t : ClassTables) (cs : List Str) : List Str := cs.filter (fun c => !isBlank t c)

theorem lenSum_append (a b : List Str) : lenSum (a ++ b) = lenSum a + lenSum b := by
  simp [lenSum]

theorem takeFit_append (w : Nat) : ∀ (cs cur : List Str) (n : Nat),
    (takeFit w cur n cs).1 ++ (takeFit w cur n cs).2 = cur ++ cs := by
  intro cs
  induction cs with
  | nil => intro cur n; simp [takeFit]
  | cons c cs ih =>
    intro cur n
    simp only [takeFit]
    split
    · rw [ih]; simp
    · rfl

theorem takeFit_fits (w : Nat) : ∀ (cs cur : List Str) (n : Nat), n = lenSum cur → n ≤ w →
    lenSum (takeFit w cur n cs).1 ≤ w := by
  intro cs
  induction cs with
  | nil => intro cur n h1 h2; simp only [takeFit]; rw [← h1]; exact h2
  | cons c cs ih =>
    intro cur n h1 h2
    simp only [takeFit]
    split
    · rename_i hle
      exact ih (cur ++ [c]) (n + c.length) (by simp [lenSum_append, lenSum, h1]) hle
    · simp only []; rw [← h1]; exact h2

theorem takeFit_prefix (w : Nat) : ∀ (cs cur : List Str) (n : Nat), ∃ ys, (takeFit w cur n cs).1 = cur ++ ys := by
  intro cs
  induction cs with
  | nil => intro cur n; exact ⟨[], by simp [takeFit]⟩
  | cons c cs ih =>
    intro cur n
    simp only [takeFit]
    split
    · obtain ⟨ys, h⟩ := ih (cur ++ [c]) (n + c.length)
      exact ⟨c :: ys, by rw [h]; simp⟩
    · exact ⟨[], by simp⟩

theorem takeFit_nil (w : Nat) (c : Str) (cs : List Str) (h : (takeFit w [] 0 (c :: cs)).1 = []) :
    w < c.length ∧ (takeFit w [] 0 (c :: cs)).2 = c :: cs := by
  simp only [takeFit] at h ⊢
  by_cases hle : 0 + c.length ≤ w
  · rw [if_pos hle] at h
    obtain ⟨ys, hys⟩ := takeFit_prefix w cs ([] ++ [c]) (0 + c.length)
    rw [h] at hys
    simp at hys
  · rw [if_neg hle]
    exact ⟨by omega, rfl⟩

theorem wordsOf_append (t) (a b : List Str) : wordsOf t (a ++ b) = wordsOf t a ++ wordsOf t b := by
  simp [wordsOf]

theorem exists_concat_of_getLast {α} (l : List α) (x : α) (h : l.getLast? = some x) : ∃ ys, l = ys ++ [x] := by
  induction l with
  | nil => simp at h
  | cons a l ih =>
    cases l with
    | nil => simp at h; subst h; exact ⟨[], rfl⟩
    | cons b l' =>
      have : (b :: l').getLast? = some x := by simpa [List.getLast?_cons_cons] using h
      obtain ⟨ys, hys⟩ := ih this
      exact ⟨a :: ys, by rw [hys]; rfl⟩

theorem dropLead_words (t) (first) (c0 : Str) (cs0) : wordsOf t (dropLead t first c0 cs0) = wordsOf t (c0 :: cs0) := by
  unfold dropLead
  by_cases hb : (isBlank t c0 && !first) = true
  · have : isBlank t c0 = true := by simp at hb; exact hb.1
    rw [if_pos hb]; simp [wordsOf, this]
  · rw [if_neg hb]

theorem dropLead_len (t) (first) (c0 : Str) (cs0) : (dropLead t first c0 cs0).length ≤ (c0 :: cs0).length := by
  unfold dropLead; split <;> simp

theorem longWord_append (w) (p : List Str × List Str) : (longWord w p).1 ++ (longWord w p).2 = p.1 ++ p.2 := by
  unfold longWord
  cases h2 : p.2 with
  | nil => simp [h2]
  | cons c cs =>
    by_cases hc : w < c.length ∧ p.1.isEmpty = true
    · have : p.1 = [] := by simpa using hc.2
      simp only [if_pos hc]; simp [this]
    · simp only [if_neg hc]; rw [h2]

theorem longWord_fits (w) (p : List Str × List Str) (h : lenSum p.1 ≤ w) :
    lenSum (longWord w p).1 ≤ w ∨ (longWord w p).1.length ≤ 1 := by
  unfold longWord
  cases h2 : p.2 with
  | nil => left; simpa using h
  | cons c cs =>
    by_cases hc : w < c.length ∧ p.1.isEmpty = true
    · simp only [if_pos hc]; right; simp
    · simp only [if_neg hc]; left; exact h

theorem dropTrail_words (t) (cur : List Str) : wordsOf t (dropTrail t cur) = wordsOf t cur := by
  unfold dropTrail
  cases hl : cur.getLast? with
  | none => rfl
  | some l =>
    by_cases hb : isBlank t l = true
    · obtain ⟨ys, rfl⟩ := exists_concat_of_getLast cur l hl
      simp [hb, wordsOf]
    · simp [hb]

theorem dropTrail_fits (t) (w) (cur : List Str) (h : lenSum cur ≤ w ∨ cur.length ≤ 1) :
    lenSum (dropTrail t cur) ≤ w ∨ (dropTrail t cur).length ≤ 1 := by
  unfold dropTrail
  cases hl : cur.getLast? with
  | none => exact h
  | some l =>
    by_cases hb : isBlank t l = true
    · simp only [hb, if_true]
      rcases h with h | h
      · left
        obtain ⟨ys, rfl⟩ := exists_concat_of_getLast cur l hl
        simp [lenSum_append] at h ⊢; omega
      · right; simp; omega
    · simpa [hb] using h

/-- one line step: (chunks of the line) ++ (chunks left) keep exactly the words; strictly fewer chunks are left;
the line fits the width unless it is a single chunk -/
theorem lineStep_spec (t : ClassTables) (width iiLen siLen : Nat) (first : Bool) (c0 : Str) (cs0 : List Str) :
    wordsOf t ((lineStep t width iiLen siLen first c0 cs0).1 ++ (lineStep t width iiLen siLen first c0 cs0).2)
      = wordsOf t (c0 :: cs0) ∧
    (lineStep t width iiLen siLen first c0 cs0).2.length < (c0 :: cs0).length ∧
    (lenSum (lineStep t width iiLen siLen first c0 cs0).1 ≤ width - (if first then iiLen else siLen) ∨
      (lineStep t width iiLen siLen first c0 cs0).1.length ≤ 1) := by
  unfold lineStep
  generalize hw : width - (if first = true then iiLen else siLen) = w
  generalize hch : dropLead t first c0 cs0 = chunks1
  have hw1 : wordsOf t chunks1 = wordsOf t (c0 :: cs0) := by rw [← hch]; exact dropLead_words t first c0 cs0
  have hl1 : chunks1.length ≤ (c0 :: cs0).length := by rw [← hch]; exact dropLead_len t first c0 cs0
  have happ : (takeFit w [] 0 chunks1).1 ++ (takeFit w [] 0 chunks1).2 = chunks1 := by
    simpa using takeFit_append w chunks1 [] 0
  have hfit : lenSum (takeFit w [] 0 chunks1).1 ≤ w :=
    takeFit_fits w chunks1 [] 0 (by simp [lenSum]) (Nat.zero_le _)
  have hadj := longWord_append w (takeFit w [] 0 chunks1)
  rw [happ] at hadj
  have hadjfit := longWord_fits w (takeFit w [] 0 chunks1) hfit
  have hprog : chunks1 ≠ [] → (longWord w (takeFit w [] 0 chunks1)).1 ≠ [] := by
    intro hne
    cases hcs : chunks1 with
    | nil => exact absurd hcs hne
    | cons d ds =>
      by_cases h1 : (takeFit w [] 0 (d :: ds)).1 = []
      · obtain ⟨hlt, h2⟩ := takeFit_nil w d ds h1
        unfold longWord
        rw [h2]; simp [hlt, h1]
      · unfold longWord
        cases h2 : (takeFit w [] 0 (d :: ds)).2 with
        | nil => simpa using h1
        | cons c cs =>
          have : ¬ (w < c.length ∧ (takeFit w [] 0 (d :: ds)).1.isEmpty = true) := by
            intro hc; apply h1; simpa using hc.2
          simp [this, h1]
  simp only []
  refine ⟨?_, ?_, dropTrail_fits t w _ hadjfit⟩
  · rw [wordsOf_append, dropTrail_words, ← wordsOf_append, hadj, hw1]
  · by_cases hne : chunks1 = []
    · have : (longWord w (takeFit w [] 0 chunks1)).2 = [] := by
        exact (List.append_eq_nil_iff.mp (hadj.trans hne)).2
      simp [this]
    · have h1 := hprog hne
      have h2 := congrArg List.length hadj
      simp only [List.length_append] at h2
      have : 0 < (longWord w (takeFit w [] 0 chunks1)).1.length := List.length_pos_iff.mpr h1
      simp only [List.length_cons] at hl1 ⊢; omega


/-- **`_wrap_chunks` never drops, duplicates or reorders a word**: the non-blank chunks of the emitted
lines, in order, are exactly the non-blank chunks it was given (any width, indents, chunk list). -/
theorem words_preserved (t : ClassTables) (width iiLen siLen : Nat) :
    ∀ (fuel : Nat) (first : Bool) (cs : List Str), cs.length < fuel →
      wordsOf t (wrapCur t width iiLen siLen fuel first cs).flatten = wordsOf t cs := by
  intro fuel
  induction fuel with
  | zero => intro first cs h; omega
  | succ fuel ih =>
    intro first cs h
    cases cs with
    | nil => simp [wrapCur, wordsOf]
    | cons c0 cs0 =>
      obtain ⟨hw, hp, _⟩ := lineStep_spec t width iiLen siLen first c0 cs0
      simp only [wrapCur]
      have hlt : (lineStep t width iiLen siLen first c0 cs0).2.length < fuel := by
        simp only [List.length_cons] at h hp; omega
      split
      · rename_i hemp
        rw [ih first _ hlt, ← hw, wordsOf_append]
        have : (lineStep t width iiLen siLen first c0 cs0).1 = [] := by simpa using hemp
        simp [this, wordsOf]
      · rw [List.flatten_cons, wordsOf_append, ih false _ hlt, ← wordsOf_append, hw]

/-- **Width bound**: every emitted line either fits (chunk lengths + its indent ≤ width) or consists of
a single chunk (one unbreakable word). The first emitted line is measured with `initial_indent`. -/
theorem width_bound (t : ClassTables) (width iiLen siLen : Nat) :
    ∀ (fuel : Nat) (first : Bool) (cs : List Str),
      match wrapCur t width iiLen siLen fuel first cs with
      | [] => True
      | l :: ls => (lenSum l ≤ width - (if first then iiLen else siLen) ∨ l.length ≤ 1) ∧
                   ∀ l' ∈ ls, (lenSum l' ≤ width - siLen ∨ l'.length ≤ 1) := by
  intro fuel
  induction fuel with
  | zero => intro first cs; simp [wrapCur]
  | succ fuel ih =>
    intro first cs
    cases cs with
    | nil => simp [wrapCur]
    | cons c0 cs0 =>
      obtain ⟨_, _, hf⟩ := lineStep_spec t width iiLen siLen first c0 cs0
      simp only [wrapCur]
      by_cases hemp : (lineStep t width iiLen siLen first c0 cs0).1.isEmpty = true
      · rw [if_pos hemp]; exact ih first _
      · rw [if_neg hemp]
        have := ih false (lineStep t width iiLen siLen first c0 cs0).2
        show (_ ∧ _)
        refine ⟨hf, ?_⟩
        intro l' hl'
        cases hrec : wrapCur t width iiLen siLen fuel false (lineStep t width iiLen siLen first c0 cs0).2 with
        | nil => rw [hrec] at hl'; simp at hl'
        | cons a as =>
          rw [hrec] at this hl'
          simp only [Bool.false_eq_true, if_false] at this
          rcases List.mem_cons.mp hl' with h | h
          · subst h; exact this.1
          · exact this.2 l' h

/-! ### a sharper form of the width bound: a line that does not fit is ONE NON-BLANK chunk -/

theorem dropTrail_fits' (t) (w) (cur : List Str) (h : lenSum cur ≤ w ∨ cur.length ≤ 1) :
    lenSum (dropTrail t cur) ≤ w ∨ dropTrail t cur = [] ∨ ∃ c, dropTrail t cur = [c] ∧ isBlank t c = false := by
  rcases h with h | h
  · left
    rcases dropTrail_fits t w cur (Or.inl h) with h' | h'
    · exact h'
    · -- at most one chunk left: it is part of `cur`, which fits
      unfold dropTrail
      cases hl : cur.getLast? with
      | none => simpa using h
      | some l =>
        by_cases hb : isBlank t l = true
        · simp only [hb, if_true]
          obtain ⟨ys, rfl⟩ := exists_concat_of_getLast cur l hl
          simp [lenSum_append] at h ⊢; omega
        · simpa [hb] using h
  · match cur, h with
    | [], _ => right; left; simp [dropTrail]
    | [c], _ =>
      by_cases hb : isBlank t c = true
      · right; left; simp [dropTrail, hb]
      · right; right; exact ⟨c, by simp [dropTrail, hb], by simpa using hb⟩
    | _ :: _ :: _, h => simp at h

/-- one line step, sharp: the emitted line fits, or is empty (not emitted), or is one non-blank chunk -/
theorem lineStep_fits' (t : ClassTables) (width iiLen siLen : Nat) (first : Bool) (c0 : Str) (cs0 : List Str) :
    lenSum (lineStep t width iiLen siLen first c0 cs0).1 ≤ width - (if first then iiLen else siLen) ∨
      (lineStep t width iiLen siLen first c0 cs0).1 = [] ∨
      ∃ c, (lineStep t width iiLen siLen first c0 cs0).1 = [c] ∧ isBlank t c = false := by
  unfold lineStep
  generalize width - (if first = true then iiLen else siLen) = w
  generalize dropLead t first c0 cs0 = chunks1
  have hfit : lenSum (takeFit w [] 0 chunks1).1 ≤ w :=
    takeFit_fits w chunks1 [] 0 (by simp [lenSum]) (Nat.zero_le _)
  exact dropTrail_fits' t w _ (longWord_fits w (takeFit w [] 0 chunks1) hfit)

/-- **Width bound, sharp**: every emitted line fits its width (chunk lengths ≤ width − indent) or is one
non-blank chunk. The first emitted line is measured with `initial_indent`. -/
theorem width_bound' (t : ClassTables) (width iiLen siLen : Nat) :
    ∀ (fuel : Nat) (first : Bool) (cs : List Str),
      match wrapCur t width iiLen siLen fuel first cs with
      | [] => True
      | l :: ls => (lenSum l ≤ width - (if first then iiLen else siLen) ∨ ∃ c, l = [c] ∧ isBlank t c = false) ∧
                   ∀ l' ∈ ls, (lenSum l' ≤ width - siLen ∨ ∃ c, l' = [c] ∧ isBlank t c = false) := by
  intro fuel
  induction fuel with
  | zero => intro first cs; simp [wrapCur]
  | succ fuel ih =>
    intro first cs
    cases cs with
    | nil => simp [wrapCur]
    | cons c0 cs0 =>
      have hf := lineStep_fits' t width iiLen siLen first c0 cs0
      simp only [wrapCur]
      by_cases hemp : (lineStep t width iiLen siLen first c0 cs0).1.isEmpty = true
      · rw [if_pos hemp]; exact ih first _
      · rw [if_neg hemp]
        have := ih false (lineStep t width iiLen siLen first c0 cs0).2
        show (_ ∧ _)
        refine ⟨?_, ?_⟩
        · rcases hf with h | h | h
          · exact Or.inl h
          · rw [h] at hemp; simp at hemp
          · exact Or.inr h
        · intro l' hl'
          cases hrec : wrapCur t width iiLen siLen fuel false (lineStep t width iiLen siLen first c0 cs0).2 with
          | nil => rw [hrec] at hl'; simp at hl'
          | cons a as =>
            rw [hrec] at this hl'
            simp only [Bool.false_eq_true, if_false] at this
            rcases List.mem_cons.mp hl' with h | h
            · subst h; exact this.1
            · exact this.2 l' h

end GapicModel.Lemmas.Textwrap
