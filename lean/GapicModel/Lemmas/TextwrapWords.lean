import GapicModel.Lemmas.WrapWords
/-
C20 — `textwrap.fill` at the STRING level: the words (`str.split()`) of the filled text are the words of the
input, and the first emitted line is a prefix of the munged input that is followed by whitespace.
Built on the chunk-level theorem `Lemmas.Textwrap.words_preserved`.  No Mathlib.
-/
namespace GapicModel.Lemmas.TextwrapWords
open GapicModel.Regex GapicModel.Model.Wrap GapicModel.Lemmas.Words GapicModel.Lemmas.WrapWords
open GapicModel.Lemmas.Textwrap (wordsOf)

/-! ### the chunk list of `TextWrapper._split`: alternating whitespace / non-whitespace runs -/

/-- a non-empty chunk all of whose characters have ASCII-whitespace class `k` -/
def Hom (k : Bool) (c : Str) : Prop := c ≠ [] ∧ ∀ x ∈ c, isAsciiWs x = k

def AltFrom : Bool → List Str → Prop
  | _, [] => True
  | k, c :: r => Hom k c ∧ AltFrom (!k) r

/-- a non-empty chunk of ASCII whitespace -/
def WsChunk (c : Str) : Prop := Hom true c

/-- of two neighbouring chunks one is whitespace -/
def Alt : List Str → Prop
  | [] => True
  | [_] => True
  | a :: b :: r => (WsChunk a ∨ WsChunk b) ∧ Alt (b :: r)

theorem chunksAux_flatten : ∀ (s cur : Str) (k : Bool), (chunksAux s cur k).flatten = cur.reverse ++ s
  | [], cur, k => by
    simp only [chunksAux]
    split <;> simp_all
  | c :: cs, cur, k => by
    simp only [chunksAux]
    split
    · rename_i h; subst h; rw [chunksAux_flatten cs [c] _]; simp
    · split
      · rw [chunksAux_flatten cs (c :: cur) k]; simp
      · rw [List.flatten_cons, chunksAux_flatten cs [c] _]; simp

theorem chunks_flatten (s : Str) : (chunks s).flatten = s := by
  simp [chunks, chunksAux_flatten]

theorem chunksAux_alt : ∀ (s cur : Str) (k : Bool), cur ≠ [] → (∀ x ∈ cur, isAsciiWs x = k) →
    AltFrom k (chunksAux s cur k)
  | [], cur, k, hne, hk => by
    simp only [chunksAux, hne, if_false]
    exact ⟨⟨by simpa using hne, fun x hx => hk x (List.mem_reverse.mp hx)⟩, trivial⟩
  | c :: cs, cur, k, hne, hk => by
    simp only [chunksAux, hne, if_false]
    split
    · rename_i hc
      exact chunksAux_alt cs (c :: cur) k (by simp) (by
        intro x hx
        rcases List.mem_cons.mp hx with e | e
        · subst e; exact hc
        · exact hk x e)
    · rename_i hc
      refine ⟨⟨by simpa using hne, fun x hx => hk x (List.mem_reverse.mp hx)⟩, ?_⟩
      have hk' : isAsciiWs c = !k := by
        cases hh : isAsciiWs c <;> cases k <;> simp_all
      rw [← hk']
      exact chunksAux_alt cs [c] (isAsciiWs c) (by simp) (by intro x hx; simp at hx; subst hx; rfl)

theorem chunks_alt (s : Str) : ∃ k, AltFrom k (chunks s) := by
  cases s with
  | nil => exact ⟨false, by simp [chunks, chunksAux, AltFrom]⟩
  | cons c cs =>
    refine ⟨isAsciiWs c, ?_⟩
    simp only [chunks, chunksAux, if_true]
    exact chunksAux_alt cs [c] (isAsciiWs c) (by simp) (by intro x hx; simp at hx; subst hx; rfl)

theorem AltFrom.alt : ∀ {k : Bool} {cs : List Str}, AltFrom k cs → Alt cs
  | _, [], _ => trivial
  | _, [_], _ => trivial
  | k, a :: b :: r, h => by
    obtain ⟨ha, hb, hr⟩ := h
    refine ⟨?_, AltFrom.alt (k := !k) ⟨hb, hr⟩⟩
    cases k
    · right; simpa [WsChunk] using hb
    · left; exact ha

theorem AltFrom.hom : ∀ {k : Bool} {cs : List Str}, AltFrom k cs → ∀ c ∈ cs, ∃ k', Hom k' c
  | _, [], _, c, hc => by simp at hc
  | k, a :: r, h, c, hc => by
    rcases List.mem_cons.mp hc with e | e
    · subst e; exact ⟨k, h.1⟩
    · exact AltFrom.hom h.2 c e

theorem WsChunk.blank {c : Str} (h : WsChunk c) : Blank T c := fun x hx => asciiWs_ws x (h.2 x hx)

theorem isBlank_iff (c : Str) : isBlank T c = true ↔ Blank T c := by
  simp [isBlank, Blank]

theorem Alt.tail : ∀ {a : Str} {cs : List Str}, Alt (a :: cs) → Alt cs
  | _, [], _ => trivial
  | _, _ :: _, h => h.2

theorem Alt.append_left : ∀ {a b : List Str}, Alt (a ++ b) → Alt a
  | [], _, _ => trivial
  | [_], _, _ => trivial
  | x :: y :: r, b, h => by
    have h' : Alt (x :: y :: (r ++ b)) := h
    exact ⟨h'.1, Alt.append_left (a := y :: r) (b := b) h'.2⟩

theorem Alt.append_right : ∀ {a b : List Str}, Alt (a ++ b) → Alt b
  | [], _, h => h
  | x :: r, b, h => Alt.append_right (a := r) (b := b) (Alt.tail h)

/-- across a cut of an alternating chunk list: the chunk before the cut or the chunk after it is whitespace -/
theorem Alt.cut : ∀ {a : List Str} {x y : Str} {b : List Str}, Alt (a ++ x :: y :: b) → WsChunk x ∨ WsChunk y
  | [], _, _, _, h => h.1
  | _ :: r, _, _, _, h => Alt.cut (a := r) (Alt.tail h)

/-- with separated neighbours the words of the concatenation are the words of the chunks -/
theorem alt_words : ∀ (cs : List Str), Alt cs → words T cs.flatten = (cs.map (words T)).flatten
  | [], _ => by simp [words_nil]
  | [a], _ => by simp
  | a :: b :: r, h => by
    have ih := alt_words (b :: r) h.2
    show words T (a ++ (b :: r).flatten) = words T a ++ ((b :: r).map (words T)).flatten
    rw [← ih]
    rcases h.1 with ha | hb
    · obtain ⟨a', w, rfl⟩ : ∃ a' w, a = a' ++ [w] := by
        have := ha.1
        exact ⟨a.dropLast, a.getLast this, (List.dropLast_concat_getLast this).symm⟩
      have hw : isWs T w = true := ha.blank w (by simp)
      exact words_append_of_last_ws T _ _ w (by simp) hw
    · cases b with
      | nil => exact absurd rfl hb.1
      | cons w b' =>
        have hw : isWs T w = true := hb.blank w (by simp)
        exact words_append_of_head_ws T _ _ w (by simp) hw

theorem words_of_blank_chunks : ∀ (xs : List Str),
    (xs.map (words T)).flatten = ((wordsOf T xs).map (words T)).flatten
  | [] => rfl
  | x :: xs => by
    have ih := words_of_blank_chunks xs
    simp only [wordsOf, List.filter_cons] at ih ⊢
    by_cases hb : isBlank T x = true
    · have : words T x = [] := words_blank T x ((isBlank_iff x).mp hb)
      simp only [hb, Bool.not_true, Bool.false_eq_true, if_false, List.map_cons, List.flatten_cons, this, List.nil_append]
      exact ih
    · simp only [hb, Bool.not_false, if_true, List.map_cons, List.flatten_cons]
      rw [ih]

theorem words_joinWith_nl : ∀ (xs : List Str), words T (joinWith ['\n'] xs) = (xs.map (words T)).flatten
  | [] => by simp [joinWith, words_nil]
  | [a] => by simp [joinWith]
  | a :: b :: r => by
    have ih := words_joinWith_nl (b :: r)
    simp only [joinWith, List.append_assoc, List.singleton_append]
    rw [words_append_ws T a '\n' ws_nl, ih]; simp

/-! ### one line of `_wrap_chunks` as a cut of the chunk list -/

theorem dropTrail_dec (cur : List Str) :
    ∃ b2, cur = dropTrail T cur ++ b2 ∧ (∀ c ∈ b2, isBlank T c = true) ∧
      (b2 = [] → ∀ l, cur.getLast? = some l → isBlank T l = false) := by
  unfold dropTrail
  cases hl : cur.getLast? with
  | none => exact ⟨[], by simp, by simp, by intro _ l h; simp at h⟩
  | some l =>
    by_cases hb : isBlank T l = true
    · obtain ⟨ys, rfl⟩ := Textwrap.exists_concat_of_getLast cur l hl
      refine ⟨[l], by simp [hb], by simp [hb], by simp⟩
    · refine ⟨[], by simp [hb], by simp, ?_⟩
      intro _ l' h'
      simp at h'; subst h'; simpa using hb

/-- the chunks of the emitted line, the chunks left, and the (blank) chunks dropped between them -/
theorem lineStep_dec (width iiLen siLen : Nat) (first : Bool) (c0 : Str) (cs0 : List Str) :
    ∃ b1 b2 : List Str,
      c0 :: cs0 = b1 ++ (lineStep T width iiLen siLen first c0 cs0).1 ++ b2 ++ (lineStep T width iiLen siLen first c0 cs0).2 ∧
      (∀ c ∈ b1, isBlank T c = true) ∧ (∀ c ∈ b2, isBlank T c = true) ∧
      (first = true → b1 = []) ∧
      (b2 = [] → ∀ l, ((lineStep T width iiLen siLen first c0 cs0).1).getLast? = some l → isBlank T l = false) ∧
      (b1 = [] → isBlank T c0 = false → (lineStep T width iiLen siLen first c0 cs0).1 ≠ []) := by
  unfold lineStep
  generalize hw : width - (if first = true then iiLen else siLen) = w
  have hb1 : ∃ b1, c0 :: cs0 = b1 ++ dropLead T first c0 cs0 ∧ (∀ c ∈ b1, isBlank T c = true) ∧ (first = true → b1 = []) := by
    unfold dropLead
    by_cases hb : (isBlank T c0 && !first) = true
    · rw [if_pos hb]
      have h1 : isBlank T c0 = true := by simp at hb; exact hb.1
      have h2 : first = false := by simp at hb; exact hb.2
      exact ⟨[c0], rfl, by simp [h1], by simp [h2]⟩
    · rw [if_neg hb]; exact ⟨[], rfl, by simp, by simp⟩
  obtain ⟨b1, h1, hbl1, hf1⟩ := hb1
  generalize hch : dropLead T first c0 cs0 = chunks1 at h1
  have happ : (takeFit w [] 0 chunks1).1 ++ (takeFit w [] 0 chunks1).2 = chunks1 := by
    simpa using Textwrap.takeFit_append w chunks1 [] 0
  have hadj := Textwrap.longWord_append w (takeFit w [] 0 chunks1)
  rw [happ] at hadj
  obtain ⟨b2, h2, hbl2, hlast⟩ := dropTrail_dec (longWord w (takeFit w [] 0 chunks1)).1
  refine ⟨b1, b2, ?_, hbl1, hbl2, hf1, ?_, ?_⟩
  · have e : c0 :: cs0 = b1 ++ ((dropTrail T (longWord w (takeFit w [] 0 chunks1)).1 ++ b2) ++ (longWord w (takeFit w [] 0 chunks1)).2) := by
      rw [← h2, hadj]; exact h1
    simpa [List.append_assoc] using e
  · intro hb2 l hl
    simp only [] at hl
    have hcur : (longWord w (takeFit w [] 0 chunks1)).1 = dropTrail T (longWord w (takeFit w [] 0 chunks1)).1 := by
      conv => lhs; rw [h2, hb2]
      simp
    rw [← hcur] at hl
    exact hlast hb2 l hl
  · intro hb1e hc0
    simp only []
    subst hb1e
    simp only [List.nil_append] at h1
    -- the line before `dropTrail` is a non-empty prefix of `c0 :: cs0`, so it starts with the non-blank `c0`
    have hne : (longWord w (takeFit w [] 0 chunks1)).1 ≠ [] := by
      rw [← h1]
      by_cases he : (takeFit w [] 0 (c0 :: cs0)).1 = []
      · obtain ⟨hlt, h2'⟩ := Textwrap.takeFit_nil w c0 cs0 he
        unfold longWord
        rw [h2']; simp [hlt, he]
      · unfold longWord
        cases h2' : (takeFit w [] 0 (c0 :: cs0)).2 with
        | nil => simpa using he
        | cons c cs =>
          have : ¬ (w < c.length ∧ (takeFit w [] 0 (c0 :: cs0)).1.isEmpty = true) := by
            intro hc; apply he; simpa using hc.2
          simp [this, he]
    intro hemp
    rw [hemp, List.nil_append] at h2
    -- then the whole pre-line is the blank chunk list b2, but it starts with c0
    have hpre : (longWord w (takeFit w [] 0 chunks1)).1 ++ (longWord w (takeFit w [] 0 chunks1)).2 = c0 :: cs0 := by
      rw [hadj, h1]
    rw [h2] at hpre hne
    cases b2 with
    | nil => exact hne rfl
    | cons x b2' =>
      simp only [List.cons_append, List.cons.injEq] at hpre
      have := hbl2 x (by simp)
      rw [hpre.1] at this
      rw [this] at hc0; exact absurd hc0 (by simp)

/-- every emitted line is a contiguous piece of the chunk list -/
theorem wrapCur_infix (width iiLen siLen : Nat) :
    ∀ (fuel : Nat) (first : Bool) (cs : List Str), ∀ l ∈ wrapCur T width iiLen siLen fuel first cs,
      ∃ p q, cs = p ++ l ++ q := by
  intro fuel
  induction fuel with
  | zero => intro first cs l hl; simp [wrapCur] at hl
  | succ fuel ih =>
    intro first cs l hl
    cases cs with
    | nil => simp [wrapCur] at hl
    | cons c0 cs0 =>
      obtain ⟨b1, b2, hdec, _⟩ := lineStep_dec width iiLen siLen first c0 cs0
      simp only [wrapCur] at hl
      split at hl
      · obtain ⟨p, q, hpq⟩ := ih first _ l hl
        refine ⟨b1 ++ (lineStep T width iiLen siLen first c0 cs0).1 ++ b2 ++ p, q, ?_⟩
        rw [hdec]; conv => lhs; rw [hpq]
        simp [List.append_assoc]
      · rcases List.mem_cons.mp hl with e | e
        · subst e
          exact ⟨b1, b2 ++ (lineStep T width iiLen siLen first c0 cs0).2, by rw [hdec]; simp [List.append_assoc]⟩
        · obtain ⟨p, q, hpq⟩ := ih false _ l e
          refine ⟨b1 ++ (lineStep T width iiLen siLen first c0 cs0).1 ++ b2 ++ p, q, ?_⟩
          rw [hdec]; conv => lhs; rw [hpq]
          simp [List.append_assoc]

/-! ### `textwrap.fill` keeps the words of the text -/

theorem words_renderLines (ii si : Str) (hii : Blank T ii) (hsi : Blank T si) (ls : List (List Str)) :
    ((renderLines ii si ls).map (words T)).flatten = (ls.map (fun l => words T l.flatten)).flatten := by
  cases ls with
  | nil => rfl
  | cons l ls =>
    simp only [renderLines, List.map_cons, List.flatten_cons, List.map_map]
    rw [words_blank_append T ii hii]
    congr 2
    apply List.map_congr_left
    intro x _
    simp only [Function.comp]
    exact words_blank_append T si hsi _

theorem wrapLoop_words (width : Nat) (ii si : Str) (hii : Blank T ii) (hsi : Blank T si) (cs : List Str) (hcs : Alt cs) :
    words T (joinWith ['\n'] (wrapLoop T width ii si cs)) = words T cs.flatten := by
  unfold wrapLoop
  generalize hls : wrapCur T width ii.length si.length (cs.length + 1) true cs = ls
  rw [words_joinWith_nl, words_renderLines ii si hii hsi]
  have hlines : ∀ l ∈ ls, words T l.flatten = (l.map (words T)).flatten := by
    intro l hl
    rw [← hls] at hl
    obtain ⟨p, q, hpq⟩ := wrapCur_infix width ii.length si.length _ _ _ l hl
    rw [hpq] at hcs
    exact alt_words l (Alt.append_right (a := p) (Alt.append_left hcs))
  have h1 : (ls.map (fun l => words T l.flatten)).flatten = (ls.map (fun l => (l.map (words T)).flatten)).flatten := by
    congr 1
    exact List.map_congr_left hlines
  have h2 : (ls.map (fun l => (l.map (words T)).flatten)).flatten = (ls.flatten.map (words T)).flatten := by
    clear hlines h1 hls
    induction ls with
    | nil => rfl
    | cons l ls ih => simp only [List.map_cons, List.flatten_cons, List.map_append, List.flatten_append, ih]
  rw [h1, h2, words_of_blank_chunks ls.flatten, ← hls,
    Textwrap.words_preserved T width ii.length si.length (cs.length + 1) true cs (Nat.lt_succ_self _),
    ← words_of_blank_chunks cs, alt_words cs hcs]

/-- **`textwrap.fill` keeps the words** (`str.split()`) of the text, for every width and blank indents -/
theorem fill_words (text : Str) (width : Int) (ii si : Str) (hii : Blank T ii) (hsi : Blank T si) (out : Str)
    (h : textwrapFill T text width ii si = some out) : words T out = words T text := by
  unfold textwrapFill textwrapWrap at h
  split at h
  · simp at h
  · simp only [Option.map_some, Option.some.injEq] at h
    subst h
    obtain ⟨k, hk⟩ := chunks_alt (munge text)
    rw [wrapLoop_words width.toNat ii si hii hsi _ hk.alt, chunks_flatten]
    exact (munge_eqv text).words

end GapicModel.Lemmas.TextwrapWords
