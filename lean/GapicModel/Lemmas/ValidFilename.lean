import GapicModel.Lemmas.RegexComplete
import GapicModel.Pinned.Funcs
/-
`gapic/utils/filename.py: to_valid_filename / to_valid_module_name` (the T1-f translations in Pinned/Funcs.lean),
characterised over the regex engine: `re.sub('[^a-z0-9.$_-]+', '-', s.lower())`.
Soundness of the matcher gives that a reported match is a non-empty span, completeness (Lemmas/RegexComplete)
gives that a position the left-most search skipped carries an allowed character.  No Mathlib.
-/
namespace GapicModel.Lemmas.ValidFilename
open GapicModel GapicModel.Regex GapicModel.PyRt

/-- the items of the negated class of the pinned pattern -/
def items : List CItem := [.range 'a' 'z', .range '0' '9', .ch '.', .ch '$', .ch '_', .ch '-']

/-- the pattern `[^a-z0-9.$_-]+` as the translator emits it -/
def P : Re := .seq (.cls true items) (.star (.cls true items) true)

/-- a character the pattern replaces -/
def bad (c : Char) : Bool := clsTest T true items c

/-- the characters a valid file name is made of (code-point comparisons, as the class test makes them) -/
def Allowed (c : Char) : Prop :=
  ('a'.toNat ≤ c.toNat ∧ c.toNat ≤ 'z'.toNat) ∨ ('0'.toNat ≤ c.toNat ∧ c.toNat ≤ '9'.toNat) ∨
    c = '.' ∨ c = '$' ∨ c = '_' ∨ c = '-'

theorem bad_false_iff (c : Char) : bad c = false ↔ Allowed c := by
  simp only [bad, clsTest, items, List.any_cons, List.any_nil, CItem.test, Bool.or_false, Allowed,
    bne_eq_false_iff_eq, Bool.or_eq_true, Bool.and_eq_true, decide_eq_true_eq, beq_iff_eq]
  constructor
  · rintro (h | h | h | h | h | h)
    · exact .inl h
    · exact .inr (.inl h)
    · exact .inr (.inr (.inl h.symm))
    · exact .inr (.inr (.inr (.inl h.symm)))
    · exact .inr (.inr (.inr (.inr (.inl h.symm))))
    · exact .inr (.inr (.inr (.inr (.inr h.symm))))
  · rintro (h | h | h | h | h | h)
    · exact .inl h
    · exact .inr (.inl h)
    · exact .inr (.inr (.inl h.symm))
    · exact .inr (.inr (.inr (.inl h.symm)))
    · exact .inr (.inr (.inr (.inr (.inl h.symm))))
    · exact .inr (.inr (.inr (.inr (.inr h.symm))))

theorem noLook_P : noLook P = true := by decide

/-- a run of the pattern starts on a bad character and ends on a proper suffix -/
theorem run_P {s s' : St} (h : Run T P s s') :
    ∃ d r w, s.rest = d :: r ∧ bad d = true ∧ r = w ++ s'.rest := by
  cases h with
  | seq _ _ _ s1 _ h1 h2 =>
    cases h1 with
    | cls _ _ _ d r hs ht =>
      obtain ⟨w, hw, _⟩ := h2.consumed
      exact ⟨d, r, w, hs, ht, by simpa [St.push] using hw⟩

/-- a bad character at the cursor: the matcher answers -/
theorem match_of_bad (pre : Str) (c : Char) (cs : Str) (hc : bad c = true) :
    (matchAt T P pre (c :: cs)).isSome = true := by
  refine matchAt_complete (st := (St.mk pre (c :: cs) []).push c cs) ?_ noLook_P
  exact Run.seq _ _ _ _ _ (Run.cls _ _ _ c cs rfl hc) (Run.star0 _ _ _)

/-- **every character of `re.sub(P, '-', s)` is `-` or an allowed character of `s`** -/
theorem subLoop_chars : ∀ (n : Nat) (pre s : Str), s.length < n →
    ∀ c ∈ subLoop T P [.lit ['-']] n pre s, c = '-' ∨ (c ∈ s ∧ bad c = false) := by
  intro n
  induction n with
  | zero => intro pre s h; omega
  | succ n ih =>
    intro pre s hlen c hc
    cases s with
    | nil => simp [subLoop] at hc
    | cons d ds =>
      simp only [subLoop] at hc
      have tailCase : c ∈ d :: subLoop T P [.lit ['-']] n (d :: pre) ds → bad d = false →
          c = '-' ∨ (c ∈ d :: ds ∧ bad c = false) := by
        intro hc hb
        rcases List.mem_cons.mp hc with rfl | hc
        · exact .inr ⟨List.mem_cons_self, hb⟩
        · rcases ih (d :: pre) ds (by simp at hlen; omega) c hc with h | ⟨h1, h2⟩
          · exact .inl h
          · exact .inr ⟨List.mem_cons_of_mem _ h1, h2⟩
      cases hm : matchAt T P pre (d :: ds) with
      | none =>
        rw [hm] at hc
        refine tailCase hc ?_
        cases hb : bad d with
        | false => rfl
        | true => have := match_of_bad pre d ds hb; rw [hm] at this; simp at this
      | some st =>
        rw [hm] at hc
        obtain ⟨d', r, w, hs, hb, hr⟩ := run_P (matchAt_sound hm)
        simp only [List.cons.injEq] at hs
        obtain ⟨rfl, rfl⟩ := hs
        have hlt : st.rest.length < (d :: ds).length := by
          rw [hr]; simp; omega
        dsimp only at hc
        rw [if_pos hlt] at hc
        simp only [expand, List.append_nil, List.cons_append, List.nil_append, List.mem_cons] at hc
        rcases hc with rfl | hc
        · exact .inl rfl
        · rcases ih st.pre st.rest (by simp at hlen hlt; omega) c hc with h | ⟨h1, h2⟩
          · exact .inl h
          · refine .inr ⟨List.mem_cons_of_mem _ ?_, h2⟩
            rw [hr]; exact List.mem_append_right _ h1

/-- a text without bad characters is left alone -/
theorem subLoop_id : ∀ (n : Nat) (pre s : Str), s.length < n → (∀ c ∈ s, bad c = false) →
    subLoop T P [.lit ['-']] n pre s = s := by
  intro n
  induction n with
  | zero => intro pre s h; omega
  | succ n ih =>
    intro pre s hlen hall
    cases s with
    | nil => simp [subLoop]
    | cons d ds =>
      simp only [subLoop]
      cases hm : matchAt T P pre (d :: ds) with
      | none =>
        simp only
        rw [ih (d :: pre) ds (by simp at hlen; omega) (fun c hc => hall c (List.mem_cons_of_mem _ hc))]
      | some st =>
        obtain ⟨d', r, w, hs, hb, _⟩ := run_P (matchAt_sound hm)
        simp only [List.cons.injEq] at hs
        have hb' : bad d = true := hs.1 ▸ hb
        rw [hall d List.mem_cons_self] at hb'
        cases hb'

/-- `s.replace('-', '_')` is a character map -/
theorem replace_dash (s : Str) :
    replaceAux ['-'] ['_'] 0 s = s.map (fun c => if c = '-' then '_' else c) := by
  induction s with
  | nil => simp [replaceAux]
  | cons c cs ih =>
    simp only [replaceAux, List.map_cons]
    by_cases h : c = '-'
    · subst h; simp [List.isPrefixOf, ih]
    · have : List.isPrefixOf ['-'] (c :: cs) = false := by
        simp [List.isPrefixOf, Ne.symm h]
      simp [this, h, ih]

/-- `lower` keeps every allowed character -/
theorem lowerC_allowed (c : Char) (h : Allowed c) : lowerC c = c := by
  unfold lowerC
  have hn : ¬ ('A' ≤ c ∧ c ≤ 'Z') := by
    have e : ∀ a b : Char, a ≤ b ↔ a.toNat ≤ b.toNat := fun a b => by
      rw [Char.le_def, UInt32.le_iff_toNat_le]; rfl
    rw [e, e]
    rcases h with h | h | h | h | h | h
    · have : 'a'.toNat = 97 := rfl
      have : 'Z'.toNat = 90 := rfl
      omega
    · have : '9'.toNat = 57 := rfl
      have : 'A'.toNat = 65 := rfl
      omega
    all_goals (subst h; decide)
  simp [hn]

/-- the translated `to_valid_filename` is the `re.sub` loop over the lower-cased text -/
theorem to_valid_filename_eq (s : Str) :
    Pinned.Funcs.to_valid_filename s = subLoop T P [.lit ['-']] ((lower s).length + 1) [] (lower s) := rfl

/-- **every character of `to_valid_filename(s)` is one of `a-z 0-9 . $ _ -`** — for every text -/
theorem to_valid_filename_chars (s : Str) : ∀ c ∈ Pinned.Funcs.to_valid_filename s, Allowed c := by
  intro c hc
  rw [to_valid_filename_eq] at hc
  rcases subLoop_chars _ [] (lower s) (by omega) c hc with rfl | ⟨_, h⟩
  · exact .inr (.inr (.inr (.inr (.inr rfl))))
  · exact (bad_false_iff c).mp h

/-- `to_valid_module_name(s)` is `to_valid_filename(s)` with every `-` turned into `_` -/
theorem to_valid_module_name_eq (s : Str) :
    Pinned.Funcs.to_valid_module_name s =
      (Pinned.Funcs.to_valid_filename s).map (fun c => if c = '-' then '_' else c) := by
  unfold Pinned.Funcs.to_valid_module_name replace
  exact replace_dash _

/-- **every character of `to_valid_module_name(s)` is one of `a-z 0-9 . $ _`** — for every text -/
theorem to_valid_module_name_chars (s : Str) :
    ∀ c ∈ Pinned.Funcs.to_valid_module_name s, Allowed c ∧ c ≠ '-' := by
  intro c hc
  rw [to_valid_module_name_eq, List.mem_map] at hc
  obtain ⟨d, hd, rfl⟩ := hc
  by_cases h : d = '-'
  · subst h; exact ⟨.inr (.inr (.inr (.inr (.inl rfl)))), by decide⟩
  · simp only [h, if_false]; exact ⟨to_valid_filename_chars s d hd, h⟩

/-- a text made of `a-z 0-9 . $ _ -` only is a fixed point of `to_valid_filename` -/
theorem to_valid_filename_fixed (s : Str) (h : ∀ c ∈ s, Allowed c) : Pinned.Funcs.to_valid_filename s = s := by
  have hl : lower s = s := by
    unfold lower
    conv => rhs; rw [← List.map_id s]
    exact List.map_congr_left (fun c hc => by simp [lowerC_allowed c (h c hc)])
  rw [to_valid_filename_eq, hl]
  exact subLoop_id _ [] s (by omega) (fun c hc => (bad_false_iff c).mpr (h c hc))

/-- a text made of `a-z 0-9 . $ _` only is a fixed point of `to_valid_module_name` -/
theorem to_valid_module_name_fixed (s : Str) (h : ∀ c ∈ s, Allowed c ∧ c ≠ '-') :
    Pinned.Funcs.to_valid_module_name s = s := by
  rw [to_valid_module_name_eq, to_valid_filename_fixed s (fun c hc => (h c hc).1)]
  conv => rhs; rw [← List.map_id s]
  exact List.map_congr_left (fun c hc => by simp [(h c hc).2])

/-- `to_valid_module_name` is idempotent -/
theorem to_valid_module_name_idem (s : Str) :
    Pinned.Funcs.to_valid_module_name (Pinned.Funcs.to_valid_module_name s) = Pinned.Funcs.to_valid_module_name s :=
  to_valid_module_name_fixed _ (to_valid_module_name_chars s)

theorem allowed_ne_slash {c : Char} (h : Allowed c) : c ≠ '/' := by
  rintro rfl
  rcases h with h | h | h | h | h | h
  · have : 'a'.toNat = 97 := rfl
    have : '/'.toNat = 47 := rfl
    omega
  · have : '0'.toNat = 48 := rfl
    have : '/'.toNat = 47 := rfl
    omega
  all_goals (revert h; decide)

end GapicModel.Lemmas.ValidFilename
