import GapicModel.Model.Wrap
/-
C20 — the "words" of a text (`str.split()`: maximal runs of non-whitespace) and the contextual
equivalence "same words in every context" that the proof of `wrap_words_preserved` is carried out in.
No Mathlib.
-/
namespace GapicModel.Lemmas.Words
open GapicModel.Regex GapicModel.Model.Wrap

/-- `str.split()` with the current word (reversed) as accumulator -/
def wordsAux (t : ClassTables) : Str → Str → List Str
  | [], cur => if cur = [] then [] else [cur.reverse]
  | c :: cs, cur =>
    if isWs t c then (if cur = [] then wordsAux t cs [] else cur.reverse :: wordsAux t cs [])
    else wordsAux t cs (c :: cur)

/-- `s.split()` -/
def words (t : ClassTables) (s : Str) : List Str := wordsAux t s []

def Blank (t : ClassTables) (s : Str) : Prop := ∀ c ∈ s, isWs t c = true

theorem wordsAux_append_ws (t) (w : Char) (hw : isWs t w = true) (b : Str) :
    ∀ (a cur : Str), wordsAux t (a ++ w :: b) cur = wordsAux t a cur ++ words t b := by
  intro a
  induction a with
  | nil =>
    intro cur
    simp only [List.nil_append, wordsAux, hw, if_true, words]
    by_cases hc : cur = [] <;> simp [hc]
  | cons c a ih =>
    intro cur
    simp only [List.cons_append, wordsAux]
    by_cases hcw : isWs t c = true
    · simp only [hcw, if_true]
      by_cases hc : cur = []
      · simp only [hc, if_true]; exact ih []
      · simp only [hc, if_false, List.cons_append]; rw [ih []]
    · simp only [hcw]; exact ih (c :: cur)

/-- W1: a whitespace character separates -/
theorem words_append_ws (t) (a : Str) (w : Char) (hw : isWs t w = true) (b : Str) :
    words t (a ++ w :: b) = words t a ++ words t b := wordsAux_append_ws t w hw b a []

theorem words_nil (t) : words t [] = [] := by simp [words, wordsAux]

theorem words_cons_ws (t) (w : Char) (hw : isWs t w = true) (b : Str) : words t (w :: b) = words t b := by
  have := words_append_ws t [] w hw b
  simpa [words_nil] using this

theorem words_snoc_ws (t) (a : Str) (w : Char) (hw : isWs t w = true) : words t (a ++ [w]) = words t a := by
  have := words_append_ws t a w hw []
  simpa [words_nil] using this

theorem words_blank_append (t) (b : Str) (hb : Blank t b) (c : Str) : words t (b ++ c) = words t c := by
  induction b with
  | nil => rfl
  | cons x b ih =>
    rw [List.cons_append, words_cons_ws t x (hb x (by simp))]
    exact ih (fun y hy => hb y (by simp [hy]))

theorem words_blank (t) (b : Str) (hb : Blank t b) : words t b = [] := by
  have := words_blank_append t b hb []
  simpa [words_nil] using this

theorem words_append_blank (t) (a b : Str) (hb : Blank t b) : words t (a ++ b) = words t a := by
  cases b with
  | nil => simp
  | cons x b =>
    rw [words_append_ws t a x (hb x (by simp)), words_blank t b (fun y hy => hb y (by simp [hy]))]; simp

/-- a non-empty blank string in the middle separates -/
theorem words_append_blank_append (t) (a b c : Str) (hb : Blank t b) (hne : b ≠ []) :
    words t (a ++ b ++ c) = words t a ++ words t c := by
  cases b with
  | nil => exact absurd rfl hne
  | cons x b =>
    rw [List.append_assoc, List.cons_append, words_append_ws t a x (hb x (by simp)),
      words_blank_append t b (fun y hy => hb y (by simp [hy]))]

/-- boundary: the left part ends with whitespace -/
theorem words_append_of_last_ws (t) (a b : Str) (w : Char) (h : a.getLast? = some w) (hw : isWs t w = true) :
    words t (a ++ b) = words t a ++ words t b := by
  obtain ⟨a', rfl⟩ : ∃ a', a = a' ++ [w] := by
    induction a with
    | nil => simp at h
    | cons x a ih =>
      cases a with
      | nil => simp at h; subst h; exact ⟨[], rfl⟩
      | cons y a' =>
        have : (y :: a').getLast? = some w := by simpa [List.getLast?_cons_cons] using h
        obtain ⟨z, hz⟩ := ih this
        exact ⟨x :: z, by rw [hz]; rfl⟩
  rw [List.append_assoc, List.singleton_append, words_append_ws t a' w hw, words_snoc_ws t a' w hw]

/-- boundary: the right part starts with whitespace -/
theorem words_append_of_head_ws (t) (a b : Str) (w : Char) (h : b.head? = some w) (hw : isWs t w = true) :
    words t (a ++ b) = words t a ++ words t b := by
  cases b with
  | nil => simp at h
  | cons x b =>
    simp at h; subst h
    rw [words_append_ws t a x hw, words_cons_ws t x hw]

/-! ### contextual equivalence -/

/-- `a` and `b` have the same words in every context -/
def Eqv (t : ClassTables) (a b : Str) : Prop := ∀ pre post, words t (pre ++ a ++ post) = words t (pre ++ b ++ post)

theorem Eqv.refl (t) (a : Str) : Eqv t a a := fun _ _ => rfl
theorem Eqv.symm {t} {a b : Str} (h : Eqv t a b) : Eqv t b a := fun p q => (h p q).symm
theorem Eqv.trans {t} {a b c : Str} (h1 : Eqv t a b) (h2 : Eqv t b c) : Eqv t a c := fun p q => (h1 p q).trans (h2 p q)

theorem Eqv.words {t} {a b : Str} (h : Eqv t a b) : words t a = words t b := by
  have := h [] []
  simpa using this

theorem Eqv.append {t} {a a' b b' : Str} (h1 : Eqv t a a') (h2 : Eqv t b b') : Eqv t (a ++ b) (a' ++ b') := by
  intro p q
  have e1 := h1 p (b ++ q)
  have e2 := h2 (p ++ a') q
  simp only [List.append_assoc] at e1 e2 ⊢
  rw [e1, e2]

theorem Eqv.cons {t} {a b : Str} (c : Char) (h : Eqv t a b) : Eqv t (c :: a) (c :: b) :=
  Eqv.append (Eqv.refl t [c]) h

/-- any two non-empty blank strings are interchangeable -/
theorem Eqv.blank {t} {b b' : Str} (hb : Blank t b) (hb' : Blank t b') (hne : b ≠ []) (hne' : b' ≠ []) : Eqv t b b' := by
  intro p q
  rw [words_append_blank_append t p b q hb hne, words_append_blank_append t p b' q hb' hne']

theorem blank_cons {t} {c : Char} {s : Str} (hc : isWs t c = true) (hs : Blank t s) : Blank t (c :: s) := by
  intro x hx
  rcases List.mem_cons.mp hx with h | h
  · subst h; exact hc
  · exact hs x h

theorem blank_nil (t) : Blank t [] := by intro x hx; simp at hx

theorem blank_append {t} {a b : Str} (ha : Blank t a) (hb : Blank t b) : Blank t (a ++ b) := by
  intro x hx
  rcases List.mem_append.mp hx with h | h
  · exact ha x h
  · exact hb x h

theorem blank_replicate {t} (c : Char) (hc : isWs t c = true) (n : Nat) : Blank t (List.replicate n c) := by
  intro x hx
  have := List.eq_of_mem_replicate hx
  subst this; exact hc

end GapicModel.Lemmas.Words
