import GapicModel.Lemmas.WrapWords
/-
C20 — `re.sub(r":\n([^\n])", r":\n\n\1", text)` of `gapic.utils.lines.wrap` as a plain function on the text
(`colonSub`), proved equal to the regex engine running the pinned pattern, and its effect on words.
No Mathlib.
-/
namespace GapicModel.Lemmas.WrapColon
open GapicModel.Regex GapicModel.Model.Wrap GapicModel.Lemmas.Words GapicModel.Lemmas.WrapWords

/-- the pattern matches here: `:` `\n` and a character that is not a line break -/
def colonHit : Str → Option (Char × Str)
  | ':' :: '\n' :: x :: r => if x = '\n' then none else some (x, r)
  | _ => none

theorem colonHit_some {s : Str} {x : Char} {r : Str} (h : colonHit s = some (x, r)) :
    s = ':' :: '\n' :: x :: r ∧ x ≠ '\n' := by
  unfold colonHit at h
  split at h
  · rename_i y r'
    split at h
    · simp at h
    · rename_i hy
      simp only [Option.some.injEq, Prod.mk.injEq] at h
      obtain ⟨h1, h2⟩ := h
      subst h1; subst h2
      exact ⟨rfl, hy⟩
  · simp at h

theorem colonHit_hit (x : Char) (r : Str) (hx : x ≠ '\n') : colonHit (':' :: '\n' :: x :: r) = some (x, r) := by
  simp [colonHit, hx]

theorem colonHit_head_ne (c : Char) (cs : Str) (hc : c ≠ ':') : colonHit (c :: cs) = none := by
  unfold colonHit
  split
  · rename_i heq; simp only [List.cons.injEq] at heq; exact absurd heq.1 hc
  · rfl

theorem colonHit_second_ne (c d : Char) (cs : Str) (hd : d ≠ '\n') : colonHit (c :: d :: cs) = none := by
  unfold colonHit
  split
  · rename_i heq; simp only [List.cons.injEq] at heq; exact absurd heq.2.1 hd
  · rfl

theorem colonHit_short1 (c : Char) : colonHit [c] = none := by
  unfold colonHit; split
  · rename_i heq; simp at heq
  · rfl

theorem colonHit_short2 (c d : Char) : colonHit [c, d] = none := by
  unfold colonHit; split
  · rename_i heq; simp at heq
  · rfl

theorem colonHit_nlnl (c : Char) (r : Str) : colonHit (c :: '\n' :: '\n' :: r) = none := by
  unfold colonHit; split
  · rename_i heq
    simp only [List.cons.injEq] at heq
    obtain ⟨_, _, h3, _⟩ := heq
    subst h3; simp
  · rfl

/-- `re.sub(r":\n([^\n])", r":\n\n\1", s)` -/
def colonSub : Str → Str
  | [] => []
  | c :: cs =>
    match h : colonHit (c :: cs) with
    | some (x, r) => ':' :: '\n' :: '\n' :: x :: colonSub r
    | none => c :: colonSub cs
termination_by s => s.length
decreasing_by
  · have := (colonHit_some h).1
    have := congrArg List.length this
    simp only [List.length_cons] at this ⊢
    omega
  · simp

theorem colonSub_nil : colonSub [] = [] := by unfold colonSub; rfl

theorem colonSub_hit (x : Char) (r : Str) (hx : x ≠ '\n') :
    colonSub (':' :: '\n' :: x :: r) = ':' :: '\n' :: '\n' :: x :: colonSub r := by
  rw [colonSub]
  split
  · rename_i y r' heq
    rw [colonHit_hit x r hx] at heq
    simp only [Option.some.injEq, Prod.mk.injEq] at heq
    obtain ⟨h1, h2⟩ := heq
    subst h1; subst h2; rfl
  · rename_i heq
    rw [colonHit_hit x r hx] at heq; simp at heq

theorem colonSub_miss (c : Char) (cs : Str) (h : colonHit (c :: cs) = none) : colonSub (c :: cs) = c :: colonSub cs := by
  rw [colonSub]
  split
  · rename_i y r' heq
    rw [h] at heq; simp at heq
  · rfl

/-! ### the regex engine on the pinned pattern computes `colonSub` -/

theorem nl_eq : Char.ofNat 10 = '\n' := by decide

theorem matchAt_colon_hit (pre : Str) (x : Char) (r : Str) (hx : x ≠ '\n') :
    matchAt T Pinned.wrapColon.re pre (':' :: '\n' :: x :: r) = some ⟨x :: '\n' :: ':' :: pre, r, [(1, [x])]⟩ := by
  have hx' : ('\n' == x) = false := by simpa using fun e => hx e.symm
  simp [matchAt, Pinned.wrapColon, m, nl_eq, clsTest, CItem.test, hx', capture]

theorem matchAt_colon_miss (pre : Str) (s : Str) (h : colonHit s = none) :
    matchAt T Pinned.wrapColon.re pre s = none := by
  simp only [matchAt, Pinned.wrapColon, m, nl_eq]
  cases s with
  | nil => rfl
  | cons c cs =>
    simp only
    by_cases hc : ':' = c
    · subst hc
      simp only [if_true]
      cases cs with
      | nil => rfl
      | cons d ds =>
        simp only
        by_cases hd : '\n' = d
        · subst hd
          simp only [if_true]
          cases ds with
          | nil => rfl
          | cons x r =>
            simp only
            by_cases hx : x = '\n'
            · subst hx; simp [clsTest, CItem.test]
            · rw [colonHit_hit x r hx] at h; simp at h
        · simp [hd]
    · simp [hc]

theorem subLoop_colon : ∀ (n : Nat) (pre rest : Str), rest.length < n →
    subLoop T Pinned.wrapColon.re Pinned.wrapColonRepl n pre rest = colonSub rest := by
  intro n
  induction n with
  | zero => intro pre rest h; omega
  | succ n ih =>
    intro pre rest h
    cases rest with
    | nil => simp [subLoop, colonSub_nil]
    | cons c cs =>
      simp only [subLoop]
      cases hh : colonHit (c :: cs) with
      | none =>
        rw [matchAt_colon_miss pre (c :: cs) hh, colonSub_miss c cs hh]
        simp only
        rw [ih (c :: pre) cs (by simp only [List.length_cons] at h; omega)]
      | some p =>
        obtain ⟨x, r⟩ := p
        obtain ⟨hs, hx⟩ := colonHit_some hh
        rw [hs, matchAt_colon_hit pre x r hx, colonSub_hit x r hx]
        have hlen : r.length < (':' :: '\n' :: x :: r).length := by simp only [List.length_cons]; omega
        simp only [hlen, if_true]
        rw [ih _ r (by rw [hs] at h; simp only [List.length_cons] at h; omega)]
        simp [expand, Pinned.wrapColonRepl, St.group?]

/-- **the pinned pattern run by the regex engine is `colonSub`** -/
theorem pySub_colon (s : Str) : pySub T Pinned.wrapColon.re Pinned.wrapColonRepl s = colonSub s :=
  subLoop_colon _ _ _ (Nat.lt_succ_self _)

/-! ### `colonSub` only inserts line breaks next to line breaks -/

theorem colonSub_eqv (s : Str) : Eqv T (colonSub s) s := by
  generalize hn : s.length = n
  induction n using Nat.strongRecOn generalizing s with
  | _ n ih =>
    cases s with
    | nil => rw [colonSub_nil]; exact Eqv.refl T []
    | cons c cs =>
      cases hh : colonHit (c :: cs) with
      | none =>
        rw [colonSub_miss c cs hh]
        exact Eqv.cons c (ih cs.length (by rw [← hn]; simp) cs rfl)
      | some p =>
        obtain ⟨x, r⟩ := p
        obtain ⟨hs, hx⟩ := colonHit_some hh
        rw [hs, colonSub_hit x r hx]
        have ihr := ih r.length (by rw [← hn, hs]; simp only [List.length_cons]; omega) r rfl
        have hb : Eqv T ['\n', '\n'] ['\n'] :=
          Eqv.blank (blank_cons ws_nl (blank_cons ws_nl (blank_nil T))) (blank_cons ws_nl (blank_nil T)) (by simp) (by simp)
        exact Eqv.cons ':' (Eqv.append (a := ['\n', '\n']) (a' := ['\n']) hb (Eqv.cons x ihr))

/-- no match can start inside a prefix without line breaks unless it ends in `:` and a line break follows -/
theorem colonSub_prefix_last : ∀ (P s : Str), '\n' ∉ P → P.getLast? ≠ some ':' → colonSub (P ++ s) = P ++ colonSub s
  | [], s, _, _ => rfl
  | c :: P, s, hnl, hlast => by
    have hc : c ≠ '\n' := fun e => hnl (by simp [e])
    have hP : '\n' ∉ P := fun e => hnl (by simp [e])
    have hmiss : colonHit (c :: (P ++ s)) = none := by
      cases P with
      | nil =>
        have : c ≠ ':' := by intro e; apply hlast; simp [e]
        exact colonHit_head_ne c _ this
      | cons d P' =>
        have hd : d ≠ '\n' := fun e => hnl (by simp [e])
        exact colonHit_second_ne c d _ hd
    rw [List.cons_append, colonSub_miss c _ hmiss]
    have hlast' : P.getLast? ≠ some ':' := by
      cases P with
      | nil => simp
      | cons d P' => simpa [List.getLast?_cons_cons] using hlast
    rw [colonSub_prefix_last P s hP hlast']; rfl

theorem colonSub_prefix_head : ∀ (P s : Str), '\n' ∉ P → s.head? ≠ some '\n' → colonSub (P ++ s) = P ++ colonSub s
  | [], s, _, _ => rfl
  | c :: P, s, hnl, hhead => by
    have hP : '\n' ∉ P := fun e => hnl (by simp [e])
    have hmiss : colonHit (c :: (P ++ s)) = none := by
      cases P with
      | nil =>
        cases s with
        | nil => exact colonHit_short1 c
        | cons d s' =>
          have hd : d ≠ '\n' := by intro e; apply hhead; simp [e]
          exact colonHit_second_ne c d _ hd
      | cons d P' =>
        have hd : d ≠ '\n' := fun e => hnl (by simp [e])
        exact colonHit_second_ne c d _ hd
    rw [List.cons_append, colonSub_miss c _ hmiss, colonSub_prefix_head P s hP hhead]; rfl

theorem colon_not_ws : isWs T ':' = false := by decide

/-- cutting after a whitespace character that follows a prefix without line breaks: the prefix and the
character are untouched and what follows keeps its words -/
theorem colonSub_cut (P : Str) (e : Char) (R : Str) (hnl : '\n' ∉ P) (he : isWs T e = true) :
    ∃ Z, colonSub (P ++ e :: R) = P ++ e :: Z ∧ words T Z = words T R := by
  have hec : e ≠ ':' := by intro h; subst h; rw [colon_not_ws] at he; simp at he
  have hmiss_e : colonHit (e :: R) = none := colonHit_head_ne e R hec
  by_cases hlast : P.getLast? = some ':'
  · obtain ⟨P0, rfl⟩ := Textwrap.exists_concat_of_getLast P ':' hlast
    have hP0 : '\n' ∉ P0 := fun h => hnl (by simp [h])
    by_cases hen : e = '\n'
    · subst hen
      -- P0 ++ ':' :: '\n' :: R
      have hsplit : P0 ++ [':'] ++ '\n' :: R = P0 ++ (':' :: '\n' :: R) := by simp
      rw [hsplit, colonSub_prefix_head P0 _ hP0 (by simp)]
      cases R with
      | nil =>
        rw [colonSub_miss ':' _ (colonHit_short2 ':' '\n'), colonSub_miss '\n' _ (colonHit_short1 '\n'), colonSub_nil]
        exact ⟨[], by simp, rfl⟩
      | cons x R2 =>
        by_cases hx : x = '\n'
        · subst hx
          rw [colonSub_miss ':' _ (colonHit_nlnl ':' R2), colonSub_miss '\n' _ (colonHit_head_ne '\n' _ (by decide))]
          exact ⟨colonSub ('\n' :: R2), by simp, (colonSub_eqv _).words⟩
        · rw [colonSub_hit x R2 hx]
          refine ⟨'\n' :: x :: colonSub R2, by simp, ?_⟩
          rw [words_cons_ws T '\n' ws_nl]
          exact (Eqv.cons x (colonSub_eqv R2)).words
    · rw [colonSub_prefix_head (P0 ++ [':']) (e :: R) hnl (by simpa using hen), colonSub_miss e R hmiss_e]
      exact ⟨colonSub R, rfl, (colonSub_eqv R).words⟩
  · rw [colonSub_prefix_last P (e :: R) hnl hlast, colonSub_miss e R hmiss_e]
    exact ⟨colonSub R, rfl, (colonSub_eqv R).words⟩

theorem colonSub_no_nl (P : Str) (hnl : '\n' ∉ P) : colonSub P = P := by
  have := colonSub_prefix_head P [] hnl (by simp)
  simpa [colonSub_nil] using this

/-- **cutting the text after its wrapped first line**: with `P` the part of the first line that was kept
(no line break in it) and what follows either nothing or starting with whitespace, dropping `|P| + 1`
characters after the colon rule has run loses no word -/
theorem cut_words (P X : Str) (hnl : '\n' ∉ P) (hX : X = [] ∨ ∃ e R, X = e :: R ∧ isWs T e = true) :
    words T P ++ words T ((colonSub (P ++ X)).drop (P.length + 1)) = words T (P ++ X) := by
  rcases hX with rfl | ⟨e, R, rfl, he⟩
  · rw [List.append_nil, colonSub_no_nl P hnl, List.drop_of_length_le (by omega), words_nil]; simp
  · obtain ⟨Z, hZ, hw⟩ := colonSub_cut P e R hnl he
    rw [hZ, words_append_ws T P e he R, ← hw]
    congr 2
    have : P ++ e :: Z = (P ++ [e]) ++ Z := by simp
    rw [this, List.drop_left' (by simp)]

end GapicModel.Lemmas.WrapColon
