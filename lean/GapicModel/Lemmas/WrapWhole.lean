import GapicModel.Lemmas.TextwrapWords
import GapicModel.Lemmas.WrapColon
/-
C20 — `gapic.utils.lines.wrap` as a whole keeps the words of the text: the first-line cut, the tail
(tokenisation and filling) and their assembly.  No Mathlib.
-/
namespace GapicModel.Lemmas.WrapWhole
open GapicModel.Regex GapicModel.Model.Wrap GapicModel.Lemmas.Words GapicModel.Lemmas.WrapWords
open GapicModel.Lemmas.TextwrapWords GapicModel.Lemmas.WrapColon

/-! ### the first wrapped line is a chunk-aligned prefix followed by whitespace -/

theorem AltFrom.adj : ∀ {k : Bool} {a : List Str} {x y : Str} {b : List Str},
    AltFrom k (a ++ x :: y :: b) → ∃ k', Hom k' x ∧ Hom (!k') y
  | k, [], _, _, _, h => ⟨k, h.1, h.2.1⟩
  | _, _ :: a, _, _, _, h => AltFrom.adj (a := a) h.2

theorem Hom.blank_of_true {c : Str} (h : Hom true c) : isBlank T c = true :=
  (isBlank_iff c).mpr (WsChunk.blank h)

theorem sp_ascii : isAsciiWs ' ' = true := by decide

/-- a chunk list whose text ends with a space ends with a whitespace chunk -/
theorem last_chunk_ws {k : Bool} {cs : List Str} (halt : AltFrom k cs) (s0 : Str) (hflat : cs.flatten = s0 ++ [' ']) :
    ∃ cs' W, cs = cs' ++ [W] ∧ Hom true W := by
  have hne : cs ≠ [] := by intro h; subst h; simp at hflat
  refine ⟨cs.dropLast, cs.getLast hne, (List.dropLast_concat_getLast hne).symm, ?_⟩
  obtain ⟨k', hk'⟩ := AltFrom.hom halt (cs.getLast hne) (List.getLast_mem hne)
  have hW := hk'.1
  have hsplit : cs.flatten = cs.dropLast.flatten ++ cs.getLast hne := by
    conv => lhs; rw [← List.dropLast_concat_getLast hne]
    simp
  rw [hsplit, ← List.dropLast_concat_getLast hW, ← List.append_assoc] at hflat
  have hz := List.append_inj_right' hflat (by simp)
  simp only [List.cons.injEq, and_true] at hz
  have hmem : (cs.getLast hne).getLast hW ∈ cs.getLast hne := List.getLast_mem hW
  have := hk'.2 _ hmem
  rw [hz, sp_ascii] at this
  rw [this]; exact hk'

theorem map_eq_append_cons {f : Char → Char} : ∀ {a l : Str} {d : Char} {q : Str}, l.map f = a ++ d :: q →
    ∃ P e Q, l = P ++ e :: Q ∧ P.map f = a ∧ f e = d ∧ Q.map f = q
  | [], l, d, q, h => by
    cases l with
    | nil => simp at h
    | cons e Q =>
      simp only [List.map_cons, List.nil_append, List.cons.injEq] at h
      exact ⟨[], e, Q, rfl, rfl, h.1, h.2⟩
  | x :: a, l, d, q, h => by
    cases l with
    | nil => simp at h
    | cons e l' =>
      simp only [List.map_cons, List.cons_append, List.cons.injEq] at h
      obtain ⟨P, e', Q, h1, h2, h3, h4⟩ := map_eq_append_cons h.2
      exact ⟨e :: P, e', Q, by rw [h1]; rfl, by simp [h.1, h2], h3, h4⟩

/-- the geometric core: the emitted line is cut off before the trailing blanks of the first line -/
theorem cut_aligned {k : Bool} (cs line b2 rest : List Str) (Lf : Str) (q : Nat) (hq : q = 1 ∨ q = 2)
    (halt : AltFrom k cs) (hflat : cs.flatten = Lf ++ List.replicate q ' ')
    (hdec : cs = line ++ (b2 ++ rest)) (hline : line ≠ [])
    (hbl2 : ∀ c ∈ b2, isBlank T c = true)
    (hlast : b2 = [] → ∀ l, line.getLast? = some l → isBlank T l = false) :
    ∃ M, Lf = line.flatten ++ M ∧ ∃ d Q0, M ++ [' '] = d :: Q0 ∧ isWs T d = true := by
  -- the text ends with a space
  have hends : ∃ s0, cs.flatten = s0 ++ [' '] := by
    rcases hq with rfl | rfl
    · exact ⟨Lf, by rw [hflat]; rfl⟩
    · exact ⟨Lf ++ [' '], by rw [hflat]; simp⟩
  obtain ⟨s0, hs0⟩ := hends
  obtain ⟨cs', W, hW, hWhom⟩ := last_chunk_ws halt s0 hs0
  obtain ⟨line', x, hx⟩ : ∃ line' x, line = line' ++ [x] :=
    ⟨line.dropLast, line.getLast hline, (List.dropLast_concat_getLast hline).symm⟩
  -- something is left after the line
  have htail : b2 ++ rest ≠ [] := by
    intro he
    have hb2 : b2 = [] := (List.append_eq_nil_iff.mp he).1
    rw [he, List.append_nil] at hdec
    have h1 : line.getLast? = some x := by rw [hx]; simp
    have h2 := hlast hb2 x h1
    have h3 : cs.getLast? = some W := by rw [hW]; simp
    rw [hdec, h1] at h3
    simp only [Option.some.injEq] at h3
    rw [h3, Hom.blank_of_true hWhom] at h2
    exact absurd h2 (by simp)
  obtain ⟨y, tc, hy⟩ : ∃ y tc, b2 ++ rest = y :: tc := by
    cases h : b2 ++ rest with
    | nil => exact absurd h htail
    | cons y tc => exact ⟨y, tc, rfl⟩
  have hcs : cs = line' ++ x :: y :: tc := by rw [hdec, hy, hx]; simp
  obtain ⟨k', hxk, hyk⟩ := AltFrom.adj (a := line') (hcs ▸ halt)
  -- the chunk after the line starts with whitespace
  have hyhead : ∃ d y', y = d :: y' ∧ isWs T d = true := by
    cases hyc : y with
    | nil => exact absurd hyc hyk.1
    | cons d y' =>
      refine ⟨d, y', rfl, ?_⟩
      cases hb : b2 with
      | nil =>
        have hxnb := hlast hb x (by rw [hx]; simp)
        have hk'f : k' = false := by
          cases k' with
          | false => rfl
          | true => rw [Hom.blank_of_true hxk] at hxnb; exact absurd hxnb (by simp)
        subst hk'f
        have : isAsciiWs d = true := by
          have := hyk.2 d (by rw [hyc]; simp)
          simpa using this
        exact asciiWs_ws d this
      | cons b b2' =>
        rw [hb] at hy
        simp only [List.cons_append, List.cons.injEq] at hy
        have hyb : isBlank T y = true := by rw [← hy.1]; exact hbl2 b (by rw [hb]; simp)
        exact (isBlank_iff y).mp hyb d (by rw [hyc]; simp)
  obtain ⟨d, y', hyd, hdws⟩ := hyhead
  have hflat2 : line.flatten ++ (y :: tc).flatten = Lf ++ List.replicate q ' ' := by
    rw [← hflat, hdec, hy]; simp
  -- what is left is at least as long as the trailing blanks
  have hlen : q ≤ ((y :: tc).flatten).length := by
    rcases hq with rfl | rfl
    · rw [hyd]; simp
    · by_cases hshort : ((y :: tc).flatten).length < 2
      · exfalso
        have hy1 : y' = [] ∧ tc.flatten = [] := by
          rw [hyd] at hshort
          simp only [List.flatten_cons, List.length_append, List.length_cons] at hshort
          constructor
          · apply List.eq_nil_of_length_eq_zero; omega
          · apply List.eq_nil_of_length_eq_zero; omega
        have hfl : (y :: tc).flatten = [d] := by rw [hyd]; simp [hy1.1, hy1.2]
        rw [hfl, hx] at hflat2
        have hxne := hxk.1
        rw [← List.dropLast_concat_getLast hxne] at hflat2
        have e : (line'.flatten ++ x.dropLast) ++ [x.getLast hxne, d] = Lf ++ [' ', ' '] := by
          simpa [List.append_assoc] using hflat2
        have hz := List.append_inj_right' e (by simp)
        simp only [List.cons.injEq, and_true] at hz
        have h1 := hxk.2 _ (List.getLast_mem hxne)
        rw [hz.1, sp_ascii] at h1
        have h2 := hyk.2 d (by rw [hyd]; simp)
        rw [hz.2, sp_ascii, ← h1] at h2
        simp at h2
      · omega
  rcases List.append_eq_append_iff.mp hflat2 with ⟨a', h1, h2⟩ | ⟨c', h1, h2⟩
  · refine ⟨a', h1, ?_⟩
    cases a' with
    | nil => exact ⟨' ', [], rfl, ws_sp⟩
    | cons m M' =>
      refine ⟨m, M' ++ [' '], rfl, ?_⟩
      rw [hyd] at h2
      simp only [List.flatten_cons, List.cons_append, List.cons.injEq] at h2
      rw [← h2.1]; exact hdws
  · have hl := congrArg List.length h2
    simp only [List.length_replicate, List.length_append] at hl
    have hc' : c' = [] := List.eq_nil_of_length_eq_zero (by omega)
    subst hc'
    refine ⟨[], by simpa using h1.symm, ' ', [], rfl, ws_sp⟩

theorem isBlank_cons_false (c : Char) (r : Str) (hc : isWs T c = false) : isBlank T (c :: r) = false := by
  simp [isBlank, hc]

/-- **the first line `textwrap.wrap` emits for the first line of the text** is the image of a prefix `P`
of that line under whitespace munging, and the character after `P` is whitespace -/
theorem first_line (L E : Str) (w : Int) (i0 : Str) (more : List Str)
    (hE : E = ['\n'] ∨ E = ['\n', '\n']) (htab : '\t' ∉ L) (c : Char) (r : Str) (hL : L = c :: r)
    (hc : isWs T c = false) (h : textwrapWrap T (L ++ E) w [] [] = some (i0 :: more)) :
    ∃ P d Q, L ++ ['\n'] = P ++ d :: Q ∧ i0 = P.map mungeChar ∧ isWs T d = true := by
  unfold textwrapWrap at h
  split at h
  · simp at h
  simp only [Option.some.injEq] at h
  have hnotab : '\t' ∉ L ++ E := by
    intro hm
    rcases List.mem_append.mp hm with e | e
    · exact htab e
    · rcases hE with rfl | rfl <;> simp at e
  have hEm : ∃ q, (q = 1 ∨ q = 2) ∧ E.map mungeChar = List.replicate q ' ' := by
    rcases hE with rfl | rfl
    · exact ⟨1, Or.inl rfl, by decide⟩
    · exact ⟨2, Or.inr rfl, by decide⟩
  obtain ⟨q, hq, hEq⟩ := hEm
  have hs : munge (L ++ E) = L.map mungeChar ++ List.replicate q ' ' := by
    rw [munge_eq_map _ hnotab, List.map_append, hEq]
  rw [hs] at h
  generalize hsdef : L.map mungeChar ++ List.replicate q ' ' = s at h
  obtain ⟨k, halt⟩ := chunks_alt s
  have hflat := chunks_flatten s
  cases hcs : chunks s with
  | nil =>
    rw [hcs] at hflat
    rw [← hsdef, hL] at hflat
    simp at hflat
  | cons c0 cs0 =>
    rw [hcs] at h halt hflat
    -- the first chunk starts with the (non-whitespace) first character of the line
    have hc0 : isBlank T c0 = false := by
      have hne := halt.1.1
      cases hc0e : c0 with
      | nil => exact absurd hc0e hne
      | cons y0 c0' =>
        rw [hc0e, ← hsdef, hL] at hflat
        simp only [List.flatten_cons, List.cons_append, List.map_cons, List.cons.injEq] at hflat
        apply isBlank_cons_false
        rw [hflat.1, mungeChar_ws]; exact hc
    obtain ⟨b1, b2, hdec, _, hbl2, hf1, hlastnb, hne⟩ := lineStep_dec w.toNat 0 0 true c0 cs0
    have hb1 : b1 = [] := hf1 rfl
    subst hb1
    have hline := hne rfl hc0
    unfold wrapLoop at h
    simp only [List.length_nil, wrapCur] at h
    have hnotempty : ((lineStep T w.toNat 0 0 true c0 cs0).1.isEmpty) = false := by
      cases hl : (lineStep T w.toNat 0 0 true c0 cs0).1 with
      | nil => exact absurd hl hline
      | cons a as => rfl
    rw [hnotempty] at h
    simp only [Bool.false_eq_true, if_false, renderLines, List.nil_append, List.cons.injEq] at h
    obtain ⟨hi0, _⟩ := h
    have hdec' : c0 :: cs0 = (lineStep T w.toNat 0 0 true c0 cs0).1 ++ (b2 ++ (lineStep T w.toNat 0 0 true c0 cs0).2) := by
      simpa [List.append_assoc] using hdec
    obtain ⟨M, hM, d0, Q0, hdq, hd0⟩ := cut_aligned (c0 :: cs0) _ b2 _ (L.map mungeChar) q hq halt
      (by rw [hflat, hsdef]) hdec' hline hbl2 hlastnb
    have hmap : (L ++ ['\n']).map mungeChar = i0 ++ d0 :: Q0 := by
      rw [List.map_append, hM, ← hi0, List.append_assoc]
      have : ['\n'].map mungeChar = [' '] := by decide
      rw [this, hdq]
    obtain ⟨P, e, Q, h1, h2, h3, _⟩ := map_eq_append_cons hmap
    refine ⟨P, e, Q, h1, h2.symm, ?_⟩
    rw [← mungeChar_ws, h3]; exact hd0

/-! ### the tail of `wrap`: tokens, filling, joining -/

theorem tokenize_flatten (width : Int) : ∀ (lines : List Str) (token : Str),
    (tokenize T width lines token).flatten = token ++ (lines.map (· ++ ['\n'])).flatten := by
  intro lines
  induction lines with
  | nil =>
    intro token
    simp only [tokenize]
    split <;> simp_all
  | cons line rest ih =>
    intro token
    by_cases hc1 : ((isListItem T (strip T line) || line.isEmpty) && decide (token ≠ [])) = true
    · by_cases hc2 : (4 * (line.length : Int) < 3 * width ∨ line.getLast? = some ':')
      · simp only [tokenize, hc1, hc2, if_true, List.nil_append]
        simp [ih]
      · simp only [tokenize, hc1, hc2, if_true, if_false, List.nil_append]
        simp [ih]
    · by_cases hc2 : (4 * (line.length : Int) < 3 * width ∨ line.getLast? = some ':')
      · simp only [tokenize, hc1, hc2, if_true]
        simp [ih]
      · simp only [tokenize, hc1, hc2, if_false]
        simp [ih]

theorem getLast?_snoc_nl (a : Str) : (a ++ ['\n']).getLast? = some '\n' := by simp

theorem tokenize_last (width : Int) : ∀ (lines : List Str) (token : Str),
    (token = [] ∨ token.getLast? = some '\n') → ∀ tk ∈ tokenize T width lines token, tk.getLast? = some '\n' := by
  intro lines
  induction lines with
  | nil =>
    intro token htok tk hmem
    simp only [tokenize] at hmem
    split at hmem
    · simp at hmem
    · rename_i hne
      simp only [List.mem_singleton] at hmem
      subst hmem
      rcases htok with h | h
      · exact absurd h hne
      · exact h
  | cons line rest ih =>
    intro token htok tk hmem
    by_cases hc1 : ((isListItem T (strip T line) || line.isEmpty) && decide (token ≠ [])) = true
    · have htne : token ≠ [] := by
        simp only [Bool.and_eq_true, decide_eq_true_eq] at hc1; exact hc1.2
      have htl : token.getLast? = some '\n' := by
        rcases htok with h | h
        · exact absurd h htne
        · exact h
      by_cases hc2 : (4 * (line.length : Int) < 3 * width ∨ line.getLast? = some ':')
      · simp only [tokenize, hc1, hc2, if_true, List.nil_append] at hmem
        simp only [List.singleton_append, List.mem_cons] at hmem
        rcases hmem with e | e | e
        · subst e; exact htl
        · subst e; exact getLast?_snoc_nl _
        · exact ih [] (Or.inl rfl) tk e
      · simp only [tokenize, hc1, hc2, if_true, if_false, List.nil_append] at hmem
        simp only [List.singleton_append, List.mem_cons] at hmem
        rcases hmem with e | e
        · subst e; exact htl
        · exact ih (line ++ ['\n']) (Or.inr (getLast?_snoc_nl _)) tk e
    · by_cases hc2 : (4 * (line.length : Int) < 3 * width ∨ line.getLast? = some ':')
      · simp only [tokenize, hc1, hc2, if_true] at hmem
        simp only [Bool.false_eq_true, if_false, List.nil_append, List.mem_cons] at hmem
        rcases hmem with e | e
        · subst e; exact getLast?_snoc_nl _
        · exact ih [] (Or.inl rfl) tk e
      · simp only [tokenize, hc1, hc2, if_false] at hmem
        simp only [Bool.false_eq_true, if_false, List.nil_append] at hmem
        exact ih (token ++ line ++ ['\n']) (Or.inr (getLast?_snoc_nl _)) tk hmem

theorem words_flatten_sep : ∀ (tks : List Str), (∀ tk ∈ tks, tk.getLast? = some '\n') →
    words T tks.flatten = (tks.map (words T)).flatten
  | [], _ => by simp [words_nil]
  | tk :: tks, h => by
    have ih := words_flatten_sep tks (fun x hx => h x (by simp [hx]))
    rw [List.flatten_cons, List.map_cons, List.flatten_cons, ← ih]
    exact words_append_of_last_ws T tk _ '\n' (h tk (by simp)) ws_nl

theorem lines_join : ∀ (lines : List Str), lines ≠ [] →
    (lines.map (· ++ ['\n'])).flatten = joinWith ['\n'] lines ++ ['\n']
  | [], h => absurd rfl h
  | [a], _ => by simp [joinWith]
  | a :: b :: r, _ => by
    have ih := lines_join (b :: r) (by simp)
    simp only [List.map_cons, List.flatten_cons, joinWith] at ih ⊢
    rw [ih]; simp [List.append_assoc]

theorem mapM_words (f : Str → Option Str) (hf : ∀ tk o, f tk = some o → words T o = words T tk) :
    ∀ (tokens fs : List Str), tokens.mapM f = some fs → (fs.map (words T)).flatten = (tokens.map (words T)).flatten := by
  intro tokens
  induction tokens with
  | nil => intro fs h; simp at h; subst h; rfl
  | cons tk tks ih =>
    intro fs h
    rw [List.mapM_cons] at h
    cases hfa : f tk with
    | none => rw [hfa] at h; simp at h
    | some o =>
      cases hrest : tks.mapM f with
      | none => rw [hfa, hrest] at h; simp at h
      | some os =>
        rw [hfa, hrest] at h
        simp at h
        subst h
        simp only [List.map_cons, List.flatten_cons, hf tk o hfa, ih os hrest]

/-- the second part of `wrap` keeps the words of what is left after the first line -/
theorem wrapTail_words (first text : Str) (width : Int) (indent : Nat) (out : Str) (f : Str) (hf : first = f ++ ['\n'])
    (h : wrapTail T first text width indent = some out) :
    words T out = words T first ++ words T ((colonSub text).drop first.length) := by
  unfold wrapTail at h
  rw [pySub_colon] at h
  simp only at h
  generalize (colonSub text).drop first.length = t4 at h ⊢
  split at h
  · rename_i h4
    simp only [Option.some.injEq] at h
    subst h; subst h4
    rw [strip_words, words_nil]; simp
  · split at h
    · simp at h
    · rename_i fs hfs
      simp only [Option.some.injEq] at h
      subst h
      have hlast : first.getLast? = some '\n' := by rw [hf]; simp
      rw [rstripChar_nl_words, words_append_of_last_ws T first _ '\n' hlast ws_nl, words_joinWith_nl]
      congr 1
      generalize hnl : (if t4.head? = some '\n' then ['\n'] else ([] : Str)) = newLine at hfs
      have hnlb : Blank T newLine := by
        rw [← hnl]; split
        · exact blank_cons ws_nl (blank_nil T)
        · exact blank_nil T
      have hfill : ∀ tk o, textwrapFill T tk width (List.replicate indent ' ')
          (List.replicate indent ' ' ++ List.replicate (subsequentLevel T (strip T tk)) ' ') = some o →
          words T o = words T tk := by
        intro tk o ho
        exact fill_words tk width _ _ (blank_replicate ' ' ws_sp _)
          (blank_append (blank_replicate ' ' ws_sp _) (blank_replicate ' ' ws_sp _)) o ho
      rw [mapM_words _ hfill _ fs hfs,
        ← words_flatten_sep _ (tokenize_last width _ [] (Or.inl rfl)),
        tokenize_flatten, List.nil_append, lines_join _ (splitOn_ne_nil '\n' _), join_splitOn,
        words_snoc_ws T _ '\n' ws_nl, words_blank_append T newLine hnlb, strip_words]

/-! ### the first part of `wrap` -/

theorem replaceFirst_no_nl : ∀ (L : Str), '\n' ∉ L → replaceFirst '\n' [' '] L = L
  | [], _ => rfl
  | c :: L, h => by
    have hc : c ≠ '\n' := fun e => h (by simp [e])
    simp only [replaceFirst, hc, if_false]
    rw [replaceFirst_no_nl L (fun e => h (by simp [e]))]

theorem endsWith_colon (L : Str) : endsWith (L ++ ['\n']) [':', '\n'] = true ↔ L.getLast? = some ':' := by
  have h1 : endsWith (L ++ ['\n']) [':', '\n'] = List.isPrefixOf ['\n', ':'] ('\n' :: L.reverse) := by
    simp [endsWith, List.isSuffixOf]
  rw [h1, List.getLast?_eq_head?_reverse]
  cases L.reverse with
  | nil => simp [List.isPrefixOf]
  | cons x xs =>
    simp only [List.isPrefixOf, List.head?_cons, Option.some.injEq, Bool.and_true, beq_self_eq_true, Bool.true_and,
      beq_iff_eq]
    exact ⟨fun h => h.symm, fun h => h.symm⟩

theorem snoc_eq_append_cons {n d : Char} : ∀ {P L Q : Str}, L ++ [n] = P ++ d :: Q →
    (Q = [] ∧ P = L ∧ d = n) ∨ ∃ Q', Q = Q' ++ [n] ∧ L = P ++ d :: Q'
  | [], L, Q, h => by
    cases L with
    | nil =>
      simp only [List.nil_append, List.cons.injEq] at h
      exact Or.inl ⟨h.2.symm, rfl, h.1.symm⟩
    | cons x L' =>
      simp only [List.cons_append, List.nil_append, List.cons.injEq] at h
      exact Or.inr ⟨L', h.2.symm, by rw [h.1]; rfl⟩
  | p :: P, L, Q, h => by
    cases L with
    | nil =>
      simp only [List.nil_append, List.cons_append, List.cons.injEq] at h
      have := congrArg List.length h.2
      simp at this
    | cons x L' =>
      simp only [List.cons_append, List.cons.injEq] at h
      rcases snoc_eq_append_cons h.2 with ⟨h1, h2, h3⟩ | ⟨Q', h1, h2⟩
      · exact Or.inl ⟨h1, by rw [h.1, h2], h3⟩
      · exact Or.inr ⟨Q', h1, by rw [h.1, h2]; rfl⟩

theorem drop_append_three (L0 : Str) (a b c : Char) (rest : Str) :
    (L0 ++ a :: b :: c :: rest).drop (L0.length + 3) = rest := by
  have : L0 ++ a :: b :: c :: rest = (L0 ++ [a, b, c]) ++ rest := by simp
  rw [this, List.drop_left' (by simp)]

/-- the colon case of the short branch: `first` is `L ++ "\n\n"` with `L` ending in `:` -/
theorem colonSub_cut2 (L0 R : Str) (hnl : '\n' ∉ L0) :
    words T ((colonSub (L0 ++ ':' :: '\n' :: R)).drop (L0.length + 3)) = words T R := by
  rw [colonSub_prefix_head L0 _ hnl (by simp)]
  cases R with
  | nil =>
    rw [colonSub_miss ':' _ (colonHit_short2 ':' '\n'), colonSub_miss '\n' _ (colonHit_short1 '\n'), colonSub_nil,
      List.drop_of_length_le (by simp)]
  | cons x R2 =>
    by_cases hx : x = '\n'
    · subst hx
      rw [colonSub_miss ':' _ (colonHit_nlnl ':' R2), colonSub_miss '\n' _ (colonHit_head_ne '\n' _ (by decide)),
        colonSub_miss '\n' _ (colonHit_head_ne '\n' _ (by decide)), drop_append_three,
        words_cons_ws T '\n' ws_nl]
      exact (colonSub_eqv R2).words
    · rw [colonSub_hit x R2 hx, drop_append_three]
      exact (Eqv.cons x (colonSub_eqv R2)).words

theorem not_mem_of_append_left {P Q : Str} {c : Char} (h : c ∉ P ++ Q) : c ∉ P := fun e => h (by simp [e])

/-- common end of the two long-branch cases: the wrapped first line `i0` is the munged prefix `P` -/
theorem long_finish (text2 L P : Str) (d : Char) (Q i0 first text' : Str) (hnl : '\n' ∉ L)
    (hshape : text2 = L ∨ ∃ R, text2 = L ++ '\n' :: R)
    (hPdQ : L ++ ['\n'] = P ++ d :: Q) (hi0 : i0 = P.map mungeChar) (hd : isWs T d = true)
    (hfirst : first = i0 ++ ['\n'])
    (htext' : text' = text2 ∨ text' = replaceFirst '\n' [' '] text2) :
    (∃ f, first = f ++ ['\n']) ∧
      words T first ++ words T ((colonSub text').drop first.length) = words T text2 := by
  refine ⟨⟨i0, hfirst⟩, ?_⟩
  have hwt : words T text' = words T text2 := by
    rcases htext' with e | e
    · rw [e]
    · rw [e]; exact (replaceFirst_eqv text2).words
  have hwf : words T first = words T P := by
    rw [hfirst, words_snoc_ws T _ '\n' ws_nl, hi0]; exact (map_mungeChar_eqv P).words
  have hlen : first.length = P.length + 1 := by rw [hfirst, hi0]; simp
  -- the text the first line is cut from is `L ++ tail` with `tail` empty or starting with whitespace
  have htail : ∃ tl, text' = L ++ tl ∧ (tl = [] ∨ ∃ e R, tl = e :: R ∧ isWs T e = true) := by
    rcases hshape with e | ⟨R, e⟩
    · refine ⟨[], ?_, Or.inl rfl⟩
      rcases htext' with e' | e'
      · rw [e', e]; simp
      · rw [e', e, replaceFirst_no_nl L hnl]; simp
    · rcases htext' with e' | e'
      · exact ⟨'\n' :: R, by rw [e', e], Or.inr ⟨'\n', R, rfl, ws_nl⟩⟩
      · exact ⟨' ' :: R, by rw [e', e, replaceFirst_split L R hnl], Or.inr ⟨' ', R, rfl, ws_sp⟩⟩
  obtain ⟨tl, htl, htlX⟩ := htail
  have hPX : ∃ X, text' = P ++ X ∧ '\n' ∉ P ∧ (X = [] ∨ ∃ e R, X = e :: R ∧ isWs T e = true) := by
    rcases snoc_eq_append_cons hPdQ with ⟨_, hPL, _⟩ | ⟨Q', _, hL⟩
    · exact ⟨tl, by rw [htl, hPL], by rw [hPL]; exact hnl, htlX⟩
    · refine ⟨d :: (Q' ++ tl), by rw [htl, hL]; simp, ?_, Or.inr ⟨d, Q' ++ tl, rfl, hd⟩⟩
      rw [hL] at hnl; exact not_mem_of_append_left hnl
  obtain ⟨X, hX, hnlP, hXform⟩ := hPX
  rw [hwf, hlen, ← hwt, hX]
  exact cut_words P X hnlP hXform

/-- **the first part of `wrap`** hands over a first line ending in a line break and a text such that cutting
the text after the first line (once the colon rule has run) loses no word -/
theorem wrapStage_words (text2 : Str) (width offset : Int) (first text' : Str) (c : Char) (r : Str)
    (h2 : text2 = c :: r) (hc : isWs T c = false) (htab : '\t' ∉ text2)
    (h : wrapStage T text2 width offset = some (first, text')) :
    (∃ f, first = f ++ ['\n']) ∧
      words T first ++ words T ((colonSub text').drop first.length) = words T text2 := by
  obtain ⟨L, hLhead, hnl, hcase⟩ := splitOn_head text2
  have hcnl : c ≠ '\n' := by intro e; subst e; rw [ws_nl] at hc; simp at hc
  -- the first line starts with the first character of the text
  have hLc : ∃ r', L = c :: r' := by
    rcases hcase with ⟨e, _⟩ | ⟨R, e, _⟩
    · exact ⟨r, by rw [← e, h2]⟩
    · cases L with
      | nil => rw [h2] at e; simp only [List.nil_append, List.cons.injEq] at e; exact absurd e.1 hcnl
      | cons x L' => rw [h2] at e; simp only [List.cons_append, List.cons.injEq] at e; exact ⟨L', by rw [e.1]⟩
  obtain ⟨r', hLr⟩ := hLc
  have htabL : '\t' ∉ L := by
    rcases hcase with ⟨e, _⟩ | ⟨R, e, _⟩
    · rw [← e]; exact htab
    · rw [e] at htab; exact not_mem_of_append_left htab
  unfold wrapStage at h
  rw [hLhead] at h
  -- the two shapes of the text
  have hshape : text2 = L ∨ ∃ R, text2 = L ++ '\n' :: R := by
    rcases hcase with ⟨e, _⟩ | ⟨R, e, _⟩
    · exact Or.inl e
    · exact Or.inr ⟨R, e⟩
  by_cases hcol : L.getLast? = some ':'
  · -- the first line ends with a colon: `first1 = L ++ "\n\n"`
    have hE : endsWith (L ++ ['\n']) [':', '\n'] = true := (endsWith_colon L).mpr hcol
    simp only [hE, if_true] at h
    split at h
    · -- long branch
      split at h
      · simp at h
      · rename_i initial hinit
        split at h
        · simp at h
        · rename_i i0 more
          simp only [Option.some.injEq, Prod.mk.injEq] at h
          obtain ⟨hfirst, htext'⟩ := h
          have hinit' : textwrapWrap T (L ++ ['\n', '\n']) (width - offset) [] [] = some (i0 :: more) := by
            simpa [List.append_assoc] using hinit
          obtain ⟨P, d, Q, hPdQ, hi0, hd⟩ := first_line L ['\n', '\n'] (width - offset) i0 more (Or.inr rfl) htabL c r' hLr hc hinit'
          exact long_finish text2 L P d Q i0 first text' hnl hshape hPdQ hi0 hd hfirst.symm (by
            rw [← htext']
            split
            · split
              · exact Or.inr rfl
              · exact Or.inl rfl
            · exact Or.inl rfl)
    · -- short branch with the doubled line break
      simp only [Option.some.injEq, Prod.mk.injEq] at h
      obtain ⟨hfirst, htext'⟩ := h
      subst hfirst; subst htext'
      refine ⟨⟨L ++ ['\n'], by simp⟩, ?_⟩
      obtain ⟨L0, hL0⟩ := Textwrap.exists_concat_of_getLast L ':' hcol
      have hwf : words T (L ++ ['\n'] ++ ['\n']) = words T L := by
        rw [words_snoc_ws T _ '\n' ws_nl, words_snoc_ws T _ '\n' ws_nl]
      rw [hwf]
      rcases hshape with e | ⟨R, e⟩
      · rw [e, colonSub_no_nl L hnl, List.drop_of_length_le (by simp), words_nil]; simp
      · have hnl0 : '\n' ∉ L0 := by rw [hL0] at hnl; exact not_mem_of_append_left hnl
        have hlen : (L ++ ['\n'] ++ ['\n']).length = L0.length + 3 := by rw [hL0]; simp
        have e' : text2 = L0 ++ ':' :: '\n' :: R := by rw [e, hL0]; simp
        rw [hlen]
        conv => lhs; rw [e', colonSub_cut2 L0 R hnl0]
        rw [e, words_append_ws T L '\n' ws_nl]
  · -- no colon at the end of the first line: `first1 = L ++ "\n"`
    have hE : endsWith (L ++ ['\n']) [':', '\n'] = false := by
      cases hh : endsWith (L ++ ['\n']) [':', '\n'] with
      | false => rfl
      | true => exact absurd ((endsWith_colon L).mp hh) hcol
    simp only [hE, Bool.false_eq_true, if_false] at h
    split at h
    · split at h
      · simp at h
      · rename_i initial hinit
        split at h
        · simp at h
        · rename_i i0 more
          simp only [Option.some.injEq, Prod.mk.injEq] at h
          obtain ⟨hfirst, htext'⟩ := h
          obtain ⟨P, d, Q, hPdQ, hi0, hd⟩ := first_line L ['\n'] (width - offset) i0 more (Or.inl rfl) htabL c r' hLr hc hinit
          exact long_finish text2 L P d Q i0 first text' hnl hshape hPdQ hi0 hd hfirst.symm (by
            rw [← htext']
            split
            · split
              · exact Or.inr rfl
              · exact Or.inl rfl
            · exact Or.inl rfl)
    · simp only [Option.some.injEq, Prod.mk.injEq] at h
      obtain ⟨hfirst, htext'⟩ := h
      subst hfirst; subst htext'
      refine ⟨⟨L, rfl⟩, ?_⟩
      have hX : text2 = L ++ [] ∨ ∃ e R, text2 = L ++ e :: R ∧ isWs T e = true := by
        rcases hshape with e | ⟨R, e⟩
        · exact Or.inl (by simpa using e)
        · exact Or.inr ⟨'\n', R, e, ws_nl⟩
      rw [words_snoc_ws T L '\n' ws_nl, List.length_append, List.length_singleton]
      rcases hX with e | ⟨e, R, he, hws⟩
      · rw [e]; exact cut_words L [] hnl (Or.inl rfl)
      · rw [he]; exact cut_words L (e :: R) hnl (Or.inr ⟨e, R, rfl, hws⟩)

/-! ### assembly -/

theorem replace2_head (c : Char) (r : Str) (hc : c ≠ '\n') : ∃ r', replace2 '\n' ' ' ['\n'] (c :: r) = c :: r' := by
  cases r with
  | nil => exact ⟨[], by simp [replace2]⟩
  | cons d r =>
    simp only [replace2]
    split
    · rename_i h; exact absurd h.1 hc
    · exact ⟨_, rfl⟩

/-- the text handed to the first part of `wrap`: starts with a non-whitespace character, has no tab, same words -/
theorem prepared (text : Str) (c : Char) (r : Str) (h0 : lstrip T text = c :: r) :
    ∃ r2, expandTabs (replace2 '\n' ' ' ['\n'] (lstrip T text)) 0 = c :: r2 ∧ isWs T c = false ∧
      words T (expandTabs (replace2 '\n' ' ' ['\n'] (lstrip T text)) 0) = words T text := by
  have hc : isWs T c = false := lstrip_head text c r h0
  have hcnl : c ≠ '\n' := by intro e; subst e; rw [ws_nl] at hc; simp at hc
  rw [h0]
  obtain ⟨r1, hr1⟩ := replace2_head c r hcnl
  rw [hr1]
  obtain ⟨r2, hr2⟩ := expandTabs_head c r1 0 hc
  refine ⟨r2, hr2, hc, ?_⟩
  rw [(expandTabs_eqv (c :: r1) 0).words, ← hr1, (replace2_eqv (c :: r)).words, ← h0, lstrip_words]

/-- **`wrap` keeps the words of the text** (model of `gapic.utils.lines.wrap`, every text, width, offset, indent) -/
theorem wrap_words (text : Str) (width : Int) (offset : Option Int) (indent : Nat) (out : Str)
    (h : wrap T text width offset indent = some out) : words T out = words T text := by
  unfold wrap at h
  simp only at h
  split at h
  · rename_i h0
    simp only [Option.some.injEq] at h
    subst h
    rw [← lstrip_words text, h0]
  · rename_i h0
    obtain ⟨c, r, hcr⟩ : ∃ c r, lstrip T text = c :: r := by
      cases hl : lstrip T text with
      | nil => exact absurd hl h0
      | cons c r => exact ⟨c, r, rfl⟩
    obtain ⟨r2, h2, hc, hw⟩ := prepared text c r hcr
    split at h
    · simp at h
    · rename_i first text' hstage
      obtain ⟨⟨f, hf⟩, hsw⟩ := wrapStage_words _ width (offset.getD indent) first text' c r2 h2 hc
        (expandTabs_no_tab _ 0) hstage
      rw [wrapTail_words first text' width indent out f hf h, hsw, hw]

/-! ### `wrap` raises only for an invalid width -/

theorem first_line_exists (L E : Str) (w : Int) (hw : 0 < w)
    (hE : E = ['\n'] ∨ E = ['\n', '\n']) (htab : '\t' ∉ L) (c : Char) (r : Str) (hL : L = c :: r)
    (hc : isWs T c = false) : ∃ i0 more, textwrapWrap T (L ++ E) w [] [] = some (i0 :: more) := by
  unfold textwrapWrap
  rw [if_neg (by omega)]
  have hnotab : '\t' ∉ L ++ E := by
    intro hm
    rcases List.mem_append.mp hm with e | e
    · exact htab e
    · rcases hE with rfl | rfl <;> simp at e
  rw [munge_eq_map _ hnotab]
  generalize hsdef : (L ++ E).map mungeChar = s
  obtain ⟨k, halt⟩ := chunks_alt s
  have hflat := chunks_flatten s
  cases hcs : chunks s with
  | nil =>
    rw [hcs] at hflat
    rw [← hsdef, hL] at hflat
    simp at hflat
  | cons c0 cs0 =>
    rw [hcs] at halt hflat
    have hc0 : isBlank T c0 = false := by
      have hne := halt.1.1
      cases hc0e : c0 with
      | nil => exact absurd hc0e hne
      | cons y0 c0' =>
        rw [hc0e, ← hsdef, hL] at hflat
        simp only [List.flatten_cons, List.cons_append, List.map_cons, List.cons.injEq] at hflat
        apply isBlank_cons_false
        rw [hflat.1, mungeChar_ws]; exact hc
    obtain ⟨b1, b2, _, _, _, hf1, _, hne⟩ := lineStep_dec w.toNat 0 0 true c0 cs0
    have hline := hne (hf1 rfl) hc0
    unfold wrapLoop
    simp only [List.length_nil, wrapCur]
    have hnotempty : ((lineStep T w.toNat 0 0 true c0 cs0).1.isEmpty) = false := by
      cases hl : (lineStep T w.toNat 0 0 true c0 cs0).1 with
      | nil => exact absurd hl hline
      | cons a as => rfl
    rw [hnotempty]
    simp only [Bool.false_eq_true, if_false, renderLines]
    exact ⟨_, _, rfl⟩

theorem mapM_isSome (f : Str → Option Str) (hf : ∀ tk, (f tk).isSome = true) :
    ∀ (tokens : List Str), (tokens.mapM f).isSome = true := by
  intro tokens
  induction tokens with
  | nil => simp
  | cons tk tks ih =>
    rw [List.mapM_cons]
    cases hfa : f tk with
    | none => have := hf tk; rw [hfa] at this; simp at this
    | some o =>
      cases hrest : tks.mapM f with
      | none => rw [hrest] at ih; simp at ih
      | some os => simp

theorem wrapTail_isSome (first text : Str) (width : Int) (indent : Nat) (hw : 0 < width) :
    (wrapTail T first text width indent).isSome = true := by
  unfold wrapTail
  simp only
  split
  · rfl
  · generalize tokenize T width _ [] = tokens
    have hm := mapM_isSome (fun token => textwrapFill T token width (List.replicate indent ' ')
        (List.replicate indent ' ' ++ List.replicate (subsequentLevel T (strip T token)) ' '))
      (by intro tk; simp [textwrapFill, textwrapWrap, show ¬ width ≤ 0 by omega]) tokens
    cases hh : List.mapM (fun token => textwrapFill T token width (List.replicate indent ' ')
        (List.replicate indent ' ' ++ List.replicate (subsequentLevel T (strip T token)) ' ')) tokens with
    | none => rw [hh] at hm; simp at hm
    | some fs => rfl

/-- **`wrap` raises nothing when `0 < width` and `offset < width`** (the property's own bounds): the
IndexError on a blank first line (before fix be75097) cannot happen any more -/
theorem wrap_isSome (text : Str) (width : Int) (offset : Option Int) (indent : Nat)
    (hw : 0 < width) (ho : offset.getD indent < width) : (wrap T text width offset indent).isSome = true := by
  unfold wrap
  simp only
  split
  · rfl
  · rename_i h0
    obtain ⟨c, r, hcr⟩ : ∃ c r, lstrip T text = c :: r := by
      cases hl : lstrip T text with
      | nil => exact absurd hl h0
      | cons c r => exact ⟨c, r, rfl⟩
    obtain ⟨r2, h2, hc, _⟩ := prepared text c r hcr
    have htab := expandTabs_no_tab (replace2 '\n' ' ' ['\n'] (lstrip T text)) 0
    generalize expandTabs (replace2 '\n' ' ' ['\n'] (lstrip T text)) 0 = text2 at h2 htab ⊢
    have hstage : ∃ p, wrapStage T text2 width (offset.getD indent) = some p := by
      obtain ⟨L, hLhead, hnl, hcase⟩ := splitOn_head text2
      have hcnl : c ≠ '\n' := by intro e; subst e; rw [ws_nl] at hc; simp at hc
      have hLc : ∃ r', L = c :: r' := by
        rcases hcase with ⟨e, _⟩ | ⟨R, e, _⟩
        · exact ⟨r2, by rw [← e, h2]⟩
        · cases L with
          | nil => rw [h2] at e; simp only [List.nil_append, List.cons.injEq] at e; exact absurd e.1 hcnl
          | cons x L' => rw [h2] at e; simp only [List.cons_append, List.cons.injEq] at e; exact ⟨L', by rw [e.1]⟩
      obtain ⟨r', hLr⟩ := hLc
      have htabL : '\t' ∉ L := by
        rcases hcase with ⟨e, _⟩ | ⟨R, e, _⟩
        · rw [← e]; exact htab
        · rw [e] at htab; exact not_mem_of_append_left htab
      unfold wrapStage
      rw [hLhead]
      simp only
      have hfl : ∀ E, (E = ['\n'] ∨ E = ['\n', '\n']) →
          ∃ i0 more, textwrapWrap T (L ++ E) (width - offset.getD indent) [] [] = some (i0 :: more) :=
        fun E hE => first_line_exists L E _ (by omega) hE htabL c r' hLr hc
      split
      · -- colon
        split
        · obtain ⟨i0, more, hi⟩ := hfl ['\n', '\n'] (Or.inr rfl)
          have hi' : textwrapWrap T (L ++ ['\n'] ++ ['\n']) (width - offset.getD indent) [] [] = some (i0 :: more) := by
            simpa [List.append_assoc] using hi
          rw [hi']
          exact ⟨_, rfl⟩
        · exact ⟨_, rfl⟩
      · split
        · obtain ⟨i0, more, hi⟩ := hfl ['\n'] (Or.inl rfl)
          rw [hi]
          exact ⟨_, rfl⟩
        · exact ⟨_, rfl⟩
    obtain ⟨⟨first, text'⟩, hp⟩ := hstage
    rw [hp]
    exact wrapTail_isSome first text' width indent hw

end GapicModel.Lemmas.WrapWhole
