import GapicModel.Lemmas.WrapWhole
/-
C20 — the width bound of `gapic.utils.lines.wrap` as a whole, at string level: every line of the result fits
the requested width (the first line: width − offset) or is one unbreakable word behind its indent.
No Mathlib.
-/
namespace GapicModel.Lemmas.WrapWidth
open GapicModel.Regex GapicModel.Model.Wrap GapicModel.Lemmas.Words GapicModel.Lemmas.WrapWords
open GapicModel.Lemmas.TextwrapWords GapicModel.Lemmas.WrapColon GapicModel.Lemmas.WrapWhole
open GapicModel.Lemmas.Textwrap (lenSum)

/-- a line that consists of one unbreakable word (no ASCII whitespace) behind an indent of spaces -/
def OneChunk (l : Str) : Prop :=
  ∃ ind w, l = ind ++ w ∧ (∀ c ∈ ind, c = ' ') ∧ (∀ c ∈ w, isAsciiWs c = false)

/-- the line fits `limit` columns, or is a single unbreakable word -/
def LineOK (limit : Nat) (l : Str) : Prop := l.length ≤ limit ∨ OneChunk l

theorem LineOK.mono {a b : Nat} {l : Str} (h : LineOK a l) (hab : a ≤ b) : LineOK b l := by
  rcases h with h | h
  · exact Or.inl (Nat.le_trans h hab)
  · exact Or.inr h

theorem LineOK.nil (n : Nat) : LineOK n [] := Or.inl (Nat.zero_le _)

/-! ### lines of a text (`str.split("\n")`) -/

abbrev Lines (s : Str) : List Str := splitOn '\n' s

theorem splitOn_cons_sep (sep : Char) (cs : Str) : splitOn sep (sep :: cs) = [] :: splitOn sep cs := by
  simp only [splitOn]
  split
  · rename_i h; exact absurd h (splitOn_ne_nil sep cs)
  · rename_i h tl heq; simp [heq]

theorem splitOn_cons_ne (sep c : Char) (cs : Str) (hc : c ≠ sep) :
    splitOn sep (c :: cs) = (c :: (splitOn sep cs).headD []) :: (splitOn sep cs).tail := by
  simp only [splitOn]
  split
  · rename_i h; exact absurd h (splitOn_ne_nil sep cs)
  · rename_i h tl heq; simp [heq, hc]

theorem splitOn_append_sep (sep : Char) : ∀ (a b : Str), splitOn sep (a ++ sep :: b) = splitOn sep a ++ splitOn sep b
  | [], b => by rw [List.nil_append, splitOn_cons_sep]; simp [splitOn]
  | c :: a, b => by
    have ih := splitOn_append_sep sep a b
    by_cases hc : c = sep
    · subst hc
      rw [List.cons_append, splitOn_cons_sep, splitOn_cons_sep, ih]; rfl
    · rw [List.cons_append, splitOn_cons_ne sep c _ hc, splitOn_cons_ne sep c a hc, ih]
      cases h : splitOn sep a with
      | nil => exact absurd h (splitOn_ne_nil sep a)
      | cons x xs => simp

theorem splitOn_no_sep (sep : Char) : ∀ (a : Str), sep ∉ a → splitOn sep a = [a]
  | [], _ => by simp [splitOn]
  | c :: a, h => by
    have hc : c ≠ sep := fun e => h (by simp [e])
    rw [splitOn_cons_ne sep c a hc, splitOn_no_sep sep a (fun e => h (by simp [e]))]; rfl

theorem lines_join_mem : ∀ (xs : List Str) (l : Str), l ∈ Lines (joinWith ['\n'] xs) →
    l = [] ∨ ∃ x ∈ xs, l ∈ Lines x
  | [], l, h => by simp [joinWith, Lines, splitOn] at h; exact Or.inl h
  | [a], l, h => by simp only [joinWith] at h; exact Or.inr ⟨a, by simp, h⟩
  | a :: b :: r, l, h => by
    simp only [joinWith, List.append_assoc, List.singleton_append, Lines] at h
    rw [splitOn_append_sep] at h
    rcases List.mem_append.mp h with h | h
    · exact Or.inr ⟨a, by simp, h⟩
    · rcases lines_join_mem (b :: r) l h with e | ⟨x, hx, hl⟩
      · exact Or.inl e
      · exact Or.inr ⟨x, by simp [hx], hl⟩

theorem lines_replicate_nl (k : Nat) : ∀ l ∈ Lines (List.replicate k '\n'), l = [] := by
  induction k with
  | zero => intro l h; simpa [Lines, splitOn] using h
  | succ k ih =>
    intro l h
    rw [List.replicate_succ, Lines, splitOn_cons_sep] at h
    rcases List.mem_cons.mp h with e | e
    · exact e
    · exact ih l e

/-- lines of `s.rstrip("\n")` are lines of `s`, and the first line is the same -/
theorem lines_rstripChar (s : Str) :
    (∀ l ∈ Lines (rstripChar '\n' s), l ∈ Lines s) ∧ (Lines (rstripChar '\n' s)).head? = (Lines s).head? := by
  have h := List.takeWhile_append_dropWhile (p := (· == '\n')) (l := s.reverse)
  have hs : s = rstripChar '\n' s ++ (s.reverse.takeWhile (· == '\n')).reverse := by
    have := congrArg List.reverse h
    simp only [List.reverse_append, List.reverse_reverse] at this
    exact this.symm
  have hrep : ∃ k, (s.reverse.takeWhile (· == '\n')).reverse = List.replicate k '\n' := by
    refine ⟨(s.reverse.takeWhile (· == '\n')).length, ?_⟩
    apply List.eq_replicate_iff.mpr
    refine ⟨by simp, ?_⟩
    intro c hc
    have := mem_takeWhile_imp (List.mem_reverse.mp hc)
    simpa using this
  obtain ⟨k, hk⟩ := hrep
  rw [hk] at hs
  generalize rstripChar '\n' s = r at hs ⊢
  cases k with
  | zero => simp at hs; subst hs; exact ⟨fun _ h => h, rfl⟩
  | succ k =>
    rw [List.replicate_succ] at hs
    subst hs
    rw [Lines, Lines, splitOn_append_sep]
    constructor
    · intro l hl; exact List.mem_append_left _ hl
    · cases h : splitOn '\n' r with
      | nil => exact absurd h (splitOn_ne_nil '\n' r)
      | cons x xs => simp

/-! ### lines produced by `textwrap.fill` -/

theorem length_flatten_eq_lenSum (l : List Str) : l.flatten.length = lenSum l := by
  induction l with
  | nil => rfl
  | cons a l ih => simp [lenSum, List.length_append] at ih ⊢ <;> omega

theorem munge_no_nl (s : Str) : '\n' ∉ munge s := by
  unfold munge
  intro h
  obtain ⟨c, _, hc⟩ := List.mem_map.mp h
  by_cases hw : isAsciiWs c = true
  · simp [hw] at hc
  · simp only [hw] at hc
    subst hc
    exact hw (by decide)

theorem wrapCur_nonempty (width iiLen siLen : Nat) :
    ∀ (fuel : Nat) (first : Bool) (cs : List Str), ∀ l ∈ wrapCur T width iiLen siLen fuel first cs, l ≠ [] := by
  intro fuel
  induction fuel with
  | zero => intro first cs l hl; simp [wrapCur] at hl
  | succ fuel ih =>
    intro first cs l hl
    cases cs with
    | nil => simp [wrapCur] at hl
    | cons c0 cs0 =>
      simp only [wrapCur] at hl
      split at hl
      · exact ih first _ l hl
      · rename_i hne
        rcases List.mem_cons.mp hl with e | e
        · subst e; intro h; rw [h] at hne; simp at hne
        · exact ih false _ l e

/-- an emitted line, rendered behind an indent of `n` spaces, is fine for `width` when its chunks fit
`width - n` or it is one non-blank chunk -/
theorem rendered_ok {k : Bool} (cs : List Str) (halt : AltFrom k cs) (l : List Str) (p q : List Str)
    (hpq : cs = p ++ l ++ q) (hne : l ≠ []) (width n : Nat)
    (hfit : lenSum l ≤ width - n ∨ ∃ c, l = [c] ∧ isBlank T c = false) :
    LineOK width (List.replicate n ' ' ++ l.flatten) := by
  have hmem : ∀ c ∈ l, ∃ k', Hom k' c := fun c hc => AltFrom.hom halt c (by rw [hpq]; simp [hc])
  rcases hfit with h | ⟨c, hc, hb⟩
  · left
    -- a non-empty line of non-empty chunks has positive length, so `width - n` did not truncate
    have hpos : 0 < lenSum l := by
      cases l with
      | nil => exact absurd rfl hne
      | cons a l' =>
        obtain ⟨k', hk'⟩ := hmem a (by simp)
        have : 0 < a.length := List.length_pos_iff.mpr hk'.1
        simp [lenSum]; omega
    rw [List.length_append, List.length_replicate, length_flatten_eq_lenSum]; omega
  · right
    subst hc
    obtain ⟨k', hk'⟩ := hmem c (by simp)
    have hk'f : k' = false := by
      cases k' with
      | false => rfl
      | true => rw [Hom.blank_of_true hk'] at hb; exact absurd hb (by simp)
    subst hk'f
    refine ⟨List.replicate n ' ', c, by simp, fun x hx => List.eq_of_mem_replicate hx, hk'.2⟩

theorem no_nl_of_flatten {cs : List Str} {s : Str} (hf : cs.flatten = s) (hs : '\n' ∉ s) (p l q : List Str)
    (hpq : cs = p ++ l ++ q) : '\n' ∉ l.flatten := by
  intro h
  apply hs
  rw [← hf, hpq]
  simp only [List.flatten_append, List.mem_append]
  exact Or.inl (Or.inr h)

/-- every line of a filled token fits `width` or is one unbreakable word behind its indent -/
theorem fill_lines_ok (token : Str) (width : Int) (n m : Nat) (out : Str)
    (h : textwrapFill T token width (List.replicate n ' ') (List.replicate m ' ') = some out) :
    ∀ l ∈ Lines out, LineOK width.toNat l := by
  unfold textwrapFill textwrapWrap at h
  split at h
  · simp at h
  simp only [Option.map_some, Option.some.injEq] at h
  subst h
  obtain ⟨k, halt⟩ := chunks_alt (munge token)
  have hflat := chunks_flatten (munge token)
  generalize chunks (munge token) = cs at halt hflat
  unfold wrapLoop
  simp only [List.length_replicate]
  have hwb := Textwrap.width_bound' T width.toNat n m (cs.length + 1) true cs
  have hinf := wrapCur_infix width.toNat n m (cs.length + 1) true cs
  have hnonempty := wrapCur_nonempty width.toNat n m (cs.length + 1) true cs
  generalize wrapCur T width.toNat n m (cs.length + 1) true cs = ls at hwb hinf hnonempty
  intro l hl
  rcases lines_join_mem _ l hl with e | ⟨x, hx, hlx⟩
  · rw [e]; exact LineOK.nil _
  · -- x is a rendered line; it has no line break, so it is its own only line
    cases ls with
    | nil => simp [renderLines] at hx
    | cons l0 ls' =>
      simp only [renderLines, List.mem_cons, List.mem_map] at hx
      simp only [if_true] at hwb
      rcases hx with e | ⟨l1, hl1, e⟩
      · subst e
        obtain ⟨p, q, hpq⟩ := hinf l0 (by simp)
        have hnl : '\n' ∉ List.replicate n ' ' ++ l0.flatten := by
          intro hm
          rcases List.mem_append.mp hm with hm | hm
          · have := List.eq_of_mem_replicate hm; exact absurd this (by decide)
          · exact no_nl_of_flatten hflat (munge_no_nl token) p l0 q hpq hm
        rw [Lines, splitOn_no_sep '\n' _ hnl] at hlx
        simp only [List.mem_singleton] at hlx
        subst hlx
        exact rendered_ok cs halt l0 p q hpq (hnonempty l0 (by simp)) _ n hwb.1
      · subst e
        obtain ⟨p, q, hpq⟩ := hinf l1 (by simp [hl1])
        have hnl : '\n' ∉ List.replicate m ' ' ++ l1.flatten := by
          intro hm
          rcases List.mem_append.mp hm with hm | hm
          · have := List.eq_of_mem_replicate hm; exact absurd this (by decide)
          · exact no_nl_of_flatten hflat (munge_no_nl token) p l1 q hpq hm
        rw [Lines, splitOn_no_sep '\n' _ hnl] at hlx
        simp only [List.mem_singleton] at hlx
        subst hlx
        exact rendered_ok cs halt l1 p q hpq (hnonempty l1 (by simp [hl1])) _ m (hwb.2 l1 hl1)

/-! ### the first line -/

theorem mungeChar_ne_nl (c : Char) : mungeChar c ≠ '\n' := by
  unfold mungeChar
  by_cases hw : isAsciiWs c = true
  · simp [hw]
  · simp only [hw]; intro e; subst e; exact hw (by decide)

theorem mungeChar_of_not_ws (c : Char) (hc : isWs T c = false) : mungeChar c = c := by
  unfold mungeChar
  by_cases hw : isAsciiWs c = true
  · rw [asciiWs_ws c hw] at hc; simp at hc
  · simp [hw]

/-- the first line `textwrap.wrap` emits for the first line of the text: fits `w` or is one word, starts with
the first character of the text, has no line break -/
theorem first_line_ok (L E : Str) (w : Int) (i0 : Str) (more : List Str)
    (hE : E = ['\n'] ∨ E = ['\n', '\n']) (htab : '\t' ∉ L) (c : Char) (r : Str) (hL : L = c :: r)
    (hc : isWs T c = false) (h : textwrapWrap T (L ++ E) w [] [] = some (i0 :: more)) :
    LineOK w.toNat i0 ∧ (∃ r', i0 = c :: r') ∧ '\n' ∉ i0 := by
  unfold textwrapWrap at h
  split at h
  · simp at h
  simp only [Option.some.injEq] at h
  have hnl := munge_no_nl (L ++ E)
  have hnotab : '\t' ∉ L ++ E := by
    intro hm
    rcases List.mem_append.mp hm with e | e
    · exact htab e
    · rcases hE with rfl | rfl <;> simp at e
  have hs : munge (L ++ E) = (L ++ E).map mungeChar := munge_eq_map _ hnotab
  generalize hsdef : munge (L ++ E) = s at h hnl hs
  obtain ⟨k, halt⟩ := chunks_alt s
  have hflat := chunks_flatten s
  cases hcs : chunks s with
  | nil =>
    rw [hcs] at hflat
    rw [hs, hL] at hflat
    simp at hflat
  | cons c0 cs0 =>
    rw [hcs] at h halt hflat
    have hc0 : ∃ c0', c0 = c :: c0' := by
      have hne := halt.1.1
      cases hc0e : c0 with
      | nil => exact absurd hc0e hne
      | cons y0 c0' =>
        rw [hc0e, hs, hL] at hflat
        simp only [List.flatten_cons, List.cons_append, List.map_cons, List.cons.injEq] at hflat
        exact ⟨c0', by rw [hflat.1, mungeChar_of_not_ws c hc]⟩
    obtain ⟨c0', hc0e⟩ := hc0
    have hc0b : isBlank T c0 = false := by rw [hc0e]; exact isBlank_cons_false c c0' hc
    obtain ⟨b1, b2, hdec, _, _, hf1, _, hne⟩ := lineStep_dec w.toNat 0 0 true c0 cs0
    have hb1 : b1 = [] := hf1 rfl
    subst hb1
    have hline := hne rfl hc0b
    have hwb := Textwrap.width_bound' T w.toNat 0 0 ((c0 :: cs0).length + 1) true (c0 :: cs0)
    have hinf := wrapCur_infix w.toNat 0 0 ((c0 :: cs0).length + 1) true (c0 :: cs0)
    unfold wrapLoop at h
    simp only [List.length_nil] at h
    simp only [wrapCur] at h hwb hinf
    have hnotempty : ((lineStep T w.toNat 0 0 true c0 cs0).1.isEmpty) = false := by
      cases hl : (lineStep T w.toNat 0 0 true c0 cs0).1 with
      | nil => exact absurd hl hline
      | cons a as => rfl
    rw [hnotempty] at h hwb hinf
    simp only [Bool.false_eq_true, if_false, renderLines, List.nil_append, List.cons.injEq] at h
    simp only [Bool.false_eq_true, if_false, if_true] at hwb hinf
    obtain ⟨hi0, _⟩ := h
    generalize hl0 : (lineStep T w.toNat 0 0 true c0 cs0).1 = l0 at hi0 hwb hinf hline hdec
    obtain ⟨p, q, hpq⟩ := hinf l0 (by simp)
    have hok := rendered_ok (c0 :: cs0) halt l0 p q hpq hline w.toNat 0 (by simpa using hwb.1)
    simp only [List.replicate_zero, List.nil_append] at hok
    refine ⟨hi0 ▸ hok, ?_, ?_⟩
    · -- the line starts with the first chunk, which starts with `c`
      cases l0 with
      | nil => exact absurd rfl hline
      | cons a as =>
        simp only [List.nil_append, List.cons_append, List.append_assoc, List.cons.injEq] at hdec
        rw [← hi0, ← hdec.1, hc0e]
        exact ⟨_, rfl⟩
    · rw [← hi0]
      exact no_nl_of_flatten hflat hnl p l0 q hpq

/-! ### shape of what the first part of `wrap` hands over -/

theorem wrapStage_shape (text2 : Str) (width offset : Int) (first text' : Str) (c : Char) (r : Str)
    (h2 : text2 = c :: r) (hc : isWs T c = false) (htab : '\t' ∉ text2)
    (h : wrapStage T text2 width offset = some (first, text')) :
    ∃ g E, first = g ++ E ∧ (E = ['\n'] ∨ E = ['\n', '\n']) ∧ '\n' ∉ g ∧ (∃ r', g = c :: r') ∧
      LineOK (width - offset).toNat g := by
  obtain ⟨L, hLhead, hnl, hcase⟩ := splitOn_head text2
  have hcnl : c ≠ '\n' := by intro e; subst e; rw [ws_nl] at hc; simp at hc
  have hLc : ∃ r', L = c :: r' := by
    rcases hcase with ⟨e, _⟩ | ⟨R, e, _⟩
    · exact ⟨r, by rw [← e, h2]⟩
    · cases L with
      | nil => rw [h2] at e; simp only [List.nil_append, List.cons.injEq] at e; exact absurd e.1 hcnl
      | cons x L' => rw [h2] at e; simp only [List.cons_append, List.cons.injEq] at e; exact ⟨L', by rw [e.1]⟩
  obtain ⟨r', hLr⟩ := hLc
  have htabL : '\t' ∉ L := by
    rcases hcase with ⟨e, _⟩ | ⟨R, e, _⟩
    · rw [← e]; exact htab
    · rw [e] at htab; exact not_mem_of_append_left htab
  unfold wrapStage at h
  rw [hLhead] at h
  simp only at h
  split at h
  · -- colon: first1 = L ++ "\n" ++ "\n"
    split at h
    · split at h
      · simp at h
      · rename_i initial hinit
        split at h
        · simp at h
        · rename_i i0 more
          simp only [Option.some.injEq, Prod.mk.injEq] at h
          have hinit' : textwrapWrap T (L ++ ['\n', '\n']) (width - offset) [] [] = some (i0 :: more) := by
            simpa [List.append_assoc] using hinit
          obtain ⟨hok, hhead, hnl0⟩ := first_line_ok L _ (width - offset) i0 more (Or.inr rfl) htabL c r' hLr hc hinit'
          exact ⟨i0, ['\n'], h.1.symm, Or.inl rfl, hnl0, hhead, hok⟩
    · rename_i hshort
      simp only [Option.some.injEq, Prod.mk.injEq] at h
      refine ⟨L, ['\n', '\n'], by rw [← h.1]; simp, Or.inr rfl, hnl, ⟨r', hLr⟩, Or.inl ?_⟩
      simp only [List.length_append, List.length_singleton] at hshort
      omega
  · split at h
    · split at h
      · simp at h
      · rename_i initial hinit
        split at h
        · simp at h
        · rename_i i0 more
          simp only [Option.some.injEq, Prod.mk.injEq] at h
          obtain ⟨hok, hhead, hnl0⟩ := first_line_ok L _ (width - offset) i0 more (Or.inl rfl) htabL c r' hLr hc hinit
          exact ⟨i0, ['\n'], h.1.symm, Or.inl rfl, hnl0, hhead, hok⟩
    · rename_i hshort
      simp only [Option.some.injEq, Prod.mk.injEq] at h
      refine ⟨L, ['\n'], h.1.symm, Or.inl rfl, hnl, ⟨r', hLr⟩, Or.inl ?_⟩
      simp only [List.length_append, List.length_singleton] at hshort
      omega

/-! ### the lines of the result -/

theorem dropWhile_append_of_all {α} (p : α → Bool) : ∀ (a b : List α), (∀ x ∈ a, p x = true) →
    (a ++ b).dropWhile p = b.dropWhile p
  | [], _, _ => rfl
  | x :: a, b, h => by
    simp only [List.cons_append, List.dropWhile_cons, h x (by simp), if_true]
    exact dropWhile_append_of_all p a b (fun y hy => h y (by simp [hy]))

/-- `first.strip()` when `first` is a line starting with a non-whitespace character followed by line breaks -/
theorem strip_first (g E : Str) (c : Char) (r' : Str) (hg : g = c :: r') (hc : isWs T c = false)
    (hE : Blank T E) : strip T (g ++ E) = rstrip T g := by
  unfold strip lstrip
  have : (g ++ E).dropWhile (isWs T) = g ++ E := by
    rw [hg]; simp [List.dropWhile_cons, hc]
  rw [this]
  unfold rstrip
  rw [List.reverse_append, dropWhile_append_of_all (isWs T) E.reverse g.reverse
    (fun x hx => hE x (List.mem_reverse.mp hx))]

theorem rstrip_prefix (g : Str) : ∃ b, g = rstrip T g ++ b := by
  obtain ⟨b, _, hb⟩ := rstrip_split g
  exact ⟨b, hb⟩

/-- a prefix of a fine line that starts with a non-whitespace character is fine -/
theorem LineOK.prefix_of {n : Nat} {g a b : Str} (h : LineOK n g) (hab : g = a ++ b) (c : Char) (r' : Str)
    (hg : g = c :: r') (hc : isWs T c = false) : LineOK n a := by
  rcases h with h | ⟨ind, w, hiw, hind, hw⟩
  · left
    rw [hab, List.length_append] at h; omega
  · right
    -- the indent is empty because the line starts with a non-whitespace character
    have hi : ind = [] := by
      cases ind with
      | nil => rfl
      | cons x ind' =>
        rw [hg] at hiw
        simp only [List.cons_append, List.cons.injEq] at hiw
        have := hind x (by simp)
        rw [hiw.1, this, ws_sp] at hc; simp at hc
    subst hi
    simp only [List.nil_append] at hiw
    refine ⟨[], a, by simp, by simp, ?_⟩
    intro x hx
    exact hw x (by rw [← hiw, hab]; simp [hx])

theorem mapM_mem (f : Str → Option Str) : ∀ (tokens fs : List Str), tokens.mapM f = some fs →
    ∀ o ∈ fs, ∃ tk ∈ tokens, f tk = some o := by
  intro tokens
  induction tokens with
  | nil => intro fs h o ho; simp at h; subst h; simp at ho
  | cons tk tks ih =>
    intro fs h o ho
    rw [List.mapM_cons] at h
    cases hfa : f tk with
    | none => rw [hfa] at h; simp at h
    | some o' =>
      cases hrest : tks.mapM f with
      | none => rw [hfa, hrest] at h; simp at h
      | some os =>
        rw [hfa, hrest] at h
        simp at h
        subst h
        rcases List.mem_cons.mp ho with e | e
        · exact ⟨tk, by simp, by rw [hfa, e]⟩
        · obtain ⟨tk', htk', hf'⟩ := ih os hrest o e
          exact ⟨tk', by simp [htk'], hf'⟩

/-- lines of the result of the second part of `wrap` -/
theorem wrapTail_lines (first text : Str) (width : Int) (indent : Nat) (out : Str) (g E : Str) (c : Char) (r' : Str)
    (hfirst : first = g ++ E) (hE : E = ['\n'] ∨ E = ['\n', '\n']) (hnl : '\n' ∉ g) (hg : g = c :: r')
    (hc : isWs T c = false) (n0 : Nat) (h0 : LineOK n0 g) (hn0 : n0 ≤ width.toNat)
    (h : wrapTail T first text width indent = some out) :
    (∀ l ∈ Lines out, LineOK width.toNat l) ∧ (∀ l0, (Lines out).head? = some l0 → LineOK n0 l0) := by
  have hEb : Blank T E := by
    rcases hE with rfl | rfl
    · exact blank_cons ws_nl (blank_nil T)
    · exact blank_cons ws_nl (blank_cons ws_nl (blank_nil T))
  unfold wrapTail at h
  simp only at h
  split at h
  · -- nothing left after the first line: the result is `first.strip()`
    simp only [Option.some.injEq] at h
    subst h
    rw [hfirst, strip_first g E c r' hg hc hEb]
    obtain ⟨b, hb⟩ := rstrip_prefix g
    have hnl' : '\n' ∉ rstrip T g := by
      intro hm; apply hnl; rw [hb]; simp [hm]
    rw [Lines, splitOn_no_sep '\n' _ hnl']
    have hok := LineOK.prefix_of h0 hb c r' hg hc
    constructor
    · intro l hl
      simp only [List.mem_singleton] at hl
      subst hl; exact hok.mono hn0
    · intro l0 hl0
      simp only [List.head?_cons, Option.some.injEq] at hl0
      subst hl0; exact hok
  · split at h
    · simp at h
    · rename_i fs hfs
      simp only [Option.some.injEq] at h
      subst h
      obtain ⟨hsub, hhead⟩ := lines_rstripChar (first ++ joinWith ['\n'] fs)
      -- lines of `first ++ X`
      have hlines : ∀ X, Lines (first ++ X) = [g] ++ Lines (E.tail ++ X) := by
        intro X
        have : first ++ X = g ++ '\n' :: (E.tail ++ X) := by
          rw [hfirst]
          rcases hE with rfl | rfl <;> simp
        rw [this, Lines, splitOn_append_sep, splitOn_no_sep '\n' g hnl]
      have hfill : ∀ o ∈ fs, ∀ l ∈ Lines o, LineOK width.toNat l := by
        intro o ho
        obtain ⟨tk, _, hf⟩ := mapM_mem _ _ fs hfs o ho
        rw [List.replicate_append_replicate] at hf
        exact fill_lines_ok tk width _ _ o hf
      have hX : ∀ l ∈ Lines (E.tail ++ joinWith ['\n'] fs), LineOK width.toNat l := by
        intro l hl
        have hl' : l = [] ∨ l ∈ Lines (joinWith ['\n'] fs) := by
          rcases hE with rfl | rfl
          · right; simpa using hl
          · simp only [List.tail_cons, List.singleton_append, Lines] at hl
            rw [splitOn_cons_sep] at hl
            rcases List.mem_cons.mp hl with e | e
            · exact Or.inl e
            · exact Or.inr e
        rcases hl' with e | e
        · rw [e]; exact LineOK.nil _
        · rcases lines_join_mem fs l e with e' | ⟨o, ho, hlo⟩
          · rw [e']; exact LineOK.nil _
          · exact hfill o ho l hlo
      constructor
      · intro l hl
        have := hsub l hl
        rw [hlines] at this
        rcases List.mem_append.mp this with e | e
        · simp only [List.mem_singleton] at e
          subst e; exact h0.mono hn0
        · exact hX l e
      · intro l0 hl0
        rw [hhead, hlines] at hl0
        simp only [List.singleton_append, List.head?_cons, Option.some.injEq] at hl0
        subst hl0; exact h0

/-- **Width bound of `wrap` as a whole**: every line of the result fits `width` columns or is one unbreakable
word behind its indent, and the first line fits `width − offset` or is one unbreakable word -/
theorem wrap_width (text : Str) (width : Int) (offset : Option Int) (indent : Nat) (out : Str)
    (ho0 : 0 ≤ offset.getD indent) (h : wrap T text width offset indent = some out) :
    (∀ l ∈ Lines out, LineOK width.toNat l) ∧
      (∀ l0, (Lines out).head? = some l0 → LineOK (width - offset.getD indent).toNat l0) := by
  unfold wrap at h
  simp only at h
  split at h
  · simp only [Option.some.injEq] at h
    subst h
    simp only [Lines, splitOn]
    constructor
    · intro l hl; simp only [List.mem_singleton] at hl; subst hl; exact LineOK.nil _
    · intro l0 hl0; simp only [List.head?_cons, Option.some.injEq] at hl0; subst hl0; exact LineOK.nil _
  · rename_i h0
    obtain ⟨c, r, hcr⟩ : ∃ c r, lstrip T text = c :: r := by
      cases hl : lstrip T text with
      | nil => exact absurd hl h0
      | cons c r => exact ⟨c, r, rfl⟩
    obtain ⟨r2, h2, hc, _⟩ := prepared text c r hcr
    split at h
    · simp at h
    · rename_i first text' hstage
      obtain ⟨g, E, hfirst, hE, hnl, ⟨r', hg⟩, hok⟩ := wrapStage_shape _ width (offset.getD indent) first text' c r2 h2 hc
        (expandTabs_no_tab _ 0) hstage
      exact wrapTail_lines first text' width indent out g E c r' hfirst hE hnl hg hc _ hok (by omega) h

end GapicModel.Lemmas.WrapWidth
