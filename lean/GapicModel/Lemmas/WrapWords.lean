import GapicModel.Lemmas.Words
import GapicModel.Lemmas.Textwrap
/-
C20 — word preservation of the string operations `gapic.utils.lines.wrap` is built from.
No Mathlib.
-/
namespace GapicModel.Lemmas.WrapWords
open GapicModel.Regex GapicModel.Model.Wrap GapicModel.Lemmas.Words

abbrev T := Pinned.classTables

theorem ws_nl : isWs T '\n' = true := by decide
theorem ws_sp : isWs T ' ' = true := by decide
theorem ws_tab : isWs T '\t' = true := by decide

theorem asciiWs_ws (c : Char) (h : isAsciiWs c = true) : isWs T c = true := by
  simp only [isAsciiWs, asciiWs, List.contains_cons, List.contains_nil, Bool.or_false, Bool.or_eq_true, beq_iff_eq] at h
  rcases h with h | h | h | h | h | h <;> subst h <;> decide

/-! ### `text.replace("\n ", "\n")` -/

theorem replace2_eqv : ∀ (s : Str), Eqv T (replace2 '\n' ' ' ['\n'] s) s
  | [] => by simp [replace2]; exact Eqv.refl T []
  | [c] => by simp [replace2]; exact Eqv.refl T [c]
  | c :: d :: r => by
    simp only [replace2]
    split
    · rename_i h
      obtain ⟨h1, h2⟩ := h
      subst h1; subst h2
      have ih := replace2_eqv r
      have hb : Eqv T ['\n'] ['\n', ' '] :=
        Eqv.blank (blank_cons ws_nl (blank_nil T)) (blank_cons ws_nl (blank_cons ws_sp (blank_nil T))) (by simp) (by simp)
      exact Eqv.append hb ih
    · exact Eqv.cons c (replace2_eqv (d :: r))

/-! ### `str.expandtabs()` -/

theorem expandTabs_eqv : ∀ (s : Str) (col : Nat), Eqv T (expandTabs s col) s
  | [], _ => by simp [expandTabs]; exact Eqv.refl T []
  | c :: cs, col => by
    simp only [expandTabs]
    split
    · rename_i h
      subst h
      have hn : 0 < 8 - col % 8 := by omega
      have hb : Eqv T (List.replicate (8 - col % 8) ' ') ['\t'] :=
        Eqv.blank (blank_replicate ' ' ws_sp _) (blank_cons ws_tab (blank_nil T))
          (by intro h; have := congrArg List.length h; simp at this; omega) (by simp)
      exact Eqv.append hb (expandTabs_eqv cs _)
    · split
      · exact Eqv.cons c (expandTabs_eqv cs 0)
      · exact Eqv.cons c (expandTabs_eqv cs (col + 1))

theorem expandTabs_no_tab : ∀ (s : Str) (col : Nat), '\t' ∉ expandTabs s col
  | [], _ => by simp [expandTabs]
  | c :: cs, col => by
    simp only [expandTabs]
    split
    · intro h
      rcases List.mem_append.mp h with h | h
      · have := List.eq_of_mem_replicate h; exact absurd this (by decide)
      · exact expandTabs_no_tab cs _ h
    · rename_i hc
      split
      · intro h
        rcases List.mem_cons.mp h with h | h
        · exact hc h.symm
        · exact expandTabs_no_tab cs 0 h
      · intro h
        rcases List.mem_cons.mp h with h | h
        · exact hc h.symm
        · exact expandTabs_no_tab cs _ h

/-- a text without tabs is not changed by `expandtabs` -/
theorem expandTabs_id : ∀ (s : Str) (col : Nat), '\t' ∉ s → expandTabs s col = s
  | [], _, _ => by simp [expandTabs]
  | c :: cs, col, h => by
    have hc : c ≠ '\t' := fun e => h (by simp [e])
    have hcs : '\t' ∉ cs := fun e => h (by simp [e])
    simp only [expandTabs, hc, if_false]
    split
    · rw [expandTabs_id cs 0 hcs]
    · rw [expandTabs_id cs _ hcs]

/-- the first character survives when it is not whitespace -/
theorem expandTabs_head (c : Char) (cs : Str) (col : Nat) (hc : isWs T c = false) :
    ∃ r, expandTabs (c :: cs) col = c :: r := by
  have h1 : c ≠ '\t' := by intro e; subst e; simp [ws_tab] at hc
  simp only [expandTabs, h1, if_false]
  split
  · exact ⟨_, rfl⟩
  · exact ⟨_, rfl⟩

/-! ### `_munge_whitespace` after the tabs are gone: a character-wise map -/

def mungeChar (c : Char) : Char := if isAsciiWs c then ' ' else c

theorem map_mungeChar_eqv : ∀ (s : Str), Eqv T (s.map mungeChar) s
  | [] => Eqv.refl T []
  | c :: cs => by
    have ih := map_mungeChar_eqv cs
    have h1 : Eqv T [mungeChar c] [c] := by
      unfold mungeChar
      by_cases h : isAsciiWs c = true
      · simp only [h, if_true]
        exact Eqv.blank (blank_cons ws_sp (blank_nil T)) (blank_cons (asciiWs_ws c h) (blank_nil T)) (by simp) (by simp)
      · simp only [h]; exact Eqv.refl T [c]
    exact Eqv.append h1 ih

theorem munge_eq_map (s : Str) (h : '\t' ∉ s) : munge s = s.map mungeChar := by
  simp only [munge, expandTabs_id s 0 h]; rfl

theorem munge_eqv (s : Str) : Eqv T (munge s) s := by
  have h1 : Eqv T (munge s) (expandTabs s 0) := by
    simp only [munge]; exact map_mungeChar_eqv _
  exact h1.trans (expandTabs_eqv s 0)

theorem mungeChar_ws (c : Char) : isWs T (mungeChar c) = isWs T c := by
  unfold mungeChar
  by_cases h : isAsciiWs c = true
  · simp [h, ws_sp, asciiWs_ws c h]
  · simp [h]

/-! ### `text.replace("\n", " ", 1)` -/

theorem replaceFirst_eqv : ∀ (s : Str), Eqv T (replaceFirst '\n' [' '] s) s
  | [] => Eqv.refl T []
  | c :: r => by
    simp only [replaceFirst]
    split
    · rename_i h; subst h
      exact Eqv.append (b := r) (b' := r)
        (Eqv.blank (blank_cons ws_sp (blank_nil T)) (blank_cons ws_nl (blank_nil T)) (by simp) (by simp)) (Eqv.refl T r)
    · exact Eqv.cons c (replaceFirst_eqv r)

/-- on `L ++ '\n' :: R` with no line break in `L` the first line break is the one replaced -/
theorem replaceFirst_split : ∀ (L R : Str), '\n' ∉ L → replaceFirst '\n' [' '] (L ++ '\n' :: R) = L ++ ' ' :: R
  | [], R, _ => by simp [replaceFirst]
  | c :: L, R, h => by
    have hc : c ≠ '\n' := fun e => h (by simp [e])
    have hL : '\n' ∉ L := fun e => h (by simp [e])
    simp only [List.cons_append, replaceFirst, hc, if_false]
    rw [replaceFirst_split L R hL]

/-! ### strip -/

theorem mem_takeWhile_imp {α} {p : α → Bool} : ∀ {l : List α} {x : α}, x ∈ l.takeWhile p → p x = true
  | [], _, h => by simp at h
  | a :: l, x, h => by
    simp only [List.takeWhile_cons] at h
    split at h
    · rename_i hp
      rcases List.mem_cons.mp h with e | e
      · subst e; exact hp
      · exact mem_takeWhile_imp e
    · simp at h

theorem dropWhile_head_not {α} {p : α → Bool} : ∀ {l : List α} {c : α} {r : List α}, l.dropWhile p = c :: r → p c = false
  | [], _, _, h => by simp at h
  | a :: l, c, r, h => by
    simp only [List.dropWhile_cons] at h
    split at h
    · exact dropWhile_head_not h
    · rename_i hp
      simp only [List.cons.injEq] at h
      obtain ⟨e, _⟩ := h
      subst e; simpa using hp

theorem lstrip_words (s : Str) : words T (lstrip T s) = words T s := by
  have h := List.takeWhile_append_dropWhile (p := isWs T) (l := s)
  have hb : Blank T (s.takeWhile (isWs T)) := fun c hc => mem_takeWhile_imp hc
  conv => rhs; rw [← h]
  rw [words_blank_append T _ hb]; rfl

theorem rstrip_split (s : Str) : ∃ b, Blank T b ∧ s = rstrip T s ++ b := by
  have h := List.takeWhile_append_dropWhile (p := isWs T) (l := s.reverse)
  refine ⟨(s.reverse.takeWhile (isWs T)).reverse, ?_, ?_⟩
  · intro c hc
    exact mem_takeWhile_imp (List.mem_reverse.mp hc)
  · have := congrArg List.reverse h
    simp only [List.reverse_append, List.reverse_reverse] at this
    exact this.symm

theorem rstrip_words (s : Str) : words T (rstrip T s) = words T s := by
  obtain ⟨b, hb, hs⟩ := rstrip_split s
  conv => rhs; rw [hs]
  rw [words_append_blank T _ b hb]

theorem strip_words (s : Str) : words T (strip T s) = words T s := by
  unfold strip
  rw [rstrip_words, lstrip_words]

theorem rstripChar_nl_words (s : Str) : words T (rstripChar '\n' s) = words T s := by
  have h := List.takeWhile_append_dropWhile (p := (· == '\n')) (l := s.reverse)
  have hb : Blank T (s.reverse.takeWhile (· == '\n')).reverse := by
    intro c hc
    have := mem_takeWhile_imp (List.mem_reverse.mp hc)
    simp at this; subst this; exact ws_nl
  have hs : s = rstripChar '\n' s ++ (s.reverse.takeWhile (· == '\n')).reverse := by
    have := congrArg List.reverse h
    simp only [List.reverse_append, List.reverse_reverse] at this
    exact this.symm
  conv => rhs; rw [hs]
  rw [words_append_blank T _ _ hb]

/-- the first character of a stripped-on-the-left text is not whitespace -/
theorem lstrip_head (s : Str) : ∀ c r, lstrip T s = c :: r → isWs T c = false := by
  intro c r h
  exact dropWhile_head_not h

/-! ### split / join on line breaks -/

theorem splitOn_ne_nil (sep : Char) : ∀ (s : Str), splitOn sep s ≠ []
  | [] => by simp [splitOn]
  | c :: cs => by
    simp only [splitOn]
    split
    · simp
    · split <;> simp

theorem join_splitOn (sep : Char) : ∀ (s : Str), joinWith [sep] (splitOn sep s) = s
  | [] => by simp [splitOn, joinWith]
  | c :: cs => by
    have ih := join_splitOn sep cs
    simp only [splitOn]
    split
    · rename_i h; exact absurd h (splitOn_ne_nil sep cs)
    · rename_i h tl heq
      rw [heq] at ih
      split
      · rename_i hc; subst hc
        simp only [joinWith, List.nil_append, List.singleton_append, ih]
      · cases tl with
        | nil => simp only [joinWith] at ih ⊢; rw [ih]
        | cons b r => simp only [joinWith, List.cons_append] at ih ⊢; rw [ih]

/-- shape of `text.split("\n")`: the first line, and what follows the first line break -/
theorem splitOn_head (s : Str) :
    ∃ L, (splitOn '\n' s).headD [] = L ∧ '\n' ∉ L ∧
      (s = L ∧ (splitOn '\n' s).drop 1 = [] ∨
       ∃ R, s = L ++ '\n' :: R ∧ ((splitOn '\n' s).drop 1) = splitOn '\n' R) := by
  induction s with
  | nil => exact ⟨[], by simp [splitOn], by simp, Or.inl ⟨rfl, by simp [splitOn]⟩⟩
  | cons c cs ih =>
    obtain ⟨L, hL, hnl, hcase⟩ := ih
    simp only [splitOn]
    split
    · rename_i h; exact absurd h (splitOn_ne_nil '\n' cs)
    · rename_i h tl heq
      rw [heq] at hL hcase
      simp only [List.headD_cons] at hL
      subst hL
      by_cases hc : c = '\n'
      · subst hc
        simp only [if_true]
        refine ⟨[], rfl, by simp, Or.inr ⟨cs, rfl, ?_⟩⟩
        simp [heq]
      · simp only [hc, if_false]
        refine ⟨c :: h, rfl, ?_, ?_⟩
        · intro hm
          rcases List.mem_cons.mp hm with e | e
          · exact hc e.symm
          · exact hnl e
        · rcases hcase with ⟨h1, h2⟩ | ⟨R, h1, h2⟩
          · left; exact ⟨by rw [h1], by simpa using h2⟩
          · right; exact ⟨R, by rw [h1]; rfl, by simpa using h2⟩

end GapicModel.Lemmas.WrapWords
