import GapicModel.Model.Whitespace
import GapicModel.Lemmas.RegexSound
/- Lemmas about regexes that consume only whitespace (used by Props/C20). No Mathlib. -/
namespace GapicModel.Regex
open GapicModel.Model.Whitespace

/-- regexes that consume only whitespace and record no capture -/
def wsRe (t : ClassTables) : Re → Bool
  | .eps => true
  | .chr c => isWs t c
  | .any => false
  | .cls neg items => !neg && items.all (fun i => match i with | .space => true | .ch c => isWs t c | _ => false)
  | .seq a b => wsRe t a && wsRe t b
  | .alt a b => wsRe t a && wsRe t b
  | .star r _ => wsRe t r
  | .group _ _ => false
  | .bol => true | .eol => true
  | .look _ _ _ => true

theorem Run.ws {t : ClassTables} {r : Re} {s s' : St} (h : Run t r s s') (hw : wsRe t r = true) :
    ∃ w, s.rest = w ++ s'.rest ∧ s'.pre = w.reverse ++ s.pre ∧ s'.caps = s.caps ∧ ∀ c ∈ w, isWs t c = true := by
  induction h with
  | eps s => exact ⟨[], by simp⟩
  | chr c s r hs => exact ⟨[c], by simp [St.push, hs], by simp [St.push], rfl, by simpa [wsRe] using hw⟩
  | any s d r hs _ => simp [wsRe] at hw
  | cls neg items s d r hs ht =>
    refine ⟨[d], by simp [St.push, hs], by simp [St.push], rfl, ?_⟩
    simp only [wsRe, Bool.and_eq_true, Bool.not_eq_true', List.all_eq_true] at hw
    obtain ⟨hneg, hall⟩ := hw
    subst hneg
    have hany : items.any (fun i => i.test t d) = true := by simpa [clsTest] using ht
    obtain ⟨i, hi, hti⟩ := List.any_eq_true.mp hany
    have := hall i hi
    intro c hc
    simp only [List.mem_singleton] at hc
    subst hc
    cases i <;> simp_all [CItem.test, isWs]
  | seq a b s s1 s2 _ _ ih1 ih2 =>
    simp only [wsRe, Bool.and_eq_true] at hw
    obtain ⟨w1, h1, p1, c1, a1⟩ := ih1 hw.1
    obtain ⟨w2, h2, p2, c2, a2⟩ := ih2 hw.2
    refine ⟨w1 ++ w2, by simp [h1, h2], by simp [p1, p2], by rw [c2, c1], ?_⟩
    intro c hc
    rcases List.mem_append.mp hc with hc | hc
    · exact a1 c hc
    · exact a2 c hc
  | altL a b s s1 _ ih => simp only [wsRe, Bool.and_eq_true] at hw; exact ih hw.1
  | altR a b s s1 _ ih => simp only [wsRe, Bool.and_eq_true] at hw; exact ih hw.2
  | star0 r g s => exact ⟨[], by simp⟩
  | starS r g s s1 s2 _ _ _ ih1 ih2 =>
    have hr : wsRe t r = true := by simpa [wsRe] using hw
    obtain ⟨w1, h1, p1, c1, a1⟩ := ih1 hr
    obtain ⟨w2, h2, p2, c2, a2⟩ := ih2 hw
    refine ⟨w1 ++ w2, by simp [h1, h2], by simp [p1, p2], by rw [c2, c1], ?_⟩
    intro c hc
    rcases List.mem_append.mp hc with hc | hc
    · exact a1 c hc
    · exact a2 c hc
  | group i r s s1 _ _ => simp [wsRe] at hw
  | bol s _ => exact ⟨[], by simp⟩
  | eol s _ => exact ⟨[], by simp⟩
  | look a n r s => exact ⟨[], by simp⟩

theorem Run.seq_inv {t a b s s'} (h : Run t (.seq a b) s s') : ∃ s1, Run t a s s1 ∧ Run t b s1 s' := by
  cases h with
  | seq _ _ _ s1 _ h1 h2 => exact ⟨s1, h1, h2⟩

theorem Run.group_inv {t i r s s'} (h : Run t (.group i r) s s') :
    ∃ s1, Run t r s s1 ∧ s' = { s1 with caps := (i, capture s s1) :: s1.caps } := by
  cases h with
  | group _ _ _ s1 h1 => exact ⟨s1, h1, rfl⟩

/-- a whitespace-only prefix `a` of `seq a b`: what remains is a run of `b` from a state with the same captures -/
theorem Run.ws_prefix {t a b s s'} (h : Run t (.seq a b) s s') (hw : wsRe t a = true) :
    ∃ s1 w, Run t b s1 s' ∧ s.rest = w ++ s1.rest ∧ s1.caps = s.caps ∧ (∀ c ∈ w, isWs t c = true) := by
  obtain ⟨s1, h1, h2⟩ := h.seq_inv
  obtain ⟨w, hr, _, hc, ha⟩ := h1.ws hw
  exact ⟨s1, w, h2, hr, hc, ha⟩


end GapicModel.Regex
