import GapicModel.Pinned.Funcs
/-
`gapic/schema/metadata.py: Address` — the names under which a type is imported and referenced — as the COMPOSITION of
the method bodies translated from /repo's current source (T1-f, Pinned/Funcs.lean, bridged by `rfl` to the translation
of the current tree on every run).  What is hand-written here is only the plumbing: which property reads which other
property (`str` reads `module_alias` and `is_proto_plus_type`, `python_import` reads `proto_package`, `subpackage`, …),
and `isProtoPlus`, whose body uses `hasattr` and is outside the translated subset.  The plumbing is compared with real
`Address` / `Naming` objects by T2 (`addr` driver op, harness/props/pyrt.py: check_address).  No Mathlib.
-/
namespace GapicModel.Model.AddressT
open GapicModel.PyRt GapicModel.Pinned.Funcs

/-- the parts of `api_naming` that `Address` reads -/
structure NamingV where
  truthy : Bool                  -- `bool(api_naming)`: some field is set
  protoPackage : Str
  version : Str
  moduleNamespace : List Str
  versionedModuleName : Str
  protoPlusDeps : List Str
deriving Repr

structure Addr where
  name : Str
  module : Str
  package : List Str
  parent : List Str
  collisions : List Str          -- a frozenset: only membership is used
  naming : NamingV
deriving Repr

def protoPackage (a : Addr) : Str := address_proto_package a.package
/-- `Address.is_proto_plus_type` (hand-written: the source tests `hasattr(api_naming, "proto_plus_deps")`, always true for a `Naming`) -/
def isProtoPlus (a : Addr) : Bool :=
  startswith (protoPackage a) a.naming.protoPackage || strIn (protoPackage a) a.naming.protoPlusDeps
def moduleAlias (a : Addr) : Str := address_module_alias a.module a.collisions a.package a.naming.version
def str (a : Addr) : Str := address_str a.module a.parent a.name (moduleAlias a) (isProtoPlus a)
def proto (a : Addr) : Str := address_proto a.package a.parent a.name
def versionedPackage (a : Addr) : List Str := address_versioned_package a.package
def subpackage (a : Addr) : List Str := address_subpackage a.package a.naming.protoPackage
def pythonImport (a : Addr) : PyImport :=
  address_python_import a.package a.module a.naming.moduleNamespace a.naming.versionedModuleName a.naming.protoPackage
    a.naming.truthy (protoPackage a) (subpackage a) (isProtoPlus a) (versionedPackage a) (moduleAlias a)
def rel (a b : Addr) : Str :=
  address_rel a.package a.module a.parent a.name b.package b.module b.parent b.name (str a)
def sphinx (a : Addr) : Str :=
  address_sphinx a.package a.module a.parent a.name a.naming.moduleNamespace a.naming.versionedModuleName a.naming.protoPackage
    a.naming.truthy (protoPackage a) (subpackage a) (isProtoPlus a) (versionedPackage a) (str a)

/-- the name an `import` statement binds: `import … as alias`, else the module -/
def bound (i : PyImport) : Str := if truthy i.alias then i.alias else i.module

end GapicModel.Model.AddressT
