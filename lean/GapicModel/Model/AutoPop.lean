/-
C18 — auto-populated request ids (AIP-4235).

* validation: gapic/schema/api.py `API.enforce_valid_method_settings` (called from the cached property
  `API.all_method_settings`, which the client templates read; a `MethodSettingsError` therefore aborts
  generation while `client.py.j2` is rendered);
* population: `_shared_macros.j2: auto_populate_uuid4_fields`, included by `_client_macros.j2:
  client_method` (sync client; the REST transport is reached through the sync client) and by
  `async_client.py.j2`.

The model follows the code, not the AIP (e.g. the macro assigns to the object it was given, so a
request *instance* supplied by the caller is modified in place).  Since the `fix:` commit 239cd3d the
type test reads `field.repeated or field.type != str`, so a `repeated string` is reported as
"not of type string".

Represented: the whole of `enforce_valid_method_settings` (every branch, in the code's order, with the
dict-overwrite semantics of `all_errors`); `all_method_settings` as far as the templates read it
(`generate`: one validation per sub-package view that renders a service, each against the whole API's methods;
`settingsFor`: the dict comprehension keyed by selector; `importsUuid`: the `{% if … |list %}` gate of
`import uuid` in client.py.j2 / async_client.py.j2); the macro (both branches, the loop, the lookup by
`method.meta.address.proto`); the statement order of the sync and asyncio method bodies; the four call
paths (sync gRPC, asyncio gRPC, REST = sync client, rest_asyncio = asyncio client); the request coercion
as far as object identity goes (instance used as is / dict / flattened kwargs / no request → new
object); the pager's follow-up requests (`pageRequests`: same request, new page_token).

NOT modelled (reached through T3 only, or outside the quantifier): Jinja's evaluation of the templates;
proto-plus/protobuf (presence, `in`, truthiness of `request.f` are parameters of `needs`); the REST
transcoding of the populated request (C04); retries inside `rpc` (the id is part of the request object,
so a retry re-sends it — by construction of `wrap_method`, not modelled); request messages from another
proto package (the `request = T(**request)` branch), string members of a real oneof, reserved-word field
names; `uuid.uuid4` itself (a parameter `gen`, assumed injective and non-empty); the emitted unit tests
(run by the check, not modelled); `long_running` of MethodSettings (copied through, not read here).
-/
namespace GapicModel.Model.AutoPop

/-! ### Validation -/

/-- a field of the top-level request message, as far as the validation and the macro look at it -/
structure Field where
  name : String
  isStr : Bool        -- `field.type == PrimitiveType.build(str)` (the scalar type alone)
  required : Bool     -- `field.required`: REQUIRED among google.api.field_behavior
  uuid4 : Bool        -- `field.uuid4`: google.api.field_info.format == UUID4
  optional : Bool     -- `field.proto3_optional`
  repeated : Bool     -- `field.repeated`; a repeated field fails the type test (fix 239cd3d)
deriving Repr, DecidableEq

/-- an entry of `API.all_methods` (key `"<service full name>.<method name>"`) -/
structure Method where
  selector : String
  clientStreaming : Bool
  serverStreaming : Bool
  input : List Field        -- `method_descriptor.input.fields`, keyed by field name: the method's OWN request message,
                            -- wherever it is declared (since the `fix:` commit f83c180; before, `self.messages[input_type]`
                            -- raised a bare KeyError for a request message declared in a file that is not generated)
deriving Repr, DecidableEq

/-- `google.api.MethodSettings` as far as it is read here -/
structure Settings where
  selector : String
  fields : List String      -- `auto_populated_fields`
deriving Repr, DecidableEq

inductive FieldErr where
  | notFound (f : String)      -- "Field `f` was not found" (also every dotted/nested path)
  | notString (f : String)     -- "Field `f` is not of type string."
  | isRequired (f : String)    -- "Field `f` is a required field."
  | notUuid4 (f : String)      -- "Field `f` is not annotated with `google.api.field_info.format = \"UUID4\"."
deriving Repr, DecidableEq

inductive Err where
  | duplicate                  -- ["Duplicate selector"]
  | methodNotFound             -- ["Method was not found."]
  | notUnary                   -- ["Method is not a unary method."]
  | fields (es : List FieldErr)
deriving Repr, DecidableEq

/-- `top_level_request_message.fields[field_str]` / `field_str not in ….fields` (a dict keyed by name) -/
def getField (inp : List Field) (n : String) : Option Field := inp.find? (fun f => f.name == n)

/-- `self.all_methods.get(selector)` -/
def getMethod (api : List Method) (sel : String) : Option Method := api.find? (fun m => m.selector == sel)

/-- the body of `for field_str in method_settings.auto_populated_fields` -/
def fieldErrs (inp : List Field) (s : String) : List FieldErr :=
  match getField inp s with
  | none => [.notFound s]
  | some f =>
    (if f.repeated || !f.isStr then [.notString s] else []) ++
    (if f.required then [.isRequired s] else []) ++
    (if f.uuid4 then [] else [.notUuid4 s])

/-- everything after the duplicate test, in the code's order: not found → streaming → per field -/
def classify (api : List Method) (s : Settings) : Option Err :=
  match getMethod api s.selector with
  | none => some .methodNotFound
  | some m =>
    if s.fields.isEmpty then none
    else if m.clientStreaming || m.serverStreaming then some .notUnary
    else
      let es := s.fields.flatMap (fieldErrs m.input)
      if es.isEmpty then none else some (.fields es)

/-- `all_errors`: a dict (assignment replaces the value and keeps the key's position) -/
abbrev Errors := List (String × Err)

/-- `d[k] = v` on an insertion-ordered dict -/
def assign {β : Type} : List (String × β) → String → β → List (String × β)
  | [], k, v => [(k, v)]
  | (k', v') :: rest, k, v => if k' = k then (k, v) :: rest else (k', v') :: assign rest k v

def setErr (errs : Errors) (k : String) (e : Err) : Errors := assign errs k e

/-- one iteration of `for method_settings in service_method_settings`; state = (selectors_seen, all_errors) -/
def step (api : List Method) (st : List String × Errors) (s : Settings) : List String × Errors :=
  if s.selector ∈ st.1 then (st.1, setErr st.2 s.selector .duplicate)
  else match classify api s with
    | none => (s.selector :: st.1, st.2)
    | some e => (s.selector :: st.1, setErr st.2 s.selector e)

/-- `enforce_valid_method_settings`: the error dict; the method raises `MethodSettingsError(yaml.dump(…))`
iff it is not empty -/
def validate (api : List Method) (ss : List Settings) : Errors := (ss.foldl (step api) ([], [])).2

def accepted (api : List Method) (ss : List Settings) : Bool := (validate api ss).isEmpty

/-! ### Generation: the views of the API that validate -/

/-- a view of the API (`API.subpackages[…]`: a `dataclasses.replace` copy with `subpackage_view` set, whose `protos`,
`services` and hence `all_methods` are restricted to the protos of that sub-package): the methods whose selector
is among `sels` -/
def viewOf (api : List Method) (sels : List String) : List Method := api.filter (fun m => sels.contains m.selector)

/-- `Generator._render_template` renders the per-service templates of a service with `api :=` the view of the
sub-package the service lives in (the sub-packages first, then the services of the view's own level); each of
these views evaluates its OWN cached property `all_method_settings`, which — since the `fix:` commit cb5c413 —
runs `enforce_valid_method_settings` on `dataclasses.replace(self, subpackage_view=())`, i.e. against the
`all_methods` of the WHOLE API (before, a view validated against its own methods and reported every selector
of a service elsewhere as "Method was not found."); the first `MethodSettingsError` aborts the generation.
`views`: what the views that own at least one service render (`viewOf`), in rendering order.  (An API without
sub-packages has the single view `api`.)  No view that renders a service: nothing reads the settings. -/
def generate (api : List Method) (views : List (List Method)) (ss : List Settings) : Errors :=
  match views with
  | [] => []
  | _ :: vs => let e := validate api ss; if e.isEmpty then generate api vs ss else e

/-- `API.build`, third pass — selective GAPIC generation
(`library_settings[proto package].python_settings.common.selective_gapic_generation`): with a non-empty allow-list
`methods` the protos are pruned to the allow-listed methods (omit mode: an omitted method is no entry of
`all_methods` any more), unless `generate_omitted_as_internal` is set (then every method stays, the omitted ones
marked internal).  `enforce_valid_method_settings` itself never looks at the allow-list: it validates against the
`all_methods` of the API it is given. -/
def prune (allow : List String) (internal : Bool) (api : List Method) : List Method :=
  if allow.isEmpty || internal then api else viewOf api allow

/-! ### Population at call time -/

/-- the request object: the fields that are *present* with their values (order irrelevant); reading a
singular string field that is not present yields `""` -/
abbrev Req := List (String × String)

/-- `request.f = v` -/
def Req.set (r : Req) (k v : String) : Req := assign r k v

/-- the macro's test, as a function of the field's current state (`none` = not present):
`'f' not in request` for proto3-optional fields, `not request.f` otherwise -/
def needs (fd : Field) (cur : Option String) : Bool :=
  if fd.optional then cur.isNone else (cur.getD "") == ""

def needsId (fd : Field) (r : Req) : Bool := needs fd (r.lookup fd.name)

/-- one iteration of `for auto_populated_field in method_settings.auto_populated_fields`;
`gen k` stands for the k-th value `str(uuid.uuid4())` returns in this process (external) -/
def popStep (gen : Nat → String) (inp : List Field) (st : Req × Nat) (f : String) : Req × Nat :=
  match getField inp f with
  | none => st        -- cannot occur for accepted settings (`fieldErrs` reports `notFound`)
  | some fd => if needsId fd st.1 then (Req.set st.1 f (gen st.2), st.2 + 1) else st

def populate (gen : Nat → String) (inp : List Field) (fields : List String) (st : Req × Nat) : Req × Nat :=
  fields.foldl (popStep gen inp) st

/-- the call paths of an emitted library (`restAsyncio`: the experimental `rest_async_io_enabled` transport,
reached through the asyncio client) -/
inductive Path where
  | sync | asyncio | rest | restAsyncio
deriving Repr, DecidableEq

/-- how the caller hands over the request -/
inductive Mode where
  | inst      -- a request message instance: `isinstance(request, T)` → used AS IS (no copy)
  | dict      -- a dict: `T(request)` builds a new object
  | kwargs    -- flattened keyword arguments: `T(None)` + assignments build a new object
  | none      -- neither a request nor keyword arguments: `T(None)`, an empty new object
deriving Repr, DecidableEq

/-- the statements of a client method body that follow the docstring -/
inductive Stmt where
  | coerce | applyKwargs | wrapRpc | metadata | apiVersionHeader | populate | validateUniverse | send
deriving Repr, DecidableEq

/-- `_client_macros.j2: client_method` and the method loop of `async_client.py.j2` have the same
statement sequence; `transport=rest` has no client of its own: `client.py.j2` is the only sync client -/
def syncBody : List Stmt :=
  [.coerce, .applyKwargs, .wrapRpc, .metadata, .apiVersionHeader, .populate, .validateUniverse, .send]

def asyncBody : List Stmt :=
  [.coerce, .applyKwargs, .wrapRpc, .metadata, .apiVersionHeader, .populate, .validateUniverse, .send]

def pipeline : Path → List Stmt
  | .sync => syncBody
  | .asyncio => asyncBody
  | .rest => syncBody
  | .restAsyncio => asyncBody

structure CallSt where
  req : Req
  ctr : Nat
  sent : Option Req
deriving Repr

def exec (gen : Nat → String) (inp : List Field) (fields : List String) (st : CallSt) : Stmt → CallSt
  | .populate => let p := populate gen inp fields (st.req, st.ctr); { st with req := p.1, ctr := p.2 }
  | .send => { st with sent := some st.req }
  | _ => st       -- do not touch the request's fields (flattened arguments are already part of `obj`)

/-- the auto-populated fields of a method: `api.all_method_settings.get(method.meta.address.proto)` -/
def fieldsOf (s : Option Settings) : List String :=
  match s with
  | none => []
  | some s => s.fields

/-- the object the method body works on: what the caller handed over, or an empty one (`mode = none`) -/
def startObj (mode : Mode) (obj : Req) : Req := if mode = .none then [] else obj

/-- one call: (request handed to the transport, the caller's object afterwards, uuid counter) -/
def call (gen : Nat → String) (m : Method) (s : Option Settings) (path : Path) (mode : Mode)
    (obj : Req) (ctr : Nat) : Option Req × Req × Nat :=
  let st := (pipeline path).foldl (exec gen m.input (fieldsOf s)) ⟨startObj mode obj, ctr, none⟩
  (st.sent, (if mode = .inst then st.req else obj), st.ctr)

/-- `api.all_method_settings`: `{ms.selector: … for ms in publishing.method_settings}` — a later entry with the
same selector would replace an earlier one (validation rejects that); `.get(selector)` -/
def settingsFor (ss : List Settings) (sel : String) : Option Settings :=
  (ss.filter (fun s => s.selector == sel)).getLast?

/-- the gate of `import uuid` in client.py.j2 and async_client.py.j2:
`api.all_method_settings.values()|map(attribute="auto_populated_fields", default=[])|list` is a list with one
element per settings entry, hence truthy iff there is any entry -/
def importsUuid (ss : List Settings) : Bool := !ss.isEmpty

/-- a call in a library generated with the settings list `ss`; `none` = `NameError: name 'uuid' is not
defined` (the macro evaluated `uuid.uuid4()` in a module that does not import `uuid`) -/
def callChecked (gen : Nat → String) (ss : List Settings) (m : Method) (path : Path) (mode : Mode)
    (obj : Req) (ctr : Nat) : Option Req :=
  let c := call gen m (settingsFor ss m.selector) path mode obj ctr
  if ctr < c.2.2 && !importsUuid ss then none else c.1

/-- the requests of a paginated call: the pager keeps (a copy of) the request that was sent and only
assigns `page_token` before each follow-up request; the client method body (and the macro) is not re-entered -/
def pageRequests (first : Req) (tokens : List String) : List Req :=
  first :: tokens.map (fun t => Req.set first "page_token" t)

/-- a session: a store of caller objects and a list of calls `(mode, object index)`; an instance that is
passed twice is the same Python object both times -/
def session (gen : Nat → String) (m : Method) (s : Option Settings) (path : Path) :
    List (Mode × Nat) → List Req → Nat → List (Option Req)
  | [], _, _ => []
  | (mode, i) :: rest, store, ctr =>
    let r := call gen m s path mode (store.getD i []) ctr
    r.1 :: session gen m s path rest (store.set i r.2.1) r.2.2

/-- what the server can see of a field: a present proto3-optional field is visible even when empty; a
field without presence is on the wire only when non-empty -/
def wireVal (fd : Field) (r : Req) : Option String :=
  if fd.optional then r.lookup fd.name
  else match r.lookup fd.name with
    | some v => if v == "" then none else some v
    | none => none

end GapicModel.Model.AutoPop
