/-
C10 — generation is a pure function of the request (DESIGN §7.10).

A Python `set`/`frozenset` is modelled as ANY duplicate-free list with the right members
(`IsSetOf`): its iteration order is whatever the hash seed of the process makes it.  Every place
where the generator iterates such a container (pinned inventory `harness/props/c10_inventory.json`,
classes S1..S5) is modelled by its *consumer*; the theorems of `Props/C10.lean` say that each
consumer gives the same answer for every iteration order — or say exactly when it does not.

Anchors in /repo:
  gapic/utils/lines.py: sort_lines                         → `sortLines`, `sortLinesFrom`        (S1)
  jinja2 `|sort(attribute=k)` as used by the templates,
    `sorted(xs, key=…)` in api.py / snippet_index.py       → `sortBy`, `jinjaSortAttr`, `jinjaSort` (S2)
  `x in service.names`, `Proto.disambiguate`,
    `Method.query_params`, `Address.module_alias`          → `disambiguate`, `queryParams`, `moduleCollides` (S3)
  `tuple(types)` in MessageType.recursive_field_types →
    Method._ref_types → `{% filter sort_lines %}` import blocks,
    → Service.names / Proto.names `modules[...]`           → `importBlock`, `collidingModules`      (S4)
  client.py.j2 / async_client.py.j2 / test_<service>.py.j2:
    `service.resource_messages|sort(attribute="resource_type_full_path", case_sensitive=true)
                              |sort(attribute="resource_type")`  → `resourceHelperOrder`          (S2; injective first key since the F4 repair)
  `method.retry.retryable_exceptions|sort(attribute='__name__')` → `retryOrder`                   (S2, key injective)
  gapic/schema/api.py: API.subpackages (`sorted({…})`) and
    gapic/generator/generator.py: _render_template's `%sub` walk → `subpackageNames`, `subpackageOrder`, `subWalk` (S1)
  gapic/schema/wrappers.py: Service.oauth_scopes             → `oauthScopes`                       (S5, ordered input)

  gapic/schema/api.py (round 2 of the deepening; the dictionaries the templates iterate UNSORTED):
    Python `dict` (insertion-ordered, `d[k] = v`, `{**a, **b}`, `dict.update`)  → `OMap`, `OMap.set`, `OMap.update`, `OMap.ofPairs`
    API._get_methods_from_service (loop over `service_yaml_config.http.rules`)  → `methodsFromService`
    API.has_location_mixin / has_iam_mixin / has_operations_mixin, _has_iam_overrides → `hasApi`, `iamOverrides`
    API.mixin_api_methods / mixin_api_signatures / mixin_http_options           → `mixinApiMethods`, `mixinApiSignatures`, `mixinHttpOptions`
    API.http_options (dict comprehension keyed by selector), HttpRule.try_parse_http_rule's
      presence test                                                             → `httpOptions`, `HttpBinding.parses`
    API.enforce_valid_method_settings (duplicate selector / unknown method ⇒ raise) +
      API.all_method_settings                                                   → `allMethodSettings`
    Generator.get_response: `output_files.update(...)` per template on an OrderedDict → `responseFiles`
    Jinja `d|dictsort`                                                          → `dictsort`
    iteration of `collections.ChainMap` (`API.services` / `messages` / `enums`)  → `chainMapKeys`
    the seed6 mutation (`for fqn in methods.keys() & rules.keys()`, a set)      → `methodsFromServiceViaSet` (counterexample only)
  API.subpackages follows cc7f824 (`subpackage[level]`, nested sub-packages)     → `subpackageNames`

NOT modelled (reached only through the inventory classification + the multi-process byte comparison):
  * Jinja's evaluation of the templates themselves, `unique`, `map`/`join` filters;
  * `Proto.python_modules` (a sorted set of `imp.Import` tuples; covered generically by
    `sort_total_order_perm_invariant`, its `__eq__`/`__hash__` mismatch on `alias` is not modelled);
  * snippet index / gapic_metadata JSON (`json.dumps(sort_keys=True)`, lists sorted from ordered inputs: S5);
  * what `_render_template` returns for ONE template (file naming is C11's model; here the per-template
    name lists are taken from the real run and only their accumulation is modelled), `Options.build`
    (option parsing order), samplegen's validator sets (S3), `API.get_extended_operations_services`
    (S2 by service name; exercised by generated compute-style APIs, no instance theorem);
  * `utils.convert_uri_fieldnames` on the uri of a parsed http rule and the reserved-name suffix of its body
    (C12/C13's subject; the model keeps the raw strings), `MIXINS_MAP[name]` as a table (only its key set
    matters for order: every mixin method name is a key, checked by the harness);
  * `API.all_library_settings` (only ever indexed by `naming.proto_package`, never iterated);
  * everything outside set/sort/impurity sites is a function of ordered inputs by Python's semantics
    (lists; insertion-ordered dicts are now `OMap`), which is taken as given.
-/
namespace GapicModel.Model.Determinism

abbrev Str := List Char

/-! ### Python's order on `str` and the two sorts -/

/-- `a <= b` on Python `str`: lexicographic by code point. -/
def leStr : Str → Str → Bool
  | [], _ => true
  | _ :: _, [] => false
  | a :: as, b :: bs =>
    if a.toNat < b.toNat then true else if b.toNat < a.toNat then false else leStr as bs

/-- `sorted(xs)` on strings. (`sorted` is a stable sort; so is `List.mergeSort`, and a stable sort
is unique, hence the choice of algorithm is immaterial.) -/
def sortedStr (xs : List Str) : List Str := xs.mergeSort leStr

/-- `sorted(xs, key=key)`: stable, compares keys only. -/
def sortBy {α : Type} (key : α → Str) (xs : List α) : List α :=
  xs.mergeSort (fun a b => leStr (key a) (key b))

/-- `str.lower()` as far as Jinja's `ignore_case` post-processor matters for identifiers (ASCII). -/
def lower (s : Str) : Str := s.map Char.toLower

/-- Jinja `xs|sort(attribute=k)` with the default `case_sensitive=False`:
`sorted(xs, key=lambda x: str(getattr(x, k)).lower())`. -/
def jinjaSortAttr {α : Type} (attr : α → Str) (xs : List α) : List α := sortBy (fun a => lower (attr a)) xs

/-- Jinja `xs|sort` on strings (case-insensitive by default). -/
def jinjaSort (xs : List Str) : List Str := sortBy lower xs

/-! ### Sets -/

/-- `s` is one of the possible iteration orders of `set(xs)`. -/
def IsSetOf {α : Type} (s xs : List α) : Prop := s.Nodup ∧ ∀ a, a ∈ s ↔ a ∈ xs

/-- the iteration order the executable model picks: first occurrences, in order -/
def dedup {α : Type} [DecidableEq α] : List α → List α
  | [] => []
  | a :: xs => a :: (dedup xs).filter (· ≠ a)

/-! ### S1: `sort_lines` -/

/-- Python `s.split(sep)` for a one-character separator (always at least one piece). -/
def splitOn (sep : Char) : Str → List Str
  | [] => [[]]
  | c :: cs =>
    if c = sep then [] :: splitOn sep cs
    else match splitOn sep cs with
      | [] => [[c]]
      | h :: t => (c :: h) :: t

def rstrip (isSpace : Char → Bool) (s : Str) : Str := (s.reverse.dropWhile isSpace).reverse
/-- `s.strip()`; `isSpace` is `str.isspace` on one character (the driver passes the table
extracted from CPython). -/
def strip (isSpace : Char → Bool) (s : Str) : Str := rstrip isSpace (s.dropWhile isSpace)

def joinNl : List Str → Str
  | [] => []
  | [l] => l
  | l :: ls => l ++ '\n' :: joinNl ls

/-- `(i for i in text.strip().split("\n") if i.strip())` -/
def linesOf (isSpace : Char → Bool) (text : Str) : List Str :=
  (splitOn '\n' (strip isSpace text)).filter (fun i => !(strip isSpace i).isEmpty)

/-- the tail of `sort_lines` once the (de-duplicated) lines are in hand, iterated in the order `s` -/
def sortLinesFrom (leading trailing : Bool) (s : List Str) : Str :=
  (if leading then ['\n'] else []) ++ joinNl (sortedStr s) ++ (if trailing then ['\n'] else [])

/-- `gapic.utils.lines.sort_lines(text, dedupe)` -/
def sortLines (isSpace : Char → Bool) (text : Str) (dedupe : Bool := true) : Str :=
  let ls := linesOf isSpace text
  sortLinesFrom (text.head? == some '\n') (text.getLast? == some '\n') (if dedupe then dedup ls else ls)

/-! ### S3: membership-only consumers -/

/-- `Proto.disambiguate`: `while s in names: s = "_" + s` (recursion in the source; it stops after at
most `len(names)` rounds, which is the fuel given by `disambiguate`). -/
def disambiguateFuel (names : List Str) : Nat → Str → Str
  | 0, s => s
  | n + 1, s => if s ∈ names then disambiguateFuel names n ('_' :: s) else s

def disambiguate (names : List Str) (s : Str) : Str := disambiguateFuel names (names.length + 1) s

/-- `Address.module_alias` test: `self.module in self.collisions or self.module in RESERVED_NAMES` -/
def moduleCollides (collisions reserved : List Str) (module : Str) : Bool :=
  decide (module ∈ collisions) || decide (module ∈ reserved)

/-- `Method.query_params` followed by the template's `|sort`:
`set(self.input.fields) - params`, params = the path params — each already suffixed with `_` when it
is a reserved name, as the source does since `fix: do not list a reserved-word path field among the
query parameters`; the caller passes them in that form — (+ body field); `none` body = no body,
body `*` is handled by the caller (empty set). -/
def queryParams (fields pathParams : List Str) (body : Option Str) : List Str :=
  let params := pathParams ++ body.toList
  jinjaSort ((dedup fields).filter (fun f => f ∉ params))

/-! ### S4: `tuple(set)` chains that end in an order-free consumer -/

/-- an import line of a `{% filter sort_lines %}` block: `{{ ref_type.ident.python_import }}` -/
structure Import where
  package : Str          -- dotted
  module : Str
deriving DecidableEq, Repr

def Import.render (i : Import) : Str :=
  "from ".toList ++ i.package ++ " import ".toList ++ i.module

/-- the import block of client.py.j2 / test_<service>.py.j2 at the level of lines:
fixed lines + one line per referenced type (in `recursive_field_types` order, i.e. set order),
then `sort_lines` (de-duplicate, sort). -/
def importBlock (fixed : List Str) (refTypes : List Import) : List Str :=
  sortedStr (dedup (fixed ++ refTypes.map Import.render))

/-- `Service.names` / `Proto.names`: module names imported from more than one package.
`modules[t.ident.module].add(t.ident.package)` over the types in set order, then
`len(packages) > 1`.  The result is itself a set: returned as a membership predicate. -/
def collidingModule (types : List Import) (m : Str) : Bool :=
  decide (1 < (dedup ((types.filter (fun t => t.module = m)).map (·.package))).length)

/-! ### S2 instances -/

/-- a resource message as far as the helper loop of client.py.j2 looks at it -/
structure Resource where
  type : Str             -- `resource.type`, e.g. `foo.example.com/Thing`
  pattern : Str
deriving DecidableEq, Repr

/-- position of the first `/` or `none` (`str.find`) -/
def findSlash : Str → Option Nat
  | [] => none
  | c :: cs => if c = '/' then some 0 else (findSlash cs).map (· + 1)

/-- `MessageType.resource_type`: `resource.type[resource.type.find("/") + 1:]` -/
def resourceType (r : Resource) : Str :=
  match findSlash r.type with
  | none => r.type                 -- find = -1 → [0:]
  | some i => r.type.drop (i + 1)

/-- The helper loop of client.py.j2 / async_client.py.j2 / test_<service>.py.j2 (both template trees)
since the repair of §9-F4 (`fix: make the order of resource path helpers independent of the hash seed`):
`{% for message in service.resource_messages
     |sort(attribute="resource_type_full_path", case_sensitive=true)|sort(attribute="resource_type") %}`
— the frozenset, iterated in order `s`, is first sorted by the FULL resource type (exact comparison),
then stably by the short type (case-folded).  The result is the order in which
`<x>_path`/`parse_<x>_path` are defined. -/
def resourceHelperOrder (s : List Resource) : List Resource :=
  jinjaSortAttr resourceType (sortBy (·.type) s)

/-- the loop as it was before the repair (one stable sort by the short type only); kept to state
that the repair did not move anything whose position was well defined -/
def resourceHelperOrderSingleStage (s : List Resource) : List Resource := jinjaSortAttr resourceType s

/-- the names `exception_class_for_grpc_status` can return (google.api_core.exceptions), i.e. the
possible members of `RetryInfo.retryable_exceptions`; the check compares this table with the
installed library for every `grpc.StatusCode`. -/
def exceptionNames : List String :=
  ["Cancelled", "Unknown", "InvalidArgument", "DeadlineExceeded", "NotFound", "AlreadyExists",
   "PermissionDenied", "Unauthenticated", "ResourceExhausted", "FailedPrecondition", "Aborted",
   "OutOfRange", "MethodNotImplemented", "InternalServerError", "ServiceUnavailable", "DataLoss",
   "GoogleAPICallError"]

/-- `method.retry.retryable_exceptions|sort(attribute='__name__')` -/
def retryOrder (s : List Str) : List Str := jinjaSort s

/-! ### S1 instance: sub-packages and the order of the response's files -/

/-- the set comprehension of `API.subpackages`:
`{p.meta.address.subpackage[level] for p in protos if len(sp) > level and sp[:level] == view}`,
`level = len(view)`, as the list of candidates in proto order (`[level]` since
`fix: sub-packages of a sub-package are named by their own level`; it was `[0]` before). -/
def subpackageNames (view : List Str) (subs : List (List Str)) : List Str :=
  subs.filterMap fun sp =>
    if view.length < sp.length ∧ sp.take view.length = view then sp[view.length]? else none

/-- keys of the OrderedDict `API.subpackages` when the set is iterated in order `s`: `sorted(set)`.
`Generator._render_template` walks `api_schema.subpackages.values()` for every `%sub` template and
appends the rendered files in that order, so this is also the order in which the sub-packages'
files appear in `CodeGeneratorResponse.file`. -/
def subpackageOrder (s : List Str) : List Str := sortedStr s

/-- `_render_template` for one `%sub` template: the files of every sub-package (in
`subpackages.values()` order), then the files of the view itself (`answer.update` keeps first
positions). -/
def subWalk (subs : List Str) (filesOf : Str → List Str) (own : List Str) : List Str :=
  subs.flatMap filesOf ++ own

/-! ### S5: ordered inputs -/

def joinWith (sep : Char) : List Str → Str
  | [] => []
  | [l] => l
  | l :: ls => l ++ sep :: joinWith sep ls

/-- `Service.oauth_scopes`: `tuple(i.strip() for i in option.split(",") if i)` — the emptiness test
comes BEFORE the strip, as in the source. -/
def oauthScopes (isSpace : Char → Bool) (opt : Str) : List Str :=
  ((splitOn ',' opt).filter fun i => !i.isEmpty).map (strip isSpace)

/-! ### S5: insertion-ordered dictionaries (Python `dict` / `OrderedDict`) -/

/-- a Python `dict` with `str` keys: the items in insertion order -/
abbrev OMap (V : Type) := List (Str × V)

namespace OMap

def keys {V : Type} (d : OMap V) : List Str := d.map (·.1)

/-- `d[k] = v`: an existing key keeps its POSITION and takes the new value, a new key goes last -/
def set {V : Type} : OMap V → Str → V → OMap V
  | [], k, v => [(k, v)]
  | (k', v') :: rest, k, v => if k' = k then (k', v) :: rest else (k', v') :: set rest k v

/-- `d[k]` / `d.get(k)` -/
def get? {V : Type} (d : OMap V) (k : Str) : Option V := (d.find? (fun p => p.1 = k)).map (·.2)

/-- `a.update(b)` / `{**a, **b}` / a loop of `a[k] = v` over the items `b` in order -/
def update {V : Type} (a : OMap V) (b : List (Str × V)) : OMap V := b.foldl (fun d p => d.set p.1 p.2) a

/-- `{k: v for (k, v) in ps}` -/
def ofPairs {V : Type} (ps : List (Str × V)) : OMap V := update [] ps

end OMap

/-- one `google.api.HttpRule` binding as far as `try_parse_http_rule` looks at it: `verb` is
`WhichOneof("pattern")` (`""` when unset, `"custom"` for a custom pattern), `uri` the pattern's value -/
structure HttpBinding where
  verb : Str
  uri : Str
  body : Str
deriving DecidableEq, Repr

/-- `HttpRule.try_parse_http_rule(rule) is not None` -/
def HttpBinding.parses (b : HttpBinding) : Bool :=
  !b.verb.isEmpty && decide (b.verb ≠ "custom".toList) && !b.uri.isEmpty

/-- one entry of `http.rules` of the service yaml -/
structure YamlRule where
  selector : Str
  rule : HttpBinding
  additional : List HttpBinding
deriving DecidableEq, Repr

/-- `[http] + list(http.additional_bindings)`, parsed, `None`s dropped -/
def YamlRule.options (r : YamlRule) : List HttpBinding := (r.rule :: r.additional).filter (·.parses)

/-- the first loop of `_get_methods_from_service`: `methods[fqn] = method` for every method of every service
of the mixin module, as (fqn, method name) pairs -/
abbrev MethodTable := List (Str × Str)

def MethodTable.name? (t : MethodTable) (selector : Str) : Option Str := (t.find? (fun e => e.1 = selector)).map (·.2)

/-- `API._get_methods_from_service(service_pb)`: the second loop walks `service_yaml_config.http.rules`
IN YAML ORDER and does `methods_to_generate[x.name] = x` for every rule whose selector names a method
of the module. -/
def methodsFromService (t : MethodTable) (rules : List YamlRule) : OMap YamlRule :=
  OMap.ofPairs (rules.filterMap fun r => (t.name? r.selector).map fun n => (n, r))

/-- the method names that a sequence of yaml selectors picks from a mixin module, in that sequence's order
(specification side of `methodsFromService`: what its key order is a function of) -/
def selNames (t : MethodTable) (selectors : List Str) : List Str := selectors.filterMap t.name?

/-- the three mixin modules (locations_pb2, iam_policy_pb2, operations_pb2) -/
structure MixinTables where
  loc : MethodTable
  iam : MethodTable
  ops : MethodTable

def locApi : Str := "google.cloud.location.Locations".toList
def iamApi : Str := "google.iam.v1.IAMPolicy".toList
def opsApi : Str := "google.longrunning.Operations".toList

/-- `has_location_mixin` & co.: `len(list(filter(lambda api: api.name == NAME, yaml.apis))) > 0` -/
def hasApi (apis : List Str) (name : Str) : Bool := apis.any (· = name)

/-- `API._has_iam_overrides`; `serviceMethods` = the method names of every service of the API -/
def iamOverrides (T : MixinTables) (apis : List Str) (serviceMethods : List (List Str)) (rules : List YamlRule) : Bool :=
  hasApi apis iamApi &&
    serviceMethods.any fun ms => (methodsFromService T.iam rules).keys.any fun m => decide (m ∈ ms)

/-- `API.mixin_api_methods`: three conditional `{**methods, **…}` in the fixed order Locations, IAM, Operations -/
def mixinApiMethods (T : MixinTables) (apis : List Str) (serviceMethods : List (List Str)) (rules : List YamlRule) :
    OMap YamlRule :=
  let m0 : OMap YamlRule := []
  let m1 := if hasApi apis locApi then m0.update (methodsFromService T.loc rules) else m0
  let m2 := if !iamOverrides T apis serviceMethods rules && hasApi apis iamApi
            then m1.update (methodsFromService T.iam rules) else m1
  if hasApi apis opsApi then m2.update (methodsFromService T.ops rules) else m2

/-- `API.mixin_api_signatures`: `{name: MIXINS_MAP[name] for name in self.mixin_api_methods}` (the value
is represented by its key) -/
def mixinApiSignatures (m : OMap YamlRule) : OMap Str := OMap.ofPairs (m.map fun p => (p.1, p.1))

/-- `API.mixin_http_options`: `for s in api_methods: res[s] = [parsed rules]` -/
def mixinHttpOptions (m : OMap YamlRule) : OMap (List HttpBinding) := OMap.ofPairs (m.map fun p => (p.1, p.2.options))

/-- `API.http_options`: `{rule.selector: make_http_options(rule) for rule in yaml.http.rules}` -/
def httpOptions (rules : List YamlRule) : OMap (List HttpBinding) := OMap.ofPairs (rules.map fun r => (r.selector, r.options))

/-- the seed6 change, for the counterexample only: the second loop of `_get_methods_from_service`
rewritten as `for fqn in methods.keys() & rules.keys()` — a SET of selectors, iterated in order `s` -/
def methodsFromServiceViaSet (t : MethodTable) (rules : List YamlRule) (s : List Str) : OMap YamlRule :=
  OMap.ofPairs (s.filterMap fun sel =>
    match t.name? sel, (rules.reverse.find? fun r => r.selector = sel) with
    | some n, some r => some (n, r)
    | _, _ => none)

/-- one `google.api.MethodSettings` entry of `publishing.method_settings` -/
structure MethodSetting where
  selector : Str
  longRunning : Bool
  autoPopulated : List Str
deriving DecidableEq, Repr

/-- `API.all_method_settings`: `enforce_valid_method_settings` raises (`none`) on a repeated selector or
on an entry that `valid` rejects (unknown method, AIP-4235 conditions: C18's subject, abstracted), then
`{ms.selector: MethodSettings(...) for ms in yaml.publishing.method_settings}`. -/
def allMethodSettings (valid : MethodSetting → Bool) (ms : List MethodSetting) : Option (OMap MethodSetting) :=
  if decide (ms.map (·.selector)).Nodup && ms.all valid then some (OMap.ofPairs (ms.map fun m => (m.selector, m))) else none

/-- `Generator.get_response`: `output_files = OrderedDict(); output_files.update(sample_output);
for template in client_templates: output_files.update(self._render_template(template, …))`;
the response lists `output_files.values()`.  (`_render_template` itself returns an OrderedDict per
template; `update` walks its items in order.) -/
def responseFiles {C : Type} (sample : List (Str × C)) (perTemplate : List (List (Str × C))) : OMap C :=
  perTemplate.foldl OMap.update (OMap.ofPairs sample)

/-- `list(collections.ChainMap(*maps))` (`API.services`, `API.messages`, `API.enums` are ChainMaps over the protos'
dicts): `d = {}; for m in reversed(maps): d |= dict.fromkeys(m); iter(d)` — the LAST map's keys come first. -/
def chainMapKeys (maps : List (List Str)) : List Str :=
  (responseFiles ([] : List (Str × Unit)) (maps.reverse.map fun m => m.map fun k => (k, ()))).keys

/-- Jinja `d|dictsort` (by key, `case_sensitive=False`): `sorted(d.items(), key=lambda i: lower(i[0]))` -/
def dictsort {V : Type} (d : OMap V) : List (Str × V) := jinjaSortAttr (·.1) d

/-! ### The pipeline: a response is a function of the outcomes of its sites -/

/-- One set-iteration site: the members of the set (as some canonical list) and what is done with
the iteration order. -/
structure Site (β : Type) where
  α : Type
  members : List α
  consume : List α → β

/-- a schedule picks, for every site, the order in which its set is iterated -/
structure Schedule (β : Type) where
  order : (s : Site β) → List s.α
  perm : ∀ s : Site β, (order s).Perm s.members

/-- everything the templates compute from the set-valued attributes, given a schedule; the rest of
the response (`assemble`) is a function of the ordered inputs and of these values only -/
def render {β γ : Type} (assemble : List β → γ) (sites : List (Site β)) (σ : Schedule β) : γ :=
  assemble (sites.map fun s => s.consume (σ.order s))

/-- all permutations of a list (for the driver: enumerate every iteration order of a small set) -/
def insertions {α : Type} (a : α) : List α → List (List α)
  | [] => [[a]]
  | b :: bs => (a :: b :: bs) :: (insertions a bs).map (b :: ·)

def permutations {α : Type} : List α → List (List α)
  | [] => [[]]
  | a :: as => (permutations as).flatMap (insertions a)

/-- distinct results of a consumer over every iteration order -/
def outcomes {α β : Type} [DecidableEq β] (f : List α → β) (xs : List α) : List β :=
  dedup ((permutations xs).map f)

end GapicModel.Model.Determinism
