import GapicModel.Pinned.Templates
/-
C01 / C11 — which files the generator emits and where
(gapic/generator/generator.py: Generator.get_response, _render_template, _is_desired_transport,
_get_file, _get_filename).  Paths are lists of segments; a template path segment is a list of
literal parts and variables, so substitution is structural.  The string-level `_get_filename`
(ordered `str.replace`, `lstrip("/")`, `re.sub("/+", "/")`) is tied to this by T2.
Sub-packages are modelled one level deep (see DESIGN §9-F7 for deeper nesting).
-/
namespace GapicModel.Model.Emit

abbrev Str := List Char
abbrev Path := List Str

inductive Var where
  | ns | nameVersion | name | version | sub | service | proto
deriving Repr, DecidableEq

inductive Part where
  | lit (cs : Str)
  | var (v : Var)
deriving Repr, DecidableEq

/-- the variable tokens, longest first (the code replaces `%name_%version` before `%version`, `%name`) -/
def tokens : List (Str × Var) :=
  [(['%', 'n', 'a', 'm', 'e', '_', '%', 'v', 'e', 'r', 's', 'i', 'o', 'n'], .nameVersion), (['%', 'n', 'a', 'm', 'e', 's', 'p', 'a', 'c', 'e'], .ns), (['%', 's', 'e', 'r', 'v', 'i', 'c', 'e'], .service),
   (['%', 'v', 'e', 'r', 's', 'i', 'o', 'n'], .version), (['%', 'p', 'r', 'o', 't', 'o'], .proto), (['%', 'n', 'a', 'm', 'e'], .name), (['%', 's', 'u', 'b'], .sub)]

def startsWith (p s : Str) : Bool := p.isPrefixOf s

def matchToken (s : Str) : Option (Var × Str) :=
  (tokens.find? fun (t, _) => startsWith t s).map fun (t, v) => (v, s.drop t.length)

/-- parse one template path segment into parts; fuel = its length -/
def parseSeg : Nat → Str → Str → List Part
  | 0, acc, _ => if acc = [] then [] else [.lit acc.reverse]
  | _ + 1, acc, [] => if acc = [] then [] else [.lit acc.reverse]
  | fuel + 1, acc, c :: cs =>
    match matchToken (c :: cs) with
    | some (v, rest) => (if acc = [] then [] else [.lit acc.reverse]) ++ .var v :: parseSeg fuel [] rest
    | none => parseSeg fuel (c :: acc) cs

def splitSlash : Str → Path
  | [] => [[]]
  | c :: cs =>
    match splitSlash cs with
    | [] => [[]]
    | h :: tl => if c = '/' then [] :: h :: tl else (c :: h) :: tl

/-- drop the trailing ".j2" -/
def dropJ2 (s : Str) : Str := if ['.', 'j', '2'].isSuffixOf s then s.take (s.length - 3) else s

abbrev TPath := List (List Part)

def parseTemplate (t : Str) : TPath := (splitSlash (dropJ2 t)).map fun seg => parseSeg seg.length [] seg

structure Naming where
  nsSegs : Path            -- `i.lower() for i in naming.namespace`
  name : Str               -- naming.module_name
  version : Str            -- naming.version
  versioned : Str          -- naming.versioned_module_name
deriving Repr

/-- values of the variables for one file -/
structure Ctx where
  naming : Naming
  sub : Path               -- api_schema.subpackage_view
  service : Option Str     -- context["service"].module_name
  proto : Option Str       -- context["proto"].module_name

/-- the text a variable contributes INSIDE a segment (namespace / sub joined by "/" as the code does) -/
def varText (c : Ctx) : Var → Str
  | .ns => ['/'].intercalate c.naming.nsSegs
  | .nameVersion => c.naming.versioned
  | .name => c.naming.name
  | .version => c.naming.version
  | .sub => ['/'].intercalate c.sub
  | .service => c.service.getD ['%', 's', 'e', 'r', 'v', 'i', 'c', 'e']
  | .proto => c.proto.getD ['%', 'p', 'r', 'o', 't', 'o']

def partText (c : Ctx) : Part → Str
  | .lit cs => cs
  | .var v => varText c v

/-- output segments of one template segment: a lone `%namespace` / `%sub` expands to several (or no)
segments; anything else is one segment, dropped when empty (`re.sub("/+", "/")`, `lstrip("/")`) -/
def segOut (c : Ctx) (parts : List Part) : Path :=
  if parts = [.var .ns] then c.naming.nsSegs.filter (· ≠ [])
  else if parts = [.var .sub] then c.sub.filter (· ≠ [])
  else
    let s := (parts.map (partText c)).flatten
    if s = [] then [] else [s]

/-- `_get_filename` -/
def getFilename (c : Ctx) (t : TPath) : Path := (t.map (segOut c)).flatten

/-! ### what gets rendered -/

def containsSub (pat s : Str) : Bool :=
  match s with
  | [] => pat = []
  | _ :: tl => startsWith pat s || containsSub pat tl

structure SubPkg where
  view : Path
  services : List Str      -- module names of the services with exactly this sub-package
  protos : List Str        -- module names of the protos with exactly this sub-package
deriving Repr

structure Shape where
  naming : Naming
  root : SubPkg            -- view = []
  subs : List SubPkg       -- api.subpackages, one level
deriving Repr

structure Opts where
  transport : List Str
  metadata : Bool
  restAsync : Bool
  unversionedDisabled : Bool
deriving Repr

def hasVar (t : TPath) (v : Var) : Bool := t.any fun seg => seg.any fun p => p == .var v

/-- `_is_desired_transport` -/
def isDesiredTransport (tname : Str) (o : Opts) : Bool :=
  ([['_', '_', 'i', 'n', 'i', 't', '_', '_'], ['b', 'a', 's', 'e'], ['R', 'E', 'A', 'D', 'M', 'E']] ++ o.transport).any fun tr => containsSub tr tname

/-- the four service-level gates of `_render_template` -/
def serviceGate (tname : Str) (o : Opts) : Bool :=
  !( (containsSub ['t', 'r', 'a', 'n', 's', 'p', 'o', 'r', 't'] tname && !isDesiredTransport tname o)
   || (containsSub ['a', 's', 'y', 'n', 'c', '_', 'c', 'l', 'i', 'e', 'n', 't'] tname && !o.transport.contains ['g', 'r', 'p', 'c'] && !o.restAsync)
   || (containsSub ['r', 'e', 's', 't', '_', 'a', 's', 'y', 'n', 'c', 'i', 'o'] tname && !o.restAsync)
   || (containsSub ['r', 'e', 's', 't', '_', 'b', 'a', 's', 'e'] tname && !o.transport.contains ['r', 'e', 's', 't']))

/-- files of one template for one API view (`skip` = the `skip_subpackages` flag) -/
def renderView (o : Opts) (nm : Naming) (tname : Str) (t : TPath) (view : Path)
    (services protos : List Str) : List Path :=
  if hasVar t .proto then
    protos.map fun p => getFilename ⟨nm, view, none, some p⟩ t
  else if hasVar t .service then
    if serviceGate tname o then services.map fun s => getFilename ⟨nm, view, some s, none⟩ t else []
  else [getFilename ⟨nm, view, none, none⟩ t]

def allServices (sh : Shape) : List Str := sh.root.services ++ sh.subs.flatMap (·.services)
def allProtos (sh : Shape) : List Str := sh.root.protos ++ sh.subs.flatMap (·.protos)

/-- `_render_template` (sub-packages one level deep) -/
def renderTemplate (o : Opts) (sh : Shape) (tname : Str) : List Path :=
  let t := parseTemplate tname
  if !o.metadata && ['g', 'a', 'p', 'i', 'c', '_', 'm', 'e', 't', 'a', 'd', 'a', 't', 'a', '.', 'j', 's', 'o', 'n', '.', 'j', '2'].isSuffixOf tname then []
  else if startsWith ['%', 'n', 'a', 'm', 'e', 's', 'p', 'a', 'c', 'e', '/', '%', 'n', 'a', 'm', 'e', '/'] tname && o.unversionedDisabled then []
  else if hasVar t .sub then
    -- one recursive call per sub-package (which sees only its own protos/services), then the root view;
    -- `skip_subpackages` is set only if there is at least one sub-package
    (sh.subs.flatMap fun sp => renderView o sh.naming tname t sp.view sp.services sp.protos) ++
    (if sh.subs.isEmpty then renderView o sh.naming tname t [] (allServices sh) (allProtos sh)
     else renderView o sh.naming tname t [] sh.root.services sh.root.protos)
  else renderView o sh.naming tname t [] (allServices sh) (allProtos sh)

def baseName (tname : Str) : Str := (splitSlash tname).getLast?.getD []

/-- "private" templates are skipped (`_x.j2`, except `__init__.py.j2`) -/
def isPrivate (tname : Str) : Bool :=
  let b := baseName tname
  startsWith ['_'] b && b ≠ ['_', '_', 'i', 'n', 'i', 't', '_', '_', '.', 'p', 'y', '.', 'j', '2']

def isSampleTemplate (tname : Str) : Bool := baseName tname = ['s', 'a', 'm', 'p', 'l', 'e', '.', 'p', 'y', '.', 'j', '2']

/-- file names of the response that come from the client templates (before the empty-module rule) -/
def renders (o : Opts) (sh : Shape) (templates : List Str) : List Path :=
  (templates.filter fun t => !isPrivate t && !isSampleTemplate t).flatMap (renderTemplate o sh)

/-- `get_response` collects the rendered files in an `OrderedDict` keyed by file name (`output_files.update(...)`):
a name rendered by two templates occurs once, at the position of its first rendering -/
def dedup : List Path → List Path
  | [] => []
  | p :: ps => p :: (dedup ps).filter (· ≠ p)

/-- the file names of the response that come from the client templates -/
def responseNames (o : Opts) (sh : Shape) (templates : List Str) : List Path := dedup (renders o sh templates)

end GapicModel.Model.Emit
