import GapicModel.Pinned.Tables
/-
C05 — flattened keyword arguments (gapic/schema/wrappers.py: Method.flattened_fields,
Method._fields_mapping, MessageType.get_field, Field.name;
templates  %service/_client_macros.j2 (client_method, "flattened_params" block — the SYNC client)
and        %service/async_client.py.j2 (the same block, written differently — the ASYNC client)).

The model FOLLOWS THE CODE.  Four layers:

1. schema side  — `getField`, `yielded`, `fieldsMapping`: signature strings → ordered (key → field)
   mapping with reserved-name suffixing of every segment (since `fix:` a0434d5; before it only the
   end of the dotted string was suffixed, DESIGN §9-F2) and the cross-package filter;
2. emission     — `emitCheck`: what CPython demands of the emitted `def` (no duplicate parameter, no
   keyword used as an attribute name) and `attrResolves` (how proto-plus resolves `request.<seg>`);
3. call side    — `applySync` / `applyAsync` (two textually different application schemes, each with
   its same-package / cross-package branch) and `call` (mutual-exclusion check first).

0. packages      — `Naming`, `isProtoPlusType` (`Address.is_proto_plus_type`: STRING prefix of the API's proto package, or
   listed in the option `proto-plus-deps`), `crossPkgOf` (`method.input.ident.package != method.ident.package`): the two
   booleans every branch of the templates hangs on are DERIVED from the package of the file declaring the service and of
   the file declaring each message (`mappingOf`, `callOf`), so every layout — service and/or requests in the API's root
   package, in a sub-package, in a nested sub-package, in sibling sub-packages, in a dependency package — is one point of
   the same model (second deepening round).

NOT modelled (stated so that nobody reads more into the theorems than is there):
* python-level typing of argument values and proto-plus marshalling of well-known types (Timestamp ↔
  datetime, Duration ↔ timedelta, wrappers ↔ scalars, Struct/Value/ListValue ↔ native values): values are
  opaque; the harness passes literal Python values of every such kind through both clients (T3).
  What IS modelled since the second deepening round: a signature path that goes INTO such a marshalled type
  (`ttl.seconds`, `wrapped.value`, `meta.fields`, `lv.values`): `request.ttl` is a python value (or None), not a
  message — the statement executed for the key raises AttributeError in every client that executes it
  (`Slot.marshalOwner`, `marshalFails`); paths into unmarshalled raw messages (FieldMask, Status, Policy,
  Operation) are modelled by `rawAssignFails`;
* oneof clearing (two members of one oneof given together: both clients assign in declared order, the last one
  wins; the model's messages have no oneof groups), `Method.flattened_oneof_fields`,
  `legacy_flattened_fields`, `flattened_field_to_key` (used by the fix-up script / the emitted unit tests only);
* the ads templates' copy of the block (`gapic/ads-templates/…/client.py.j2`, it differs in `elif not request:`) and
  the REST transport (it shares the sync macro; only gRPC sessions are run);
* which files of a request are rendered at all (`%sub` view of `API.subpackages`; C01/C02/C17), docstrings rendered
  from the mapping.

Request values are wire-level trees: a message is a chain `mcons number value rest` kept in
ascending field-number order by `ins`; repeated and map fields hold opaque items (the application
code never looks inside them: `get_field` refuses a repeated field in non-terminal position).
-/
namespace GapicModel.Model.Flatten

deriving instance DecidableEq for Except

/-! ## 1. Schema side -/

/-- `Field.type`: `PrimitiveType` / `EnumType` / `MessageType` (by proto full name). -/
inductive Kind where
  | prim | enum
  | message (full : String)
deriving Repr, DecidableEq

structure Field where
  pbName : String          -- `field_pb.name`
  number : Nat
  kind : Kind
  repeated : Bool          -- label == REPEATED (maps included)
  isMap : Bool             -- `Field.map`
  isValue : Bool           -- `field.ident.ident|string() == "struct_pb2.Value"`
deriving Repr, DecidableEq

structure MsgDef where
  full : String
  protoPlus : Bool         -- `meta.address.is_proto_plus_type` (the API's own package, or proto-plus-deps)
  fields : List Field
deriving Repr, DecidableEq

abbrev Schema := List MsgDef

def reserved (n : String) : Bool := Pinned.reservedNames.contains n
def pyKeyword (n : String) : Bool := Pinned.pyKeywords.contains n

/-- `Field.name`: suffixed only when the word is reserved AND the owner is a proto-plus type. -/
def Field.pyName (pp : Bool) (f : Field) : String :=
  if reserved f.pbName && pp then f.pbName ++ "_" else f.pbName

/-- `MessageType.fields[key]`: the dict is keyed by `Field.name`, later duplicates win. -/
def MsgDef.lookup (m : MsgDef) (key : String) : Option Field :=
  m.fields.reverse.find? (fun f => f.pyName m.protoPlus == key)

def findMsg (sch : Schema) (full : String) : Option MsgDef := sch.find? (·.full == full)

inductive GenErr where
  | keyError (what : String)       -- `KeyError` out of `get_field` (the generator aborts)
deriving Repr, DecidableEq

/-- one step of `get_field`: the owner (name, proto-plus?) and the field found. -/
structure Link where
  owner : String
  ownerPP : Bool
  field : Field
deriving Repr, DecidableEq

/-- the key `get_field` looks up for a segment: `first_field + ("_" if first_field in RESERVED_NAMES else "")` -/
def segKey (seg : String) : String := if reserved seg then seg ++ "_" else seg

/-- `MessageType.get_field(*path)`: (links of the non-terminal segments, terminal link). -/
def getField (sch : Schema) : MsgDef → List String → Except GenErr (List Link × Link)
  | _, [] => .error (.keyError "<empty path>")
  | m, [seg] =>
    match m.lookup (segKey seg) with
    | none => .error (.keyError (segKey seg))
    | some f => .ok ([], ⟨m.full, m.protoPlus, f⟩)
  | m, seg :: seg' :: rest =>
    match m.lookup (segKey seg) with
    | none => .error (.keyError (segKey seg))
    | some f =>
      if f.repeated then .error (.keyError "repeated field in non-terminal position") else
      match f.kind with
      | .message full =>
        match findMsg sch full with
        | none => .error (.keyError "could not be resolved")
        | some sub =>
          match getField sch sub (seg' :: rest) with
          | .error e => .error e
          | .ok (pre, last) => .ok (⟨m.full, m.protoPlus, f⟩ :: pre, last)
      | _ => .error (.keyError "could not be resolved")

/-- one `(name, field)` pair yielded by `filter_fields`. -/
structure Entry where
  segs : List String       -- `name.split(".")`, as written in the signature
  pre : List Link          -- links of the non-terminal segments
  last : Link              -- the flattened field
deriving Repr, DecidableEq

def Entry.field (e : Entry) : Field := e.last.field
/-- the attribute names CPython sees in `request.<key>`: since the `fix:` commit a0434d5 EVERY
segment named by a reserved word carries the suffix
(`segment + "_" if segment in utils.RESERVED_NAMES else segment`) — the same key `get_field` looks up. -/
def Entry.keySegs (e : Entry) : List String := e.segs.map segKey
/-- the mapping key, i.e. the text rendered after `request.` -/
def Entry.key (e : Entry) : String := ".".intercalate e.keySegs
/-- the Python parameter: `field.name` -/
def Entry.param (e : Entry) : String := e.field.pyName e.last.ownerPP
/-- field numbers along the path -/
def Entry.path (e : Entry) : List Nat := e.pre.map (·.field.number) ++ [e.field.number]
def Entry.links (e : Entry) : List Link := e.pre ++ [e.last]

/-- `field.is_primitive` -/
def Field.isPrimitive (f : Field) : Bool := f.kind == .prim

/-- the generator expression of `_fields_mapping` before it is poured into the OrderedDict:
every path of every signature in order; `get_field` errors abort; cross-package requests drop
non-primitive fields. -/
def yielded (sch : Schema) (crossPkg : Bool) (input : MsgDef) : List (List String) → Except GenErr (List Entry)
  | [] => .ok []
  | segs :: more =>
    match getField sch input segs with
    | .error e => .error e
    | .ok (pre, last) =>
      match yielded sch crossPkg input more with
      | .error e => .error e
      | .ok es =>
        if crossPkg && !last.field.isPrimitive then .ok es else .ok (⟨segs, pre, last⟩ :: es)

/-- `OrderedDict.__setitem__`: an existing key keeps its position and takes the new value. -/
def odInsert (d : List Entry) (e : Entry) : List Entry :=
  if d.any (·.key == e.key) then d.map (fun x => if x.key == e.key then e else x) else d ++ [e]

def odBuild (es : List Entry) : List Entry := es.foldl odInsert []

/-- `Method._fields_mapping` on parsed signatures. -/
def fieldsMappingP (sch : Schema) (crossPkg : Bool) (input : MsgDef) (paths : List (List String)) :
    Except GenErr (List Entry) :=
  match yielded sch crossPkg input paths with
  | .error e => .error e
  | .ok es => .ok (odBuild es)

/-- `for f in sig.split(","): if not f: continue; name = f.strip(); … name.split(".")`
(`String.trimAscii` = `str.strip` on the ASCII blanks the harness generates). -/
def parseSig (sig : String) : List (List String) :=
  ((sig.splitOn ",").filter (· ≠ "")).map fun f => f.trimAscii.toString.splitOn "."

def fieldsMapping (sch : Schema) (crossPkg : Bool) (input : MsgDef) (sigs : List String) :
    Except GenErr (List Entry) :=
  fieldsMappingP sch crossPkg input (sigs.flatMap parseSig)

/-! ## 2. Emission -/

/-- the parameter list of the emitted method (sync macro and async template agree textually here) -/
def paramList (es : List Entry) : List String :=
  ["self", "request"] ++ es.map Entry.param ++ ["retry", "timeout", "metadata"]

/-- `{% if not method.client_streaming %} … {% else %} requests: Iterator[…] {% endif %}`: a
client-streaming method takes the request iterator and offers NO flattened parameter, whatever its
signatures say (and has no application block at all). -/
def paramListOf (clientStreaming : Bool) (es : List Entry) : List String :=
  if clientStreaming then ["self", "requests", "retry", "timeout", "metadata"] else paramList es

inductive EmitErr where
  | duplicateParam (p : String)    -- SyntaxError: duplicate argument … in function definition
  | keywordAttr (key : String)     -- SyntaxError: invalid syntax (`request.import.name = …`)
deriving Repr, DecidableEq

def firstDup : List String → Option String
  | [] => none
  | x :: xs => if xs.contains x then some x else firstDup xs

/-- what CPython checks when the emitted module is imported -/
def emitCheck (es : List Entry) : Except EmitErr Unit :=
  match firstDup (paramList es) with
  | some p => .error (.duplicateParam p)
  | none =>
    match es.find? (fun e => e.keySegs.any pyKeyword) with
    | some e => .error (.keywordAttr e.key)
    | none => .ok ()

/-- template whitespace of the SYNC macro's second pass.  Before the `fix:` commit 9d33fc0 the text
`{% endif %} {# field.map #}` left a blank before the next iteration's first line: with two or more
keys in that pass the second `if <name>:` was indented by 13 columns (IndentationError in client.py).
The blank is gone: every number of keys is fine. -/
def emitIndentOk (_samePkg : Bool) (_es : List Entry) : Bool := true

/-- proto-plus `Message._get_pb_type_from_key`: the attribute itself, else the attribute + "_".
The class attributes of an emitted proto-plus message are the `Field.name`s. -/
def attrResolves (m : MsgDef) (attr : String) : Option Field :=
  match m.lookup attr with
  | some f => some f
  | none => m.lookup (attr ++ "_")

/-- walk `request.<seg>.<seg>…` through proto-plus messages: the fields reached, if every
segment resolves. -/
def resolveAttrs (sch : Schema) : MsgDef → List String → Option (List Field)
  | _, [] => some []
  | m, [a] => (attrResolves m a).map ([·])
  | m, a :: b :: rest =>
    match attrResolves m a with
    | none => none
    | some f =>
      match f.kind with
      | .message full =>
        match findMsg sch full with
        | none => none
        | some sub => (resolveAttrs sch sub (b :: rest)).map (f :: ·)
      | _ => none

/-! ## 3. Call side: request values -/

/-- wire-level value. Items of repeated fields and keys/values of maps are opaque texts. -/
inductive Val where
  | atom (s : String)                               -- scalar / enum / bytes
  | list (xs : List String)                         -- repeated field
  | map (kv : List (String × String))               -- map field
  | mnil                                            -- message: no (further) field set
  | mcons (num : Nat) (v : Val) (rest : Val)        -- message: field `num` is `v`; then `rest`
deriving Repr, DecidableEq

namespace Val

def lookup : Val → Nat → Option Val
  | .mcons k v rest, n => if k = n then some v else lookup rest n
  | _, _ => none

/-- set field `n` (replace, or insert keeping ascending numbers) -/
def ins (n : Nat) (x : Val) : Val → Val
  | .mcons k v rest =>
    if n < k then .mcons n x (.mcons k v rest)
    else if n = k then .mcons n x rest
    else .mcons k v (ins n x rest)
  | _ => .mcons n x .mnil

def erase : Val → Nat → Val
  | .mcons k v rest, n => if k = n then erase rest n else .mcons k v (erase rest n)
  | v, _ => v

/-- write a slot: `none` = cleared -/
def put (m : Val) (k : Nat) : Option Val → Val
  | none => erase m k
  | some v => ins k v m

def items : Val → List String
  | .list xs => xs
  | _ => []

def entries : Val → List (String × String)
  | .map kv => kv
  | _ => []

/-- an empty list / dict: falsy in Python, and "cleared" on the wire -/
def isEmptyContainer : Val → Bool
  | .list [] => true
  | .map [] => true
  | _ => false

end Val
open Val

def asMsg : Option Val → Val
  | some v => v
  | none => .mnil

/-- a repeated / map field holding nothing is absent -/
def norm (v : Val) : Option Val := if v.isEmptyContainer then none else some v

/-- rewrite the slot at a field-number path; every message on the way becomes present
(`request.a.b = x` reifies `a`). -/
def atPath : List Nat → (Option Val → Option Val) → Option Val → Option Val
  | [], f => f
  | k :: rest, f => fun s => some (put (asMsg s) k (atPath rest f (lookup (asMsg s) k)))

def lookupAt : List Nat → Option Val → Option Val
  | [], s => s
  | k :: rest, s => lookupAt rest (lookup (asMsg s) k)

def modifyAt (p : List Nat) (f : Option Val → Option Val) (r : Val) : Val := asMsg (atPath p f (some r))
def slot (p : List Nat) (r : Val) : Option Val := lookupAt p (some r)

/-- `request.<key> = v` -/
def assignOp (v : Val) : Option Val → Option Val := fun _ => norm v
/-- `request.<key>.extend(v)` -/
def extendOp (v : Val) : Option Val → Option Val := fun cur => norm (.list ((asMsg cur).items ++ v.items))
/-- `dict.update`: entries not overridden, then the new ones -/
def upd (base new : List (String × String)) : List (String × String) :=
  base.filter (fun kv => !(new.any (·.1 == kv.1))) ++ new
/-- `request.<key>.update(v)` -/
def updateOp (v : Val) : Option Val → Option Val := fun cur => norm (.map (upd (asMsg cur).entries v.entries))

/-- `x is not None` -/
def given (a : Option Val) : Bool := a.isSome
/-- `if x:` for a list / dict argument -/
def truthy : Option Val → Bool
  | none => false
  | some v => !v.isEmptyContainer

/-- what the emitted application code knows about one flattened key -/
structure Slot where
  path : List Nat
  repeated : Bool
  isMap : Bool
  isValue : Bool
  ctor : Option Nat     -- number of the TOP-LEVEL request field called `field.name`, if any (constructor keyword; raw or proto-plus request class)
  rawOwner : Bool       -- the message that OWNS the terminal field is a raw protobuf class (not proto-plus)
  isMsg : Bool          -- singular message-typed field
  marshalOwner : Bool   -- the terminal field belongs to a well-known type that proto-plus hands out as a python value
                        -- (the attribute before it is read off a proto-plus message): `request.ttl.seconds`
deriving Repr, DecidableEq

def Field.isSingularMessage (f : Field) : Bool :=
  !f.repeated && (match f.kind with | .message _ => true | _ => false)

/-- the well-known types proto-plus' default marshal converts on attribute access (`proto.marshal.Marshal`:
Timestamp → datetime, Duration → timedelta, wrappers → the scalar or None, Struct / Value / ListValue → native
python values); FieldMask, Any, Empty and every other raw message are handed out as they are.  A table of the
RUNTIME library, not of /repo: tied by T3 only. -/
def marshalledWkt : List String :=
  ["google.protobuf.Timestamp", "google.protobuf.Duration", "google.protobuf.Struct", "google.protobuf.Value",
   "google.protobuf.ListValue", "google.protobuf.DoubleValue", "google.protobuf.FloatValue",
   "google.protobuf.Int64Value", "google.protobuf.UInt64Value", "google.protobuf.Int32Value",
   "google.protobuf.UInt32Value", "google.protobuf.BoolValue", "google.protobuf.StringValue",
   "google.protobuf.BytesValue"]

/-- the terminal field is reached THROUGH a marshalled value: its owner is one of `marshalledWkt` and the field
holding that owner sits in a proto-plus message (a raw parent hands out the raw Duration, which can be assigned to) -/
def Entry.marshalOwner (e : Entry) : Bool :=
  marshalledWkt.contains e.last.owner &&
  (match e.pre.getLast? with
   | some l => l.ownerPP
   | none => false)

def Entry.slot (input : MsgDef) (e : Entry) : Slot :=
  ⟨e.path, e.field.repeated, e.field.isMap, e.field.isValue,
   (input.lookup e.param).map (·.number),      -- the constructor keyword is looked up like an attribute: `Field.name` of the request class
   !e.last.ownerPP, e.field.isSingularMessage, e.marshalOwner⟩

/-- a flattened key with the argument the caller passed (`none` = left at its default `None`) -/
abbrev Bound := Slot × Option Val

/-- "a request message with those fields set": plain assignment, declared order. -/
def refStep (r : Val) (b : Bound) : Val :=
  match b.2 with
  | none => r
  | some v => modifyAt b.1.path (assignOp v) r

def setAll (bs : List Bound) (r : Val) : Val := bs.foldl refStep r

/-! ### the SYNC macro (`_client_macros.j2`) -/

/-- first loop: `for key, field in … if not field.repeated or (<same package> and
field.meta.address.is_proto_plus_type)` (the owner test since `fix:` 9d33fc0) -/
def syncLoop1 (samePkg : Bool) (r : Val) (b : Bound) : Val :=
  if !b.1.repeated || (samePkg && !b.1.rawOwner) then
    match b.2 with
    | none => r
    | some v =>
      if b.1.isValue && b.1.repeated then modifyAt b.1.path (extendOp v) r
      else modifyAt b.1.path (assignOp v) r
  else r

/-- second loop: `for key, field in … if field.repeated and (<different package> or not
field.meta.address.is_proto_plus_type)`: repeated/map keys of a raw protobuf owner are extended /
updated, never assigned (since `fix:` 9d33fc0) -/
def syncLoop2 (samePkg : Bool) (r : Val) (b : Bound) : Val :=
  if b.1.repeated && (!samePkg || b.1.rawOwner) then
    match b.2 with
    | none => r
    | some v =>
      if truthy (some v) then
        (if b.1.isMap then modifyAt b.1.path (updateOp v) r else modifyAt b.1.path (extendOp v) r)
      else r
  else r

def applySync (samePkg : Bool) (bs : List Bound) (r : Val) : Val :=
  bs.foldl (syncLoop2 samePkg) (bs.foldl (syncLoop1 samePkg) r)

/-! ### the ASYNC template (`async_client.py.j2`) -/

def asyncLoop1 (r : Val) (b : Bound) : Val :=
  if !b.1.repeated then
    match b.2 with
    | none => r
    | some v => modifyAt b.1.path (assignOp v) r
  else r

def asyncLoop2 (r : Val) (b : Bound) : Val :=
  if b.1.isMap then
    match b.2 with
    | none => r
    | some v => if truthy (some v) then modifyAt b.1.path (updateOp v) r else r
  else r

def asyncLoop3 (r : Val) (b : Bound) : Val :=
  if b.1.repeated && !b.1.isMap then
    match b.2 with
    | none => r
    | some v => if truthy (some v) then modifyAt b.1.path (extendOp v) r else r
  else r

/-- same package: three passes (singular, maps, lists) -/
def applyAsyncSame (bs : List Bound) (r : Val) : Val :=
  bs.foldl asyncLoop3 (bs.foldl asyncLoop2 (bs.foldl asyncLoop1 r))

inductive CallErr where
  | valueError            -- "If the `request` argument is set, then none of the individual field arguments should be set."
  | ctorUnknownField      -- pb2 constructor: ValueError: Protocol message X has no "f" field.
  | attributeError        -- raw protobuf object: "Assignment not allowed to repeated field / message field"
deriving Repr, DecidableEq

/-- different package: `request = Ident(f.name=f.name, …)` — every keyword is looked up among the
TOP-LEVEL fields of the request (also when its value is `None`). -/
def ctorStep (r : Val) (b : Bound) : Except CallErr Val :=
  match b.1.ctor with
  | none => .error .ctorUnknownField
  | some n =>
    match b.2 with
    | none => .ok r
    | some v => .ok (modifyAt [n] (assignOp v) r)

def applyAsyncCross : List Bound → Val → Except CallErr Val
  | [], r => .ok r
  | b :: bs, r =>
    match ctorStep r b with
    | .error e => .error e
    | .ok r' => applyAsyncCross bs r'

/-! ### the call -/

inductive ReqArg where
  | none                  -- `request=None`
  | inst (r : Val)        -- a request object
  | dict (r : Val)        -- a dict
deriving Repr, DecidableEq

def ReqArg.isGiven : ReqArg → Bool
  | .none => false
  | _ => true

/-- `has_flattened_params`: `len([p for p in flattened_params if p is not None]) > 0` -/
def hasFlattened (bs : List Bound) : Bool := bs.any (fun b => given b.2)

/-- A same-package request may contain raw protobuf sub-messages (FieldMask, google.rpc.Status, an
IAM Policy, …): `request.a.b` then IS the protobuf object and protobuf's own assignment rules apply to
`request.a.b.<field> = x` — scalars may be assigned, a repeated/map field or a message field may not
(AttributeError).  `.extend` / `.update` are allowed.  Since `fix:` 9d33fc0 BOTH clients extend / update
a repeated/map key of a raw owner, so the statement executed for a given key fails only for a singular
message field (`request.op.error = error`), in both clients alike. -/
def rawAssignFails (_asy : Bool) (b : Bound) : Bool :=
  given b.2 && b.1.rawOwner && !b.1.repeated && b.1.isMsg

/-- A key whose terminal field lies INSIDE a marshalled well-known type (`ttl.seconds`, `wrapped.value`,
`meta.fields`, `lv.values`): `request.ttl` is a `timedelta` (read-only attributes) or `None` — the statement
`request.ttl.seconds = seconds` / `request.lv.values.extend(values)` raises AttributeError whenever it is
executed: for a singular key when the argument is given, for a repeated/map key (owner never proto-plus: always
the `if x:` pass) when it is non-empty. -/
def marshalFails (b : Bound) : Bool :=
  b.1.marshalOwner && (if b.1.repeated then truthy b.2 else given b.2)

/-- the clients that execute `request.<key> …` statements: both for a same-package request, only the sync
client otherwise (the asyncio client calls the constructor) -/
def appliesByAttr (samePkg asy : Bool) : Bool := samePkg || !asy

/-- The emitted method up to (not including) the transport call: the request it would send.
`asy` selects the asyncio client. -/
def call (samePkg asy : Bool) (req : ReqArg) (bs : List Bound) : Except CallErr Val :=
  if req.isGiven && hasFlattened bs then .error .valueError
  else if samePkg && bs.any (rawAssignFails asy) then .error .attributeError
  else if appliesByAttr samePkg asy && bs.any marshalFails then .error .attributeError
  else
    match samePkg, asy, req with
    -- same package, sync: `if not isinstance(request, T): request = T(request); <apply>`
    | true, false, .inst r => .ok r
    | true, false, .dict r => .ok (applySync true bs r)
    | true, false, .none => .ok (applySync true bs .mnil)
    -- same package, async: coerce, then apply unconditionally
    | true, true, .inst r => .ok (applyAsyncSame bs r)
    | true, true, .dict r => .ok (applyAsyncSame bs r)
    | true, true, .none => .ok (applyAsyncSame bs .mnil)
    -- different package: `if isinstance(request, dict): T(**request)  elif not request: …`
    | false, _, .inst r => .ok r
    | false, _, .dict r => .ok r
    | false, false, .none => .ok (applySync false bs .mnil)
    | false, true, .none => applyAsyncCross bs .mnil

/-- what the transport (hence the server) sees: one request, or nothing at all when the method raised -/
def sent (samePkg asy : Bool) (req : ReqArg) (bs : List Bound) : List Val :=
  match call samePkg asy req bs with
  | .ok r => [r]
  | .error _ => []

/-! ## 0. Packages: the two booleans of the templates, derived -/

/-- `api.naming`: the proto package of the API being generated and the option `proto-plus-deps` -/
structure Naming where
  protoPackage : String
  protoPlusDeps : List String
deriving Repr, DecidableEq

/-- `Address.is_proto_plus_type`: `self.proto_package.startswith(self.api_naming.proto_package) or
self.proto_package in self.api_naming.proto_plus_deps` — a STRING prefix (`acme.lib.v1beta` "starts with"
`acme.lib.v1`), packages written dotted as in the descriptor. -/
def isProtoPlusType (n : Naming) (pkg : String) : Bool :=
  n.protoPackage.toList.isPrefixOf pkg.toList || n.protoPlusDeps.contains pkg

/-- `method.input.ident.package != method.ident.package` (`Address.package` is the tuple of the dotted package
of the declaring file: two tuples differ iff the dotted strings differ) -/
def crossPkgOf (inputPkg svcPkg : String) : Bool := inputPkg != svcPkg

/-- a message with the package of the file declaring it -/
structure PMsg where
  pkg : String
  full : String
  fields : List Field
deriving Repr, DecidableEq

def PMsg.toMsgDef (n : Naming) (m : PMsg) : MsgDef := ⟨m.full, isProtoPlusType n m.pkg, m.fields⟩

/-- `Method.flattened_fields` of a method of a service declared in package `svcPkg` -/
def mappingOf (n : Naming) (svcPkg : String) (sch : List PMsg) (input : PMsg) (sigs : List String) :
    Except GenErr (List Entry) :=
  fieldsMapping (sch.map (PMsg.toMsgDef n)) (crossPkgOf input.pkg svcPkg) (input.toMsgDef n) sigs

/-- the emitted method of a service declared in `svcPkg` whose request type is declared in `inputPkg` -/
def callOf (svcPkg inputPkg : String) (asy : Bool) (req : ReqArg) (bs : List Bound) : Except CallErr Val :=
  call (!crossPkgOf inputPkg svcPkg) asy req bs

end GapicModel.Model.Flatten
