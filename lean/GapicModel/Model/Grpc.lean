import GapicModel.Regex.Match
import GapicModel.Pinned.CharClass
import GapicModel.Pinned.Regexes
import GapicModel.Pinned.Tables
/-
C03 — the gRPC call path of an emitted client.

Follows, side by side:
* gapic/utils/case.py: to_snake_case (the four `re.sub` calls run through the regex engine on the
  PINNED patterns `snake1..snake4`, then `str.lower`);
* gapic/schema/wrappers.py: Method.client_method_name, Method.transport_safe_name,
  Method.grpc_stub_type, Method.void, Method._client_output (void / streaming / plain only);
* gapic/schema/metadata.py: Address.is_proto_plus_type, Address.python_import (module part),
  Address.__str__ (module part);
* transports/grpc.py.j2 and grpc_asyncio.py.j2: the class body (member ORDER matters: a later
  definition of the same attribute name wins), the per-method stub property (path string, stub
  kind, `serialize`/`SerializeToString` chosen by `python_import.module.endswith('_pb2')`);
* transports/base.py.j2 and _shared_macros.j2: `_prep_wrapped_messages` (evaluates `self.<key>` for
  every method when the transport is constructed);
* _client_macros.j2: client_method and async_client.py.j2 (request coercion, lookup of the wrapped
  method by `self._transport.<key>`, `response = ` only when not void, `await` only when not
  server-streaming).

What of the anchor files is NOT represented here (each is a hypothesis of harness/props/c03.py or
belongs to another property):
* _client_macros.j2 / async_client.py.j2: the flattened-parameter block (`has_flattened_params`, the
  per-field assignments; C05), `create_metadata` / api-version header / auto-populated uuid4 fields
  (C06, C18), the deprecation warning, LRO / pager / extended-operation wrapping of the response and
  the `_unary` twin (C07, C08), `_validate_universe_domain`; positional vs keyword `request` and the
  caller's `metadata` passing through are checked by T3 directly (no logic to model);
* base.py.j2: credentials/scopes/host handling of `__init__`, retry/timeout defaults of
  `_prep_wrapped_messages` (C09), mixin entries of the wrapped table (C17: only their NAMES appear,
  as members defined after the stubs);
* grpc.py.j2 / grpc_asyncio.py.j2: `create_channel`, mTLS / SSL branches of `__init__`, the logging
  interceptor, `operations_client`, the legacy IAM stubs (`opts.add_iam_methods`);
* wrappers.py: `Method._client_output` for LRO / extended LRO / paged methods, `is_internal`
  (`make_private`, C16), `Method.client_method_name` for internal methods;
* metadata.py: `module_alias` (given as a parameter, computed by C12), `convert_to_versioned_package`
  (only the proto-plus/pb2 DECISION of `python_import` is modelled, not the import path);
* non-ASCII RPC names (`str.lower` is modelled on ASCII); gRPC itself.
-/
namespace GapicModel.Model.Grpc
open GapicModel.Regex

abbrev Str := List Char

/-! ### Names -/

/-- `str.lower()` on ASCII -/
def lowerChar (c : Char) : Char :=
  if 65 ≤ c.toNat ∧ c.toNat ≤ 90 then Char.ofNat (c.toNat + 32) else c

def lower (s : Str) : Str := s.map lowerChar

/-- `utils.to_snake_case`: four substitutions, then `.lower()` -/
def snakeSubs (s : Str) : Str :=
  let t := Pinned.classTables
  let s1 := pySub t Pinned.snake1.re Pinned.snake1Repl s
  let s2 := pySub t Pinned.snake2.re Pinned.snake2Repl s1
  let s3 := pySub t Pinned.snake3.re Pinned.snake3Repl s2
  pySub t Pinned.snake4.re Pinned.snake4Repl s3

def snake (s : Str) : Str := lower (snakeSubs s)

/-- the two tables consulted by `client_method_name` / `transport_safe_name` -/
structure Tables where
  kw : List Str            -- keyword.kwlist
  unsafeExtra : List Str   -- the set literal inside `transport_safe_name`
deriving Repr, DecidableEq

def pinnedTables : Tables :=
  ⟨Pinned.pyKeywords.map String.toList, Pinned.transportUnsafeExtra.map String.toList⟩

/-- `Method.client_method_name` (for `is_internal = False`):
`self.name + "_" if self.name.lower() in keyword.kwlist else self.name` -/
def clientMethodName (T : Tables) (name : Str) : Str :=
  if T.kw.contains (lower name) then name ++ ['_'] else name

/-- `Method.transport_safe_name`:
`f"{self.name}_" if self.name.lower() in chain({...}, keyword.kwlist) else self.name` -/
def transportSafeName (T : Tables) (name : Str) : Str :=
  if (T.unsafeExtra ++ T.kw).contains (lower name) then name ++ ['_'] else name

/-! ### Addresses: proto-plus or pb2 -/

/-- `metadata.Address` as far as the call path reads it -/
structure Addr where
  package : List Str      -- proto package, split at dots
  module : Str            -- proto file stem
  parent : List Str       -- enclosing messages
  name : Str
  alias : Str := []       -- `module_alias` ("" = none); computed elsewhere (C12), given here
deriving Repr, DecidableEq

/-- `naming.Naming` as far as the call path reads it -/
structure Naming where
  protoPackage : Str
  protoPlusDeps : List Str := []
deriving Repr, DecidableEq

def dotted : List Str → Str
  | [] => []
  | [a] => a
  | a :: b :: r => a ++ '.' :: dotted (b :: r)

/-- `proto_package.startswith(api_naming.proto_package)` — a STRING prefix test -/
def inApi (n : Naming) (a : Addr) : Bool := n.protoPackage.isPrefixOf (dotted a.package)

/-- `Address.is_proto_plus_type` -/
def isProtoPlus (n : Naming) (a : Addr) : Bool :=
  inApi n a || n.protoPlusDeps.contains (dotted a.package)

/-- `Address.python_import.module` -/
def importModule (n : Naming) (a : Addr) : Str :=
  if inApi n a then a.module
  else if isProtoPlus n a then a.module
  else a.module ++ ['_', 'p', 'b', '2']

/-- module part of `str(ident)` (`Address.__str__`) -/
def identModule (n : Naming) (a : Addr) : Str :=
  if isProtoPlus n a then (if a.alias ≠ [] then a.alias else a.module)
  else a.module ++ ['_', 'p', 'b', '2']

/-- which family of (de)serialisation attributes exists on a class -/
inductive Codec where
  | plus    -- proto-plus: `serialize` / `deserialize`
  | pb2     -- protobuf:   `SerializeToString` / `FromString`
deriving Repr, DecidableEq

def endsWithPb2 (s : Str) : Bool := ['_', 'p', 'b', '2'].isSuffixOf s

/-- the attribute the stub template writes:
`{% if ident.python_import.module.endswith('_pb2') %}SerializeToString{% else %}serialize{% endif %}` -/
def templCodec (n : Naming) (a : Addr) : Codec :=
  if endsWithPb2 (importModule n a) then .pb2 else .plus

/-- the class the identifier denotes at run time: the import line written from `python_import`
brings in a generated `types` module (proto-plus classes) exactly when `is_proto_plus_type`. -/
def runtimeClass (n : Naming) (a : Addr) : Codec :=
  if isProtoPlus n a then .plus else .pb2

/-! ### Methods, services, stubs -/

structure Method where
  name : Str
  input : Addr
  output : Addr
  clientStreaming : Bool
  serverStreaming : Bool
deriving Repr, DecidableEq

structure Service where
  package : List Str        -- `method.meta.address.package` (the proto package of the file)
  name : Str
  methods : List Method
  hasLro : Bool := false
  mixins : List Str := []   -- keys of `api.mixin_api_methods`
deriving Repr, DecidableEq

/-- `Address.proto` -/
def protoName (a : Addr) : Str := dotted (a.package ++ a.parent ++ [a.name])

/-- `Method.void` -/
def isVoid (m : Method) : Bool := protoName m.output == ['g', 'o', 'o', 'g', 'l', 'e', '.', 'p', 'r', 'o', 't', 'o', 'b', 'u', 'f', '.', 'E', 'm', 'p', 't', 'y']

def arity (streaming : Bool) : Str := if streaming then ['s', 't', 'r', 'e', 'a', 'm'] else ['u', 'n', 'a', 'r', 'y']

/-- `Method.grpc_stub_type` -/
def stubKind (m : Method) : Str := arity m.clientStreaming ++ '_' :: arity m.serverStreaming

/-- `'/{{ '.'.join(method.meta.address.package) }}.{{ service.name }}/{{ method.name }}'` -/
def rpcPath (svc : Service) (m : Method) : Str :=
  '/' :: dotted svc.package ++ '.' :: svc.name ++ '/' :: m.name

/-- attribute name of the stub property in base.py.j2, grpc.py.j2, grpc_asyncio.py.j2 and key in `_stubs` -/
def stubKey (T : Tables) (m : Method) : Str := snake (transportSafeName T m.name)

/-- attribute the client reads: `self._transport.{{ method.transport_safe_name|snake_case }}` -/
def clientLookupKey (T : Tables) (m : Method) : Str := snake (transportSafeName T m.name)

/-- name of the emitted client method: `method.client_method_name|snake_case` -/
def clientAttr (T : Tables) (m : Method) : Str := snake (clientMethodName T m.name)

/-- `method.input.ident.package != method.ident.package` (tuple comparison) -/
def diffPackage (svc : Service) (m : Method) : Bool := m.input.package != svc.package

structure Stub where
  path : Str
  kind : Str
  reqAttr : Codec      -- attribute family written by the template for the request serializer
  reqClass : Codec     -- class family of the request identifier at run time
  respAttr : Codec
  respClass : Codec
deriving Repr, DecidableEq

def mkStub (n : Naming) (svc : Service) (m : Method) : Stub :=
  { path := rpcPath svc m, kind := stubKind m,
    reqAttr := templCodec n m.input, reqClass := runtimeClass n m.input,
    respAttr := templCodec n m.output, respClass := runtimeClass n m.output }

/-- what an attribute of the transport instance evaluates to -/
inductive Member where
  | stub (s : Stub)        -- a stub property
  | boundMethod            -- `close`, `create_channel`
  | value                  -- a property returning a non-callable: `kind`, `grpc_channel`, `operations_client`
  | mixinStub              -- a stub of a mixin RPC (C17)
deriving Repr, DecidableEq

/-- Body of `class <Service>GrpcTransport` / `<Service>GrpcAsyncIOTransport`, in source order (the
asyncio class puts the mixins after `kind`; only the relative order of EQUAL names matters).
Members of the base class are shadowed by any member of the subclass and are left out. -/
def members (T : Tables) (n : Naming) (svc : Service) : List (Str × Member) :=
  [(['c', 'r', 'e', 'a', 't', 'e', '_', 'c', 'h', 'a', 'n', 'n', 'e', 'l'], .boundMethod), (['g', 'r', 'p', 'c', '_', 'c', 'h', 'a', 'n', 'n', 'e', 'l'], .value)] ++
  (if svc.hasLro then [(['o', 'p', 'e', 'r', 'a', 't', 'i', 'o', 'n', 's', '_', 'c', 'l', 'i', 'e', 'n', 't'], .value)] else []) ++
  svc.methods.map (fun m => (stubKey T m, .stub (mkStub n svc m))) ++
  [(['c', 'l', 'o', 's', 'e'], .boundMethod)] ++
  svc.mixins.map (fun x => (snake x, .mixinStub)) ++
  [(['k', 'i', 'n', 'd'], .value)]

/-- attribute lookup on a class body: the LAST definition of a name wins -/
def lastDef {α : Type} : List (Str × α) → Str → Option α
  | [], _ => none
  | (k, v) :: r, key =>
    match lastDef r key with
    | some w => some w
    | none => if k = key then some v else none

inductive Err where
  | attributeError     -- missing attribute (serializer family absent on the class; `__name__` of a str)
  | typeError          -- a non-stub called with (request, retry=, timeout=, metadata=)
  | badArgument        -- `request=` given to a client-streaming method or `requests=` to a unary one (outside the model)
deriving Repr, DecidableEq

/-- evaluating one key of the `_wrapped_methods` dict literal at construction time -/
def prepOne (ms : List (Str × Member)) (key : Str) : Except Err Unit :=
  match lastDef ms key with
  | none => .error .attributeError
  | some (.stub s) =>
      -- evaluating the property builds the stub: `Ident.<attr>` must exist on the class
      if s.reqAttr = s.reqClass ∧ s.respAttr = s.respClass then .ok () else .error .attributeError
  | some .boundMethod => .ok ()           -- `wrap_method(self.close)` succeeds
  | some .mixinStub => .ok ()
  | some .value => .error .attributeError -- `wrap_method("grpc")`: 'str' object has no attribute '__name__'

def prepAll (ms : List (Str × Member)) : List Str → Except Err Unit
  | [] => .ok ()
  | k :: r => match prepOne ms k with
    | .ok () => prepAll ms r
    | .error e => .error e

/-- `_prep_wrapped_messages`, called from the transport's `__init__` -/
def construct (T : Tables) (n : Naming) (svc : Service) : Except Err Unit :=
  prepAll (members T n svc) (svc.methods.map (stubKey T))

/-! ### Request coercion -/

/-- how the caller passes the request -/
inductive Arg (μ δ : Type) where
  | omitted                  -- `request=None`
  | dict (d : δ)             -- a mapping
  | inst (x : μ)             -- a message instance
  | iter (xs : List μ)       -- `requests=` iterator (client-streaming methods)
deriving Repr, DecidableEq

/-- the message class as the coercion code uses it -/
structure MsgOps (μ δ : Type) where
  empty : μ                  -- `T()` / `T(None)`
  ofDict : δ → μ             -- `T(mapping)` (proto-plus) / `T(**mapping)`

/-- the coercion block of `client_method` / async_client.py.j2 (since fix 59b2075):
same package:      `if not isinstance(request, T): request = T(request)`
different package: `if isinstance(request, dict): request = T(**request)  elif request is None: request = T()`
An instance is kept as it is in both branches (before the fix the second branch tested
`elif not request:` and replaced a falsy instance by `T()`). -/
def coerce {μ δ : Type} (ops : MsgOps μ δ) (_diffPkg : Bool) : Arg μ δ → μ
  | .omitted => ops.empty
  | .dict d => ops.ofDict d
  | .inst x => x
  | .iter _ => ops.empty     -- not reached (see `runCall`)

/-! ### One client call -/

inductive Flavor where
  | sync | async
deriving Repr, DecidableEq

/-- one call observed on the channel -/
structure ChannelCall (μ : Type) where
  path : Str
  kind : Str
  sent : List μ
deriving Repr, DecidableEq

/-- what the client method hands back -/
inductive Ret (ρ : Type) where
  | none                       -- `None`
  | value (r : ρ)
  | stream (rs : List ρ)
  | rpcError                   -- a unary-response RPC answered with ≠ 1 message (outside the property)
deriving Repr, DecidableEq

structure Trace (μ ρ : Type) where
  calls : List (ChannelCall μ)
  ret : Ret ρ
deriving Repr, DecidableEq

/-- the emitted client class: the LAST method definition with a given name wins -/
def clientResolve (T : Tables) (svc : Service) (attr : Str) : Option Method :=
  lastDef (svc.methods.map (fun m => (clientAttr T m, m))) attr

/-- `{% if not method.void %}response = {% endif %}{% if not method.server_streaming %}await {% endif %}rpc(...)`.
The sync method always invokes the multi-callable.  The asyncio method of a VOID RPC drops what
`rpc(...)` gives back: for a server-streaming RPC that is a coroutine which is never awaited (it
never runs); for a client-streaming RPC `await rpc(requests)` only waits for the connection
(`grpc_helpers_async._wrap_stream_errors`) and the `StreamUnaryCall` is released without being
awaited, so the request iterator is never drained and the RPC is cancelled.  Only the unary-unary
wrapper awaits the call itself. -/
def issued (fl : Flavor) (m : Method) : Bool :=
  match fl with
  | .sync => true
  | .async => !(isVoid m && (m.serverStreaming || m.clientStreaming))

/-- `_client_output` + the tail of the method body (plain methods only) -/
def clientReturn {ρ : Type} (m : Method) (replies : List ρ) : Ret ρ :=
  if isVoid m then .none
  else if m.serverStreaming then .stream replies
  else match replies with
    | [r] => .value r
    | _ => .rpcError

/-- construct the transport, then `getattr(client, clientAttr m)(arg)` against a server that
answers with `replies`. -/
def runCall {μ δ ρ : Type} (T : Tables) (n : Naming) (ops : MsgOps μ δ) (fl : Flavor)
    (svc : Service) (m : Method) (arg : Arg μ δ) (replies : List ρ) : Except Err (Trace μ ρ) :=
  match construct T n svc with
  | .error e => .error e
  | .ok () =>
    match clientResolve T svc (clientAttr T m) with
    | none => .error .attributeError
    | some m' =>
      match lastDef (members T n svc) (clientLookupKey T m') with
      | none => .error .attributeError
      | some .value => .error .typeError
      | some .boundMethod => .error .typeError       -- `close(request, retry=…, timeout=…, metadata=…)`
      | some .mixinStub => .error .typeError         -- outside the model (C17)
      | some (.stub s) =>
        let sent : Except Err (List μ) :=
          match m'.clientStreaming, arg with
          | true, .iter xs => .ok xs
          | true, _ => .error .badArgument
          | false, .iter _ => .error .badArgument
          | false, a => .ok [coerce ops (diffPackage svc m') a]
        match sent with
        | .error e => .error e
        | .ok xs =>
          .ok { calls := if issued fl m' then [⟨s.path, s.kind, xs⟩] else [],
                ret := clientReturn m' replies }

/-! ### The stub cache and channel identity

`self._stubs` maps a stub key to a multi-callable that is BOUND to the channel it was created on.
`__init__` of both gRPC transports executes `self._stubs = {}` (an instance attribute shadowing the
class-level `_stubs` of the asyncio transport), then `_prep_wrapped_messages` evaluates every stub
property:  `if key not in self._stubs: self._stubs[key] = self._logged_channel.<kind>(…)`. -/

/-- key ↦ identity of the channel the cached multi-callable is bound to -/
abbrev StubCache := List (Str × Nat)

/-- a stub property read on a transport whose channel is `chan` -/
def getStub (cache : StubCache) (key : Str) (chan : Nat) : StubCache × Nat :=
  match cache.lookup key with
  | some c => (cache, c)
  | none => ((key, chan) :: cache, chan)

/-- `_prep_wrapped_messages` on a cache: touches every key in order -/
def prepCache (cache : StubCache) (keys : List Str) (chan : Nat) : StubCache :=
  keys.foldl (fun c k => (getStub c k chan).1) cache

/-- a transport instance as `__init__` leaves it: a FRESH cache filled on its own channel -/
def initTransport (keys : List Str) (chan : Nat) : StubCache := prepCache [] keys chan

/-- channel on which a call through `key` is issued by a transport with cache `cache` -/
def callChannel (cache : StubCache) (key : Str) (chan : Nat) : Nat := (getStub cache key chan).2

end GapicModel.Model.Grpc
