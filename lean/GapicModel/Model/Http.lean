import GapicModel.Pinned.Tables
/-
C04 — generator side of REST transcoding.

  gapic/utils/uri_conv.py         convert_uri_fieldnames          → `convertUri`
  gapic/schema/wrappers.py        Field.name                      → `fixSeg` (proto-plus types)
                                  HttpRule.try_parse_http_rule    → `parseHttpRule`
                                  Method.http_options             → `httpOptions`
                                  Method.http_opt / path_params   → `httpOpt`, `pathParams`
                                  Method.query_params             → `queryParams`
  rest_base.py.j2                 __REQUIRED_FIELDS_DEFAULT_VALUES → `requiredDefaults`
  gapic/utils/case.py             to_camel_case                   → `camelKey` (lower snake_case names)
  protobuf                        ToJsonName                      → `toJsonName` (external; T2/T3)

Strings are `List Char`.  The model FOLLOWS THE CODE: `queryParams` reads the *primary* binding only and sees only top-level
`{word}` variables of the *un-rewritten* url (disambiguated before the comparison since 151ee10).
-/
namespace GapicModel.Model.Http

abbrev Str := List Char

/-! ### reserved names -/

def reserved : List Str := Pinned.reservedNames.map String.toList

/-- `Field.name` for proto-plus messages / `_fix_name_segment` of uri_conv.py -/
def fixSeg (s : Str) : Str := if s ∈ reserved then s ++ ['_'] else s

/-- inverse used by the theorems: strip the underscore `fixSeg` may have added -/
def unfixSeg (s : Str) : Str :=
  match s.getLast? with
  | some '_' => if s.dropLast ∈ reserved then s.dropLast else s
  | _ => s

/-- `str.split(sep)` -/
def splitOn (sep : Char) : Str → List Str
  | [] => [[]]
  | c :: cs =>
    if c = sep then [] :: splitOn sep cs
    else match splitOn sep cs with
      | [] => [[c]]
      | h :: t => (c :: h) :: t

/-- `sep.join(xs)` -/
def joinWith (sep : Char) : List Str → Str
  | [] => []
  | [x] => x
  | x :: y :: r => x ++ sep :: joinWith sep (y :: r)

/-- `_fix_field_path` -/
def fixFieldPath (p : Str) : Str := joinWith '.' ((splitOn '.' p).map fixSeg)
def unfixFieldPath (p : Str) : Str := joinWith '.' ((splitOn '.' p).map unfixSeg)

/-! ### `path_template._VARIABLE_RE.finditer` (named alternatives only; `*`/`**` stay text)

`\{(?P<name>[^/]+?)(?:=(?P<template>.+?))?\}` with CPython's priorities: the name is extended one
character at a time; after each extension the greedy optional group `=template` is tried first. -/

inductive Piece where
  | text (s : Str)
  | var (name : Str) (tmpl : Option Str)
deriving Repr, DecidableEq

/-- after the first character of `.+?`: the shortest continuation up to a `}` on the same line -/
def lazyGo (acc : Str) : Str → Option (Str × Str)
  | [] => none
  | d :: ds =>
    if d = '}' then some (acc.reverse, ds)
    else if d = '\n' then none
    else lazyGo (d :: acc) ds

/-- `(.+?)\}` at the given input: (template, rest after `}`) -/
def lazyTmpl : Str → Option (Str × Str)
  | [] => none
  | c :: cs => if c = '\n' then none else lazyGo [c] cs

/-- after `{`: `acc` = name read so far (reversed). Result: (name, template, rest after `}`). -/
def scanName (acc : Str) : Str → Option (Str × Option Str × Str)
  | [] => none
  | c :: cs =>
    let here : Option (Str × Option Str × Str) :=
      if acc = [] then none
      else if c = '=' then (lazyTmpl cs).map (fun (tm, rest) => (acc.reverse, some tm, rest))
      else if c = '}' then some (acc.reverse, none, cs)
      else none
    match here with
    | some r => some r
    | none => if c = '/' then none else scanName (c :: acc) cs

def flush (lit : Str) (ps : List Piece) : List Piece :=
  if lit = [] then ps else .text lit.reverse :: ps

/-- `lit` = pending literal text (reversed); fuel ≥ length of the input + 1 -/
def scanF : Nat → Str → Str → List Piece
  | 0, lit, _ => flush lit []
  | _ + 1, lit, [] => flush lit []
  | f + 1, lit, c :: cs =>
    if c = '{' then
      match scanName [] cs with
      | some (n, tm, rest) => flush lit (.var n tm :: scanF f [] rest)
      | none => scanF f (c :: lit) cs
    else scanF f (c :: lit) cs

def scan (s : Str) : List Piece := scanF (s.length + 1) [] s

def render : List Piece → Str
  | [] => []
  | .text s :: r => s ++ render r
  | .var n none :: r => '{' :: n ++ '}' :: render r
  | .var n (some t) :: r => '{' :: n ++ '=' :: t ++ '}' :: render r

def fixPiece : Piece → Piece
  | .text s => .text s
  | .var n t => .var (fixFieldPath n) t

def unfixPiece : Piece → Piece
  | .text s => .text s
  | .var n t => .var (unfixFieldPath n) t

/-- `convert_uri_fieldnames` -/
def convertUri (uri : Str) : Str := render ((scan uri).map fixPiece)

/-- dotted variable names of a template, split -/
def varPaths : List Piece → List (List Str)
  | [] => []
  | .text _ :: r => varPaths r
  | .var n _ :: r => splitOn '.' n :: varPaths r

def texts : List Piece → List Str
  | [] => []
  | .text s :: r => s :: texts r
  | .var _ t :: r => (t.getD []) :: texts r

/-! ### `Method.path_params`: `re.findall(r"\{(\w+)(?:=.+?)?\}", url)` (ASCII `\w`) -/

def isWord (c : Char) : Bool := c.isAlphanum || c = '_'

def pathParamsF : Nat → Str → List Str
  | 0, _ => []
  | _ + 1, [] => []
  | f + 1, c :: cs =>
    if c = '{' then
      let w := cs.takeWhile isWord
      let r := cs.dropWhile isWord
      if w = [] then pathParamsF f cs
      else match r with
        | '=' :: t =>
          (match lazyTmpl t with
           | some (_, rest) => w :: pathParamsF f rest
           | none => pathParamsF f cs)
        | '}' :: rest => w :: pathParamsF f rest
        | _ => pathParamsF f cs
    else pathParamsF f cs

def pathParams (url : Str) : List Str := pathParamsF (url.length + 1) url

/-! ### http rules -/

/-- a `google.api.HttpRule` as far as the generator reads it -/
structure RulePb where
  pattern : Option Str      -- `WhichOneof("pattern")`: none, "get" … "patch", "custom"
  uri : Str                 -- value of that member (irrelevant for custom)
  body : Str                -- "" when unset
deriving Repr, DecidableEq

structure HttpRule where
  method : Str
  uri : Str
  body : Option Str
deriving Repr, DecidableEq

/-- `body = http_rule.body or None; if body in RESERVED_NAMES: body += "_"` (since the C04 `fix:` commit
3aedaba also for the reserved word that ends in an underscore) -/
def fixBody (b : Str) : Option Str :=
  if b = [] then none
  else if b ∈ reserved then some (b ++ ['_'])
  else some b

/-- `HttpRule.try_parse_http_rule` -/
def parseHttpRule (r : RulePb) : Option HttpRule :=
  match r.pattern with
  | none => none
  | some p =>
    if p = ['c', 'u', 's', 't', 'o', 'm'] then none
    else if r.uri = [] then none
    else some ⟨p, convertUri r.uri, fixBody r.body⟩

inductive Kind where
  | str | bytes | bool | float | int | enum | msg
deriving Repr, DecidableEq

/-- how a field tracks presence: plain proto3 scalar (none), proto3 `optional` (a *synthetic* one-member
oneof `_<field>`; `Field.oneof` is set for it too), member of a real `oneof`.  The defaults table of
`rest_base.py.j2` never looks at it. -/
inductive Presence where
  | implicit | optional | oneofMember
deriving Repr, DecidableEq

structure FieldD where
  name : Str                -- proto field name
  kind : Kind
  repeated : Bool
  required : Bool           -- google.api.field_behavior = REQUIRED
  presence : Presence       -- carried for the statement only: no function of the model reads it
deriving Repr, DecidableEq

structure MethodD where
  http : RulePb                     -- `options.Extensions[annotations_pb2.http]` (all-default when absent)
  additional : List RulePb          -- its `additional_bindings`
  fields : List FieldD              -- `input.fields` in declaration order
  clientStreaming : Bool
deriving Repr, DecidableEq

/-- names under which the emitted (proto-plus) request class knows its fields: `Field.name` -/
def rtNames (m : MethodD) : List Str := m.fields.map (fun f => fixSeg f.name)

/-- `Method.http_options` -/
def httpOptions (m : MethodD) : List HttpRule := (m.http :: m.additional).filterMap parseHttpRule

/-- `Method.http_opt` for a primary rule with one of the five verbs: (url, body). The url is the RAW
annotation text.  (`custom`/absent primary patterns are outside the model: `none`.) -/
def httpOpt (m : MethodD) : Option (Str × Option Str) :=
  match m.http.pattern with
  | none => none
  | some p =>
    if p = ['c', 'u', 's', 't', 'o', 'm'] then none
    else some (m.http.uri, if m.http.body = [] then none else some m.http.body)

/-- `Method.query_params`: `set(self.input.fields) - ({fix(p) for p in path_params} | {body})`, or nothing for
`*`.  Since the C04 `fix:` commit 151ee10 the path variable names are disambiguated like the field names
before the subtraction; the body name still is not (a body is a message: its `{}` default is never sent). -/
def queryParams (m : MethodD) : List Str :=
  match httpOpt m with
  | none => []
  | some (url, body) =>
    if body = some ['*'] then []
    else (rtNames m).filter (fun n => !((pathParams url).map fixSeg).contains n && !(body == some n))

/-! ### names on the wire -/

/-- protobuf `ToJsonName`: drop `_`, upper-case the character that follows -/
def jsonAux : Bool → Str → Str
  | _, [] => []
  | up, c :: cs =>
    if c = '_' then jsonAux true cs
    else (if up then c.toUpper else c) :: jsonAux false cs

def toJsonName (s : Str) : Str := jsonAux false s

def lower (s : Str) : Str := s.map Char.toLower

/-- `str.capitalize()` (ASCII) -/
def capitalize : Str → Str
  | [] => []
  | c :: cs => c.toUpper :: lower cs

/-- `to_camel_case` on a name for which `to_snake_case` is the identity (lower snake_case):
`items = re.split("[_-]", s); items[0].lower() + "".join(x.capitalize() for x in items[1:])` -/
def camelItems : List Str → Str
  | [] => []
  | h :: t => lower h ++ (t.map capitalize).flatten

def camelKey (s : Str) : Str := camelItems (splitOn '_' s)

def LowerSnake (s : Str) : Prop := ∀ c ∈ s, c = '_' ∨ c.isLower = true ∨ c.isDigit = true

/-! ### `__REQUIRED_FIELDS_DEFAULT_VALUES` -/

/-- the rendered default as it reaches the query string through `flatten_query_params(strict=True)`;
`none` = the template writes `{}`, which flattens to nothing.
(`bytes(0)` renders as `b''`; `bool(0)` as `False` → "false"; `float(0)` → "0.0".) -/
def defaultText : Kind → Option Str
  | .str => some []
  | .bytes => some ['b', '\'', '\'']
  | .bool => some ['f', 'a', 'l', 's', 'e']
  | .float => some ['0', '.', '0']
  | .int => some ['0']
  | .enum => none
  | .msg => none

/-- for required fields (repeated ones included) whose (disambiguated) name is in `query_params`:
(lowerCamel key, default of the element kind) -/
def requiredDefaults (m : MethodD) : List (Str × Option Str) :=
  (m.fields.filter (fun f => f.required && (queryParams m).contains (fixSeg f.name))).map
    (fun f => (camelKey (fixSeg f.name), defaultText f.kind))

/-- the same method with every field's presence kind replaced -/
def MethodD.withPresence (m : MethodD) (g : FieldD → Presence) : MethodD :=
  { m with fields := m.fields.map (fun f => { f with presence := g f }) }

/-- a table that skips fields with `Field.oneof` set (proto3 `optional` fields and members of a real oneof):
NOT what the code does — the variant `required_defaults_skipping_oneof_counterexample` refutes -/
def requiredDefaultsSkippingOneof (m : MethodD) : List (Str × Option Str) :=
  (m.fields.filter (fun f => f.required && (queryParams m).contains (fixSeg f.name) && f.presence == .implicit)).map
    (fun f => (camelKey (fixSeg f.name), defaultText f.kind))

end GapicModel.Model.Http
