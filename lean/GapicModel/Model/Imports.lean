import GapicModel.Model.Transports
import GapicModel.PyRt
/-
C01 — which modules of the emitted package import which (the import statements BETWEEN emitted modules), and
which rendered files are dropped as empty.

Modelled (default template set, `gapic/templates/%namespace/%name_%version/%sub/services/%service/…`):
  * the twelve modules a service contributes (`SMod`): `__init__`, `client`, `async_client`, `pagers`,
    `transports/{__init__, base, grpc, grpc_asyncio, rest, rest_base, rest_asyncio}` and the package's
    `gapic_version`; their template names (members of the pinned template list) and their places below the
    service directory;
  * `imports o paged m`: the import statements of module `m` that name another module of the package, with the
    conditions the templates put on them (`{% if 'grpc' in opts.transport %}`, `{% if 'rest' in opts.transport %}`,
    `{% if rest_async_io_enabled %}`, the pager import that `method.flat_ref_types` contributes iff the service has
    a paged method), their spelling (relative with a level, or absolute) and whether they stand inside
    `try: … except ImportError` (`hard = false`);
  * `emitted o paged m`: the module is in the response — the service-level gates of `_render_template`
    (`Emit.serviceGate`) and, for `pagers.py`, the empty-module rule of `_get_file` (`pagers.py.j2` renders no
    statement iff the service has no paged method);
  * `resolveRel`: Python's resolution of `from .a.b import x` in a file of the package to a file name;
  * `svcInitExports` / `pkgInitWants`: the client names `services/<svc>/__init__.py` binds and the names the
    package `__init__.py` imports from it;
  * `moduleCollisions` / `protoNames` = the module part of `gapic/schema/api.py: Proto.names` (which imported module names get an
    alias: the ones used from two distinct proto packages anywhere in the file, or reserved);
  * `emptyContent` = `gapic/utils/code.py: empty` (no line has a first non-blank character other than `#`) and
    `keepFile` = the test at the end of `Generator._get_file`.

NOT modelled here: the imports of TYPE modules (`from <pkg>.types import <proto module>`; they are computed from
addresses: `Address.python_import`, modelled in `Model/Types.lean` (C02), `Model/Grpc.lean` (C03) and
`Model/Lro.lean` (C08)); the names bound versus the names used inside a module (NameError at import time: decided by
execution in the C01 check); `transports/base.py`'s import of the operations service of an extended-operations API;
the alternative (ads) template set; imports of third-party packages.
-/
namespace GapicModel.Model.Imports
open GapicModel.Model.Emit GapicModel.Model.Transports

/-- the modules one service contributes to the package (plus the package's `gapic_version`) -/
inductive SMod where
  | init | client | asyncClient | pagers | tInit | base | grpc | grpcAsyncio | rest | restBase | restAsyncio
  | gapicVersion
deriving Repr, DecidableEq

def SMod.all : List SMod :=
  [.init, .client, .asyncClient, .pagers, .tInit, .base, .grpc, .grpcAsyncio, .rest, .restBase, .restAsyncio, .gapicVersion]

def svcPrefix : Str :=
  ['%', 'n', 'a', 'm', 'e', 's', 'p', 'a', 'c', 'e', '/', '%', 'n', 'a', 'm', 'e', '_', '%', 'v', 'e', 'r', 's', 'i', 'o', 'n', '/', '%', 's', 'u', 'b', '/', 's', 'e', 'r', 'v', 'i', 'c', 'e', 's', '/', '%', 's', 'e', 'r', 'v', 'i', 'c', 'e', '/']

def pyJ2 : Str := ['.', 'p', 'y', '.', 'j', '2']

def sInit : Str := ['_', '_', 'i', 'n', 'i', 't', '_', '_']
def sClient : Str := ['c', 'l', 'i', 'e', 'n', 't']
def sAsyncClient : Str := ['a', 's', 'y', 'n', 'c', '_', 'c', 'l', 'i', 'e', 'n', 't']
def sPagers : Str := ['p', 'a', 'g', 'e', 'r', 's']
def sTransports : Str := ['t', 'r', 'a', 'n', 's', 'p', 'o', 'r', 't', 's']
def sBase : Str := ['b', 'a', 's', 'e']
def sRestBase : Str := ['r', 'e', 's', 't', '_', 'b', 'a', 's', 'e']
def sGapicVersion : Str := ['g', 'a', 'p', 'i', 'c', '_', 'v', 'e', 'r', 's', 'i', 'o', 'n']
def dotPy : Str := ['.', 'p', 'y']

/-- the template that renders the module (a member of the pinned template list: `template_mem` in Props/C01) -/
def SMod.template : SMod → Str
  | .init => svcPrefix ++ sInit ++ pyJ2
  | .client => svcPrefix ++ sClient ++ pyJ2
  | .asyncClient => svcPrefix ++ sAsyncClient ++ pyJ2
  | .pagers => svcPrefix ++ sPagers ++ pyJ2
  | .tInit => tpl sInit
  | .base => tpl sBase
  | .grpc => tpl Transports.grpc
  | .grpcAsyncio => tpl Transports.grpcAsyncio
  | .rest => tpl Transports.rest
  | .restBase => tpl sRestBase
  | .restAsyncio => tpl Transports.restAsyncio
  | .gapicVersion => ['%', 'n', 'a', 'm', 'e', 's', 'p', 'a', 'c', 'e', '/', '%', 'n', 'a', 'm', 'e', '_', '%', 'v', 'e', 'r', 's', 'i', 'o', 'n', '/', 'g', 'a', 'p', 'i', 'c', '_', 'v', 'e', 'r', 's', 'i', 'o', 'n', '.', 'p', 'y', '.', 'j', '2']

/-- dotted module path below the service package (`gapic_version`: below the versioned package root) -/
def SMod.modPath : SMod → Path
  | .init => [sInit]
  | .client => [sClient]
  | .asyncClient => [sAsyncClient]
  | .pagers => [sPagers]
  | .tInit => [sTransports, sInit]
  | .base => [sTransports, sBase]
  | .grpc => [sTransports, Transports.grpc]
  | .grpcAsyncio => [sTransports, Transports.grpcAsyncio]
  | .rest => [sTransports, Transports.rest]
  | .restBase => [sTransports, sRestBase]
  | .restAsyncio => [sTransports, Transports.restAsyncio]
  | .gapicVersion => [sGapicVersion]

/-- `a.b.c` → `a/b/c.py` -/
def withPy : Path → Path
  | [] => []
  | [x] => [x ++ dotPy]
  | x :: y :: r => x :: withPy (y :: r)

/-- file name below the service directory (`gapic_version`: below the versioned package root) -/
def SMod.rel (m : SMod) : Path := withPy m.modPath

/-- how an import statement names its module -/
inductive Anchor where
  | rel (level : Nat)      -- `from .x import y` (level 1), `from ..x import y` (level 2), …
  | svcAbs                 -- absolute, spelled from the service package: `from <pkg>[.<sub>].services.<svc> import pagers`
  | rootAbs                -- absolute, spelled from the versioned package root: `from <pkg> import gapic_version`
deriving Repr, DecidableEq

structure Imp where
  anchor : Anchor
  path : Path              -- the dotted module path after the anchor (the imported module itself)
  hard : Bool              -- false: inside `try: … except ImportError`
  target : SMod
deriving Repr, DecidableEq

def relTo (path : Path) (t : SMod) : Imp := ⟨.rel 1, path, true, t⟩

/-- the intra-package import statements of a service-level module.
`grpcIn` / `restIn` are the TEMPLATE tests `'grpc' in opts.transport` (list membership, not the substring test of
the generator's gates). -/
def imports (o : Opts) (paged : Bool) : SMod → List Imp
  | .init =>
    [relTo [sClient] .client] ++ (if o.transport.contains grpc then [relTo [sAsyncClient] .asyncClient] else [])
  | .client =>
    [⟨.rootAbs, [sGapicVersion], true, .gapicVersion⟩] ++
    (if paged then [⟨.svcAbs, [sPagers], true, .pagers⟩] else []) ++
    [relTo [sTransports, sBase] .base] ++
    (if o.transport.contains grpc then
      [relTo [sTransports, grpc] .grpc, relTo [sTransports, grpcAsyncio] .grpcAsyncio] else []) ++
    (if o.transport.contains rest then
      [relTo [sTransports, rest] .rest] ++
      (if o.restAsync then [⟨.rel 1, [sTransports, restAsyncio], false, .restAsyncio⟩] else []) else [])
  | .asyncClient =>
    [⟨.rootAbs, [sGapicVersion], true, .gapicVersion⟩] ++
    (if paged then [⟨.svcAbs, [sPagers], true, .pagers⟩] else []) ++
    [relTo [sTransports, sBase] .base, relTo [sTransports, grpcAsyncio] .grpcAsyncio, relTo [sClient] .client]
  | .pagers => []
  | .tInit =>
    [relTo [sBase] .base] ++
    (if o.transport.contains grpc then [relTo [grpc] .grpc, relTo [grpcAsyncio] .grpcAsyncio] else []) ++
    (if o.transport.contains rest then
      [relTo [rest] .rest] ++ (if o.restAsync then [⟨.rel 1, [restAsyncio], false, .restAsyncio⟩] else []) else [])
  | .base => [⟨.rootAbs, [sGapicVersion], true, .gapicVersion⟩]
  | .grpc => [relTo [sBase] .base]
  | .grpcAsyncio => [relTo [sBase] .base, relTo [grpc] .grpc]
  | .rest => [relTo [sRestBase] .restBase, relTo [sBase] .base]
  | .restBase => [relTo [sBase] .base]
  | .restAsyncio => [relTo [sRestBase] .restBase, relTo [sBase] .base]
  | .gapicVersion => []

/-- the module is in the response: the gates of `_render_template` and (for `pagers.py`) the empty-module rule -/
def emitted (o : Opts) (paged : Bool) (m : SMod) : Bool :=
  match m with
  | .gapicVersion => true
  | .pagers => serviceGate m.template o && paged
  | _ => serviceGate m.template o

/-- drop the last `n` elements -/
def dropLastN {α} (n : Nat) (l : List α) : List α := l.take (l.length - n)

/-- Python's resolution of a relative import made in file `file`: `level` dots climb `level - 1` packages above the
file's own package, then `path` is followed; the result is the file of a plain module (`….py`) -/
def resolveRel (file : Path) (level : Nat) (path : Path) : Path :=
  dropLastN (level - 1) file.dropLast ++ withPy path

/-! ### client names: who binds them, who asks for them -/

inductive ClientName where
  | sync | async
deriving Repr, DecidableEq

/-- names bound by `services/<svc>/__init__.py` (`from .client import XClient`, `from .async_client import XAsyncClient`) -/
def svcInitExports (o : Opts) : List ClientName :=
  [.sync] ++ (if o.transport.contains grpc then [.async] else [])

/-- names the package `__init__.py` (versioned and unversioned) imports for each service -/
def pkgInitWants (o : Opts) : List ClientName :=
  [.sync] ++ (if o.transport.contains grpc then [.async] else [])

/-- the module of the service package that defines the name -/
def ClientName.definedIn : ClientName → SMod
  | .sync => .client
  | .async => .asyncClient

/-! ### module-name collisions of one proto file (`gapic/schema/api.py: Proto.names`, the part about imported modules)

`Proto.names` is the collision set bound into every address of the file (`_ProtoBuilder.proto` → `with_context`);
`Address.module_alias` renames a module iff its name is in that set (or reserved).  The module part of the set:
a table module name → set of proto packages is accumulated over the `recursive_field_types` of ALL messages of the
file, and THEN every module name with more than one package (or a reserved name) is a collision. -/

/-- one type reference of a message: the module and the proto package of a type in `message.recursive_field_types` -/
structure Ref where
  module : Str
  package : Str
deriving Repr, DecidableEq

/-- `len(modules[m]) > 1`: within `refs` the module name `m` is used from two distinct packages -/
def twoPackages (refs : List Ref) (m : Str) : Bool :=
  refs.any fun a => refs.any fun b => a.module = m && b.module = m && a.package != b.package

/-- the module names `Proto.names` adds: union of the references of all messages first, then the count per name -/
def moduleCollisions (reserved : List Str) (msgs : List (List Ref)) : List Str :=
  (msgs.flatten.map (·.module)).filter fun m => twoPackages msgs.flatten m || reserved.contains m

/-- `Proto.names` = names of enums, messages and fields (`plain`) plus the module collisions -/
def protoNames (plain reserved : List Str) (msgs : List (List Ref)) : List Str :=
  plain ++ moduleCollisions reserved msgs

/-- NOT the code: the table rebuilt for every message (what a "single pass" rewrite computes) -/
def moduleCollisionsPerMessage (reserved : List Str) (msgs : List (List Ref)) : List Str :=
  msgs.flatMap fun refs => (refs.map (·.module)).filter fun m => twoPackages refs m || reserved.contains m

/-! ### the empty-module rule (`gapic/utils/code.py: empty`, `Generator._get_file`) -/

/-- scan of `empty(content)`: `inComment` = the first non-blank character of the current line was `#`.
(`content.split("\n")` cuts at `\n` only; `lstrip()` removes every character of CPython's `str.isspace`.) -/
def emptyScan : Bool → Str → Bool
  | _, [] => true
  | inComment, ch :: cs =>
    if ch = '\n' then emptyScan false cs
    else if inComment then emptyScan true cs
    else if PyRt.isWs ch then emptyScan false cs
    else if ch = '#' then emptyScan true cs
    else false

/-- `utils.empty(content)`: no line holds a Python statement -/
def emptyContent (s : Str) : Bool := emptyScan false s

/-- one line of `empty`'s comprehension: `not (i.lstrip() and not i.lstrip().startswith("#"))` -/
def blankOrComment (l : Str) : Bool :=
  match PyRt.lstrip l with
  | [] => true
  | c :: _ => c = '#'

/-- end of `_get_file`: an empty rendering is dropped unless it is a `py.typed` or an `__init__.py` -/
def keepFile (name content : Str) : Bool :=
  !emptyContent content || ['p', 'y', '.', 't', 'y', 'p', 'e', 'd'].isSuffixOf name ||
    ['_', '_', 'i', 'n', 'i', 't', '_', '_', '.', 'p', 'y'].isSuffixOf name

end GapicModel.Model.Imports
