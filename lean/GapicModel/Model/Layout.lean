import GapicModel.Model.Emit
/-
C11 — which API views `_render_template` visits for a `%sub` template when sub-packages NEST
(gapic/schema/api.py: API.subpackages, API.protos; gapic/generator/generator.py: _render_template).

`_render_template(t, api)` calls itself for every value of `api.subpackages` and then renders the protos /
services whose sub-package is EXACTLY `api.subpackage_view` (or, when the view has no sub-package of its own,
all protos under the view — which are then exactly those at the view).  `API.subpackages` of a view `v` at
level `n = len v` has one entry per distinct `p.subpackage[n]` over the target protos `p` whose sub-package
extends `v` strictly.  Unfolding the recursion, the views visited are exactly the NON-EMPTY PREFIXES of the
sub-packages of the target protos — including intermediate packages that hold no file at all — each once.

`Emit.Shape.subs` is therefore read here as "every view of the sub-package tree, flattened" (for one level
this is what it always was).  The real recursion visits the views depth-first, children in sorted order, a
view after its children; `viewsOf` lists them in order of first occurrence instead: only the SET of response
names is tied to the code (T3 compares sorted name lists), not the order of the response.
-/
namespace GapicModel.Model.Layout
open GapicModel.Model.Emit

/-- one target proto file: where it sits below the API package, its module name, its services' module names -/
structure ProtoAt where
  sub : Path               -- proto.meta.address.subpackage
  module : Str             -- proto.module_name
  services : List Str      -- service.module_name for the services the file defines
deriving Repr

/-- the non-empty prefixes of a sub-package path, shortest first -/
def prefixes : Path → List Path
  | [] => []
  | s :: r => [s] :: (prefixes r).map (s :: ·)

/-- the views reached from the root view through `API.subpackages`, recursively -/
def viewsOf (subs : List Path) : List Path := dedup (subs.flatMap prefixes)

/-- what `_render_template` sees at one view under `skip_subpackages`: the protos / services exactly there -/
def subPkgAt (ps : List ProtoAt) (v : Path) : SubPkg :=
  ⟨v, (ps.filter (·.sub = v)).flatMap (·.services), (ps.filter (·.sub = v)).map (·.module)⟩

/-- the shape `Emit.renderTemplate` works on, from the target protos -/
def shapeOf (nm : Naming) (ps : List ProtoAt) : Shape :=
  ⟨nm, subPkgAt ps [], (viewsOf (ps.map (·.sub))).map (subPkgAt ps)⟩

end GapicModel.Model.Layout
