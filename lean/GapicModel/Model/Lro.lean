/-
C08 — long-running operations.
  gapic/schema/metadata.py : Address.resolve
  gapic/schema/api.py      : API.build (two passes), _ProtoBuilder.api_messages, _maybe_get_lro
  gapic/schema/wrappers.py : Method._client_output
  templates                : _client_macros.j2 / async_client.py.j2 (`from_gapic` wrapping),
                             transports/grpc*.py.j2, rest.py.j2 (`operations_client`)
  google.api_core          : operation.Operation / operation_async.AsyncOperation (polling; runtime shell,
                             modelled as "the first done operation decides")
-/
namespace GapicModel.Model.Lro

abbrev Str := List Char

/-! ### Type resolution -/

/-- `Address.resolve(selector)`: a selector without a dot is prefixed with the package of the
address; ANY selector that contains a dot is returned unchanged (also `Outer.Inner`, `v1.Book`,
`.pkg.Book`).  `pkg` is `".".join(address.package)`, i.e. the package string of the file. -/
def resolve (pkg sel : Str) : Str :=
  if sel.contains '.' then sel else pkg ++ '.' :: sel

/-- A `FileDescriptorProto` as far as LRO loading looks at it. `messages` are the keys of
`Proto.all_messages`: the full names (no leading dot) of every message, nested ones included.
`deps` (the `import` list) is part of the input and — this is the point of the two passes —
consulted by nothing below. -/
structure File where
  name : String
  package : Str
  deps : List String
  messages : List Str
deriving Repr, DecidableEq

/-- the request's file set, in request order -/
abbrev Api := List File

/-- first pass of `API.build`: `pre_protos` holds every file of the request (services not loaded) -/
def allMessages (api : Api) : List Str := api.flatMap (·.messages)

/-- `_ProtoBuilder.api_messages` during the SECOND pass:
`ChainMap({}, self.proto_messages, *[p.all_messages for p in prior_protos.values()])` with
`prior_protos = pre_protos` = all files. -/
def visible (api : Api) (f : File) : List Str := f.messages ++ allMessages api

/-- what a single pass in request order would see for the file at position `i`: itself and the
files before it (`prior_protos` at that moment).  Only used to state why the second pass matters. -/
def visibleOnePass (api : Api) (i : Nat) : List Str := allMessages (api.take (i + 1))

/-- `mapping[key]`: the key itself when present (the value is the message wrapper of that name) -/
def lookup (ms : List Str) (key : Str) : Option Str := ms.find? (· == key)

structure OpInfo where
  response : Str
  metadata : Str
deriving Repr, DecidableEq

/-- A `MethodDescriptorProto`: `output` is `output_type` as written in the descriptor (leading dot),
`opInfo = none` ⇔ `not options.HasExtension(operation_info)`. -/
structure Method where
  name : String
  output : Str
  opInfo : Option OpInfo
deriving Repr, DecidableEq

inductive Err where
  | typeError                 -- "rpc … returns a google.longrunning.Operation, but is missing a response type or metadata type."
  | keyError (key : Str)      -- `self.api_messages[key]`
deriving Repr, DecidableEq

instance {α : Type} [DecidableEq α] : DecidableEq (Except Err α) := fun a b =>
  match a, b with
  | .ok x, .ok y => if h : x = y then isTrue (by rw [h]) else isFalse (by intro h'; cases h'; exact h rfl)
  | .error x, .error y => if h : x = y then isTrue (by rw [h]) else isFalse (by intro h'; cases h'; exact h rfl)
  | .ok _, .error _ => isFalse (by intro h; cases h)
  | .error _, .ok _ => isFalse (by intro h; cases h)

def operationSuffix : Str := "google.longrunning.Operation".toList

/-- `meth_pb.output_type.endswith("google.longrunning.Operation")` -/
def isOperation (out : Str) : Bool := operationSuffix.isSuffixOf out

/-- `_ProtoBuilder._maybe_get_lro(service_address, meth_pb)`; `f` is the file of the service
(`service_address.package` is the file's package).  The response key is looked up before the
metadata key. -/
def lroInfo (api : Api) (f : File) (m : Method) : Except Err (Option (Str × Str)) :=
  if !isOperation m.output then .ok none else
  match m.opInfo with
  | none => .ok none
  | some op =>
    if op.response = [] ∨ op.metadata = [] then .error .typeError else
    let rk := resolve f.package op.response
    let mk := resolve f.package op.metadata
    match lookup (visible api f) rk with
    | none => .error (.keyError rk)
    | some r =>
      match lookup (visible api f) mk with
      | none => .error (.keyError mk)
      | some md => .ok (some (r, md))

/-! ### Client output (`Method._client_output`) -/

/-- the attributes `_client_output` branches on -/
structure MethodView where
  void : Bool          -- output is google.protobuf.Empty
  lro : Bool           -- `self.lro` is not None
  extLro : Bool        -- `self.extended_lro`
  paged : Bool         -- `self.paged_result_field`
  output : Str
deriving Repr, DecidableEq

inductive ClientOut where
  | none_                       -- PrimitiveType None
  | operation                   -- google.api_core.operation.Operation
  | asyncOperation              -- google.api_core.operation_async.AsyncOperation
  | extendedOperation
  | pager | asyncPager
  | message (name : Str)        -- `self.output`
deriving Repr, DecidableEq

def clientOutput (m : MethodView) (async : Bool) : ClientOut :=
  if m.void then .none_
  else if m.lro then (if async then .asyncOperation else .operation)
  else if m.extLro then .extendedOperation
  else if m.paged then (if async then .asyncPager else .pager)
  else .message m.output

/-! ### Emitted client method -/

/-- a transport instance: the channel it was given -/
structure Transport where
  channel : Nat
deriving Repr, DecidableEq

/-- `operations_v1.Operations(Async)Client(self._logged_channel)` cached on the transport -/
structure OpsClient where
  channel : Nat
deriving Repr, DecidableEq

/-- transports/grpc.py.j2, grpc_asyncio.py.j2: `operations_client` property -/
def operationsClient (t : Transport) : OpsClient := ⟨t.channel⟩

/-- what the emitted method does with the transport's reply -/
inductive Wrap where
  | raw                                               -- `return response`
  | future (ops : OpsClient) (resultType metadataType : Str)
      -- `operation.from_gapic(response, self._transport.operations_client, <lro.response_type.ident>, metadata_type=<lro.metadata_type.ident>)`
deriving Repr, DecidableEq

/-- generation outcome for one Operation-returning method: `Except` = generator raised -/
def emitted (api : Api) (f : File) (m : Method) (t : Transport) : Except Err Wrap :=
  match lroInfo api f m with
  | .error e => .error e
  | .ok none => .ok .raw
  | .ok (some (r, md)) => .ok (.future (operationsClient t) r md)

/-! ### The future (api-core; runtime shell) -/

/-- a packed `google.protobuf.Any`: type name (after the last `/` of the type URL) and the payload,
abstracted to a number -/
structure AnyVal where
  typeName : Str
  payload : Nat
deriving Repr, DecidableEq

inductive Outcome where
  | response (a : AnyVal)
  | error (code : Nat)
  | neither
deriving Repr, DecidableEq

/-- one `google.longrunning.Operation` as reported by the server -/
structure OpState where
  done : Bool
  metadata : Option AnyVal
  outcome : Outcome            -- looked at only when `done`
deriving Repr, DecidableEq

/-- `Operation._refresh_and_update` under `_blocking_poll`: while the cached operation is not done,
replace it by the next `GetOperation` reply.  Returns the final cached operation and the number of
`GetOperation` calls.  (History exhausted while not done: the real future keeps polling until its
timeout; the model stops — `result` reports `timeout`.) -/
def poll (cur : OpState) : List OpState → OpState × Nat
  | [] => (cur, 0)
  | r :: rs => if cur.done then (cur, 0) else
      let p := poll r rs
      (p.1, p.2 + 1)

inductive Res where
  | ok (ty : Str) (payload : Nat)     -- an instance of `ty`
  | apiError (code : Nat)             -- GoogleAPICallError built from `operation.error`
  | unexpectedState                   -- done, neither response nor error
  | typeError                         -- `from_any_pb`: the Any holds another type
  | timeout
deriving Repr, DecidableEq

/-- `protobuf_helpers.from_any_pb(ty, any)` -/
def unpack (ty : Str) (a : AnyVal) : Res :=
  if a.typeName = ty then .ok ty a.payload else .typeError

/-- `_set_result_from_operation` on the final operation -/
def settle (rt : Str) (o : OpState) : Res :=
  if !o.done then .timeout else
  match o.outcome with
  | .response a => unpack rt a
  | .error c => .apiError c
  | .neither => .unexpectedState

/-- `future.metadata`: `None` when the cached operation has no metadata, else unpacked with the metadata type -/
def metadataOf (mt : Str) (o : OpState) : Option Res := o.metadata.map (unpack mt)

structure Observed where
  polls : Nat
  result : Res
  metadataBefore : Option Res     -- `future.metadata` right after the call
  metadataAfter : Option Res      -- `future.metadata` after `result()`
deriving Repr, DecidableEq

/-- `future = from_gapic(first, ops, rt, metadata_type=mt); future.result()` against the history
`first :: replies` (`first` is the RPC's own reply). -/
def runFuture (rt mt : Str) (first : OpState) (replies : List OpState) : Observed :=
  let p := poll first replies
  { polls := p.2, result := settle rt p.1, metadataBefore := metadataOf mt first, metadataAfter := metadataOf mt p.1 }

/-- wire trace of one client call: (channel, RPC) pairs — the method's own RPC on the transport's
channel followed by the polls on the operations client's channel -/
def callTrace (t : Transport) (path : Str) (w : Wrap) (first : OpState) (replies : List OpState) : List (Nat × Str) :=
  match w with
  | .raw => [(t.channel, path)]
  | .future ops _ _ =>
    (t.channel, path) :: List.replicate (poll first replies).2 (ops.channel, "/google.longrunning.Operations/GetOperation".toList)

end GapicModel.Model.Lro
