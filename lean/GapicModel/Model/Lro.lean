/-
C08 — long-running operations.
  gapic/schema/metadata.py : Address.resolve, Address.module_alias (the name under which api-core's `operation`
                             module is imported and called)
  gapic/schema/api.py      : API.build (two passes), _ProtoBuilder.api_messages, _maybe_get_lro, _get_methods
                             (`loadService`: the first bad method aborts the build), API.http_options
  gapic/schema/wrappers.py : Method._client_output, Service.has_lro, HttpRule.try_parse_http_rule
  templates                : _client_macros.j2 / async_client.py.j2 (`from_gapic` wrapping),
                             transports/grpc*.py.j2, rest.py.j2 (`operations_client`, its http-options table)
  google.api_core          : operation.Operation / operation_async.AsyncOperation (runtime shell): polling modelled as
                             "the first done operation decides"; `metadata`, `done`, `running`, `cancel`, `result`,
                             `exception` as a small command language over the cached operation (`step`/`exec`);
                             operations_v1 REST transport's choice of the GetOperation URL (`opsGetPath`).

Sub-packages: `lroInfo`, `loadService` and `opsGetPathOf` take the package from the FILE that declares the service
(`service_address.package`, `Service.meta.address.package`), never from the API's package (`naming.proto_package`);
the sub-package VIEW of the API under which the per-service templates are rendered changes nothing the LRO code reads
(`api.http_options` comes from the service config, `service.has_lro` / `method.lro` from the service).

NOT modelled (reached only through T3, or not at all):
  * `OperationInfo.with_context` / `Method.ref_types` / `Service.names` (which modules the emitted client imports and which
    collisions arise): the collision set is an INPUT of `moduleAlias`; T3 observes the result at run time.
  * `utils.convert_uri_fieldnames` inside `try_parse_http_rule` (identity on the Operations rules used here).
  * api-core's retry/sleep schedule, deadlines, `CancelOperation`/`DeleteOperation` transcoding for REST, and the
    mapping status code -> exception class (compared in T3 through api-core's own table).
  * extended operations (`google.cloud.operation_service`): not in the statement; only the branch order of `_client_output`.
  * the REST transport parsing the RPC's reply as `operations_pb2.Operation` (json_format), rest_asyncio (not selectable).
-/
namespace GapicModel.Model.Lro

abbrev Str := List Char

/-! ### Type resolution -/

/-- `Address.resolve(selector)`: a selector without a dot is prefixed with the package of the
address; ANY selector that contains a dot is returned unchanged (also `Outer.Inner`, `v1.Book`,
`.pkg.Book`).  `pkg` is `".".join(address.package)`, i.e. the package string of the file. -/
def resolve (pkg sel : Str) : Str :=
  if sel.contains '.' then sel else pkg ++ '.' :: sel

/-- A `FileDescriptorProto` as far as LRO loading looks at it. `messages` are the keys of
`Proto.all_messages`: the full names (no leading dot) of every message, nested ones included.
`deps` (the `import` list) is part of the input and — this is the point of the two passes —
consulted by nothing below. -/
structure File where
  name : String
  package : Str
  deps : List String
  messages : List Str
deriving Repr, DecidableEq

/-- the request's file set, in request order -/
abbrev Api := List File

/-- first pass of `API.build`: `pre_protos` holds every file of the request (services not loaded) -/
def allMessages (api : Api) : List Str := api.flatMap (·.messages)

/-- `_ProtoBuilder.api_messages` during the SECOND pass:
`ChainMap({}, self.proto_messages, *[p.all_messages for p in prior_protos.values()])` with
`prior_protos = pre_protos` = all files. -/
def visible (api : Api) (f : File) : List Str := f.messages ++ allMessages api

/-- what a single pass in request order would see for the file at position `i`: itself and the
files before it (`prior_protos` at that moment).  Only used to state why the second pass matters. -/
def visibleOnePass (api : Api) (i : Nat) : List Str := allMessages (api.take (i + 1))

/-- `mapping[key]`: the key itself when present (the value is the message wrapper of that name) -/
def lookup (ms : List Str) (key : Str) : Option Str := ms.find? (· == key)

structure OpInfo where
  response : Str
  metadata : Str
deriving Repr, DecidableEq

/-- A `MethodDescriptorProto`: `output` is `output_type` as written in the descriptor (leading dot),
`opInfo = none` ⇔ `not options.HasExtension(operation_info)`. -/
structure Method where
  name : String
  output : Str
  opInfo : Option OpInfo
deriving Repr, DecidableEq

inductive Err where
  | typeError                 -- "rpc … returns a google.longrunning.Operation, but is missing a response type or metadata type."
  | keyError (key : Str)      -- `self.api_messages[key]`
deriving Repr, DecidableEq

instance {α : Type} [DecidableEq α] : DecidableEq (Except Err α) := fun a b =>
  match a, b with
  | .ok x, .ok y => if h : x = y then isTrue (by rw [h]) else isFalse (by intro h'; cases h'; exact h rfl)
  | .error x, .error y => if h : x = y then isTrue (by rw [h]) else isFalse (by intro h'; cases h'; exact h rfl)
  | .ok _, .error _ => isFalse (by intro h; cases h)
  | .error _, .ok _ => isFalse (by intro h; cases h)

def operationSuffix : Str := "google.longrunning.Operation".toList

/-- `meth_pb.output_type.endswith("google.longrunning.Operation")` -/
def isOperation (out : Str) : Bool := operationSuffix.isSuffixOf out

/-- `_ProtoBuilder._maybe_get_lro(service_address, meth_pb)`; `f` is the file of the service
(`service_address.package` is the file's package).  The response key is looked up before the
metadata key. -/
def lroInfo (api : Api) (f : File) (m : Method) : Except Err (Option (Str × Str)) :=
  if !isOperation m.output then .ok none else
  match m.opInfo with
  | none => .ok none
  | some op =>
    if op.response = [] ∨ op.metadata = [] then .error .typeError else
    let rk := resolve f.package op.response
    let mk := resolve f.package op.metadata
    match lookup (visible api f) rk with
    | none => .error (.keyError rk)
    | some r =>
      match lookup (visible api f) mk with
      | none => .error (.keyError mk)
      | some md => .ok (some (r, md))

/-! ### Client output (`Method._client_output`) -/

/-- the attributes `_client_output` branches on -/
structure MethodView where
  void : Bool          -- output is google.protobuf.Empty
  lro : Bool           -- `self.lro` is not None
  extLro : Bool        -- `self.extended_lro`
  paged : Bool         -- `self.paged_result_field`
  output : Str
deriving Repr, DecidableEq

inductive ClientOut where
  | none_                       -- PrimitiveType None
  | operation                   -- google.api_core.operation.Operation
  | asyncOperation              -- google.api_core.operation_async.AsyncOperation
  | extendedOperation
  | pager | asyncPager
  | message (name : Str)        -- `self.output`
deriving Repr, DecidableEq

def clientOutput (m : MethodView) (async : Bool) : ClientOut :=
  if m.void then .none_
  else if m.lro then (if async then .asyncOperation else .operation)
  else if m.extLro then .extendedOperation
  else if m.paged then (if async then .asyncPager else .pager)
  else .message m.output

/-! ### Emitted client method -/

/-- a transport instance: the channel it was given -/
structure Transport where
  channel : Nat
deriving Repr, DecidableEq

/-- `operations_v1.Operations(Async)Client(self._logged_channel)` cached on the transport -/
structure OpsClient where
  channel : Nat
deriving Repr, DecidableEq

/-- transports/grpc.py.j2, grpc_asyncio.py.j2: `operations_client` property -/
def operationsClient (t : Transport) : OpsClient := ⟨t.channel⟩

/-- what the emitted method does with the transport's reply -/
inductive Wrap where
  | raw                                               -- `return response`
  | future (ops : OpsClient) (resultType metadataType : Str)
      -- `operation.from_gapic(response, self._transport.operations_client, <lro.response_type.ident>, metadata_type=<lro.metadata_type.ident>)`
deriving Repr, DecidableEq

/-- generation outcome for one Operation-returning method: `Except` = generator raised -/
def emitted (api : Api) (f : File) (m : Method) (t : Transport) : Except Err Wrap :=
  match lroInfo api f m with
  | .error e => .error e
  | .ok none => .ok .raw
  | .ok (some (r, md)) => .ok (.future (operationsClient t) r md)

/-! ### The future (api-core; runtime shell) -/

/-- a packed `google.protobuf.Any`: type name (after the last `/` of the type URL) and the payload,
abstracted to a number -/
structure AnyVal where
  typeName : Str
  payload : Nat
deriving Repr, DecidableEq

inductive Outcome where
  | response (a : AnyVal)
  | error (code : Nat)
  | neither
deriving Repr, DecidableEq

/-- one `google.longrunning.Operation` as reported by the server -/
structure OpState where
  done : Bool
  metadata : Option AnyVal
  outcome : Outcome            -- looked at only when `done`
deriving Repr, DecidableEq

/-- `Operation._refresh_and_update` under `_blocking_poll`: while the cached operation is not done,
replace it by the next `GetOperation` reply.  Returns the final cached operation and the number of
`GetOperation` calls.  (History exhausted while not done: the real future keeps polling until its
timeout; the model stops — `result` reports `timeout`.) -/
def poll (cur : OpState) : List OpState → OpState × Nat
  | [] => (cur, 0)
  | r :: rs => if cur.done then (cur, 0) else
      let p := poll r rs
      (p.1, p.2 + 1)

inductive Res where
  | ok (ty : Str) (payload : Nat)     -- an instance of `ty`
  | apiError (code : Nat)             -- GoogleAPICallError built from `operation.error`
  | unexpectedState                   -- done, neither response nor error
  | typeError                         -- `from_any_pb`: the Any holds another type
  | timeout
deriving Repr, DecidableEq

/-- `protobuf_helpers.from_any_pb(ty, any)` -/
def unpack (ty : Str) (a : AnyVal) : Res :=
  if a.typeName = ty then .ok ty a.payload else .typeError

/-- `_set_result_from_operation` on the final operation -/
def settle (rt : Str) (o : OpState) : Res :=
  if !o.done then .timeout else
  match o.outcome with
  | .response a => unpack rt a
  | .error c => .apiError c
  | .neither => .unexpectedState

/-- `future.metadata`: `None` when the cached operation has no metadata, else unpacked with the metadata type -/
def metadataOf (mt : Str) (o : OpState) : Option Res := o.metadata.map (unpack mt)

structure Observed where
  polls : Nat
  result : Res
  metadataBefore : Option Res     -- `future.metadata` right after the call
  metadataAfter : Option Res      -- `future.metadata` after `result()`
deriving Repr, DecidableEq

/-- `future = from_gapic(first, ops, rt, metadata_type=mt); future.result()` against the history
`first :: replies` (`first` is the RPC's own reply). -/
def runFuture (rt mt : Str) (first : OpState) (replies : List OpState) : Observed :=
  let p := poll first replies
  { polls := p.2, result := settle rt p.1, metadataBefore := metadataOf mt first, metadataAfter := metadataOf mt p.1 }

/-- wire trace of one client call: (channel, RPC) pairs — the method's own RPC on the transport's
channel followed by the polls on the operations client's channel -/
def callTrace (t : Transport) (path : Str) (w : Wrap) (first : OpState) (replies : List OpState) : List (Nat × Str) :=
  match w with
  | .raw => [(t.channel, path)]
  | .future ops _ _ =>
    (t.channel, path) :: List.replicate (poll first replies).2 (ops.channel, "/google.longrunning.Operations/GetOperation".toList)

/-! ### Whole service (`_ProtoBuilder._get_methods`): methods are loaded in declaration order, the first exception aborts -/

def loadService (api : Api) (f : File) : List Method → Except Err (List (Option (Str × Str)))
  | [] => .ok []
  | m :: ms =>
    match lroInfo api f m with
    | .error e => .error e
    | .ok x =>
      match loadService api f ms with
      | .error e => .error e
      | .ok xs => .ok (x :: xs)

/-- `Service.has_lro`: the transport gets an `operations_client` iff some method has `lro` -/
def hasLro (xs : List (Option (Str × Str))) : Bool := xs.any Option.isSome

/-! ### `Address.module_alias` (name of api-core's `operation` module inside the emitted client) -/

/-- Python `s.split(c)` for a one-character separator -/
def splitOn (c : Char) : Str → List Str
  | [] => [[]]
  | x :: xs =>
    let r := splitOn c xs
    if x = c then [] :: r else
    match r with
    | [] => [[x]]
    | h :: t => (x :: h) :: t

/-- `"".join(p[0] for i in package for p in i.split("_") if i != version)`; `none` = IndexError (an empty piece) -/
def initials (pkg : List Str) (version : Str) : Option Str :=
  ((pkg.filter (· != version)).flatMap (splitOn '_')).mapM List.head?

/-- `Address.module_alias`: `""` unless the module name collides (or is reserved), else `<initials>_<module>` -/
def moduleAlias (pkg : List Str) (module version : Str) (collisions reserved : List Str) : Option Str :=
  if collisions.contains module || reserved.contains module then (initials pkg version).map (· ++ '_' :: module)
  else some []

/-- `ident.module_alias or ident.module`: the name the import statement binds AND the emitted call uses -/
def boundName (alias module : Str) : Str := if alias = [] then module else alias

/-- `_client_output(enable_asyncio).ident.module` -/
def futureModule (async : Bool) : Str :=
  if async then ['o','p','e','r','a','t','i','o','n','_','a','s','y','n','c'] else ['o','p','e','r','a','t','i','o','n']

/-- `package=("google", "api_core")` of the PythonType built by `_client_output` -/
def apiCorePackage : List Str := [['g','o','o','g','l','e'], ['a','p','i','_','c','o','r','e']]

/-- what the emitted client contains for an LRO method: the import of api-core's module and the constructor call -/
structure FutureCode where
  importModule : Str        -- `from google.api_core import <importModule>`
  importAs : Str            -- `… as <importAs>` (equal to importModule when there is no alias)
  callee : Str              -- `<callee>.from_gapic(…)`
deriving Repr, DecidableEq

def futureCode (async : Bool) (version : Str) (collisions reserved : List Str) : Option FutureCode :=
  let m := futureModule async
  (moduleAlias apiCorePackage m version collisions reserved).map fun a =>
    ⟨m, boundName a m, boundName a m⟩

/-! ### The REST operations client: http-options table (`API.http_options`, rest.py.j2) and the poll URL -/

/-- one `google.api.HttpRule` binding: `verb` = `WhichOneof("pattern")` ("" when unset) -/
structure Binding where
  verb : Str
  uri : Str
  body : Str
deriving Repr, DecidableEq

structure YamlRule where
  selector : Str
  primary : Binding
  additional : List Binding
deriving Repr, DecidableEq

structure Row where
  method : Str
  uri : Str
  body : Option Str
deriving Repr, DecidableEq

/-- `HttpRule.try_parse_http_rule` (with `convert_uri_fieldnames` = identity, see header) -/
def parseBinding (reserved : List Str) (b : Binding) : Option Row :=
  if b.verb = [] ∨ b.verb = "custom".toList then none
  else if b.uri = [] then none
  else some ⟨b.verb, b.uri, if b.body = [] then none else some (if reserved.contains b.body then b.body ++ ['_'] else b.body)⟩

def ruleRows (reserved : List Str) (r : YamlRule) : List Row := (r.primary :: r.additional).filterMap (parseBinding reserved)

/-- dict assignment `d[k] = v` keeping the first insertion position -/
def dictSet {β : Type} (d : List (Str × β)) (k : Str) (v : β) : List (Str × β) :=
  if d.any (·.1 == k) then d.map (fun e => if e.1 == k then (k, v) else e) else d ++ [(k, v)]

/-- `API.http_options`: `{rule.selector: make_http_options(rule) for rule in service_yaml.http.rules}` -/
def httpOptions (reserved : List Str) (rules : List YamlRule) : List (Str × List Row) :=
  rules.foldl (fun d r => dictSet d r.selector (ruleRows reserved r)) []

/-- rest.py.j2: only selectors starting with `google.longrunning.Operations` reach the operations transport -/
def opsHttpTable (reserved : List Str) (rules : List YamlRule) : List (Str × List Row) :=
  (httpOptions reserved rules).filter fun e => "google.longrunning.Operations".toList.isPrefixOf e.1

inductive Seg where
  | lit (s : Str) | star | dstar
deriving Repr, DecidableEq

/-- `path_template.validate` on slash-separated names with non-empty segments: `*` one segment, `**` one or more -/
def matchSegs : List Seg → List Str → Bool
  | [], [] => true
  | [], _ :: _ => false
  | _ :: _, [] => false
  | .lit s :: ps, x :: xs => x == s && matchSegs ps xs
  | .star :: ps, _ :: xs => matchSegs ps xs
  | .dstar :: ps, _ :: xs => matchSegs ps xs || matchSegs (.dstar :: ps) xs

def segOf (s : Str) : Seg := if s = ['*'] then .star else if s = ['*', '*'] then .dstar else .lit s

/-- a uri template with exactly one variable, `{name=pattern}` or `{name}`: (prefix, pattern, suffix) -/
structure NameTemplate where
  pre : Str
  pattern : List Seg
  post : Str
deriving Repr, DecidableEq

def takeUntil (c : Char) : Str → Str × Option Str
  | [] => ([], none)
  | x :: xs => if x = c then ([], some xs) else let r := takeUntil c xs; (x :: r.1, r.2)

/-- parse `pre{name=pattern}post`; `none` when the template has no `{name…}` variable of that shape -/
def parseNameTemplate (uri : Str) : Option NameTemplate :=
  match takeUntil '{' uri with
  | (_, none) => none
  | (pre, some rest) =>
    match takeUntil '}' rest with
    | (_, none) => none
    | (var, some post) =>
      match takeUntil '=' var with
      | (n, none) => if n = "name".toList then some ⟨pre, [.star], post⟩ else none
      | (n, some pat) => if n = "name".toList then some ⟨pre, (splitOn '/' pat).map segOf, post⟩ else none

/-- `path_template.transcode` over the rows of GetOperation for a request that only carries `name`:
the first row whose template accepts the name gives the URL -/
def transcodeName (rows : List Row) (name : Str) : Option (Str × Str) :=
  rows.findSome? fun row =>
    match parseNameTemplate row.uri with
    | none => none
    | some t => if matchSegs t.pattern (splitOn '/' name) then some (row.method, t.pre ++ name ++ t.post) else none

def getOperationSelector : Str := "google.longrunning.Operations.GetOperation".toList

/-- `OperationsRestTransport._get_operation`: the table entry for GetOperation when present, else the default
`/{path_prefix}/{name=**/operations/*}` with `path_prefix = service.client_package_version` -/
def opsGetPath (table : List (Str × List Row)) (pathPrefix name : Str) : Option (Str × Str) :=
  let rows := match table.find? (·.1 == getOperationSelector) with
    | some e => e.2
    | none => [⟨"get".toList, '/' :: pathPrefix ++ "/{name=**/operations/*}".toList, none⟩]
  transcodeName rows name

/-- `Service.client_package_version` = `self.meta.address.package[-1]`: the LAST segment of the package of the FILE THAT
DECLARES the service (`Address.package = tuple(file.package.split("."))`), not a segment of the API's package: for a
service declared in the sub-package `acme.lib.v1.keepers` it is `keepers`, not the API version `v1`. -/
def clientPackageVersion (pkg : Str) : Str := ((splitOn '.' pkg).getLast?).getD []

/-- the poll URL of the REST operations client emitted for a service declared in file `f` (rest.py.j2:
`path_prefix="{{ service.client_package_version }}"`) -/
def opsGetPathOf (table : List (Str × List Row)) (f : File) (name : Str) : Option (Str × Str) :=
  opsGetPath table (clientPackageVersion f.package) name

/-! ### The future as an object: `metadata`, `done()`, `running()`, `cancel()`, `result()`, `exception()` -/

inductive Cmd where
  | metadata | done | running | cancel | result | exception
deriving Repr, DecidableEq

inductive Obs where
  | md (r : Option Res)
  | flag (b : Bool)
  | res (r : Res)
  | exc (r : Option Res)     -- `exception()`: `None` for a successful operation
deriving Repr, DecidableEq

/-- the future's state: the cached operation, the server's remaining GetOperation replies, and what it has sent -/
structure Fut where
  cached : OpState
  pending : List OpState
  polls : Nat
  cancels : Nat
deriving Repr, DecidableEq

/-- `_refresh_and_update`: one GetOperation unless the cached operation is done -/
def Fut.refresh (s : Fut) : Fut :=
  if s.cached.done then s else
  match s.pending with
  | [] => s
  | r :: rs => { s with cached := r, pending := rs, polls := s.polls + 1 }

/-- `_blocking_poll`: refresh until done -/
def Fut.drain (s : Fut) : Fut :=
  let p := poll s.cached s.pending
  { s with cached := p.1, pending := s.pending.drop p.2, polls := s.polls + p.2 }

def step (rt mt : Str) (s : Fut) : Cmd → Fut × Obs
  | .metadata => (s, .md (metadataOf mt s.cached))
  | .done => let s' := s.refresh; (s', .flag s'.cached.done)
  | .running => let s' := s.refresh; (s', .flag (!s'.cached.done))
  | .cancel =>
    let s' := s.refresh
    if s'.cached.done then (s', .flag false) else ({ s' with cancels := s'.cancels + 1 }, .flag true)
  | .result => let s' := s.drain; (s', .res (settle rt s'.cached))
  | .exception =>
    let s' := s.drain
    (s', .exc (match settle rt s'.cached with | .ok _ _ => none | r => some r))

def exec (rt mt : Str) (s : Fut) : List Cmd → Fut × List Obs
  | [] => (s, [])
  | c :: cs =>
    let p := step rt mt s c
    let q := exec rt mt p.1 cs
    (q.1, p.2 :: q.2)

def Fut.init (first : OpState) (replies : List OpState) : Fut := ⟨first, replies, 0, 0⟩

end GapicModel.Model.Lro
