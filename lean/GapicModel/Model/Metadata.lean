import GapicModel.Regex.Match
import GapicModel.Pinned.Regexes
import GapicModel.Pinned.Tables
import GapicModel.Pinned.CharClass
import GapicModel.PyRt
/-
C15 — gapic_metadata.json and the keyword fix-up table.

Follows, statement by statement,
  * gapic/schema/api.py        : API.gapic_metadata (nested `get_or_create` maps), gapic_metadata_json
  * gapic/schema/wrappers.py   : Method.client_method_name, Service.client_name / async_client_name /
                                 is_internal, Method.legacy_flattened_fields, Field.name
  * gapic/utils/case.py        : to_snake_case (the four pinned regexes + `.lower()`)
  * gapic/utils/code.py        : partition, make_private
  * templates scripts/fixup_%name_%version_keywords.py.j2 : METHOD_TO_PARAMS
                                 (`all_methods|sort(attribute='name')|unique(case_sensitive=True, attribute='name')`;
                                 Jinja's `sort` is case-insensitive by default: its key is `name.lower()`)
  * templates services/%service/client.py.j2, async_client.py.j2, __init__.py.j2 : which classes and
                                 methods are emitted (`emitted*` below).
                                 + the three fixed rows of `opts.add_iam_methods`
                                 + `leave_Call` of the emitted transformer (`fixCall`): positional / keyword /
                                 control arguments of an old-style call -> `request={…}` + control keywords
Strings are `List Char`; identifiers are ASCII (protobuf grammar), so `.lower()` is ASCII lower-casing.
A Python dict / protobuf map is an association list whose keys are unique (`upsert` keeps that).

NOT modelled (anchor files): `MessageToJson(sort_keys=True)` text layout (the check parses the JSON);
the constant header fields schema/comment/language; `Naming` (namespace, versioned module name are inputs:
C11); how `is_internal` is derived from the service yaml (input flag: C16); `Field.required` / `Field.name`'s
`is_proto_plus_type` (input flags); mixin and legacy-IAM *client methods* (not RPCs of the target package:
the metadata does not list them — checked by T3 on APIs that have them, C17 owns their surface); libcst's
traversal (bottom-up `leave_Call` over nested calls is replayed by the harness); `fix_files` directory walking.
-/
namespace GapicModel.Model.Metadata
open GapicModel.Regex

abbrev Str := List Char

/-! ### strings -/

/-- `str.lower()` on ASCII identifiers: the run-time library's map, shared with the translated functions -/
def lower (s : Str) : Str := PyRt.lower s

/-- `gapic.utils.to_snake_case` -/
def toSnakeCase (s : Str) : Str :=
  let t := Pinned.classTables
  let s := pySub t Pinned.snake1.re Pinned.snake1Repl s
  let s := pySub t Pinned.snake2.re Pinned.snake2Repl s
  let s := pySub t Pinned.snake3.re Pinned.snake3Repl s
  let s := pySub t Pinned.snake4.re Pinned.snake4Repl s
  lower s

def memStr (tbl : List String) (s : Str) : Bool := tbl.any fun k => k.toList == s

/-- `utils.make_private` -/
def makePrivate (n : Str) : Str :=
  match n with
  | '_' :: _ => n
  | _ => '_' :: n

/-- Python `str <`: lexicographic by code point -/
def ltStr : Str → Str → Bool
  | [], [] => false
  | [], _ :: _ => true
  | _ :: _, [] => false
  | a :: as, b :: bs => if a.toNat < b.toNat then true else if b.toNat < a.toNat then false else ltStr as bs

/-! ### stable sort by a string key (`sorted(xs, key=…)`) -/

section Lists
variable {α : Type}

/-- insert `x` before the first element whose key is not smaller (so `x`, which comes EARLIER in
the input, stays before later elements with an equal key: stability). -/
def insertBy (key : α → Str) (x : α) : List α → List α
  | [] => [x]
  | y :: ys => if ltStr (key y) (key x) then y :: insertBy key x ys else x :: y :: ys

def sortBy (key : α → Str) : List α → List α
  | [] => []
  | x :: xs => insertBy key x (sortBy key xs)

/-- `get_or_create(k)` followed by an in-place update `f` of the (possibly fresh) entry -/
def upsert (key : α → Str) (k : Str) (fresh : α) (f : α → α) : List α → List α
  | [] => [f fresh]
  | x :: xs => if key x = k then f x :: xs else x :: upsert key k fresh f xs

/-- keep the first element of every key, in order of first occurrence (`seen` = keys met so far) -/
def uniqueBy (key : α → Str) : List α → List Str → List α
  | [], _ => []
  | x :: xs, seen => if seen.contains (key x) then uniqueBy key xs seen else x :: uniqueBy key xs (key x :: seen)

/-- `utils.partition`: one pass, two accumulators `(false-list, true-list)`; returns `(true, false)` -/
def partitionGo (p : α → Bool) : List α → List α × List α → List α × List α
  | [], acc => acc
  | x :: xs, (f, t) => if p x then partitionGo p xs (f, t ++ [x]) else partitionGo p xs (f ++ [x], t)

def partition (p : α → Bool) (xs : List α) : List α × List α :=
  let r := partitionGo p xs ([], [])
  (r.2, r.1)

end Lists

/-! ### the schema, as far as these functions look at it -/

structure FieldS where
  name : Str            -- `field_pb.name`
  required : Bool       -- REQUIRED ∈ `google.api.field_behavior`
  number : Nat := 0     -- `field_pb.number`: independent data; NO function of this model reads it
                        -- (`input.fields` is in DECLARATION order, whatever the numbers are)
deriving Repr, DecidableEq

structure MethodS where
  name : Str
  internal : Bool       -- `Method.is_internal` (selective generation with generate_omitted_as_internal)
  protoPlus : Bool      -- the request's fields live at a proto-plus address (`is_proto_plus_type`)
  fields : List FieldS  -- `input.fields.values()`: declaration order
  extOp : Bool          -- `bool(method.operation_service)` (extended operations)
deriving Repr, DecidableEq

structure ServiceS where
  name : Str
  methods : List MethodS   -- `service.methods.values()`: declaration order
deriving Repr, DecidableEq

structure Api where
  protoPackage : Str             -- `naming.proto_package`
  ns : List Str                  -- `naming.module_namespace`
  versionedModule : Str          -- `naming.versioned_module_name`
  services : List ServiceS       -- `api.services.values()`
deriving Repr, DecidableEq

/-- `options.transport` (the `+`-separated list) -/
abbrev Transports := List Str

def sGrpc : Str := "grpc".toList
def sGrpcAsync : Str := "grpc-async".toList
def sRest : Str := "rest".toList

/-! ### naming shared by the metadata and the templates -/

def isKeywordName (n : Str) : Bool := memStr Pinned.pyKeywords (lower n)

/-- `Method.client_method_name` -/
def clientMethodName (m : MethodS) : Str :=
  let n := if isKeywordName m.name then m.name ++ ['_'] else m.name
  if m.internal then makePrivate n else n

/-- the name every template emits: `method.client_method_name|snake_case` -/
def pyMethodName (m : MethodS) : Str := toSnakeCase (clientMethodName m)

/-- `Service.is_internal` -/
def ServiceS.isInternal (s : ServiceS) : Bool := s.methods.any (·.internal)

def basePrefix (s : ServiceS) : Str := if s.isInternal then "Base".toList else []

/-- `Service.client_name` -/
def clientName (s : ServiceS) : Str := basePrefix s ++ s.name ++ "Client".toList
/-- `Service.async_client_name` -/
def asyncClientName (s : ServiceS) : Str := basePrefix s ++ s.name ++ "AsyncClient".toList

/-- the `transports` list built inside `gapic_metadata`: (client kind, client class) -/
def clientKinds (tr : Transports) (s : ServiceS) : List (Str × Str) :=
  (if tr.contains sGrpc then [(sGrpc, clientName s), (sGrpcAsync, asyncClientName s)] else []) ++
  (if tr.contains sRest then [(sRest, clientName s)] else [])

/-! ### `API.gapic_metadata` -/

structure RpcEntry where
  rpc : Str
  methods : List Str
deriving Repr, DecidableEq

structure ClientEntry where
  kind : Str
  libraryClient : Str
  rpcs : List RpcEntry
deriving Repr, DecidableEq

structure ServiceEntry where
  name : Str
  clients : List ClientEntry
deriving Repr, DecidableEq

structure Metadata where
  protoPackage : Str
  libraryPackage : Str
  services : List ServiceEntry
deriving Repr, DecidableEq

def joinDot : List Str → Str
  | [] => []
  | [a] => a
  | a :: b :: r => a ++ '.' :: joinDot (b :: r)

/-- `".".join(module_namespace + (versioned_module_name,))` -/
def libraryPackage (api : Api) : Str := joinDot (api.ns ++ [api.versionedModule])

/-- `method_desc = transport.rpcs.get_or_create(method.name); method_desc.methods.append(…)` -/
def addMethod (m : MethodS) (rpcs : List RpcEntry) : List RpcEntry :=
  upsert (·.rpc) m.name ⟨m.name, []⟩ (fun e => { e with methods := e.methods ++ [pyMethodName m] }) rpcs

/-- `transport = service_desc.clients.get_or_create(tprt); transport.library_client = …; for method …` -/
def addClient (methods : List MethodS) (kc : Str × Str) (clients : List ClientEntry) : List ClientEntry :=
  upsert (·.kind) kc.1 ⟨kc.1, [], []⟩
    (fun c => { c with libraryClient := kc.2, rpcs := methods.foldl (fun acc m => addMethod m acc) c.rpcs }) clients

/-- the body of `for service in sorted(self.services.values(), key=lambda s: s.name)` -/
def addService (tr : Transports) (s : ServiceS) (svcs : List ServiceEntry) : List ServiceEntry :=
  upsert (·.name) s.name ⟨s.name, []⟩
    (fun e => { e with clients :=
      (clientKinds tr s).foldl (fun acc kc => addClient (sortBy (·.name) s.methods) kc acc) e.clients }) svcs

def gapicMetadata (api : Api) (tr : Transports) : Metadata :=
  { protoPackage := api.protoPackage
    libraryPackage := libraryPackage api
    services := (sortBy (·.name) api.services).foldl (fun acc s => addService tr s acc) [] }

/-- one row per (service, client kind, rpc, listed method) -/
structure Row where
  service : Str
  kind : Str
  client : Str
  rpc : Str
  method : Str
deriving Repr, DecidableEq

def Metadata.rows (md : Metadata) : List Row :=
  md.services.flatMap fun s => s.clients.flatMap fun c => c.rpcs.flatMap fun r =>
    r.methods.map fun m => ⟨s.name, c.kind, c.libraryClient, r.rpc, m⟩

/-- what the statement asks for, written without maps and without sorting -/
def expectedRows (api : Api) (tr : Transports) : List Row :=
  api.services.flatMap fun s => (clientKinds tr s).flatMap fun kc => s.methods.map fun m =>
    ⟨s.name, kc.1, kc.2, m.name, pyMethodName m⟩

/-! ### the emitted surface (client.py.j2, async_client.py.j2, services/%service/__init__.py.j2) -/

/-- methods of the synchronous client: an extended-operation RPC gets `<m>_unary` and `<m>` -/
def emittedSyncMethods (s : ServiceS) : List Str :=
  s.methods.flatMap fun m => if m.extOp then [pyMethodName m ++ "_unary".toList, pyMethodName m] else [pyMethodName m]

/-- methods of the asyncio client: an extended-operation RPC gets ONLY `<m>_unary` -/
def emittedAsyncMethods (s : ServiceS) : List Str :=
  s.methods.map fun m => if m.extOp then pyMethodName m ++ "_unary".toList else pyMethodName m

/-- (class name, its RPC methods), as exported by the library package; the asyncio client is
exported only when `grpc` is among the transports -/
def emittedClasses (api : Api) (tr : Transports) : List (Str × List Str) :=
  api.services.flatMap fun s =>
    (clientName s, emittedSyncMethods s) ::
      (if tr.contains sGrpc then [(asyncClientName s, emittedAsyncMethods s)] else [])

/-! ### the fix-up table -/

/-- `Field.name`: reserved words get a trailing underscore in proto-plus messages -/
def pyFieldName (protoPlus : Bool) (f : FieldS) : Str :=
  if protoPlus && memStr Pinned.reservedNames f.name then f.name ++ ['_'] else f.name

/-- keys of an `OrderedDict` built from (key, _) pairs: first position of every key -/
def dictKeys (ks : List Str) : List Str := uniqueBy id ks []

/-- names of `Method.legacy_flattened_fields.values()` -/
def legacyNames (m : MethodS) : List Str :=
  let p := partition (·.required) m.fields
  dictKeys ((p.1 ++ p.2).map (pyFieldName m.protoPlus))

/-- the template's `all_methods` list -/
def allMethods (api : Api) : List MethodS := api.services.flatMap (·.methods)

/-- `all_methods|sort(attribute='name')|unique(case_sensitive=True, attribute='name')` — Jinja's `sort`
lower-cases its key (default `case_sensitive=False`); since the `fix:` commit for C15 `unique` compares the
names as they are (before it, `unique` lower-cased too and dropped `Getbook` next to `GetBook`). -/
def fixupMethods (api : Api) : List MethodS :=
  uniqueBy (fun m => m.name) (sortBy (fun m => lower m.name) (allMethods api)) []

/-- METHOD_TO_PARAMS as written (a dict literal: for equal keys the LAST value wins) -/
def fixupTable (api : Api) : List (Str × List Str) :=
  (fixupMethods api).map fun m => (toSnakeCase m.name, legacyNames m)

/-- the three rows appended under `{% if opts.add_iam_methods %}` -/
def iamRows : List (Str × List Str) :=
  [("get_iam_policy".toList, ["resource".toList, "options".toList]),
   ("set_iam_policy".toList, ["resource".toList, "policy".toList]),
   ("test_iam_permissions".toList, ["resource".toList, "permissions".toList])]

/-- METHOD_TO_PARAMS with the `add-iam-methods` option -/
def fixupTableOpt (api : Api) (addIam : Bool) : List (Str × List Str) :=
  fixupTable api ++ (if addIam then iamRows else [])

/-- `dict[key]` of a dict literal: the LAST value written under the key -/
def dictGet (tbl : List (Str × List Str)) (k : Str) : Option (List Str) :=
  (tbl.reverse.find? (fun e => e.1 == k)).map (·.2)

/-! ### `leave_Call` of the emitted `<module>CallTransformer` -/

/-- one argument of a call: `keyword=value` or positional; the value is opaque (an id) -/
structure Arg where
  kw : Option Str
  val : Nat
deriving Repr, DecidableEq

def ctrlParams : List Str := ["retry".toList, "timeout".toList, "metadata".toList]

inductive Fixed where
  | unchanged
  | rewritten (request : List (Str × Nat)) (ctrl : List (Str × Nat))
deriving Repr, DecidableEq

def zipPairs {α β : Type} : List α → List β → List (α × β)
  | a :: as, b :: bs => (a, b) :: zipPairs as bs
  | _, _ => []

/-- `leave_Call` for a call `x.<key>(args…)`.  NOTE what the code does with keyword arguments: they are
zipped POSITIONALLY with the remaining parameter names (`zip(kword_params, args + kwargs)`); the
keyword's own name is dropped. -/
def fixCall (tbl : List (Str × List Str)) (key : Str) (args : List Arg) : Fixed :=
  match dictGet tbl key with
  | none => .unchanged                                   -- KeyError: not a method of the API
  | some params =>
    let p := partition (fun a : Arg => a.kw.isNone) args  -- (positional, keyword)
    let pos := p.1
    let kws := p.2
    if kws.any (fun a => a.kw == some "request".toList) then .unchanged   -- already fixed
    else
      let q := partition (fun a : Arg => !(ctrlParams.contains (a.kw.getD []))) kws   -- (kwargs, ctrl_kwargs)
      let args' := pos.take params.length
      let ctrlArgs := pos.drop params.length
      let ctrl := q.2.map (fun a => (a.kw.getD [], a.val)) ++
                  (zipPairs ctrlArgs ctrlParams).map (fun x => (x.2, x.1.val))
      .rewritten (zipPairs params ((args' ++ q.1).map (·.val))) ctrl

end GapicModel.Model.Metadata
