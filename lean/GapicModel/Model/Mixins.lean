/-
C17 — mixin RPCs (google.longrunning.Operations, google.iam.v1.IAMPolicy, google.cloud.location.Locations).

Follows
  gapic/schema/api.py      : has_*_mixin, _get_methods_from_service, _has_iam_overrides, mixin_api_methods,
                             mixin_http_options (wrappers.HttpRule.try_parse_http_rule), protos / services / subpackages
                             (`subpackage_view`)
  gapic/generator/generator.py : _render_template (`%sub`: which `api` object a service's templates get)
  gapic/schema/mixins.py   : MIXINS_MAP (request / response type strings; bridged as Pinned.mixinsMap)
  templates …/%service/_mixins.py.j2, _async_mixins.py.j2, client.py.j2 / async_client.py.j2 (`opts.add_iam_methods`
                             blocks), transports/_mixins.py.j2, transports/_rest_mixins_base.py.j2,
                             _shared_macros.j2 (generate_mixin_call_method, prep_wrapped_messages_async_method)
NOT modelled (reached only through T3 on the emitted library, or not at all): the text of the ten per-method
client blocks beyond (guard, callable looked up, routing field) — docstrings, `isinstance(request, dict)` coercion,
`_validate_universe_domain`, error decoration; the REST interceptors and debug logging of
`generate_mixin_call_method`; `rest_asyncio.py.j2` (experimental async REST); the import blocks guarded by
`has_*_mixin`; `API.requires_package`; api-core's `_VARIABLE_RE` outside well-formed templates; `transcode`
itself (external, reference implementation T2-compared).
The model follows the code, not the intent: see `iamOverrides` (drops ALL IAM mixins),
`restCall` (body presence is decided by the FIRST binding).  Since the `fix:` commits feb77eb / 0e4f131 the
WaitOperation stub deserialises its reply like GetOperation (`grpcTable`) and the legacy asyncio IAM
methods wrap the transport method on the fly (`grpcCall`).
-/
namespace GapicModel.Model.Mixins

/-! ### Python dict (insertion ordered) -/

def dictSet {α : Type} (d : List (String × α)) (k : String) (v : α) : List (String × α) :=
  match d with
  | [] => [(k, v)]
  | (k', v') :: rest => if k' = k then (k, v) :: rest else (k', v') :: dictSet rest k v

/-- `{**a, **b}` -/
def dictMerge {α : Type} (a b : List (String × α)) : List (String × α) :=
  b.foldl (fun d kv => dictSet d kv.1 kv.2) a

def keys {α : Type} (d : List (String × α)) : List String := d.map (·.1)

def dictGet {α : Type} (d : List (String × α)) (k : String) : Option α :=
  match d with
  | [] => none
  | (k', v) :: rest => if k' = k then some v else dictGet rest k

/-! ### The three mixin APIs (canonical tables, from the installed `*_pb2` descriptors; T2-checked) -/

inductive MixinApi where
  | locations | iam | operations
deriving DecidableEq, Repr

/-- `service_pb.DESCRIPTOR.package ++ "." ++ service.name` -/
def MixinApi.fullName : MixinApi → String
  | .operations => "google.longrunning.Operations"
  | .iam => "google.iam.v1.IAMPolicy"
  | .locations => "google.cloud.location.Locations"

/-- `service.methods` in descriptor order -/
def MixinApi.methods : MixinApi → List String
  | .operations => ["ListOperations", "GetOperation", "DeleteOperation", "CancelOperation", "WaitOperation"]
  | .iam => ["SetIamPolicy", "GetIamPolicy", "TestIamPermissions"]
  | .locations => ["ListLocations", "GetLocation"]

def allApis : List MixinApi := [.locations, .iam, .operations]

/-- canonical request / response message full names (descriptor `input_type` / `output_type`) -/
def canonicalTypes : List (String × String × String) := [
  ("ListOperations", "google.longrunning.ListOperationsRequest", "google.longrunning.ListOperationsResponse"),
  ("GetOperation", "google.longrunning.GetOperationRequest", "google.longrunning.Operation"),
  ("DeleteOperation", "google.longrunning.DeleteOperationRequest", "google.protobuf.Empty"),
  ("CancelOperation", "google.longrunning.CancelOperationRequest", "google.protobuf.Empty"),
  ("WaitOperation", "google.longrunning.WaitOperationRequest", "google.longrunning.Operation"),
  ("SetIamPolicy", "google.iam.v1.SetIamPolicyRequest", "google.iam.v1.Policy"),
  ("GetIamPolicy", "google.iam.v1.GetIamPolicyRequest", "google.iam.v1.Policy"),
  ("TestIamPermissions", "google.iam.v1.TestIamPermissionsRequest", "google.iam.v1.TestIamPermissionsResponse"),
  ("ListLocations", "google.cloud.location.ListLocationsRequest", "google.cloud.location.ListLocationsResponse"),
  ("GetLocation", "google.cloud.location.GetLocationRequest", "google.cloud.location.Location")]

/-! ### Service YAML (`google.api.Service`: `apis`, `http.rules`) -/

/-- one `google.api.HttpRule` pattern: `verb` is the set member of the `pattern` oneof
(`""` = unset, `"custom"` = custom), `uri` its value, `body` the `body` field (`""` = unset). -/
structure Binding where
  verb : String
  uri : String
  body : String
deriving DecidableEq, Repr

structure Rule where
  selector : String
  main : Binding
  additional : List Binding
deriving DecidableEq, Repr

structure Yaml where
  apis : List String
  rules : List Rule
deriving Repr

/-- what the selection reads off the `api` object it is evaluated on: the RPC names of every service of
`API.services` — the services of `API.protos`, i.e. of the files to generate whose sub-package starts with
`api.subpackage_view`.  For the API object itself (view `()`) that is every service of the API; for the
object the templates of a sub-package service are rendered with it is NOT (see `FullApi.view`). -/
structure Api where
  services : List (List String)
deriving Repr

/-- a service of the API being generated: the sub-package (relative to the API package) of the FILE that
declares it (`service.meta.address.subpackage`, `[]` = the API package itself) and its RPC names -/
structure Svc where
  subpackage : List String
  methods : List String
deriving Repr

/-- the whole API: every service of every file to generate -/
structure FullApi where
  services : List Svc
deriving Repr

/-- `dataclasses.replace(api, subpackage_view=v)` as the selection sees it: `API.protos` keeps the files
with `address.subpackage[:len(v)] == v`, `API.services` chains their services. -/
def FullApi.view (a : FullApi) (v : List String) : Api :=
  ⟨(a.services.filter (fun s => v.isPrefixOf s.subpackage)).map (·.methods)⟩

/-- the `api` the per-service templates (`%sub/services/%service/…`) of service `s` are rendered with:
`Generator._render_template` recurses into `api_schema.subpackages` and renders a service only in the view
whose `subpackage_view` equals the service's own sub-package.  A service of the API package sees every
service of the API; a service of a sub-package sees the services of that sub-package (and below) only. -/
def FullApi.seenBy (a : FullApi) (s : Svc) : Api := a.view s.subpackage

/-! ### Selective GAPIC generation (`python_settings.common.selective_gapic_generation`) -/

/-- what the third pass of `API.build` makes of an RPC: on the allow-list (or no selective generation) it stays public;
otherwise it is pruned (`prune_messages_for_selective_generation`) or, under `generate_omitted_as_internal`, kept with
`is_internal=True` (`with_internal_methods`: private client method name, `Base…Client`) -/
inductive Gen where
  | pub | internal | omitted
deriving DecidableEq, Repr

/-- a service as DECLARED in the protos, each RPC with its fate -/
structure SrcSvc where
  subpackage : List String
  methods : List (String × Gen)
deriving Repr

structure SrcApi where
  services : List SrcSvc
deriving Repr

/-- the `Service` object of the rebuilt API: omitted RPCs are gone, internal ones are there under their proto name
(`service.methods` is keyed by the RPC's name whatever `is_internal` says; `_has_iam_overrides` asks `m_name in s.methods`
and reads nothing else).  A service all of whose RPCs are omitted disappears in the code; here it stays with no RPC,
which no function of this model can tell apart. -/
def SrcSvc.generated (s : SrcSvc) : Svc :=
  ⟨s.subpackage, (s.methods.filter (fun m => m.2 != Gen.omitted)).map (·.1)⟩

def SrcApi.generated (a : SrcApi) : FullApi := ⟨a.services.map (·.generated)⟩

/-- (for stating that `is_internal` is never read) the same API with every internal RPC made public -/
def Gen.publicised : Gen → Gen
  | .internal => .pub
  | g => g

def SrcSvc.publicised (s : SrcSvc) : SrcSvc := ⟨s.subpackage, s.methods.map fun m => (m.1, m.2.publicised)⟩

def SrcApi.publicised (a : SrcApi) : SrcApi := ⟨a.services.map (·.publicised)⟩

/-- `has_location_mixin` / `has_iam_mixin` / `has_operations_mixin` -/
def hasMixin (y : Yaml) (a : MixinApi) : Bool := y.apis.any (· == a.fullName)

/-- the canonical method a selector names, if any (`fqn = package.Service.Method`) -/
def selMethod (a : MixinApi) (sel : String) : Option String :=
  a.methods.find? (fun m => a.fullName ++ "." ++ m == sel)

/-- `_get_methods_from_service`: every rule whose selector names a method of the service, keyed by the
method's short name, later rules replacing earlier ones (dict assignment). -/
def methodsFrom (a : MixinApi) (rules : List Rule) : List (String × Rule) :=
  rules.foldl (fun d r => match selMethod a r.selector with
    | some m => dictSet d m r
    | none => d) []

/-- `_has_iam_overrides`: ANY service defines ANY of the IAM methods that have a rule. -/
def iamOverrides (y : Yaml) (api : Api) : Bool :=
  hasMixin y .iam &&
    api.services.any (fun s => (methodsFrom .iam y.rules).any (fun kv => s.contains kv.1))

/-- the guard of each of the three `if`s in `mixin_api_methods` -/
def included (y : Yaml) (api : Api) (a : MixinApi) : Bool :=
  match a with
  | .iam => !iamOverrides y api && hasMixin y .iam
  | _ => hasMixin y a

/-- `mixin_api_methods` (locations, then IAM, then operations; `{**methods, **more}`) -/
def mixinApiMethods (y : Yaml) (api : Api) : List (String × Rule) :=
  allApis.foldl (fun d a => if included y api a then dictMerge d (methodsFrom a y.rules) else d) []

/-! ### URI templates (single-level `{var}` / `{var=template}` expressions) -/

inductive Piece where
  | text (s : List Char)
  | var (name : List Char) (template : Option (List Char))     -- `none`: `{name}` (api-core reads it as `*`)
deriving DecidableEq, Repr

def splitVar (inner : List Char) : Piece :=
  match inner.span (· != '=') with
  | (n, []) => .var n none
  | (n, _ :: t) => .var n (some t)

def pieces (fuel : Nat) (s : List Char) : List Piece :=
  match fuel with
  | 0 => []
  | fuel + 1 =>
    match s with
    | [] => []
    | '{' :: r =>
      let (inner, rest) := r.span (· != '}')
      splitVar inner :: pieces fuel (rest.drop 1)
    | _ =>
      let (txt, rest) := s.span (· != '{')
      .text txt :: pieces fuel rest

/-- text of a template after rewriting every variable name with `fix` -/
def renderPieces (fix : List Char → List Char) : List Piece → List Char
  | [] => []
  | .text s :: ps => s ++ renderPieces fix ps
  | .var n none :: ps => '{' :: fix n ++ '}' :: renderPieces fix ps
  | .var n (some t) :: ps => '{' :: fix n ++ '=' :: t ++ '}' :: renderPieces fix ps

/-- `utils.convert_uri_fieldnames`: every `{name…}` expression of the template gets `_fix_field_path(name)`
(`fix`; the driver passes the function TRANSLATED from /repo, `Pinned.Funcs.fix_field_path`).  Modelled domain:
well-formed templates — every `{` is closed, names contain none of `/ = }` (api-core's `_VARIABLE_RE` and this
scanner agree there; T2 runs both on the generated rules). -/
def convertUri (fix : List Char → List Char) (uri : String) : String :=
  String.ofList (renderPieces fix (pieces (uri.length + 1) uri.toList))

/-- what `try_parse_http_rule` needs to know about names: `utils.RESERVED_NAMES` and `_fix_field_path` -/
structure Names where
  reserved : List String
  fixPath : List Char → List Char

/-! ### HTTP options -/

structure HttpRule where
  method : String
  uri : String
  body : Option String
deriving DecidableEq, Repr

/-- `HttpRule.try_parse_http_rule`: unset / custom patterns and empty URIs give nothing; the URI goes through
`convert_uri_fieldnames`; a body naming a reserved word gets `_` appended (unconditionally since the `fix:`
commit 3aedaba). -/
def tryParse (nm : Names) (b : Binding) : Option HttpRule :=
  if b.verb == "" || b.verb == "custom" then none
  else if b.uri == "" then none
  else
    let body : Option String :=
      if b.body == "" then none
      else if nm.reserved.contains b.body then some (b.body ++ "_")
      else some b.body
    some ⟨b.verb, convertUri nm.fixPath b.uri, body⟩

def Rule.bindings (r : Rule) : List Binding := r.main :: r.additional

/-- `mixin_http_options` -/
def mixinHttpOptions (nm : Names) (y : Yaml) (api : Api) : List (String × List HttpRule) :=
  (mixinApiMethods y api).map fun kv => (kv.1, kv.2.bindings.filterMap (tryParse nm))

/-! ### Client templates: which mixin methods the emitted classes define -/

structure Opts where
  addIam : Bool
deriving Repr

inductive ClientKind where
  | sync | async
deriving DecidableEq, Repr

/-- order of the `{% if "X" in api.mixin_api_methods %}` blocks of `_mixins.py.j2` / `_async_mixins.py.j2` -/
def tmplOperations : List String := ["ListOperations", "GetOperation", "DeleteOperation", "CancelOperation", "WaitOperation"]
def tmplIam : List String := ["SetIamPolicy", "GetIamPolicy", "TestIamPermissions"]
def tmplLocations : List String := ["GetLocation", "ListLocations"]

/-- RPC names for which the client class gets a mixin method (both templates carry the same guards;
`k` is kept to state that).  The legacy block of client.py.j2 / async_client.py.j2 comes last. -/
def exposedMixins (y : Yaml) (api : Api) (o : Opts) (_k : ClientKind) : List String :=
  let ks := keys (mixinApiMethods y api)
  (if hasMixin y .operations then tmplOperations.filter (ks.contains ·) else []) ++
  (if !o.addIam && hasMixin y .iam then tmplIam.filter (ks.contains ·) else []) ++
  (if hasMixin y .locations then tmplLocations.filter (ks.contains ·) else []) ++
  (if o.addIam then tmplIam else [])

/-- `mixin_api_signatures`: `{name: MIXINS_MAP[name] for name in mixin_api_methods}` (`none` = KeyError);
`mixinsMap` is the table bridged from gapic/schema/mixins.py -/
def mixinApiSignatures (mixinsMap : List (String × String × String)) (y : Yaml) (api : Api) :
    List (String × Option (String × String)) :=
  (keys (mixinApiMethods y api)).map fun n => (n, (mixinsMap.find? (·.1 == n)).map (·.2))

/-- transports/base.py.j2 `_prep_wrapped_messages` and `prep_wrapped_messages_async_method`: one entry per
selected mixin RPC (`default_timeout=None`, no default retry), whatever the legacy option says -/
def wrappedMixins (y : Yaml) (api : Api) : List String := keys (mixinApiMethods y api)

/-- mixin stubs of the gRPC transports (transports/_mixins.py.j2 + the legacy block of grpc.py.j2 /
grpc_asyncio.py.j2, abstract twins in base.py.j2): the same guards as the client templates -/
def grpcTransportMixins (y : Yaml) (api : Api) (o : Opts) : List String := exposedMixins y api o .sync

/-- mixin stubs of the REST transport (`_rest_mixins.py.j2`: one per entry of `mixin_api_signatures`; the
legacy option adds nothing here) -/
def restTransportMixins (y : Yaml) (api : Api) : List String := keys (mixinApiMethods y api)

/-! ### gRPC: stub table of transports/_mixins.py.j2 and the legacy blocks of grpc.py.j2 -/

inductive Resp where
  | message (t : String)     -- `response_deserializer=<T>.FromString`
  | none                     -- `response_deserializer=None`, method declared `-> None`
  | rawBytes                 -- `response_deserializer=None` on a method that returns a message (no stub does this since feb77eb;
                             -- kept so that the harness can name the behaviour if it comes back)
deriving DecidableEq, Repr

structure GrpcSpec where
  path : String
  request : String           -- full name of the class whose `SerializeToString` is the request serializer
  resp : Resp
  routingField : String      -- `(("name", request.name),)` / `(("resource", request.resource),)`
deriving DecidableEq, Repr

/-- as written in the templates, entry by entry -/
def grpcTable : List (String × GrpcSpec) := [
  ("DeleteOperation", ⟨"/google.longrunning.Operations/DeleteOperation", "google.longrunning.DeleteOperationRequest", .none, "name"⟩),
  ("CancelOperation", ⟨"/google.longrunning.Operations/CancelOperation", "google.longrunning.CancelOperationRequest", .none, "name"⟩),
  ("WaitOperation", ⟨"/google.longrunning.Operations/WaitOperation", "google.longrunning.WaitOperationRequest", .message "google.longrunning.Operation", "name"⟩),
  ("GetOperation", ⟨"/google.longrunning.Operations/GetOperation", "google.longrunning.GetOperationRequest", .message "google.longrunning.Operation", "name"⟩),
  ("ListOperations", ⟨"/google.longrunning.Operations/ListOperations", "google.longrunning.ListOperationsRequest", .message "google.longrunning.ListOperationsResponse", "name"⟩),
  ("ListLocations", ⟨"/google.cloud.location.Locations/ListLocations", "google.cloud.location.ListLocationsRequest", .message "google.cloud.location.ListLocationsResponse", "name"⟩),
  ("GetLocation", ⟨"/google.cloud.location.Locations/GetLocation", "google.cloud.location.GetLocationRequest", .message "google.cloud.location.Location", "name"⟩),
  ("SetIamPolicy", ⟨"/google.iam.v1.IAMPolicy/SetIamPolicy", "google.iam.v1.SetIamPolicyRequest", .message "google.iam.v1.Policy", "resource"⟩),
  ("GetIamPolicy", ⟨"/google.iam.v1.IAMPolicy/GetIamPolicy", "google.iam.v1.GetIamPolicyRequest", .message "google.iam.v1.Policy", "resource"⟩),
  ("TestIamPermissions", ⟨"/google.iam.v1.IAMPolicy/TestIamPermissions", "google.iam.v1.TestIamPermissionsRequest", .message "google.iam.v1.TestIamPermissionsResponse", "resource"⟩)]

def grpcSpec (m : String) : Option GrpcSpec := dictGet grpcTable m

/-- what the statement asks of the response: the canonical output type, `Empty` surfacing as `None` -/
def canonicalResp (m : String) : Option Resp :=
  (dictGet canonicalTypes m).map fun io => if io.2 = "google.protobuf.Empty" then Resp.none else Resp.message io.2

/-- is `m` served by the legacy block (`opts.add_iam_methods`) rather than by the mixin templates -/
def isLegacy (o : Opts) (m : String) : Bool := o.addIam && tmplIam.contains m

inductive GrpcOutcome where
  | absent                    -- the client class has no such mixin method
  | sent (spec : GrpcSpec)
deriving DecidableEq, Repr

/-- calling mixin method `m` on the `k` client over gRPC.  Mixin-template methods take the callable from
`transport._wrapped_methods` (filled from `api.mixin_api_methods`, the very set that guards the method);
the legacy methods of BOTH clients wrap the transport method at call time (asyncio: since the `fix:`
commit 0e4f131 — before it they looked it up in `_wrapped_methods` and raised KeyError). -/
def grpcCall (y : Yaml) (api : Api) (o : Opts) (k : ClientKind) (m : String) : GrpcOutcome :=
  if !(exposedMixins y api o k).contains m then .absent
  else match grpcSpec m with
    | none => .absent
    | some s => .sent s

/-! ### REST -/

/-- A request as `json_format.MessageToDict` shows it: top-level set fields, JSON name ↦ canonical JSON text. -/
abbrev Req := List (String × String)

/-- result of applying ONE binding (`path_template.transcode` with a one-element option list) -/
structure Transcoded where
  method : String
  uri : String
  body : Option Req          -- `None`: the binding has no body; `some fs`: the body's top-level fields
                             -- (body "*"), or the single named field
  query : Req
deriving DecidableEq, Repr

/-- external behaviour: google.api_core.path_template.transcode on one binding -/
structure Ext where
  apply : HttpRule → Req → Option Transcoded

/-- `transcode`: the first binding that applies -/
def transcode (ext : Ext) (rules : List HttpRule) (req : Req) : Option Transcoded :=
  rules.findSome? (ext.apply · req)

/-- `getattr(session, method)`: the `requests.Session` method named after the `pattern` member -/
def httpVerb : String → String
  | "get" => "GET" | "put" => "PUT" | "post" => "POST" | "delete" => "DELETE" | "patch" => "PATCH"
  | v => v

inductive RestOutcome where
  | notGenerated              -- no REST method for this RPC (not selected / no parseable binding)
  | valueError                -- no binding matches the request
  | keyError                  -- `transcoded_request['body']` missing
  | sent (verb : String) (path : String) (body : Option Req) (query : Req)
deriving DecidableEq, Repr

/-- `_Base<Name>` + `generate_mixin_call_method`: `body_spec` is the FIRST binding's body; when set, the
body of the transcoded request is serialised and sent; when unset, no body is sent whatever the
selected binding says. -/
def restCall (ext : Ext) (nm : Names) (y : Yaml) (api : Api) (m : String) (req : Req) : RestOutcome :=
  match dictGet (mixinHttpOptions nm y api) m with
  | none => .notGenerated
  | some [] => .notGenerated
  | some (r0 :: rs) =>
    match transcode ext (r0 :: rs) req with
    | none => .valueError
    | some t =>
      match r0.body with
      | none => .sent (httpVerb t.method) t.uri none t.query
      | some _ =>
        match t.body with
        | none => .keyError
        | some b => .sent (httpVerb t.method) t.uri (some b) t.query

/-! ### Reference `apply` (executable stand-in for path_template.transcode on one binding; T2-compared) -/

inductive Tok where
  | lit (c : Char) | star | dstar
deriving DecidableEq, Repr

def tokens : List Char → List Tok
  | [] => []
  | '*' :: '*' :: r => .dstar :: tokens r
  | '*' :: r => .star :: tokens r
  | c :: r => .lit c :: tokens r

/-- regex semantics of a variable template: `*` = `[^/]+`, `**` = `.+`
(every step consumes a token or a character: fuel `toks.length + v.length + 1` suffices) -/
def matchToksF : Nat → List Tok → List Char → Bool
  | 0, _, _ => false
  | _ + 1, [], v => v.isEmpty
  | fuel + 1, .lit c :: ps, v => match v with
    | c' :: vs => c == c' && matchToksF fuel ps vs
    | [] => false
  | fuel + 1, .star :: ps, v => match v with
    | c :: vs => c != '/' && (matchToksF fuel ps vs || matchToksF fuel (.star :: ps) vs)
    | [] => false
  | fuel + 1, .dstar :: ps, v => match v with
    | _ :: vs => matchToksF fuel ps vs || matchToksF fuel (.dstar :: ps) vs
    | [] => false

def matchToks (ps : List Tok) (v : List Char) : Bool := matchToksF (ps.length + v.length + 1) ps v

def reqGet (req : Req) (k : String) : Option String := dictGet req k

/-- JSON text of a string value → the string (the harness hands string fields over as `"…"`) -/
def unquote (s : String) : Option (List Char) :=
  match s.toList with
  | '"' :: r => match r.reverse with
    | '"' :: m => some m.reverse
    | _ => none
  | _ => none

def expandPieces (req : Req) : List Piece → Option (List Char)
  | [] => some []
  | .text s :: ps => (expandPieces req ps).map (s ++ ·)
  | .var n t? :: ps =>
    let t := t?.getD ['*']
    match reqGet req (String.ofList n) with
    | none => none
    | some jv =>
      match unquote jv with
      | none => none
      | some v =>
        if v.isEmpty || !matchToks (tokens t) v then none
        else (expandPieces req ps).map (v ++ ·)

def varNames : List Piece → List String
  | [] => []
  | .text _ :: ps => varNames ps
  | .var n _ :: ps => String.ofList n :: varNames ps

/-- one binding: expand the path from the request, remove the path fields, split body / query.
(Literal text of the template is compared for equality only: the generator keeps it free of regex
metacharacters.) -/
def refApply (r : HttpRule) (req : Req) : Option Transcoded :=
  let ps := pieces (r.uri.length + 1) r.uri.toList
  match expandPieces req ps with
  | none => none
  | some uri =>
    let vars := varNames ps
    let left := req.filter (fun kv => !vars.contains kv.1)
    match r.body with
    | none => some ⟨r.method, String.ofList uri, none, left⟩
    | some "*" => some ⟨r.method, String.ofList uri, some left, []⟩
    | some b =>
      match reqGet left b with
      | none => none
      | some v => some ⟨r.method, String.ofList uri, some [(b, v)], left.filter (fun kv => kv.1 != b)⟩

def refExt : Ext := ⟨refApply⟩

end GapicModel.Model.Mixins
