/-
C13 — the logic the emitted tests depend on: sample requests and mock values.

Part 1 (sample names / templates): gapic/utils/uri_sample.py: sample_names, sample_from_path_fields,
  sample_from_path_template; a path template (the part after `=` of a variable, or `*` when absent) is a
  list of tokens.
Part 2 (mock values in their original Python type): gapic/schema/wrappers.py: Field.type (proto type number →
  Python type), Field.primitive_mock (incl. the `type_url` special case and the `suffix`),
  Field.mock_value_original_type (its `visited_messages` set is threaded through the fields in declaration
  order exactly as the dict comprehension does; map → `{}`; google.protobuf.Any → the packed Duration;
  enum → first non-zero number else the first; repeated primitive → two suffixed items), Field.merged_mock_value.
Part 3 (sample requests of an http rule): HttpRule.path_fields (reading of `{name}` / `{name=template}` in a
  URI), HttpRule.sample_request (string variable → instantiated template, the name generator advances only
  for string variables; any other kind → mock_value_original_type), MixinHttpRule.sample_request,
  RoutingParameter.sample_request = uri_sample.sample_from_path_template (the brace-stripping slice logic,
  with its ValueError branches), uri_sample.add_field.
Part 4 (mock values as emitted Python expressions): Field.mock_value / inner_mock / primitive_mock_as_str as an
  expression TREE (constructor call / enum member / map literal / list / literal), with the `visited_fields`
  cut of the first-field chain and the fresh recursive `mock_value` of a map's key and value fields.

NOT modelled (stated, not hidden):
  * Python's `str(float)` / `repr`: a float mock is the exact decimal `n * 10^-d` (`PyVal.dec n d`); the harness
    compares the real float with that decimal (relative 1e-12).  The TEXT of `mock_value` is compared after
    parsing it with Python's `ast` into the same tree shape (idents are kept as text).
  * `add_field` is modelled at the level "dotted path ↦ leaf value" (last assignment wins); two variables of one
    rule where one path is a proper dotted prefix of the other are outside the model (`sampleRequest` is only
    compared on prefix-free variable sets; the Python either raises AttributeError or silently overwrites).
  * `path_template._VARIABLE_RE` is api-core's; `parseUri` is a hand reading of it for brace-balanced URIs
    (T2 against the real `path_fields` on every generated URI); positional `*`/`**` outside braces are literals
    here because `path_fields` skips them.
  * what the test templates DO with these values (~6k lines of Jinja): decided by execution only.
-/
namespace GapicModel.Model.Mock

abbrev Str := List Char

inductive Tok where
  | lit (cs : Str)
  | star            -- `*`
  | dstar           -- `**`
deriving Repr, DecidableEq

def digitChar : Nat → Char
  | 0 => '0' | 1 => '1' | 2 => '2' | 3 => '3' | 4 => '4' | 5 => '5' | 6 => '6' | 7 => '7' | 8 => '8' | _ => '9'

/-- decimal digits of `n` (fuel = n + 1) -/
def decDigitsAux : Nat → Nat → Str → Str
  | 0, _, acc => acc
  | f + 1, n, acc =>
    let acc' := digitChar (n % 10) :: acc
    if n / 10 = 0 then acc' else decDigitsAux f (n / 10) acc'

def decDigits (n : Nat) : Str := decDigitsAux (n + 1) n []

/-- `"sample{}".format(n)` -/
def sampleName (n : Nat) : Str := ['s', 'a', 'm', 'p', 'l', 'e'] ++ decDigits n

/-- `re.sub(r"(\*\*|\*)", lambda n: next(sample_names_), template)` with the generator at count `k`:
(the instantiated template, the generator's new count, the names used in order) -/
def sample : Nat → List Tok → Str × Nat × List Nat
  | k, [] => ([], k, [])
  | k, .lit cs :: r => let s := sample k r; (cs ++ s.1, s.2.1, s.2.2)
  | k, .star :: r => let s := sample (k + 1) r; (sampleName (k + 1) ++ s.1, s.2.1, (k + 1) :: s.2.2)
  | k, .dstar :: r => let s := sample (k + 1) r; (sampleName (k + 1) ++ s.1, s.2.1, (k + 1) :: s.2.2)

/-- tokenise the text of a template: `**`, `*`, literal runs (fuel = length) -/
def tokenize : Nat → Str → Str → List Tok
  | 0, acc, _ => if acc = [] then [] else [.lit acc.reverse]
  | _ + 1, acc, [] => if acc = [] then [] else [.lit acc.reverse]
  | f + 1, acc, '*' :: '*' :: r => (if acc = [] then [] else [.lit acc.reverse]) ++ .dstar :: tokenize f [] r
  | f + 1, acc, '*' :: r => (if acc = [] then [] else [.lit acc.reverse]) ++ .star :: tokenize f [] r
  | f + 1, acc, c :: r => tokenize f (c :: acc) r

/-- the path-template language (google.api.http / AIP-4222): `*` is one non-empty segment without `/`,
`**` is any non-empty text -/
inductive Matches : List Tok → Str → Prop where
  | nil : Matches [] []
  | lit (cs r s) : Matches r s → Matches (.lit cs :: r) (cs ++ s)
  | star (v r s) : v ≠ [] → '/' ∉ v → Matches r s → Matches (.star :: r) (v ++ s)
  | dstar (v r s) : v ≠ [] → Matches r s → Matches (.dstar :: r) (v ++ s)


/-! ## Part 2 — mock values in their original Python type -/

inductive PyT where
  | bool | str | bytes | int | float
deriving Repr, DecidableEq

/-- `Field.type` for a non-message, non-enum field: FieldDescriptorProto.Type number → Python type
(10 = group, 11 = message, 14 = enum are not primitives; anything else raises TypeError) -/
def pyTOfProtoType : Nat → Option PyT
  | 1 => some .float | 2 => some .float
  | 3 => some .int | 4 => some .int | 5 => some .int | 6 => some .int | 7 => some .int
  | 13 => some .int | 15 => some .int | 16 => some .int | 17 => some .int | 18 => some .int
  | 8 => some .bool
  | 9 => some .str
  | 12 => some .bytes
  | _ => none

/-- Python values the mocks are made of.  One inductive (dict and list are `cons` chains) so that equality is
decidable.  `dec n d` is the float `n * 10^(-d)` kept exact; `bytes` holds the code points (< 256). -/
inductive PyVal where
  | none
  | bool (b : Bool)
  | str (s : Str)
  | bytes (s : Str)
  | int (i : Int)
  | dec (n d : Nat)
  | dnil
  | dcons (k : Str) (v : PyVal) (rest : PyVal)
  | lnil
  | lcons (v : PyVal) (rest : PyVal)
deriving Repr, DecidableEq

/-- `sum([ord(i) for i in name])` -/
def ordSum : Str → Nat
  | [] => 0
  | c :: r => c.toNat + ordSum r

/-- `f"{suffix}" if suffix else ""` -/
def suffixStr (k : Nat) : Str := if k = 0 then [] else decDigits k

def valueSuffix : Str := ['_', 'v', 'a', 'l', 'u', 'e']
def blobSuffix : Str := ['_', 'b', 'l', 'o', 'b']
def typeUrlName : Str := "type_url".toList
/-- `"type.googleapis.com/google.protobuf.Empty"` (head written apart so that non-emptiness is syntactic) -/
def typeUrlMock : Str := 't' :: "ype.googleapis.com/google.protobuf.Empty".toList

/-- `Field.primitive_mock(suffix=k)` for a field of Python type `t` called `name` -/
def primitiveMock (t : PyT) (name : Str) (k : Nat) : PyVal :=
  match t with
  | .bool => .bool true
  | .str => if name = typeUrlName then .str typeUrlMock else .str (name ++ valueSuffix ++ suffixStr k)
  | .bytes => .bytes (name ++ blobSuffix ++ suffixStr k)
  | .int => .int (Int.ofNat (ordSum name + k))
  | .float => .dec (ordSum name + k) (decDigits (ordSum name + k)).length

/-- Python truthiness of the values that occur -/
def truthy : PyVal → Bool
  | .none => false
  | .bool b => b
  | .str s => s ≠ []
  | .bytes s => s ≠ []
  | .int i => i ≠ 0
  | .dec n _ => n ≠ 0
  | .dnil => false
  | .dcons _ _ _ => true
  | .lnil => false
  | .lcons _ _ => true

/-- `x or None` -/
def orNone (v : PyVal) : PyVal := if truthy v then v else .none

inductive FType where
  | prim (t : PyT)
  | enum (ident : Str) (vals : List (Str × Int))
  | msg (id : Nat)                 -- index into the environment (one entry per MessageType object)
deriving Repr, DecidableEq

/-- `fid` is the identity of the Python `Field` OBJECT (`Field.__hash__` is `id(self)`: `visited_fields` of
`mock_value` is a set of objects, and the loader holds several copies of a recursive message) -/
structure Field where
  name : Str
  fid : Nat
  ty : FType
  repeated : Bool
deriving Repr, DecidableEq

/-- one `MessageType` OBJECT of the loaded schema; `cls` identifies the proto message it describes
(`MessageType` equality is by value: `visited_messages` of `mock_value_original_type` cannot tell copies apart) -/
structure MsgDef where
  ident : Str
  cls : Nat
  fields : List Field
  isMap : Bool                     -- `options.map_entry`
  isAny : Bool                     -- google.protobuf.Any
deriving Repr, DecidableEq

abbrev Env := List MsgDef

inductive MockErr where
  | fuel           -- the recursion did not end within the fuel (Python: RecursionError)
  | emptyEnum      -- `values[0]` on an enum without values (IndexError; protoc rejects such enums)
  | dangling       -- a message index outside the environment (not a Python behaviour: ill-formed input)
  | noKeyValue     -- a map entry without `key`/`value` (KeyError; protoc never produces it)
deriving Repr, DecidableEq

def wrapRepeated (rep : Bool) (v : PyVal) : PyVal := if rep then .lcons v .lnil else v

/-- the packed Duration used for google.protobuf.Any -/
def anyDict : PyVal :=
  .dcons typeUrlName (.str "type.googleapis.com/google.protobuf.Duration".toList)
    (.dcons "value".toList (.bytes [Char.ofNat 8, Char.ofNat 12, Char.ofNat 16, Char.ofNat 219, Char.ofNat 7]) .dnil)

/-- `next((v for v in values if v.number), values[0]).number` (the default is evaluated eagerly) -/
def enumMockNumber (vals : List (Str × Int)) : Option Int :=
  match vals with
  | [] => none
  | v0 :: _ => some ((vals.find? (fun v => v.2 ≠ 0)).getD v0).2

/-- the dict comprehension over `field.message.fields.values()`, threading the visited set -/
def foldFields (rec : List Nat → Field → Except MockErr (PyVal × List Nat)) :
    List Nat → List Field → Except MockErr (PyVal × List Nat)
  | vis, [] => .ok (.dnil, vis)
  | vis, f :: r =>
    match rec vis f with
    | .error e => .error e
    | .ok (v, vis1) =>
      match foldFields rec vis1 r with
      | .error e => .error e
      | .ok (d, vis2) => .ok (.dcons f.name v d, vis2)

/-- `recursive_mock_original_type(field)` with `visited_messages = vis`; returns the value and the new set -/
def mockOrigF : Nat → Env → List Nat → Field → Except MockErr (PyVal × List Nat)
  | 0, _, _, _ => .error .fuel
  | fuel + 1, env, vis, f =>
    match f.ty with
    | .msg id =>
      match env[id]? with
      | none => .error .dangling
      | some m =>
        if m.cls ∈ vis then .ok (.dnil, vis)
        else if f.repeated && m.isMap then .ok (.dnil, m.cls :: vis)
        else if m.isAny then .ok (wrapRepeated f.repeated anyDict, m.cls :: vis)
        else
          match foldFields (mockOrigF fuel env) (m.cls :: vis) m.fields with
          | .error e => .error e
          | .ok (d, vis2) => .ok (wrapRepeated f.repeated d, vis2)
    | .enum _ vals =>
      match enumMockNumber vals with
      | none => .error .emptyEnum
      | some n => .ok (wrapRepeated f.repeated (.int n), vis)
    | .prim t =>
      if f.repeated then
        .ok (.lcons (orNone (primitiveMock t f.name 1)) (.lcons (orNone (primitiveMock t f.name 2)) .lnil), vis)
      else .ok (orNone (primitiveMock t f.name 0), vis)

/-- `Field.mock_value_original_type` -/
def mockOrig (env : Env) (f : Field) : Except MockErr PyVal :=
  match mockOrigF (env.length + 1) env [] f with
  | .error e => .error e
  | .ok (v, _) => .ok v

def isDict : PyVal → Bool
  | .dnil => true
  | .dcons _ _ _ => true
  | _ => false

/-- `d[k] = v` on a dict chain (existing key keeps its position) -/
def dictSet (k : Str) (v : PyVal) : PyVal → PyVal
  | .dcons k' v' r => if k' = k then .dcons k' v r else .dcons k' v' (dictSet k v r)
  | _ => .dcons k v .dnil

/-- `d.update(other)` -/
def dictUpdate (d : PyVal) : PyVal → PyVal
  | .dcons k v r => dictUpdate (dictSet k v d) r
  | _ => d

/-- `Field.merged_mock_value(other_mock)` given the field's mock -/
def mergedMock (mock other : PyVal) : PyVal :=
  if isDict mock && isDict other then dictUpdate mock other else mock

/-- what the generated type's constructor is handed — `None` leaves a singular field unset; an already visited
message yields `{}` even for a repeated field (proto-plus reads an empty mapping as an empty sequence: validated
on the real classes by the harness); `strict = true` refuses that last case -/
def primFits : PyT → PyVal → Bool
  | .bool, .bool _ => true
  | .str, .str _ => true
  | .bytes, .bytes _ => true
  | .int, .int _ => true
  | .float, .dec _ _ => true
  | _, _ => false

def findField (fs : List Field) (k : Str) : Option Field := fs.find? (fun f => f.name = k)

mutual
/-- a singular value of type `ty` -/
def fitsOne (strict : Bool) (env : Env) : PyVal → FType → Bool
  | .none, _ => true
  | .dnil, .msg _ => true
  | .dcons k v r, .msg id =>
    match env[id]? with
    | none => false
    | some m => if m.isAny then true else fitsDict strict env (.dcons k v r) m.fields
  | .int i, .enum _ vals => vals.any (fun v => v.2 = i)
  | v, .prim t => primFits t v
  | _, _ => false
/-- every entry of the dict chain sets a declared field to a fitting value -/
def fitsDict (strict : Bool) (env : Env) : PyVal → List Field → Bool
  | .dnil, _ => true
  | .dcons k v r, fs =>
    (match findField fs k with
     | none => false
     | some f => fits strict env v f.ty f.repeated) && fitsDict strict env r fs
  | _, _ => false
/-- every element of the list chain fits (and is not `None`) -/
def fitsList (strict : Bool) (env : Env) : PyVal → FType → Bool
  | .lnil, _ => true
  | .lcons v r, ty => (v != .none) && fitsOne strict env v ty && fitsList strict env r ty
  | _, _ => false
/-- a value for a field of type `ty`, repeated or not -/
def fits (strict : Bool) (env : Env) : PyVal → FType → Bool → Bool
  | v, ty, false => fitsOne strict env v ty
  | .dnil, .msg _, true => !strict
  | v, ty, true => fitsList strict env v ty
end

/-! ## Part 3 — sample requests of an http rule -/

inductive Piece where
  | lit (s : Str)
  | var (path : Str) (tmpl : Option Str)      -- `{path}` / `{path=tmpl}`
deriving Repr, DecidableEq

def spanWhile (p : Char → Bool) : Str → Str × Str
  | [] => ([], [])
  | c :: r => if p c then let s := spanWhile p r; (c :: s.1, s.2) else ([], c :: r)

def flushLit (acc : Str) : List Piece := if acc = [] then [] else [.lit acc.reverse]

/-- the reading `path_template._VARIABLE_RE` makes of a URI with balanced braces and non-empty names; a `{`
that does not open a well-formed variable stays literal text (fuel = length + 1) -/
def parseUriF : Nat → Str → Str → List Piece
  | 0, acc, _ => flushLit acc
  | _ + 1, acc, [] => flushLit acc
  | f + 1, acc, '{' :: r =>
    let nm := spanWhile (fun c => c != '=' && c != '}' && c != '/') r
    match nm.1, nm.2 with
    | _ :: _, '}' :: r2 => flushLit acc ++ .var nm.1 none :: parseUriF f [] r2
    | _ :: _, '=' :: r2 =>
      let tm := spanWhile (fun c => c != '}') r2
      match tm.1, tm.2 with
      | _ :: _, '}' :: r4 => flushLit acc ++ .var nm.1 (some tm.1) :: parseUriF f [] r4
      | _, _ => parseUriF f ('{' :: acc) r
    | _, _ => parseUriF f ('{' :: acc) r
  | f + 1, acc, c :: r => parseUriF f (c :: acc) r

def parseUri (uri : Str) : List Piece := parseUriF (uri.length + 1) [] uri

/-- one path variable as `HttpRule.sample_request` sees it: `isStr` = the field is a singular-or-repeated
`str` primitive; `other` = the field's `mock_value_original_type` (used when it is not) -/
structure PVar where
  path : Str
  tmpl : Option Str
  isStr : Bool
  other : PyVal
deriving Repr, DecidableEq

/-- `template or "*"`, tokenised -/
def tmplToks : Option Str → List Tok
  | none => [.star]
  | some [] => [.star]
  | some t => tokenize t.length [] t

/-- the assignments `add_field(request, path, sample_value)` in order, generator at count `k` -/
def sampleRequest : Nat → List PVar → List (Str × PyVal)
  | _, [] => []
  | k, v :: r =>
    if v.isStr then
      let s := sample k (tmplToks v.tmpl)
      (v.path, .str s.1) :: sampleRequest s.2.1 r
    else (v.path, v.other) :: sampleRequest k r

/-- the leaf finally stored at `p` (the last assignment wins) -/
def getLast (p : Str) : List (Str × PyVal) → Option PyVal
  | [] => none
  | (q, v) :: r =>
    match getLast p r with
    | some x => some x
    | none => if q = p then some v else none

/-- `MixinHttpRule.sample_request`: every variable as a string, plus `req[body] = {}` for a named body -/
def mixinSampleRequest (vars : List (Str × Option Str)) (body : Option Str) : List (Str × PyVal) :=
  sampleRequest 0 (vars.map fun v => ⟨v.1, v.2, true, .none⟩) ++
    (match body with
     | none => []
     | some b => if b = [] || b = ['*'] then [] else [(b, .dnil)])

def strOf : Option PyVal → Option Str
  | some (.str s) => some s
  | _ => none

/-- the URL obtained by writing the request's values into the rule -/
def fill (req : Str → Option Str) : List Piece → Option Str
  | [] => some []
  | .lit s :: r => (fill req r).map (s ++ ·)
  | .var p _ :: r =>
    match req p, fill req r with
    | some v, some u => some (v ++ u)
    | _, _ => none

/-- `url` instantiates the rule: literals verbatim, every variable by a text matching its own template -/
inductive UrlMatches : List Piece → Str → Prop where
  | nil : UrlMatches [] []
  | lit (cs r s) : UrlMatches r s → UrlMatches (.lit cs :: r) (cs ++ s)
  | var (p t v r s) : Matches (tmplToks t) v → UrlMatches r s → UrlMatches (.var p t :: r) (v ++ s)

def pieceVars : List Piece → List (Str × Option Str)
  | [] => []
  | .lit _ :: r => pieceVars r
  | .var p t :: r => (p, t) :: pieceVars r

/-! ### `uri_sample.sample_from_path_template` (RoutingParameter.sample_request) -/

def indexOf (c : Char) : Str → Option Nat
  | [] => none
  | d :: r => if d = c then some 0 else (indexOf c r).map (· + 1)

/-- the template with the braces and name of its first `{name=…}` removed; `none` = Python raises ValueError
(`}` missing, or no `=` between the first `{` and the first `}`) -/
def stripNamed (t : Str) : Option Str :=
  match indexOf '{' t with
  | none => some t
  | some i =>
    match indexOf '}' t with
    | none => none
    | some j =>
      let seg := (t.drop i).take (j + 1 - i)
      match indexOf '=' seg with
      | none => none
      | some e =>
        let inner := (seg.take (seg.length - 1)).drop (e + 1)
        some (t.take i ++ inner ++ t.drop (j + 1))

/-- the sample value of a routing parameter -/
def routingSample (t : Str) : Option Str :=
  (stripNamed t).map fun s => (sample 0 (tmplToks (some s))).1

/-! ## Part 4 — `Field.mock_value` as an expression tree -/

inductive MockExpr where
  | none
  | lit (v : PyVal)
  | enumMember (ident name : Str)
  | ctor (ident sub : Str) (arg : MockExpr)      -- `Ident(sub=arg)`
  | mapLit (k v : MockExpr)                       -- `{k: v}`
  | list1 (e : MockExpr)                          -- `[e]`
deriving Repr, DecidableEq

def wrapList (rep : Bool) (e : MockExpr) : MockExpr := if rep then .list1 e else e

def isMapField (env : Env) (f : Field) : Bool :=
  f.repeated && (match f.ty with
    | .msg id => (match env[id]? with | some m => m.isMap | none => false)
    | _ => false)

/-- `values[:2][-1].name` -/
def enumMockName (vals : List (Str × Int)) : Option Str :=
  match vals with
  | [] => none
  | [v] => some v.1
  | _ :: v :: _ => some v.1

/-- the `while stack:` loop of `mock_value` from `f` on, `vis` = `visited_fields`, `rec` = the (cached-property)
`mock_value` of another field, used for the key and value of a map -/
def chainF (rec : Field → Except MockErr MockExpr) (env : Env) : Nat → List Field → Field → Except MockErr MockExpr
  | 0, _, _ => .error .fuel
  | c + 1, vis, f =>
    match f.ty with
    | .prim t => .ok (wrapList f.repeated (.lit (primitiveMock t f.name 0)))
    | .enum ident vals =>
      match enumMockName vals with
      | none => .error .emptyEnum
      | some n => .ok (wrapList f.repeated (.enumMember ident n))
    | .msg id =>
      match env[id]? with
      | none => .error .dangling
      | some m =>
        if f.repeated && m.isMap then
          match findField m.fields "key".toList, findField m.fields "value".toList with
          | some kf, some vf =>
            match rec kf, rec vf with
            | .ok k, .ok v => .ok (.mapLit k v)
            | .error e, _ => .error e
            | _, .error e => .error e
          | _, _ => .error .noKeyValue
        else
          match m.fields with
          | [] => .ok (wrapList f.repeated .none)
          | sub :: _ =>
            if f ∈ vis then .ok (wrapList f.repeated .none)
            else
              match chainF rec env c (f :: vis) sub with
              | .error e => .error e
              | .ok a => .ok (wrapList f.repeated (.ctor m.ident sub.name a))

def totalFields (env : Env) : Nat := (env.map fun m => m.fields.length).sum

/-- `Field.mock_value`; `d` bounds the nesting of map values (Python: the interpreter's recursion limit) -/
def mockValueF : Nat → Env → Field → Except MockErr MockExpr
  | 0, _, _ => .error .fuel
  | d + 1, env, f => chainF (mockValueF d env) env (totalFields env + 2) [] f

end GapicModel.Model.Mock
