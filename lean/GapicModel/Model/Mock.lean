/-
C13 — sample requests used by the emitted tests
(gapic/utils/uri_sample.py: sample_names, sample_from_path_fields, sample_from_path_template;
gapic/schema/wrappers.py: HttpRule.sample_request, RoutingParameter.sample_request).
A path template (the part after `=` of a variable, or `*` when absent) is a list of tokens.
-/
namespace GapicModel.Model.Mock

abbrev Str := List Char

inductive Tok where
  | lit (cs : Str)
  | star            -- `*`
  | dstar           -- `**`
deriving Repr, DecidableEq

def digitChar : Nat → Char
  | 0 => '0' | 1 => '1' | 2 => '2' | 3 => '3' | 4 => '4' | 5 => '5' | 6 => '6' | 7 => '7' | 8 => '8' | _ => '9'

/-- decimal digits of `n` (fuel = n + 1) -/
def decDigitsAux : Nat → Nat → Str → Str
  | 0, _, acc => acc
  | f + 1, n, acc =>
    let acc' := digitChar (n % 10) :: acc
    if n / 10 = 0 then acc' else decDigitsAux f (n / 10) acc'

def decDigits (n : Nat) : Str := decDigitsAux (n + 1) n []

/-- `"sample{}".format(n)` -/
def sampleName (n : Nat) : Str := ['s', 'a', 'm', 'p', 'l', 'e'] ++ decDigits n

/-- `re.sub(r"(\*\*|\*)", lambda n: next(sample_names_), template)` with the generator at count `k`:
(the instantiated template, the generator's new count, the names used in order) -/
def sample : Nat → List Tok → Str × Nat × List Nat
  | k, [] => ([], k, [])
  | k, .lit cs :: r => let s := sample k r; (cs ++ s.1, s.2.1, s.2.2)
  | k, .star :: r => let s := sample (k + 1) r; (sampleName (k + 1) ++ s.1, s.2.1, (k + 1) :: s.2.2)
  | k, .dstar :: r => let s := sample (k + 1) r; (sampleName (k + 1) ++ s.1, s.2.1, (k + 1) :: s.2.2)

/-- tokenise the text of a template: `**`, `*`, literal runs (fuel = length) -/
def tokenize : Nat → Str → Str → List Tok
  | 0, acc, _ => if acc = [] then [] else [.lit acc.reverse]
  | _ + 1, acc, [] => if acc = [] then [] else [.lit acc.reverse]
  | f + 1, acc, '*' :: '*' :: r => (if acc = [] then [] else [.lit acc.reverse]) ++ .dstar :: tokenize f [] r
  | f + 1, acc, '*' :: r => (if acc = [] then [] else [.lit acc.reverse]) ++ .star :: tokenize f [] r
  | f + 1, acc, c :: r => tokenize f (c :: acc) r

/-- the path-template language (google.api.http / AIP-4222): `*` is one non-empty segment without `/`,
`**` is any non-empty text -/
inductive Matches : List Tok → Str → Prop where
  | nil : Matches [] []
  | lit (cs r s) : Matches r s → Matches (.lit cs :: r) (cs ++ s)
  | star (v r s) : v ≠ [] → '/' ∉ v → Matches r s → Matches (.star :: r) (v ++ s)
  | dstar (v r s) : v ≠ [] → Matches r s → Matches (.dstar :: r) (v ++ s)

end GapicModel.Model.Mock
